(** Executable model of the mirror (tm/tmengine/internal/tmmirror/mirror.go) and its kernel
    (internal/tmi/kernel.go, kstate.go) for sequentially delivered inputs.  No proofs here.

    Conventions (DESIGN.md section 3): heights/powers are N with explicit uint64 wrap where Go can
    wrap; block hashes and key hashes are byte strings; signatures are the ideal functionality
    [sigd]; Go maps are association lists whose iteration order never influences a result.
    [find_view] and the result enumerations come from Gen/Kernel.v, the thresholds from Gen/Math.v
    (both regenerated from the Go source on every run). *)
From Coq Require Import List NArith ZArith Bool String.
From GV Require Import Base.Ints Gen.Math Gen.Kernel.
Import ListNotations.
Local Open Scope N_scope.

Definition bytes := list N.

(** * Ideal signatures *)
Inductive sigd :=
| SVote (signer kind h r : N) (target : bytes)   (* genuine vote signature by global key [signer] *)
| SProposal (signer : N) (content : bytes) (r : N)   (* genuine proposal signature over the signed
                                                       proposal fields (height, round, previous block hash,
                                                       app state hash, data id, annotations) - NOT the hash *)
| SJunk (n : N).                                 (* any other byte string *)

Definition sigd_eqb (a b : sigd) : bool :=
  match a, b with
  | SVote s k h r t, SVote s' k' h' r' t' =>
      (s =? s') && (k =? k') && (h =? h') && (r =? r') && bytes_eqb t t'
  | SProposal s h r, SProposal s' h' r' => (s =? s') && bytes_eqb h h' && (r =? r')
  | SJunk n, SJunk n' => n =? n'
  | _, _ => false
  end.

Definition KPrevote : N := 0.
Definition KPrecommit : N := 1.

Definition verify_vote (key kind h r : N) (t : bytes) (s : sigd) : bool :=
  sigd_eqb s (SVote key kind h r t).
Definition verify_prop (key : N) (content : bytes) (r : N) (s : sigd) : bool :=
  sigd_eqb s (SProposal key content r).

(** * Wire values *)
Record ssig := mk_ssig { ss_kid : bytes; ss_sig : sigd }.

Record valset := mk_valset {
  vs_keys : list N;   (* global key ids, in validator order *)
  vs_pows : list N;
  vs_pkh : bytes;     (* PubKeyHash *)
  vs_vph : bytes;     (* VotePowerHash *)
  vs_ok : bool        (* the lists are the ones the two hashes were computed from *)
}.

Definition empty_valset : valset := mk_valset [] [] [] [] true.

Fixpoint nlist_eqb (a b : list N) : bool :=
  match a, b with
  | [], [] => true
  | x :: a', y :: b' => (x =? y) && nlist_eqb a' b'
  | _, _ => false
  end.

(** tmconsensus.ValidatorSet.Equal: both hashes and the validator slice. *)
Definition valset_equal (a b : valset) : bool :=
  bytes_eqb (vs_pkh a) (vs_pkh b) && bytes_eqb (vs_vph a) (vs_vph b) &&
  nlist_eqb (vs_keys a) (vs_keys b) && nlist_eqb (vs_pows a) (vs_pows b).

Record cproof := mk_cproof { cp_round : N; cp_pkh : bytes; cp_proofs : list (bytes * list ssig) }.
Definition empty_cproof : cproof := mk_cproof 0 [] [].

Record hdr := mk_hdr {
  hd_hash : bytes;
  hd_ok : bool;        (* hd_hash is the hash scheme's hash of the other fields *)
  hd_height : N;
  hd_prev : bytes;
  hd_pcp : cproof;
  hd_vals : valset;
  hd_next : valset
}.

(** [ph_content] identifies the bytes the proposer signs (C15: they do not cover the block hash,
    the validator sets or the previous commit proof). *)
Record ph := mk_ph { ph_hdr : hdr; ph_round : N; ph_key : option N; ph_sig : sigd; ph_content : bytes }.

Record vmsg := mk_vmsg { vm_h : N; vm_r : N; vm_pkh : bytes; vm_proofs : list (bytes * list ssig) }.

(** * Signature proofs (gcrypto.SimpleCommonMessageSignatureProof) *)
Definition proof := list (N * sigd).     (* signatures held, each with the index of its key *)

Definition has_idx (p : proof) (i : N) : bool := existsb (fun e => fst e =? i) p.
Definition has_sig (p : proof) (s : sigd) : bool := existsb (fun e => sigd_eqb (snd e) s) p.
Definition add_sig (p : proof) (i : N) (s : sigd) : proof :=
  if has_sig p s then p else p ++ [(i, s)].

Fixpoint nodup_n (l : list N) : list N :=
  match l with
  | [] => []
  | x :: t => if existsb (N.eqb x) t then nodup_n t else x :: nodup_n t
  end.
Definition proof_idxs (p : proof) : list N := nodup_n (map fst p).
Definition bit_count (p : proof) : nat := List.length (proof_idxs p).

Definition keyid_decode (kid : bytes) : option N :=
  match kid with [a; b] => Some (a * 256 + b) | _ => None end.
Definition keyid_encode (i : N) : bytes := [i / 256; i mod 256].

Definition nth_n {A} (l : list A) (i : N) : option A := nth_error l (N.to_nat i).

(** MergeSparse for a proof over message (kind,h,r,target) and candidate keys [keys].
    Returns the proof, AllValidSignatures and IncreasedSignatures. *)
Fixpoint merge_sigs (kind h r : N) (t : bytes) (keys : list N) (p : proof) (sigs : list ssig)
  : proof * bool :=
  match sigs with
  | [] => (p, true)
  | s :: rest =>
      match keyid_decode (ss_kid s) with
      | None => let '(p', _) := merge_sigs kind h r t keys p rest in (p', false)
      | Some n =>
          match nth_n keys n with
          | None => let '(p', _) := merge_sigs kind h r t keys p rest in (p', false)
          | Some key =>
              if verify_vote key kind h r t (ss_sig s)
              then merge_sigs kind h r t keys (add_sig p n (ss_sig s)) rest
              else let '(p', _) := merge_sigs kind h r t keys p rest in (p', false)
          end
      end
  end.

Definition merge_sparse (kind h r : N) (t : bytes) (keys : list N) (p : proof) (sigs : list ssig)
  : proof * bool * bool :=
  let '(p', allv) := merge_sigs kind h r t keys p sigs in
  (p', allv, Nat.ltb (bit_count p) (bit_count p')).

(** insertion sort of indices, then AsSparse *)
Fixpoint insert_n (x : N) (l : list N) : list N :=
  match l with
  | [] => [x]
  | y :: t => if x <=? y then x :: l else y :: insert_n x t
  end.
Definition sort_n (l : list N) : list N := fold_right insert_n [] l.

Fixpoint sig_of_idx (p : proof) (i : N) : list sigd :=
  match p with
  | [] => []
  | (j, s) :: t => if j =? i then s :: sig_of_idx t i else sig_of_idx t i
  end.

(** AsSparse: every held signature with its key id, ordered by key id. *)
Definition as_sparse (p : proof) : list ssig :=
  flat_map (fun i => map (fun s => mk_ssig (keyid_encode i) s) (sig_of_idx p i)) (sort_n (proof_idxs p)).

(** * Maps keyed by block hash *)
Definition pmap := list (bytes * proof).

Fixpoint pm_get {A} (m : list (bytes * A)) (k : bytes) : option A :=
  match m with
  | [] => None
  | (k', v) :: t => if bytes_eqb k' k then Some v else pm_get t k
  end.
Fixpoint pm_set {A} (m : list (bytes * A)) (k : bytes) (v : A) : list (bytes * A) :=
  match m with
  | [] => [(k, v)]
  | (k', v') :: t => if bytes_eqb k' k then (k, v) :: t else (k', v') :: pm_set t k v
  end.

(** * Vote summary (tm/tmconsensus/votesummary.go) *)
Record summary := mk_sum {
  sm_avail : N; sm_tpv : N; sm_tpc : N;
  sm_pvp : list (bytes * N); sm_pcp : list (bytes * N);
  sm_mpv : bytes; sm_mpc : bytes
}.
Definition new_summary : summary := mk_sum 0 0 0 [] [] [] [].

Definition sum_pows (pows : list N) : N := fold_left (fun a p => wrap64 (a + p)) pows 0.

(** power of the distinct indices below len(pows) *)
Definition idx_power (pows : list N) (idxs : list N) : N :=
  fold_left (fun a i => match nth_n pows i with Some p => wrap64 (a + p) | None => a end) idxs 0.
Definition proof_power (pows : list N) (p : proof) : N := idx_power pows (proof_idxs p).

Definition bytes_min (a b : bytes) : bytes := if bytes_ltb b a then b else a.

(** One pass of SetPrevotePowers / SetPrecommitPowers: (total, block powers, most voted).
    The total is taken over the union of the signer sets, so a validator that signed several
    targets counts once. *)
Definition set_powers (pows : list N) (pm : pmap) : N * list (bytes * N) * bytes :=
  let '(present, blocks, maxh, maxp) :=
    fold_left (fun acc e =>
      let '(present, blocks, maxh, maxp) := acc in
      let bp := proof_power pows (snd e) in
      let present' := present ++ map fst (snd e) in
      let blocks' := pm_set blocks (fst e) bp in
      if bp =? maxp then (present', blocks', bytes_min maxh (fst e), maxp)
      else if maxp <? bp then (present', blocks', fst e, bp)
      else (present', blocks', maxh, maxp)) pm ([], [], [], 0) in
  (idx_power pows (sort_n (nodup_n present)), blocks, maxh).

Definition sum_set_prevotes (s : summary) (pows : list N) (pm : pmap) : summary :=
  let '(t, b, m) := set_powers pows pm in
  mk_sum (sm_avail s) t (sm_tpc s) b (sm_pcp s) m (sm_mpc s).
Definition sum_set_precommits (s : summary) (pows : list N) (pm : pmap) : summary :=
  let '(t, b, m) := set_powers pows pm in
  mk_sum (sm_avail s) (sm_tpv s) t (sm_pvp s) b (sm_mpv s) m.
Definition sum_reset_same_height (s : summary) : summary := mk_sum (sm_avail s) 0 0 [] [] [] [].

(** * Views and kernel state *)
Record view := mk_view {
  v_h : N; v_r : N; v_vals : valset; v_phs : list ph;
  v_pv : pmap; v_pc : pmap; v_pcp : cproof; v_sum : summary; v_ver : N
}.
Definition zero_view : view := mk_view 0 0 empty_valset [] [] [] empty_cproof new_summary 0.

Definition sparse_coll := (bytes * list (bytes * list ssig))%type.  (* PubKeyHash, BlockSignatures *)
Record rentry := mk_rentry { re_phs : list ph; re_pv : option sparse_coll; re_pc : option sparse_coll }.
Definition empty_rentry : rentry := mk_rentry [] None None.

(** One store write call (round store, committed-header store, mirror store), as issued by the
    kernel.  The log is what a crash truncates (C10). *)
Inductive wr :=
| WNhr (x : N * N * N * N)
| WHdr (h : N) (x : hdr * cproof)
| WPH (p : ph)
| WPV (h r : N) (c : sparse_coll)
| WPC (h r : N) (c : sparse_coll)
| WReplay (x : hdr).

(** View-manager events, in the order the kernel raises them (consumed by Model/MirrorMgr.v):
    a view was updated (Mark*ViewUpdated), the voting view was snapshotted as the nil-voted round,
    the voting round was jumped, the height the state machine may be waiting on was committed. *)
Inductive mev :=
| EvMark (vid : N) (v : view)
| EvNil (v : view)
| EvJump (v : view)
| EvCommitted (h : N).

Record kstate := mk_k {
  k_init_h : N; k_init_vs : valset;
  k_com : view; k_vot : view; k_nxt : view;
  k_chdr : option hdr;
  st_nhr : N * N * N * N;                       (* voting h, r, committing h, r *)
  st_hdrs : list (N * (hdr * cproof));          (* committed header store *)
  st_rounds : list (N * N * rentry);            (* round store *)
  st_replayed : list hdr;
  st_vals : list (bytes * list N);              (* validator store: pubkey hash -> keys *)
  st_log : list wr;                             (* every store write call, in the order issued *)
  st_ev : list mev                              (* every view-manager event, in the order raised *)
}.

Definition set_com (s : kstate) (v : view) := mk_k (k_init_h s) (k_init_vs s) v (k_vot s) (k_nxt s) (k_chdr s) (st_nhr s) (st_hdrs s) (st_rounds s) (st_replayed s) (st_vals s) (st_log s) (st_ev s).
Definition set_vot (s : kstate) (v : view) := mk_k (k_init_h s) (k_init_vs s) (k_com s) v (k_nxt s) (k_chdr s) (st_nhr s) (st_hdrs s) (st_rounds s) (st_replayed s) (st_vals s) (st_log s) (st_ev s).
Definition set_nxt (s : kstate) (v : view) := mk_k (k_init_h s) (k_init_vs s) (k_com s) (k_vot s) v (k_chdr s) (st_nhr s) (st_hdrs s) (st_rounds s) (st_replayed s) (st_vals s) (st_log s) (st_ev s).
Definition set_chdr (s : kstate) (h : option hdr) := mk_k (k_init_h s) (k_init_vs s) (k_com s) (k_vot s) (k_nxt s) h (st_nhr s) (st_hdrs s) (st_rounds s) (st_replayed s) (st_vals s) (st_log s) (st_ev s).
Definition set_nhr (s : kstate) (x : N * N * N * N) := mk_k (k_init_h s) (k_init_vs s) (k_com s) (k_vot s) (k_nxt s) (k_chdr s) x (st_hdrs s) (st_rounds s) (st_replayed s) (st_vals s) (st_log s) (st_ev s).
Definition set_hdrs (s : kstate) (x : list (N * (hdr * cproof))) := mk_k (k_init_h s) (k_init_vs s) (k_com s) (k_vot s) (k_nxt s) (k_chdr s) (st_nhr s) x (st_rounds s) (st_replayed s) (st_vals s) (st_log s) (st_ev s).
Definition set_rounds (s : kstate) (x : list (N * N * rentry)) := mk_k (k_init_h s) (k_init_vs s) (k_com s) (k_vot s) (k_nxt s) (k_chdr s) (st_nhr s) (st_hdrs s) x (st_replayed s) (st_vals s) (st_log s) (st_ev s).
Definition set_replayed (s : kstate) (x : list hdr) := mk_k (k_init_h s) (k_init_vs s) (k_com s) (k_vot s) (k_nxt s) (k_chdr s) (st_nhr s) (st_hdrs s) (st_rounds s) x (st_vals s) (st_log s) (st_ev s).

Definition log_w (s : kstate) (w : wr) : kstate :=
  mk_k (k_init_h s) (k_init_vs s) (k_com s) (k_vot s) (k_nxt s) (k_chdr s) (st_nhr s) (st_hdrs s) (st_rounds s) (st_replayed s) (st_vals s) (st_log s ++ [w]) (st_ev s).

Definition ev_w (s : kstate) (e : mev) : kstate :=
  mk_k (k_init_h s) (k_init_vs s) (k_com s) (k_vot s) (k_nxt s) (k_chdr s) (st_nhr s) (st_hdrs s) (st_rounds s) (st_replayed s) (st_vals s) (st_log s) (st_ev s ++ [e]).

Definition kpos_of (s : kstate) : kpos :=
  mk_kpos (v_h (k_vot s)) (v_r (k_vot s)) (v_h (k_com s)) (v_r (k_com s)).

(** view accessors by generated ViewID *)
Definition get_view (s : kstate) (vid : N) : view :=
  if vid =? ViewIDVoting then k_vot s
  else if vid =? ViewIDCommitting then k_com s
  else k_nxt s.
Definition put_view (s : kstate) (vid : N) (v : view) : kstate :=
  if vid =? ViewIDVoting then set_vot s v
  else if vid =? ViewIDCommitting then set_com s v
  else set_nxt s v.

Definition bump (v : view) : view :=
  mk_view (v_h v) (v_r v) (v_vals v) (v_phs v) (v_pv v) (v_pc v) (v_pcp v) (v_sum v) (wrap32 (v_ver v + 1)).
Definition with_phs (v : view) (x : list ph) := mk_view (v_h v) (v_r v) (v_vals v) x (v_pv v) (v_pc v) (v_pcp v) (v_sum v) (v_ver v).
Definition with_pv (v : view) (x : pmap) := mk_view (v_h v) (v_r v) (v_vals v) (v_phs v) x (v_pc v) (v_pcp v) (v_sum v) (v_ver v).
Definition with_pc (v : view) (x : pmap) := mk_view (v_h v) (v_r v) (v_vals v) (v_phs v) (v_pv v) x (v_pcp v) (v_sum v) (v_ver v).
Definition with_sum (v : view) (x : summary) := mk_view (v_h v) (v_r v) (v_vals v) (v_phs v) (v_pv v) (v_pc v) (v_pcp v) x (v_ver v).

(** * Round store helpers (tmmemstore.RoundStore) *)
Fixpoint rs_get (rs : list (N * N * rentry)) (h r : N) : option rentry :=
  match rs with
  | [] => None
  | (h', r', e) :: t => if (h' =? h) && (r' =? r) then Some e else rs_get t h r
  end.
Fixpoint rs_set (rs : list (N * N * rentry)) (h r : N) (e : rentry) : list (N * N * rentry) :=
  match rs with
  | [] => [(h, r, e)]
  | (h', r', e') :: t => if (h' =? h) && (r' =? r) then (h, r, e) :: t else (h', r', e') :: rs_set t h r e
  end.
Definition rs_entry (rs : list (N * N * rentry)) (h r : N) : rentry :=
  match rs_get rs h r with Some e => e | None => empty_rentry end.

Definition opt_key_eqb (a b : option N) : bool :=
  match a, b with Some x, Some y => x =? y | None, None => true | _, _ => false end.

(** SaveRoundProposedHeader: refuse a second header with the same hash from the same proposer. *)
Definition rs_save_ph (rs : list (N * N * rentry)) (p : ph) : list (N * N * rentry) :=
  let h := hd_height (ph_hdr p) in
  let e := rs_entry rs h (ph_round p) in
  if existsb (fun q => bytes_eqb (hd_hash (ph_hdr q)) (hd_hash (ph_hdr p)) && opt_key_eqb (ph_key q) (ph_key p)) (re_phs e)
  then rs
  else rs_set rs h (ph_round p) (mk_rentry (re_phs e ++ [p]) (re_pv e) (re_pc e)).

(** mapToSparseSignatureCollection *)
Definition map_to_sparse (pkh : bytes) (pm : pmap) : sparse_coll :=
  (match pm with [] => [] | _ => pkh end, map (fun e => (fst e, as_sparse (snd e))) pm).

Definition rs_overwrite_pv (rs : list (N * N * rentry)) (h r : N) (c : sparse_coll) :=
  let e := rs_entry rs h r in rs_set rs h r (mk_rentry (re_phs e) (Some c) (re_pc e)).
Definition rs_overwrite_pc (rs : list (N * N * rentry)) (h r : N) (c : sparse_coll) :=
  let e := rs_entry rs h r in rs_set rs h r (mk_rentry (re_phs e) (re_pv e) (Some c)).

(** * Kernel: observers, round changes, shift *)
Definition update_observers (s : kstate) : kstate :=
  let x := (v_h (k_vot s), v_r (k_vot s), v_h (k_com s), v_r (k_com s)) in
  log_w (set_nhr s x) (WNhr x).

(** incrementVotingRound: swap Voting/NextRound, reset the new NextRound for the same height. *)
Definition increment_voting_round (s : kstate) : kstate :=
  let newvot := bump (k_nxt s) in
  let old := k_vot s in
  let newnxt := mk_view (v_h old) (wrap32 (v_r newvot + 1)) (v_vals old) [] [] [] (v_pcp old)
                        (sum_reset_same_height (v_sum old)) 1 in
  ev_w (ev_w (set_nxt (set_vot s newvot) newnxt) (EvMark ViewIDVoting newvot)) (EvMark ViewIDNextRound newnxt).

Definition advance_voting_round (s : kstate) : kstate :=
  update_observers (increment_voting_round (ev_w s (EvNil (k_vot s)))).
Definition jump_voting_round (s : kstate) : kstate :=
  let s1 := increment_voting_round s in
  update_observers (ev_w s1 (EvJump (k_vot s1))).

Definition hstore_set (l : list (N * (hdr * cproof))) (h : N) (x : hdr * cproof) :=
  (h, x) :: filter (fun e => negb (fst e =? h)) l.

(** ShiftVotingToCommitting + saveCurrentCommittingHeader + updateObservers *)
Definition shift_voting_to_committing (s : kstate) (voted : hdr) : kstate :=
  let com := bump (k_vot s) in
  let nv := hd_next voted in
  let newh := wrap64 (v_h com + 1) in
  let pcp := mk_cproof (v_r com) (vs_pkh (v_vals com)) (map (fun e => (fst e, as_sparse (snd e))) (v_pc com)) in
  let avail := sum_pows (vs_pows nv) in
  let vot := mk_view newh 0 nv [] [] [] pcp (mk_sum avail 0 0 [] [] [] []) 1 in
  let nxt := mk_view newh 1 nv [] [] [] pcp (mk_sum avail 0 0 [] [] [] []) 1 in
  let s0 := ev_w (ev_w (ev_w (ev_w (set_nxt (set_vot (set_com s com) vot) nxt)
              (EvCommitted (v_h (k_com s)))) (EvMark ViewIDCommitting com)) (EvMark ViewIDVoting vot)) (EvMark ViewIDNextRound nxt) in
  let s1 := set_chdr s0 (Some voted) in
  let s2 := log_w (set_hdrs s1 (hstore_set (st_hdrs s1) (hd_height voted) (voted, pcp))) (WHdr (hd_height voted) (voted, pcp)) in
  update_observers s2.

(** checkVotingPrecommitViewShift *)
Definition check_voting_precommit_shift (s : kstate) : res kstate :=
  let v := k_vot s in
  let sm := v_sum v in
  bind (byz_majority (sm_avail sm)) (fun maj =>
  let ch := sm_mpc sm in
  let high := map_get (sm_pcp sm) ch in
  if high <? maj then
    if sm_tpc sm =? sm_avail sm then Ok (advance_voting_round s) else Ok s
  else
    match ch with
    | [] => Ok (advance_voting_round s)
    | _ =>
        match find (fun p => bytes_eqb (hd_hash (ph_hdr p)) ch) (v_phs v) with
        | None => Ok s
        | Some p => Ok (shift_voting_to_committing s (ph_hdr p))
        end
    end).

(** checkNextRoundPrecommitViewShift: jump, then treat a majority like one in the voting round. *)
Definition check_next_round_precommit_shift (s : kstate) : res kstate :=
  let sm := v_sum (k_nxt s) in
  bind (byz_minority (sm_avail sm)) (fun mn =>
  if sm_tpc sm <? mn then Ok s else
  let s' := jump_voting_round s in
  bind (byz_majority (sm_avail sm)) (fun maj =>
  if maj <=? map_get (sm_pcp sm) (sm_mpc sm)
  then check_voting_precommit_shift s'
  else Ok s')).

(** checkPrevoteViewShift (only ever called for the next-round view) *)
Definition check_prevote_shift (s : kstate) : res kstate :=
  let sm := v_sum (k_nxt s) in
  bind (byz_minority (sm_avail sm)) (fun mn =>
  if sm_tpv sm <? mn then Ok s else Ok (jump_voting_round s)).

(** * Kernel: adding a proposed header (addProposedHeader) *)
Definition backfill_commit (s : kstate) (p : ph) : kstate :=
  let com := k_com s in
  let pcp := hd_pcp (ph_hdr p) in
  let '(pc', any) :=
    fold_left (fun acc e =>
      let '(pc, any) := acc in
      match pm_get pc (fst e) with
      | None => (pc, any)
      | Some target =>
          let '(t', _, inc) := merge_sparse KPrecommit (v_h com) (v_r com) (fst e) (vs_keys (v_vals com)) target (snd e) in
          (pm_set pc (fst e) t', any || inc)
      end) (cp_proofs pcp) (v_pc com, false) in
  if any then
    let com1 := with_pc com pc' in
    let com' := bump (with_sum com1 (sum_set_precommits (v_sum com1) (vs_pows (v_vals com1)) pc')) in
    let coll := map_to_sparse (vs_pkh (v_vals com)) pc' in
    let rs := rs_overwrite_pc (st_rounds s) (sub64 (hd_height (ph_hdr p)) 1) (cp_round pcp) coll in
    ev_w (log_w (set_rounds (set_com s com') rs) (WPC (sub64 (hd_height (ph_hdr p)) 1) (cp_round pcp) coll))
         (EvMark ViewIDCommitting com')
  else set_com s (with_pc com pc').

Definition add_ph (s : kstate) (p : ph) : res kstate :=
  bind (find_view (kpos_of s) (hd_height (ph_hdr p)) (ph_round p)) (fun fv =>
  let '(vid, st) := fv in
  if negb (st =? ViewFound) then Ok s else
  let v := get_view s vid in
  if existsb (fun q => sigd_eqb (ph_sig q) (ph_sig p)) (v_phs v) then Ok s else
  let s1 := put_view s vid (bump (with_phs v (v_phs v ++ [p]))) in
  let s2 := ev_w (log_w (set_rounds s1 (rs_save_ph (st_rounds s1) p)) (WPH p)) (EvMark vid (get_view s1 vid)) in
  if negb ((vid =? ViewIDVoting) || (vid =? ViewIDNextRound)) then Ok s2 else
  let s3 := backfill_commit s2 p in
  if (vid =? ViewIDVoting) then
    match pm_get (v_pc (k_vot s3)) (hd_hash (ph_hdr p)) with
    | Some _ => check_voting_precommit_shift s3
    | None => Ok s3
    end
  else Ok s3).

(** * Mirror: HandleProposedHeader *)
Inductive phcheck := PHC (status : N) (proposer : option N) (prev_hash : bytes) (prev_vs : valset) (view_vs : valset).

Definition set_ph_check_status (s : kstate) (p : ph) (v : view) (vid : N) : phcheck :=
  if existsb (fun q => sigd_eqb (ph_sig q) (ph_sig p)) (v_phs v)
  then PHC PHCheckAlreadyHaveSignature None [] empty_valset empty_valset
  else
    match ph_key p with
    | None => PHC PHCheckSignerUnrecognized None [] empty_valset empty_valset
    | Some k =>
        if negb (existsb (N.eqb k) (vs_keys (v_vals v)))
        then PHC PHCheckSignerUnrecognized None [] empty_valset empty_valset
        else if hd_height (ph_hdr p) =? k_init_h s
        then PHC PHCheckAcceptable (Some k) [] empty_valset (v_vals v)
        else
          match k_chdr s with
          | None => PHC PHCheckAcceptable (Some k) [] empty_valset (v_vals v)
          | Some ch =>
              if vid =? ViewIDCommitting
              then PHC PHCheckAcceptable (Some k) (hd_prev ch) empty_valset (v_vals v)
              else PHC PHCheckAcceptable (Some k) (hd_hash ch) (hd_vals ch) (v_vals v)
          end
    end.

(** sendPHCheckResponse ladder *)
Definition ph_check (s : kstate) (p : ph) : phcheck :=
  let pbh := hd_height (ph_hdr p) in
  let pbr := ph_round p in
  let vh := v_h (k_vot s) in let vr := v_r (k_vot s) in
  let chh := v_h (k_com s) in let cr := v_r (k_com s) in
  if pbh <? chh then PHC PHCheckRoundTooOld None [] empty_valset empty_valset
  else if pbh =? chh then
    if pbr <? cr then PHC PHCheckRoundTooOld None [] empty_valset empty_valset
    else if pbr =? cr then set_ph_check_status s p (k_com s) ViewIDCommitting
    else PHC PHCheckRoundTooOld None [] empty_valset empty_valset
  else if pbh =? vh then
    if pbr <? vr then PHC PHCheckRoundTooOld None [] empty_valset empty_valset
    else if pbr =? vr then set_ph_check_status s p (k_vot s) ViewIDVoting
    else if pbr =? wrap32 (vr + 1) then set_ph_check_status s p (k_nxt s) ViewIDNextRound
    else PHC PHCheckRoundTooFarInFuture None [] empty_valset empty_valset
  else if pbh =? wrap64 (vh + 1) then PHC PHCheckNextHeight None [] empty_valset empty_valset
  else PHC PHCheckRoundTooFarInFuture None [] empty_valset empty_valset.

(** ValidateFinalizedProof of the simple scheme: per block hash the signer indices, or
    [None] when any signature is invalid; second component: all signers unique. *)
Definition validate_one (h r : N) (keys : list N) (t : bytes) (sigs : list ssig) : option (list N) :=
  let '(p, allv, _) := merge_sparse KPrecommit h r t keys [] sigs in
  if allv then Some (proof_idxs p) else None.

Fixpoint disjoint_all (seen : list N) (l : list (list N)) : bool :=
  match l with
  | [] => true
  | x :: t => if existsb (fun i => existsb (N.eqb i) seen) x then false else disjoint_all (seen ++ x) t
  end.

Definition validate_finalized (h r : N) (keys : list N) (main : bytes) (proofs : list (bytes * list ssig))
  : option (list N) * bool :=
  let main_sigs := match pm_get proofs main with Some l => l | None => [] end in
  match validate_one h r keys main main_sigs with
  | None => (None, false)
  | Some mbits =>
      let rest := if Nat.ltb 1 (List.length proofs)
                  then filter (fun e => negb (bytes_eqb (fst e) main)) proofs else [] in
      let rbits := map (fun e => validate_one h r keys (fst e) (snd e)) rest in
      if forallb (fun o => match o with Some _ => true | None => false end) rbits
      then (Some mbits, disjoint_all [] (mbits :: map (fun o => match o with Some l => l | None => [] end) rbits))
      else (None, false)
  end.

Definition vote_msg_of_pcp (p : ph) : vmsg :=
  let pcp := hd_pcp (ph_hdr p) in
  mk_vmsg (sub64 (hd_height (ph_hdr p)) 1) (cp_round pcp) (cp_pkh pcp) (cp_proofs pcp).

(** * Mirror: vote handling *)
Definition sig_valid_for (nkeys : nat) (s : ssig) : bool :=
  match keyid_decode (ss_kid s) with
  | Some n => N.to_nat n <? nkeys
  | None => false
  end%nat.

(** getSignaturesToAdd *)
Definition sigs_to_add (cur : pmap) (incoming : list (bytes * list ssig)) (nkeys : nat)
  : list (bytes * list ssig) :=
  flat_map (fun e =>
    let keep :=
      match pm_get cur (fst e) with
      | None => filter (sig_valid_for nkeys) (snd e)
      | Some p => filter (fun s => sig_valid_for nkeys s &&
                    negb (match keyid_decode (ss_kid s) with Some n => has_idx p n | None => true end)) (snd e)
      end in
    match keep with [] => [] | _ => [(fst e, keep)] end) incoming.

Definition view_votes (kind : N) (v : view) : pmap := if kind =? KPrevote then v_pv v else v_pc v.

(** merge the offered signatures into copies of the current proofs; keep only increased ones *)
Definition build_updates (kind : N) (v : view) (toadd : list (bytes * list ssig)) : pmap * bool :=
  fold_left (fun acc e =>
    let '(ups, allv) := acc in
    let base := match pm_get (view_votes kind v) (fst e) with Some p => p | None => [] end in
    let '(p', av, inc) := merge_sparse kind (v_h v) (v_r v) (fst e) (vs_keys (v_vals v)) base (snd e) in
    (if inc then pm_set ups (fst e) p' else ups, allv && av)) toadd ([], true).

(** kernel addPrevote / addPrecommit for sequential delivery (versions always match) *)
Definition apply_votes (kind : N) (s : kstate) (vid : N) (h r : N) (ups : pmap) : res kstate :=
  let v := get_view s vid in
  let votes' := fold_left (fun m e => pm_set m (fst e) (snd e)) ups (view_votes kind v) in
  let v1 := if kind =? KPrevote then with_pv v votes' else with_pc v votes' in
  let sm' := if kind =? KPrevote then sum_set_prevotes (v_sum v1) (vs_pows (v_vals v1)) votes'
             else sum_set_precommits (v_sum v1) (vs_pows (v_vals v1)) votes' in
  let v2 := bump (with_sum v1 sm') in
  let s1 := put_view s vid v2 in
  let coll := map_to_sparse (vs_pkh (v_vals v2)) votes' in
  let s2 := ev_w (log_w (set_rounds s1 (if kind =? KPrevote then rs_overwrite_pv (st_rounds s1) h r coll
                                  else rs_overwrite_pc (st_rounds s1) h r coll))
                  (if kind =? KPrevote then WPV h r coll else WPC h r coll)) (EvMark vid v2) in
  if kind =? KPrevote then
    if vid =? ViewIDNextRound then check_prevote_shift s2 else Ok s2
  else
    if vid =? ViewIDVoting then check_voting_precommit_shift s2
    else if vid =? ViewIDNextRound then check_next_round_precommit_shift s2
    else Ok s2.

(** future votes: handleFuture*Proofs + addFuture* *)
Definition coll_of (e : rentry) (kind : N) : option sparse_coll := if kind =? KPrevote then re_pv e else re_pc e.

(** an entry without signatures carries nothing: the future-vote path and the replay path skip it *)
Definition signed_entries (l : list (bytes * list ssig)) : list (bytes * list ssig) :=
  filter (fun e => match snd e with [] => false | _ => true end) l.

Definition handle_future_votes (kind : N) (s : kstate) (m : vmsg) : res (kstate * N) :=
  (* only a later round of the voting height has a known validator set *)
  let keys_opt := if vm_h m =? v_h (k_vot s) then Some (vs_keys (v_vals (k_vot s))) else None in
  match keys_opt with
  | None => Ok (s, HandleVoteProofsFutureUnverified)
  | Some keys =>
      match keys with
      | [] => Ok (s, HandleVoteProofsFutureUnverified)
      | _ =>
      if negb (bytes_eqb (vm_pkh m) (vs_pkh (v_vals (k_vot s)))) then Ok (s, HandleVoteProofsBadPubKeyHash) else
      let e := rs_entry (st_rounds s) (vm_h m) (vm_r m) in
      let '(spkh, stored) := match coll_of e kind with Some c => c | None => (vm_pkh m, []) end in
      (* stored signatures were verified when they were stored *)
      let full : pmap := map (fun x => (fst x, fst (fst (merge_sparse kind (vm_h m) (vm_r m) (fst x) keys [] (snd x))))) stored in
      let '(full', allv, inc) :=
        fold_left (fun acc x =>
          let '(fm, allv, inc) := acc in
          let base := match pm_get fm (fst x) with Some p => p | None => [] end in
          if bytes_eqb spkh (vm_pkh m) || negb (match pm_get fm (fst x) with Some _ => true | None => false end) then
            let '(p', av, i) := merge_sparse kind (vm_h m) (vm_r m) (fst x) keys base (snd x) in
            (pm_set fm (fst x) p', allv && av, inc || i)
          else (fm, false, inc)) (signed_entries (vm_proofs m)) (full, true, false) in
      if negb allv then Ok (s, HandleVoteProofsBadSignature)
      else if negb inc then Ok (s, HandleVoteProofsNoNewSignatures)
      else
        let coll : sparse_coll := (vm_pkh m, map (fun x => (fst x, as_sparse (snd x))) full') in
        let rs := if kind =? KPrevote then rs_overwrite_pv (st_rounds s) (vm_h m) (vm_r m) coll
                  else rs_overwrite_pc (st_rounds s) (vm_h m) (vm_r m) coll in
        Ok (log_w (set_rounds s rs) (if kind =? KPrevote then WPV (vm_h m) (vm_r m) coll else WPC (vm_h m) (vm_r m) coll),
            HandleVoteProofsFutureVerified)
      end
  end.

Definition handle_votes (kind : N) (s : kstate) (m : vmsg) : res (kstate * N) :=
  match vm_proofs m with
  | [] => Ok (s, HandleVoteProofsEmpty)
  | _ =>
  bind (find_view (kpos_of s) (vm_h m) (vm_r m)) (fun fv =>
  let '(vid, st) := fv in
  if st =? ViewFuture then handle_future_votes kind s m
  else if negb (st =? ViewFound) then Ok (s, HandleVoteProofsRoundTooOld)
  else
    let v := get_view s vid in
    if negb (bytes_eqb (vm_pkh m) (vs_pkh (v_vals v))) then Ok (s, HandleVoteProofsBadPubKeyHash) else
    let toadd := sigs_to_add (view_votes kind v) (vm_proofs m) (List.length (vs_keys (v_vals v))) in
    match toadd with
    | [] => Ok (s, HandleVoteProofsNoNewSignatures)
    | _ =>
        let '(ups, allv) := build_updates kind v toadd in
        match ups with
        | [] => Ok (s, if allv then HandleVoteProofsNoNewSignatures else HandleVoteProofsBadSignature)
        | _ => bind (apply_votes kind s vid (vm_h m) (vm_r m) ups) (fun s' => Ok (s', HandleVoteProofsAccepted))
        end
    end)
  end.

(** HandleProposedHeader; [fuel] bounds the single retry after a commit-proof backfill. *)
Fixpoint handle_ph_loop (fuel : nat) (backfilled : bool) (s : kstate) (p : ph) : res (kstate * N) :=
  match ph_check s p with
  | PHC status proposer prev_hash prev_vs view_vs =>
    if status =? PHCheckAlreadyHaveSignature then Ok (s, HandleProposedHeaderAlreadyStored)
    else if status =? PHCheckSignerUnrecognized then Ok (s, HandleProposedHeaderSignerUnrecognized)
    else if status =? PHCheckRoundTooOld then Ok (s, HandleProposedHeaderRoundTooOld)
    else if status =? PHCheckRoundTooFarInFuture then Ok (s, HandleProposedHeaderRoundTooFarInFuture)
    else if status =? PHCheckNextHeight then
      if backfilled then Ok (s, HandleProposedHeaderRoundTooFarInFuture)
      else match fuel with
           | O => Ok (s, HandleProposedHeaderRoundTooFarInFuture)
           | S f =>
               bind (handle_votes KPrecommit s (vote_msg_of_pcp p)) (fun sr =>
               handle_ph_loop f true (fst sr) p)
           end
    else
      let hd := ph_hdr p in
      if negb (hd_ok hd) then Ok (s, HandleProposedHeaderBadBlockHash)
      else if negb (vs_ok (hd_vals hd) && vs_ok (hd_next hd)) then Ok (s, HandleProposedHeaderBadBlockHash)
      else if negb (valset_equal (hd_vals hd) view_vs) then Ok (s, HandleProposedHeaderBadBlockHash)
      else
        match proposer with
        | None => Ok (s, HandleProposedHeaderBadSignature)
        | Some key =>
          if negb (verify_prop key (ph_content p) (ph_round p) (ph_sig p)) then Ok (s, HandleProposedHeaderBadSignature)
          else if negb (hd_height hd =? k_init_h s) && negb (bytes_eqb (hd_prev hd) prev_hash)
          then Ok (s, HandleProposedHeaderBadBlockHash)
          else if negb (bytes_eqb (vs_pkh prev_vs) (cp_pkh (hd_pcp hd)))
          then Ok (s, HandleProposedHeaderBadPrevCommitProofPubKeyHash)
          else
            let accept := bind (add_ph s p) (fun s' => Ok (s', HandleProposedHeaderAccepted)) in
            if k_init_h s <? hd_height hd then
              match vs_keys prev_vs with
              | [] => Ok (s, HandleProposedHeaderBadPrevCommitProofPubKeyHash)
              | _ =>
                match validate_finalized (sub64 (hd_height hd) 1) (cp_round (hd_pcp hd)) (vs_keys prev_vs)
                        (hd_prev hd) (cp_proofs (hd_pcp hd)) with
                | (_, false) => Ok (s, HandleProposedHeaderBadPrevCommitProofDoubleSigned)
                | (None, true) => Ok (s, HandleProposedHeaderBadPrevCommitProofSignature)
                | (Some bits, true) =>
                    let avail := sum_pows (vs_pows prev_vs) in
                    bind (byz_majority avail) (fun maj =>
                    if idx_power (vs_pows prev_vs) bits <? maj
                    then Ok (s, HandleProposedHeaderBadPrevCommitVoteCount)
                    else accept)
                end
              end
            else accept
        end
  end.

Definition handle_ph (s : kstate) (p : ph) : res (kstate * N) :=
  match ph_key p with
  | None => Ok (s, HandleProposedHeaderMissingProposerPubKey)
  | Some _ => handle_ph_loop 1 false s p
  end.

(** * Start-up (NewKernel on empty stores) *)
Definition init_view (h r : N) (vs : valset) : view :=
  mk_view h r vs [] [] [] (mk_cproof 0 [] []) (mk_sum (sum_pows (vs_pows vs)) 0 0 [] [] [] []) 1.

Definition init_state (init_h : N) (vs : valset) : kstate :=
  mk_k init_h vs zero_view (init_view init_h 0 vs) (init_view init_h 1 vs) None
       (init_h, 0, 0, 0) [] [] [] [(vs_pkh vs, vs_keys vs)] [WNhr (init_h, 0, 0, 0); WNhr (init_h, 0, 0, 0)]
       [EvMark ViewIDVoting (init_view init_h 0 vs); EvMark ViewIDNextRound (init_view init_h 1 vs)].

(** * Operations and runs *)

(** * Admissibility of a vote message (used to state C05's no-op clause and by its monitor) *)
Definition sig_admissible (keys : list N) (kind h r : N) (t : bytes) (ss : ssig) : bool :=
  match keyid_decode (ss_kid ss) with
  | Some n => match nth_n keys n with
              | Some key => verify_vote key kind h r t (ss_sig ss)
              | None => false
              end
  | None => false
  end.

Definition entry_all_invalid (keys : list N) (kind h r : N) (e : bytes * list ssig) : bool :=
  forallb (fun ss => negb (sig_admissible keys kind h r (fst e) ss)) (snd e).

Definition msg_all_invalid (keys : list N) (kind : N) (m : vmsg) : bool :=
  forallb (entry_all_invalid keys kind (vm_h m) (vm_r m)) (vm_proofs m).

(** the key list a message is verified against in state [s] *)
Definition keys_for (s : kstate) (m : vmsg) : list N :=
  match find_view (kpos_of s) (vm_h m) (vm_r m) with
  | Ok (vid, st) =>
      if st =? ViewFuture then
        if vm_h m =? v_h (k_vot s) then vs_keys (v_vals (k_vot s)) else []
      else vs_keys (v_vals (get_view s vid))
  | Panic _ => []
  end.


(** * Crash and restart (C10): NewKernel on existing stores *)
Record stores := mk_stores {
  sr_nhr : N * N * N * N;
  sr_hdrs : list (N * (hdr * cproof));
  sr_rounds : list (N * N * rentry);
  sr_replayed : list hdr
}.

Definition stores_of (s : kstate) : stores := mk_stores (st_nhr s) (st_hdrs s) (st_rounds s) (st_replayed s).

Definition apply_wr (st : stores) (w : wr) : stores :=
  match w with
  | WNhr x => mk_stores x (sr_hdrs st) (sr_rounds st) (sr_replayed st)
  | WHdr h x => mk_stores (sr_nhr st) (hstore_set (sr_hdrs st) h x) (sr_rounds st) (sr_replayed st)
  | WPH p => mk_stores (sr_nhr st) (sr_hdrs st) (rs_save_ph (sr_rounds st) p) (sr_replayed st)
  | WPV h r c => mk_stores (sr_nhr st) (sr_hdrs st) (rs_overwrite_pv (sr_rounds st) h r c) (sr_replayed st)
  | WPC h r c => mk_stores (sr_nhr st) (sr_hdrs st) (rs_overwrite_pc (sr_rounds st) h r c) (sr_replayed st)
  | WReplay x => mk_stores (sr_nhr st) (sr_hdrs st) (sr_rounds st) (sr_replayed st ++ [x])
  end.

(** SparseSignatureCollection.ToFull*ProofMap: panics (BUG) on an empty signature list or on a
    stored signature that does not verify. *)
Fixpoint to_full_entries (kind h r : N) (keys : list N) (entries : list (bytes * list ssig)) : res pmap :=
  match entries with
  | [] => Ok []
  | (t, sigs) :: rest =>
      match sigs with
      | [] => Panic "toFullProofMap: BUG: saw len(sparseSigs) == 0"
      | _ =>
          let '(p, allv, inc) := merge_sparse kind h r t keys [] sigs in
          if allv && inc then bind (to_full_entries kind h r keys rest) (fun m => Ok (pm_set m t p))
          else Panic "toFullProofMap: BUG: invalid result after merging signatures"
      end
  end.

Definition to_full_map (kind h r : N) (keys : list N) (c : option sparse_coll) : res pmap :=
  match c with
  | None => Ok []
  | Some (_, entries) =>
      match keys, entries with
      | [], _ :: _ => Panic "NewSimpleCommonMessageSignatureProof: no candidate keys"
      | _, _ => to_full_entries kind h r keys entries
      end
  end.

(** loadInitialView *)
(** LoadRoundState also returns, as bare proposed headers, the replayed headers of that height
    whose hash has a precommit entry in the round. *)
Definition fake_ph (x : hdr) (r : N) : ph := mk_ph x r None (SJunk 0) [].

Definition round_phs (rs : list (N * N * rentry)) (replayed : list hdr) (h r : N) : list ph :=
  let e := rs_entry rs h r in
  re_phs e ++
  match re_pc e with
  | Some (_, entries) =>
      flat_map (fun en => match fst en with
                          | [] => []
                          | _ => map (fun x => fake_ph x 0)
                                     (filter (fun x => (hd_height x =? h) && bytes_eqb (hd_hash x) (fst en)) replayed)
                          end) entries
  | None => []
  end.

Definition load_initial_view_r (rs : list (N * N * rentry)) (replayed : list hdr) (h r : N) (vs : valset) : res view :=
  let e := rs_entry rs h r in
  bind (to_full_map KPrevote h r (vs_keys vs) (re_pv e)) (fun pv =>
  bind (to_full_map KPrecommit h r (vs_keys vs) (re_pc e)) (fun pc =>
  let sm0 := mk_sum (sum_pows (vs_pows vs)) 0 0 [] [] [] [] in
  let sm := sum_set_precommits (sum_set_prevotes sm0 (vs_pows vs) pv) (vs_pows vs) pc in
  Ok (mk_view h r vs (round_phs rs replayed h r) pv pc empty_cproof sm 0))).

Definition load_initial_view (rs : list (N * N * rentry)) (h r : N) (vs : valset) : res view :=
  let e := rs_entry rs h r in
  bind (to_full_map KPrevote h r (vs_keys vs) (re_pv e)) (fun pv =>
  bind (to_full_map KPrecommit h r (vs_keys vs) (re_pc e)) (fun pc =>
  let sm0 := mk_sum (sum_pows (vs_pows vs)) 0 0 [] [] [] [] in
  let sm := sum_set_precommits (sum_set_prevotes sm0 (vs_pows vs) pv) (vs_pows vs) pc in
  Ok (mk_view h r vs (re_phs e) pv pc empty_cproof sm 0))).

Definition hdr_get (l : list (N * (hdr * cproof))) (h : N) : option (hdr * cproof) :=
  match find (fun e => fst e =? h) l with Some (_, x) => Some x | None => None end.

(** the block with the highest precommit power in the committing view *)
Definition max_power_hash (pows : list N) (pm : pmap) : bytes :=
  fst (fold_left (fun acc e => let bp := proof_power pows (snd e) in
                               if snd acc <? bp then (fst e, bp) else acc) pm ([], 0)).

Definition with_pcp (v : view) (x : cproof) := mk_view (v_h v) (v_r v) (v_vals v) (v_phs v) (v_pv v) (v_pc v) x (v_sum v) (v_ver v).

(** recheckViewShifts: at most one of the three shifts *)
Definition recheck_view_shifts (s : kstate) : res kstate :=
  bind (check_voting_precommit_shift s) (fun s1 =>
  if negb ((v_h (k_vot s1) =? v_h (k_vot s)) && (v_r (k_vot s1) =? v_r (k_vot s))) then Ok s1 else
  bind (check_next_round_precommit_shift s1) (fun s2 =>
  if negb ((v_h (k_vot s2) =? v_h (k_vot s)) && (v_r (k_vot s2) =? v_r (k_vot s))) then Ok s2 else
  check_prevote_shift s2)).

(** NewKernel.  A returned error (not a panic) is [Panic "error: ..."] as well: both mean the
    engine does not come up. *)
Definition restart (ih : N) (ivs : valset) (st : stores) (vals : list (bytes * list N)) (log : list wr) : res kstate :=
  let '(vh0, vr0, ch0, cr0) := sr_nhr st in
  let uninit := vh0 =? 0 in
  let '(vh, vr, ch, cr) := if uninit then (ih, 0, 0, 0) else (vh0, vr0, ch0, cr0) in
  let log1 := if uninit then log ++ [WNhr (ih, 0, 0, 0)] else log in
  let e := rs_entry (sr_rounds st) ch cr in
  let committing_proof :=
    match rs_get (sr_rounds st) ch cr with
    | Some e => match re_pc e with
                | Some (pkh, entries) => mk_cproof cr pkh entries
                | None => mk_cproof cr [] []
                end
    | None => mk_cproof 0 [] []
    end in
  bind
    (if ih <=? ch then
       bind (if ch =? ih then Ok ivs
             else match hdr_get (sr_hdrs st) (ch - 1) with
                  | Some (x, _) => Ok (hd_next x)
                  | None => Panic "loadInitialCommittingView: committed header below the committing height is missing"
                  end) (fun vs =>
       bind (load_initial_view_r (sr_rounds st) (sr_replayed st) ch cr vs) (fun v0 =>
       match v_pc v0 with
       | [] => Panic "loadInitialCommittingView: BUG: loading commit view from disk without any precommits"
       | _ =>
         bind (if ih <? ch then
                 match hdr_get (sr_hdrs st) (ch - 1) with
                 | Some (_, cp) => Ok cp
                 | None => Panic "error: failed to load committed header for previous commit proof"
                 end
               else Ok empty_cproof) (fun pcp =>
         let v := bump (with_pcp v0 pcp) in
         match hdr_get (sr_hdrs st) ch with
         | Some (x, _) => Ok (v, Some x)
         | None => Panic "error: failed to load committing header"
         end)
       end))
     else Ok (mk_view ch cr empty_valset [] [] [] empty_cproof new_summary 0, None)) (fun cc =>
  let '(com, chdr) := cc in
  bind (if vh =? ih then Ok ivs
        else match chdr with
             | Some x => match vs_keys (hd_next x) with
                         | [] => Panic "loadInitialVotingView: BUG: no validators available"
                         | _ => Ok (hd_next x)
                         end
             | None => Panic "loadInitialVotingView: BUG: no validators available"
             end) (fun vs =>
  bind (load_initial_view_r (sr_rounds st) (sr_replayed st) vh vr vs) (fun vot0 =>
  bind (load_initial_view_r (sr_rounds st) (sr_replayed st) vh (wrap32 (vr + 1)) vs) (fun nxt0 =>
  let vot := bump (with_pcp vot0 committing_proof) in
  let nxt := bump (with_pcp nxt0 committing_proof) in
  (* the managers take their copies when the views are loaded, BEFORE the previous commit proofs
     are attached to the views (kernel.go: Mark*ViewUpdated precedes the PrevCommitProof assignment) *)
  let evs := (match chdr with Some _ => [EvMark ViewIDCommitting (with_pcp com empty_cproof)] | None => [] end)
             ++ [EvMark ViewIDVoting (bump vot0); EvMark ViewIDNextRound (bump nxt0)] in
  let s0 := mk_k ih ivs com vot nxt chdr (if uninit then (ih, 0, 0, 0) else sr_nhr st) (sr_hdrs st) (sr_rounds st) (sr_replayed st) vals log1 evs in
  bind (recheck_view_shifts s0) (fun s1 => Ok (update_observers s1)))))).

(** * Replayed headers (handleReplayedHeader); result 0 = accepted, 1 = out of sync,
    2 = validation error.  An internal error makes the kernel main loop panic. *)
Fixpoint jump_until (fuel : nat) (s : kstate) (r : N) : kstate :=
  match fuel with
  | O => s
  | S f => if v_r (k_vot s) <? r then jump_until f (jump_voting_round s) r else s
  end.

Definition chdr_hash (s : kstate) : bytes := match k_chdr s with Some c => hd_hash c | None => [] end.

Definition handle_replay (s0 : kstate) (hd : hdr) (cp : cproof) : res (kstate * N) :=
  if negb (hd_height hd =? v_h (k_vot s0)) then Ok (s0, 1)
  else if cp_round cp <? v_r (k_vot s0) then Panic "handleReplayedHeader: TODO: handle replay for earlier round"
  else
  (* [s]: the mirror moved to the replayed round. The header and its proof are validated first (against the
     precommits already held for that round, which are those of the jumped voting view); a replay that is
     rejected leaves the mirror as it was ([s0]), only a valid one is applied to [s]. *)
  let s := jump_until (N.to_nat (cp_round cp - v_r (k_vot s0))) s0 (cp_round cp) in
  let h := hd_height hd in let r := cp_round cp in
  (* the Go loop ends exactly at the replayed round and a round jump keeps the height; the model's
     fuel is enough for that in every reachable state (Proofs/MirrorChain.v: replay_reaches_round) *)
  if negb ((v_r (k_vot s) =? r) && (v_h (k_vot s) =? h)) then Panic "model: out of fuel in the replay round jump" else
  if negb (hd_ok hd) then Ok (s0, 2)
  else if negb (h =? k_init_h s) && negb (bytes_eqb (hd_prev hd) (chdr_hash s)) then Ok (s0, 2)
  else if negb (valset_equal (hd_vals hd) (v_vals (k_vot s)) && vs_ok (hd_vals hd)) then Ok (s0, 2)
  else if negb (vs_ok (hd_next hd)) then Ok (s0, 2)
  else
  let '(temp, allv) :=
    fold_left (fun acc e =>
      let '(tm, av) := acc in
      let base := match pm_get (v_pc (k_vot s)) (fst e) with Some p => p | None => [] end in
      let '(p', a, _) := merge_sparse KPrecommit h r (fst e) (vs_keys (hd_vals hd)) base (snd e) in
      (pm_set tm (fst e) p', av && a)) (signed_entries (cp_proofs cp)) ([], true) in
  if negb allv then Ok (s0, 2) else
  match pm_get temp (hd_hash hd) with
  | None => Ok (s0, 2)
  | Some hp =>
      bind (byz_majority (sm_avail (v_sum (k_vot s)))) (fun maj =>
      if proof_power (vs_pows (hd_vals hd)) hp <? maj then Ok (s0, 2) else
      bind
        (if existsb (fun p => bytes_eqb (hd_hash (ph_hdr p)) (hd_hash hd)) (v_phs (k_vot s)) then Ok s
         else if existsb (fun x => let '(h', _, e) := x in
                                   (h' =? h) && existsb (fun p => bytes_eqb (hd_hash (ph_hdr p)) (hd_hash hd)) (re_phs e))
                         (st_rounds s)
         then
           (* the round store already holds the header as a proposed header of another round of this height and
              refuses it as a replayed header: it is filed as a (keyless) proposed header of the replayed round *)
           let s1 := log_w (set_rounds s (rs_save_ph (st_rounds s) (fake_ph hd r))) (WPH (fake_ph hd r)) in
           Ok (set_vot s1 (with_phs (k_vot s1) (v_phs (k_vot s1) ++ [fake_ph hd r])))
         else
           let s1 := log_w (set_replayed s (st_replayed s ++ [hd])) (WReplay hd) in
           Ok (set_vot s1 (with_phs (k_vot s1) (v_phs (k_vot s1) ++ [fake_ph hd r])))) (fun s1 =>
      let v := k_vot s1 in
      let pc' := fold_left (fun m e => pm_set m (fst e) (snd e)) temp (v_pc v) in
      let v1 := with_pc v pc' in
      (* the voting view gained a header and precommits: version bump and mark, like any other change *)
      let v2 := bump (with_sum v1 (sum_set_precommits (v_sum v1) (vs_pows (v_vals v1)) pc')) in
      let coll := map_to_sparse (vs_pkh (v_vals v2)) pc' in
      let s2 := ev_w (log_w (set_rounds (set_vot s1 v2) (rs_overwrite_pc (st_rounds s1) h r coll)) (WPC h r coll))
                     (EvMark ViewIDVoting v2) in
      bind (check_voting_precommit_shift s2) (fun s3 => Ok (s3, 0))))
  end.

(** * Operations and runs *)
Inductive op :=
| OpPH (p : ph)
| OpPrevote (m : vmsg)
| OpPrecommit (m : vmsg)
| OpReplay (x : hdr) (cp : cproof).

Definition step (s : kstate) (o : op) : res (kstate * N) :=
  match o with
  | OpPH p => handle_ph s p
  | OpPrevote m => handle_votes KPrevote s m
  | OpPrecommit m => handle_votes KPrecommit s m
  | OpReplay x cp => handle_replay s x cp
  end.

(** An operation with a crash: only the first [k] store writes of the operation land, then the
    process stops and the mirror is started again on the stores as they are. *)
Inductive xop :=
| XOp (o : op)
| XCrash (k : nat) (o : op)
| XRestart.

Definition xstep (s : kstate) (x : xop) : res (kstate * N) :=
  match x with
  | XOp o => step s o
  | XRestart =>
      bind (restart (k_init_h s) (k_init_vs s) (stores_of s) (st_vals s) (st_log s)) (fun s' => Ok (s', 0))
  | XCrash k o =>
      bind (step s o) (fun sr =>
      let new := firstn k (skipn (List.length (st_log s)) (st_log (fst sr))) in
      let st := fold_left apply_wr new (stores_of s) in
      bind (restart (k_init_h s) (k_init_vs s) st (st_vals s) (st_log s ++ new)) (fun s' => Ok (s', snd sr)))
  end.
