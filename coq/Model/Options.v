(** Executable model of tmengine.New / tmengine.NewMirror as a fold of the EXTRACTED option table over a
    configuration, followed by the extracted validation list.  One Go branch = one model branch, including the
    nil dereferences (Panic sites).  No proofs in this file. *)
From Coq Require Import List String Bool.
From GV Require Import Model.OptTypes.
Import ListNotations.
Local Open Scope string_scope.

(** Value handed to an option constructor (With*(v)):
    [VNil] the nil value of the parameter type; [VSet] a working value;
    [VBad] a value the option's own check rejects (a buffered lag-state channel, a metrics channel with queued
    items) -- behaves as [VSet] for options without a check; [VEmpty] a non-nil genesis with no validators
    (behaves as [VSet] for every other option). *)
Inductive argval := VNil | VSet | VBad | VEmpty.

Inductive status := SNil | SSet | SEmpty.

Definition arg_status (a : argval) : status :=
  match a with VNil => SNil | VEmpty => SEmpty | _ => SSet end.

Definition is_bad (a : argval) : bool := match a with VBad => true | _ => false end.

(** configuration = status of every field path; Go zero value = [SNil] *)
Definition cfg := string -> status.
Definition cfg0 : cfg := fun _ => SNil.
Definition set (f : string) (s : status) (c : cfg) : cfg := fun g => if String.eqb g f then s else c g.

Definition target_nil (smc_nil : bool) (t : target) : bool :=
  match t with TEngine => false | TSmc => smc_nil end.

Inductive opt_result := ORPanic (site : string) | ORErr | OROk (c : cfg).

(** the writes of one option closure, in order *)
Fixpoint apply_writes (smc_nil : bool) (name : string) (s : status) (ws : list write) (c : cfg) : opt_result :=
  match ws with
  | [] => OROk c
  | w :: t =>
    let skipped := match w_guard w with Some g => target_nil smc_nil g | None => false end in
    if skipped then apply_writes smc_nil name s t c
    else if target_nil smc_nil (w_target w) then ORPanic ("nil dereference of smc in " ++ name ++ " writing " ++ w_field w)
    else apply_writes smc_nil name s t (set (w_field w) s c)
  end.

Definition apply_opt (smc_nil : bool) (o : optinfo) (a : argval) (c : cfg) : opt_result :=
  if o_can_err o && is_bad a then ORErr
  else apply_writes smc_nil (o_name o) (arg_status a) (o_writes o) c.

Definition find_opt (n : string) (table : list optinfo) : option optinfo :=
  find (fun o => String.eqb (o_name o) n) table.

Inductive fold_result := FPanic (site : string) | FOk (c : cfg) (errs : list string).

(** the option loop: [err = errors.Join(err, opt(e, smc))] (accumulating) or [err = errors.Join(opt(e, smc))]
    (each iteration overwrites, a succeeding option resets err to nil) *)
Fixpoint apply_opts (smc_nil acc : bool) (table : list optinfo) (opts : list (string * argval)) (c : cfg)
         (errs : list string) : fold_result :=
  match opts with
  | [] => FOk c errs
  | (n, a) :: t =>
    match find_opt n table with
    | None => apply_opts smc_nil acc table t c errs
    | Some o =>
      match apply_opt smc_nil o a c with
      | ORPanic s => FPanic s
      | ORErr => apply_opts smc_nil acc table t c (if acc then errs ++ [n] else [n])
      | OROk c' => apply_opts smc_nil acc table t c' (if acc then errs else [])
      end
    end
  end.

Inductive dres := DPanic (site : string) | DOk (c : cfg).

Fixpoint apply_derived (chain_init : bool) (ds : list derived) (c : cfg) : dres :=
  match ds with
  | [] => DOk c
  | d :: t =>
    match c (d_src d) with
    | SNil => if d_guarded d then apply_derived chain_init t c
              else DPanic ("nil dereference of " ++ d_src d)
    | s => apply_derived chain_init t (set (d_dst d) (if d_uninit_only d && chain_init then SSet else s) c)
    end
  end.

Fixpoint eval_cond (c : cfg) (k : cond) : bool :=
  match k with
  | CNil f => match c f with SNil => true | _ => false end
  | CNotNil f => match c f with SNil => false | _ => true end
  | CEmpty f => match c f with SSet => false | _ => true end
  | CAnd a b => eval_cond c a && eval_cond c b
  end.

Definition failing (c : cfg) (checks : list vcheck) : list string :=
  flat_map (fun v => if eval_cond c (v_cond v) then [v_option v] else []) checks.

Inductive outcome :=
| CPanic (site : string)
| CError (reported : list string)      (* an error whose text names these options, in order *)
| CRunning (c : cfg).

(** [chain_init]: the mirror store already holds a network height (no InitChain request needed). *)
Definition run_ctor (k : ctor) (table : list optinfo) (chain_init : bool) (opts : list (string * argval)) : outcome :=
  match apply_opts (c_smc_nil k) (c_accumulates k) table opts cfg0 [] with
  | FPanic s => CPanic s
  | FOk c errs =>
    match errs with
    | _ :: _ => CError errs
    | [] =>
      match apply_derived chain_init (c_derived k) c with
      | DPanic s => CPanic s
      | DOk c' =>
        match failing c' (c_checks k) with
        | (_ :: _) as rep => CError rep
        | [] =>
          match (if chain_init then [] else failing c' (c_late_checks k)) with
          | n :: _ => CError [n]
          | [] =>
            match failing c' (c_final_checks k) with
            | n :: _ => CError [n]
            | [] => if existsb (eval_cond c') (c_sink_panics k)
                    then CPanic "tmi.NewKernel: initial validator set is empty"
                    else CRunning c'
            end
          end
        end
      end
    end
  end.

(** projected observable, compared with the real constructor:
    0 = panic, 1 = error (with the reported option names), 2 = running instance *)
Definition obs_of (o : outcome) : nat * list string :=
  match o with CPanic _ => (0, []) | CError r => (1, r) | CRunning _ => (2, []) end.
