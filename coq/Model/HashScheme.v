(** Model of tm/tmconsensus/tmconsensustest/simplehashscheme.go (SimpleHashScheme):
    the exact byte strings fed to BLAKE2b-256 by Block, PubKeys and VotePowers.
    Executable definitions only; the hash function itself is a Section variable (nothing assumed). *)
From Coq Require Import List NArith String Bool.
From GV Require Import Base.Ints Model.TextFmt.
Import ListNotations.
Local Open Scope N_scope.
Local Open Scope string_scope.

(** gcrypto.SparseSignature *)
Record sparse_sig := { ss_keyid : list N; ss_sig : list N }.

(** tmconsensus.CommitProof; [cp_proofs] is the Go map keyed by block hash ("" = nil block)
    as an association list (unique keys). A nil and an empty map / slice are the same list. *)
Record commit_proof := {
  cp_round : N;
  cp_pubkeyhash : list N;
  cp_proofs : list (list N * list sparse_sig)
}.

(** tmconsensus.ValidatorSet. Only the two hashes reach the block hash; the validator list
    itself ([vs_validators]: public key bytes and power) is carried so that theorems can say so. *)
Record valset := {
  vs_validators : list (list N * N);
  vs_pubkeyhash : list N;
  vs_votepowerhash : list N
}.

(** tmconsensus.Annotations: nil ([None]) and empty ([Some []]) are distinguished by the Go code. *)
Record annotations := { an_user : option (list N); an_driver : option (list N) }.

(** tmconsensus.Header *)
Record header := {
  h_hash : list N;
  h_prev_block_hash : list N;
  h_height : N;
  h_prev_commit_proof : commit_proof;
  h_valset : valset;
  h_next_valset : valset;
  h_data_id : list N;
  h_prev_app_state_hash : list N;
  h_annotations : annotations
}.

(** Block(): blockKey for one map key. *)
Definition fmt_block_key (bh : list N) : list N :=
  match bh with [] => s2b "<nil>" | _ :: _ => hex bh end.

(** Block(): fmt.Sprintf("%x:%x", sig.KeyID, sig.Sig) *)
Definition fmt_sig (s : sparse_sig) : list N := hex (ss_keyid s) ++ s2b ":" ++ hex (ss_sig s).

Definition or_nil {A} (o : option (list A)) : list A := match o with Some l => l | None => [] end.

(** Block(): the value of [sigs] for one sorted, formatted block key.
    The Go code records [rawKeys[blockKey] = bh] while collecting the keys and reads
    [h.PrevCommitProof.Proofs[rawKeys[blockHash]]]; a missing map key reads the zero value. *)
Definition commit_entry_sigs (proofs : list (list N * list sparse_sig)) (text : list N) : list sparse_sig :=
  let raw_keys := map (fun e => (fmt_block_key (fst e), fst e)) proofs in
  or_nil (alookup (or_nil (alookup text raw_keys)) proofs).

(** Block(): one "key => (sig, sig)" group. *)
Definition render_commit_entry (proofs : list (list N * list sparse_sig)) (text : list N) : list N :=
  text ++ s2b " => (" ++
  join (s2b ", ") (sort_strings (map fmt_sig (commit_entry_sigs proofs text))) ++ s2b ")".

(** Block(): the string [prevCommitSignatures]. *)
Definition ser_commit_sigs (proofs : list (list N * list sparse_sig)) : list N :=
  let texts := sort_strings (map (fun e => fmt_block_key (fst e)) proofs) in
  join (s2b ", ") (map (render_commit_entry proofs) texts).

Definition ser_annotation (label : string) (a : option (list N)) : list N :=
  match a with
  | Some v => s2b label ++ hex v ++ nl
  | None => []
  end.

(** Block(): everything written to the hasher. [h_hash] and the validator lists do not occur. *)
Definition ser_header (h : header) : list N :=
  let p := h_prev_commit_proof h in
  s2b "BLOCK" ++ nl ++
  s2b "PrevBlockHash: " ++ hex (h_prev_block_hash h) ++ nl ++
  s2b "Height: " ++ dec (h_height h) ++ nl ++
  s2b "PrevCommitProof:" ++ nl ++
  s2b "  Round: " ++ dec (cp_round p) ++ nl ++
  s2b "  PubKeyHash: " ++ hex (cp_pubkeyhash p) ++ nl ++
  s2b "  Signatures: " ++ ser_commit_sigs (cp_proofs p) ++ nl ++
  s2b "ValidatorSet: " ++ hex (vs_pubkeyhash (h_valset h)) ++ s2b "." ++ hex (vs_votepowerhash (h_valset h)) ++ nl ++
  s2b "NextValidatorSet: " ++ hex (vs_pubkeyhash (h_next_valset h)) ++ s2b "." ++ hex (vs_votepowerhash (h_next_valset h)) ++ nl ++
  s2b "DataID: " ++ hex (h_data_id h) ++ nl ++
  s2b "PrevAppStateHash: " ++ hex (h_prev_app_state_hash h) ++ nl ++
  ser_annotation "UserAnnotation: " (an_user (h_annotations h)) ++
  ser_annotation "DriverAnnotation: " (an_driver (h_annotations h)).

(** PubKeys(): panics on zero keys, else hex keys separated by newlines. *)
Definition ser_pubkeys (keys : list (list N)) : res (list N) :=
  match keys with
  | [] => Panic "simplehashscheme.go:PubKeys:zero keys"
  | _ :: _ => Ok (join nl (map hex keys))
  end.

(** VotePowers(): panics on zero powers, else decimal powers separated by commas. *)
Definition ser_votepowers (pows : list N) : res (list N) :=
  match pows with
  | [] => Panic "simplehashscheme.go:VotePowers:zero powers"
  | _ :: _ => Ok (join (s2b ",") (map dec pows))
  end.

Section Hash.
  (** BLAKE2b-256; uninterpreted. *)
  Variable H : list N -> list N.

  Definition block_hash (h : header) : list N := H (ser_header h).
  Definition pubkeys_hash (keys : list (list N)) : res (list N) := bind (ser_pubkeys keys) (fun s => Ok (H s)).
  Definition votepowers_hash (pows : list N) : res (list N) := bind (ser_votepowers pows) (fun s => Ok (H s)).
End Hash.
