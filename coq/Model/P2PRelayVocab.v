(** C20 vocabulary shared by the generated structure data (Gen/RelaySwap.v), the model and the monitors.
    No proofs, no dependency on Gen/. *)
From Coq Require Import List Bool.
Import ListNotations.

(** Which validator a [RegisterTopicValidator] call installs:
    [VIgnoreAll]  = ignoreMessage;
    [VWrapReq]    = c.libp2pConsensusMessageValidator(req.Handler), a closure over the requested handler;
    [VDispatch]   = c.consensusValidator, the fixed validator reading the atomically swapped handler cell. *)
Inductive vkind := VIgnoreAll | VWrapReq | VDispatch.

(** The calls of tmlibp2p.Connection that touch the topic-validator registry / subscription / handler cell. *)
Inductive reg_op :=
| OpSubscribe                (* consensusTopic.Subscribe() *)
| OpUnregister               (* PubSub().UnregisterTopicValidator(topicConsensus) *)
| OpRegister (v : vkind)     (* PubSub().RegisterTopicValidator(topicConsensus, v) *)
| OpStoreHandler.            (* c.consensusHandler.Store(&req.Handler) *)

Definition vkind_eqb (a b : vkind) : bool :=
  match a, b with
  | VIgnoreAll, VIgnoreAll | VWrapReq, VWrapReq | VDispatch, VDispatch => true
  | _, _ => false
  end.

Definition is_store (o : reg_op) : bool := match o with OpStoreHandler => true | _ => false end.
