(** Executable model of gcrypto Registry.Unmarshal: length guard (extracted), the two prefix slices with Go's
    slice-bounds panics, prefix lookup, delegation to the registered constructor.  No proofs. *)
From Coq Require Import List NArith ZArith String Bool.
From GV Require Import Base.Ints.
Import ListNotations.
Local Open Scope Z_scope.

Fixpoint drop_zeros (l : list N) : list N :=
  match l with
  | x :: t => if N.eqb x 0 then drop_zeros t else l
  | [] => []
  end.

(** bytes.TrimRight(p, "\x00") *)
Definition trim_right_zeros (l : list N) : list N := rev (drop_zeros (rev l)).

Inductive uout :=
| UErrShort                       (* error: fewer bytes than the prefix *)
| UErrUnknown                     (* error: no registered type for the prefix *)
| UDelegate (prefix rest : list N). (* fn(b[prefixSize:]) of the registered type *)

Definition blen (b : list N) : Z := Z.of_nat (List.length b).

Definition unmarshal (guard : option Z) (psize : Z) (known : list (list N)) (b : list N) : res uout :=
  if (match guard with Some g => blen b <? g | None => false end) then Ok UErrShort
  else
    bind (slice_bytes b 0 psize "Registry.Unmarshal:b[:prefixSize]") (fun p =>
      let prefix := trim_right_zeros p in
      if existsb (bytes_eqb prefix) known
      then bind (slice_bytes b psize (blen b) "Registry.Unmarshal:b[prefixSize:]") (fun rest => Ok (UDelegate prefix rest))
      else Ok UErrUnknown).

(** projected observable: 0 panic, 1 error, 2 delegated (with the length of the key bytes handed on) *)
Definition uobs (r : res uout) : N * N :=
  match r with
  | Panic _ => (0, 0)%N
  | Ok (UDelegate _ rest) => (2, N.of_nat (List.length rest))%N
  | Ok _ => (1, 0)%N
  end.
