(** Executable model of the combinatorial-number-system index used for finalized
    BLS proofs: gcrypto/gblsminsig/signatureproofscheme.go, functions
    calculateCombinationIndex (323), decodeCombinationIndex (568),
    binomialCoefficient (654).  Definitions only; the proofs are in Proofs/CombIndex.v. *)
From Coq Require Import List NArith ZArith String Bool.
From GV Require Import Base.Ints.
Import ListNotations.
Local Open Scope N_scope.

(** * Binomial coefficient (trusted math/big.Binomial), by Pascal rows. *)
Fixpoint zipadd (a b : list N) : list N :=
  match a, b with
  | x :: a', y :: b' => (x + y) :: zipadd a' b'
  | _, _ => []
  end.

Fixpoint prow (m : nat) : list N :=
  match m with
  | O => [1]
  | S m' => let r := prow m' in zipadd (0 :: r) (r ++ [0])
  end.

Definition binom (n k : N) : N := nth (N.to_nat k) (prow (N.to_nat n)) 0.

(** binomialCoefficient(n, k, out): panics when k > n; the two early returns
    (k = 0, k = n) agree with the binomial coefficient. *)
Definition binom_chk (n k : Z) : res N :=
  if (k >? n)%Z then Panic "binomialCoefficient:658"
  else Ok (binom (Z.to_N n) (Z.to_N k)).

(** * calculateCombinationIndex *)

(** Inner loop [for j := prev+1; j < i; j++]: [cnt] iterations starting at [j];
    [km1] is remainingPositions = k - 1. *)
Fixpoint gap_sum (n km1 : Z) (j : Z) (cnt : nat) (out : N) : res N :=
  match cnt with
  | O => Ok out
  | S c =>
    bind (binom_chk (n - j - 1) km1) (fun s => gap_sum n km1 (j + 1) c (out + s))
  end.

(** Outer loop over the visited set bits [l] (ascending, all < nKeys). *)
Fixpoint encode_loop (n : Z) (prev k : Z) (out : N) (l : list Z) : res N :=
  match l with
  | [] => Ok out
  | i :: l' =>
    bind (gap_sum n (k - 1) (prev + 1) (Z.to_nat (i - (prev + 1))) out)
         (fun out' => encode_loop n i (k - 1) out' l')
  end.

(** [k] is the initial bs.Count(); [l] the visited bit positions. *)
Definition encode (n : Z) (k : Z) (l : list Z) : res N :=
  encode_loop n (-1) k 0 l.

(** * decodeCombinationIndex *)

(** Inner loop [for curr < nKeys && remaining >= scratch]; returns (curr, remaining). *)
Fixpoint dec_inner (n rp : Z) (fuel : nat) (curr : Z) (rem scratch : N) : res (Z * N) :=
  match fuel with
  | O => Panic "decode:fuel"
  | S f =>
    if ((curr <? n)%Z && (scratch <=? rem))%bool then
      let rem' := rem - scratch in
      let curr' := (curr + 1)%Z in
      if (curr' <? n)%Z then
        bind (binom_chk (n - curr' - 1) (rp - 1)) (fun s => dec_inner n rp f curr' rem' s)
      else dec_inner n rp f curr' rem' scratch
    else Ok (curr, rem)
  end.

(** Outer loop [for remainingPositions > 0]; [out] is the bit mask being built. *)
Fixpoint dec_outer (n : Z) (fuel : nat) (curr rp : Z) (rem out : N) : res N :=
  match fuel with
  | O => Panic "decode:fuel"
  | S f =>
    if (0 <? rp)%Z then
      bind (binom_chk (n - curr - 1) (rp - 1)) (fun scratch =>
      bind (dec_inner n rp (S (Z.to_nat (n - curr))) curr rem scratch) (fun cr =>
        let '(curr', rem') := cr in
        if (curr' <? n)%Z then
          dec_outer n f (curr' + 1) (rp - 1) rem' (N.setbit out (Z.to_N curr'))
        else dec_outer n f curr' rp rem' out))
    else Ok out
  end.

Definition decode (n k : Z) (idx : N) : res N :=
  if (k =? 0)%Z then Panic "decodeCombinationIndex:571"
  else dec_outer n (S (S (Z.to_nat k))) 0 k idx 0.

(** * Bit masks and position lists *)
Fixpoint mask_of (l : list Z) : N :=
  match l with
  | [] => 0
  | i :: l' => N.setbit (mask_of l') (Z.to_N i)
  end.

Fixpoint zrange (lo : Z) (cnt : nat) : list Z :=
  match cnt with
  | O => []
  | S c => lo :: zrange (lo + 1) c
  end.

(** Ascending positions i in [0,n) with bit i of [b] set: what the
    [bs.NextSet] loop bounded by [int(u) < nKeys] visits. *)
Definition positions (n : Z) (b : N) : list Z :=
  filter (fun i => N.testbit b (Z.to_N i)) (zrange 0 (Z.to_nat n)).

(** bs.Count(): all set bits, including those at or above nKeys. *)
Definition popcountZ (b : N) : Z :=
  Z.of_nat (List.length (positions (Z.of_N (N.size b)) b)).

(** calculateCombinationIndex on a bit set given as a mask. *)
Definition encode_mask (n : Z) (b : N) : res N :=
  encode n (popcountZ b) (positions n b).
