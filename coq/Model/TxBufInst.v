(** Concrete state/transaction semantics used by the C19 correspondence run.  The SAME
    semantics is implemented in Go in harness/c19/main.go (applyTx / deleterFor); it is a test
    fixture (the user-supplied functions of gtxbuf.New), not code under verification.

    State  = list of account balances.      Transaction = (kind, a, b, v).
      kind 0  Dec a v    : needs bal[a] >= v                       else invalid 1
      kind 1  Inc a v    : needs bal[a] + v <= cap                 else invalid 2
      kind 2  Xfer a b v : needs a <> b, bal[a] >= v, bal[b]+v<=cap else invalid 3
      kind 3  Seq a v    : needs bal[a] = v and v < cap; sets v+1  else invalid 4   (nonce-like)
      kind 4  Trap a v   : FATAL 100+v when bal[a] = v, otherwise a no-op that succeeds
      kind 5  Noop       : always succeeds
      other              : FATAL 99
    An account index outside the state is invalid 7 (kinds 0-4).
    Duplicated transaction values are allowed and common. *)
From Coq Require Import List NArith Bool.
From GV Require Import Model.TxBuf.
Import ListNotations.
Local Open Scope N_scope.

Definition tx : Type := (N * N * N * N)%type.
Definition st : Type := list N.

Definition tx_eqb (x y : tx) : bool :=
  let '(k1, a1, b1, v1) := x in let '(k2, a2, b2, v2) := y in
  (k1 =? k2) && (a1 =? a2) && (b1 =? b2) && (v1 =? v2).

Fixpoint getn (s : st) (i : nat) : option N :=
  match s, i with
  | [], _ => None
  | x :: _, O => Some x
  | _ :: r, Datatypes.S j => getn r j
  end.

Fixpoint setn (s : st) (i : nat) (v : N) : st :=
  match s, i with
  | [], _ => []
  | _ :: r, O => v :: r
  | x :: r, Datatypes.S j => x :: setn r j v
  end.

Definition get (s : st) (a : N) : option N := getn s (N.to_nat a).
Definition set (s : st) (a : N) (v : N) : st := setn s (N.to_nat a) v.

Definition apply_inst (cap : N) (s : st) (t : tx) : ares st :=
  let '(k, a, b, v) := t in
  if k =? 5 then AOk s else
  if 6 <=? k then AFatal 99 else
  match get s a with
  | None => AInvalid 7
  | Some ba =>
      if k =? 0 then (if v <=? ba then AOk (set s a (ba - v)) else AInvalid 1) else
      if k =? 1 then (if ba + v <=? cap then AOk (set s a (ba + v)) else AInvalid 2) else
      if k =? 2 then
        match get s b with
        | None => AInvalid 7
        | Some bb =>
            if (negb (a =? b)) && (v <=? ba) && (bb + v <=? cap)
            then AOk (set (set s a (ba - v)) b (bb + v)) else AInvalid 3
        end else
      if k =? 3 then (if (ba =? v) && (v <? cap) then AOk (set s a (v + 1)) else AInvalid 4) else
      (* k = 4 *) (if ba =? v then AFatal (100 + v) else AOk s)
  end.

(** Deleter modes: 0 = member of the reject list by value (the documented typical deleter);
    1 = same (kind, a) as some rejected transaction (a coarser identity); 2 = never deletes. *)
Definition deleter_inst (mode : N) (reject : list tx) (t : tx) : bool :=
  if mode =? 0 then existsb (tx_eqb t) reject else
  if mode =? 1 then
    existsb (fun r => let '(k1, a1, _, _) := r in let '(k2, a2, _, _) := t in (k1 =? k2) && (a1 =? a2)) reject
  else false.

Definition st_eqb (x y : st) : bool :=
  (fix go (x y : st) : bool :=
     match x, y with
     | [], [] => true
     | p :: x', q :: y' => (p =? q) && go x' y'
     | _, _ => false
     end) x y.

Fixpoint txs_eqb (x y : list tx) : bool :=
  match x, y with
  | [], [] => true
  | p :: x', q :: y' => tx_eqb p q && txs_eqb x' y'
  | _, _ => false
  end.
