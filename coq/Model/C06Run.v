(** C06: the model's observation for one case, and the comparison with the implementation's
    observation.  These are the functions the correspondence step of checks/c06.py evaluates
    (vm_compute inside coqc) and the ones the theorems of Properties/C06.v speak about.
    Definitions only. *)
From Coq Require Import List NArith Bool String.
From GV Require Import Base.Ints Gen.Math Gen.Step Model.VoteSummary Monitors.C06m.
Import ListNotations.
Local Open Scope N_scope.

(** The record GetStepFromVoteSummary was translated against. *)
Definition to_gen (s : vote_summary) : vsum :=
  mk_vsum (vs_available s) (vs_total_prevote s) (vs_total_precommit s)
          (vs_prevote_block s) (vs_precommit_block s) (vs_most_prevote s) (vs_most_precommit s).

Definition res_to_option {A} (r : res A) : option A := match r with Ok a => Some a | Panic _ => None end.

Definition model_step (s : vote_summary) : option N := res_to_option (get_step (to_gen s)).

Definition model_obs (vals : list N) (pv pc : list entry) : obs :=
  let s := summarize vals pv pc in
  mk_obs (vs_available s) (vs_total_prevote s) (vs_total_precommit s)
         (vs_prevote_block s) (vs_precommit_block s) (vs_most_prevote s) (vs_most_precommit s)
         (model_step s).

(** Go maps are compared as finite maps (the implementation side is printed with unique keys). *)
Definition map_equiv (impl model : list (hash * N)) : bool :=
  (N.of_nat (List.length impl) =? N.of_nat (List.length model)) &&
  nodup_keys impl &&
  forallb (fun kv => mem_key (fst kv) model && (map_get model (fst kv) =? snd kv)) impl.

Definition opt_eqb (a b : option N) : bool :=
  match a, b with Some x, Some y => x =? y | None, None => true | _, _ => false end.

Definition obs_eqb (impl model : obs) : bool :=
  (o_available impl =? o_available model) &&
  (o_total_prevote impl =? o_total_prevote model) &&
  (o_total_precommit impl =? o_total_precommit model) &&
  map_equiv (o_prevote_block impl) (o_prevote_block model) &&
  map_equiv (o_precommit_block impl) (o_precommit_block model) &&
  bytes_eqb (o_most_prevote impl) (o_most_prevote model) &&
  bytes_eqb (o_most_precommit impl) (o_most_precommit model) &&
  opt_eqb (o_step impl) (o_step model).

Definition dist_obs := (N * N * list (hash * N))%type.

Definition dist_eqb (impl : dist_obs) (vals : list N) (entries : list entry) : bool :=
  let d := vote_distribution vals entries in
  let '(a, p, b) := impl in
  (a =? d_available d) && (p =? d_present d) && map_equiv b (d_block d).

Record case := mk_case {
  c_id : N; c_vals : list N; c_pv : list entry; c_pc : list entry;
  c_obs : obs; c_dpv : dist_obs; c_dpc : dist_obs }.

(** Correspondence: implementation = model (also with the entries in reverse iteration order). *)
Definition corr_ok (c : case) : bool :=
  obs_eqb (c_obs c) (model_obs (c_vals c) (c_pv c) (c_pc c)) &&
  obs_eqb (c_obs c) (model_obs (c_vals c) (rev (c_pv c)) (rev (c_pc c))) &&
  dist_eqb (c_dpv c) (c_vals c) (c_pv c) && dist_eqb (c_dpc c) (c_vals c) (c_pc c) &&
  dist_eqb (c_dpv c) (c_vals c) (rev (c_pv c)).

(** Monitors on the implementation's observation. *)
Definition impl_mon_ok (c : case) : bool :=
  c06_mon (c_vals c) (c_pv c) (c_pc c) (c_obs c) &&
  c06_minority_mon (c_vals c) (c_pv c) (c_pc c) (c_obs c) &&
  (let '(a, p, b) := c_dpv c in dist_mon (c_vals c) (c_pv c) a p b) &&
  (let '(a, p, b) := c_dpc c in dist_mon (c_vals c) (c_pc c) a p b).

Definition impl_mon_code (c : case) : N :=
  c06_mon_code (c_vals c) (c_pv c) (c_pc c) (c_obs c) +
  (if c06_minority_mon (c_vals c) (c_pv c) (c_pc c) (c_obs c) then 0 else 256) +
  (if (let '(a, p, b) := c_dpv c in dist_mon (c_vals c) (c_pv c) a p b) then 0 else 512) +
  (if (let '(a, p, b) := c_dpc c in dist_mon (c_vals c) (c_pc c) a p b) then 0 else 1024).

(** Monitors on the model's own observation (proved to hold; evaluated as a cross-check). *)
Definition model_mon_ok (c : case) : bool :=
  let o := model_obs (c_vals c) (c_pv c) (c_pc c) in
  c06_mon (c_vals c) (c_pv c) (c_pc c) o && c06_minority_mon (c_vals c) (c_pv c) (c_pc c) o.

Definition bad_ids (f : case -> bool) (cs : list case) : list N :=
  map c_id (filter (fun c => negb (f c)) cs).
Definition bad_codes (cs : list case) : list (N * N) :=
  map (fun c => (c_id c, impl_mon_code c)) (filter (fun c => negb (impl_mon_ok c)) cs).

(** * Single-message scenarios on the real mirror
    A fresh mirror at height 1 / round 0 receives ONE vote message (prevotes or precommits) for
    round 0 (voting view) or round 1 (next-round view) carrying [entries].  Prediction of the
    voting round afterwards and of the proofs held by the voting view, following
    addPrevote / addPrecommit -> check*ViewShift -> incrementVotingRound (Voting and NextRound swap,
    the new NextRound is cleared).  A majority precommit for a block never commits here because
    no proposed header is known ("stuck in this voting round"). *)
Definition mirror_predict (vals : list N) (is_prevote : bool) (round : N) (entries : list entry)
  : option (N * list entry * list entry) :=
  if is_prevote then
    if round =? 0 then Some (0, entries, [])
    else match prevote_view_shift (summarize vals entries []) with
         | Ok true => Some (1, entries, [])
         | Ok false => Some (0, [], [])
         | Panic _ => None
         end
  else
    if round =? 0 then
      match voting_precommit_view_shift (summarize vals [] entries) with
      | Ok VPNothing | Ok VPCommitBlock => Some (0, [], entries)
      | Ok VPAdvanceFullyVoted | Ok VPAdvanceNil => Some (1, [], [])
      | Panic _ => None
      end
    else
      match next_round_precommit_view_shift (summarize vals [] entries) with
      | Ok NRNothing => Some (0, [], [])
      | Ok NRJump => Some (1, [], entries)
      | Ok NRJumpThenTodoPanic => None
      | Panic _ => None
      end.

Record mcase := mk_mcase {
  mc_id : N; mc_vals : list N; mc_prevote : bool; mc_round : N; mc_entries : list entry;
  mc_res : N; mc_h : N; mc_r : N; mc_obs : obs; mc_pv : list entry; mc_pc : list entry }.

Definition with_step (o : obs) (st : option N) : obs :=
  mk_obs (o_available o) (o_total_prevote o) (o_total_precommit o) (o_prevote_block o) (o_precommit_block o)
         (o_most_prevote o) (o_most_precommit o) st.

Definition mcorr_ok (c : mcase) : bool :=
  match mirror_predict (mc_vals c) (mc_prevote c) (mc_round c) (mc_entries c) with
  | None => false
  | Some (r, pv, pc) =>
      (mc_h c =? 1) && (mc_r c =? r) && map_equiv (mc_pv c) pv && map_equiv (mc_pc c) pc &&
      (let mo := model_obs (mc_vals c) pv pc in obs_eqb (with_step (mc_obs c) (o_step mo)) mo)
  end.

Definition mmon_ok (c : mcase) : bool :=
  c06_sum_mon (mc_vals c) (mc_pv c) (mc_pc c) (mc_obs c) &&
  c06_round_mon (mc_vals c) (mc_entries c) (mc_h c) (mc_r c).

Definition mmon_code (c : mcase) : N :=
  (if c06_sum_mon (mc_vals c) (mc_pv c) (mc_pc c) (mc_obs c) then 0 else 1) +
  (if c06_round_mon (mc_vals c) (mc_entries c) (mc_h c) (mc_r c) then 0 else 2).

Definition mbad_ids (f : mcase -> bool) (cs : list mcase) : list N :=
  map mc_id (filter (fun c => negb (f c)) cs).
Definition mbad_codes (cs : list mcase) : list (N * N) :=
  map (fun c => (mc_id c, mmon_code c)) (filter (fun c => negb (mmon_ok c)) cs).
