(** C14 - executable model of the JSON wire codec:
    tm/tmcodec/tmjson/json.go (intermediate structs + conversions both ways),
    tm/tmcodec/tmjson/codec.go (sparse proofs, consensus message wrapper),
    gcrypto/registry.go (Marshal; Unmarshal is GENERATED into Gen/Registry.v),
    gcrypto/ed25519.go (NewEd25519PubKey accepts every length).
    encoding/json (bytes <-> intermediate structs) is outside the model.
    No proofs in this file. *)
From Coq Require Import List NArith ZArith String Bool.
From GV Require Import Base.Ints Base.GoBytes Gen.Registry Model.CodecTypes.
Import ListNotations.
Local Open Scope string_scope.
Local Open Scope list_scope.
Local Open Scope N_scope.

(** Registry.Register: panics on names longer than prefixSize, later registrations win. *)
Definition reg_register (r : registry) (name : list N) (tid : N) (c : ctor) : res registry :=
  if (prefix_size <? List.length name)%nat then Panic "Registry.Register:name-too-long"
  else Ok (mk_reg ((tid, name) :: by_type r) ((name, c) :: by_prefix r)).

(** Registry.Marshal: panics for a nil key or an unregistered dynamic type. *)
Definition reg_marshal (r : registry) (k : option pubkey) : res (list N) :=
  match k with
  | None => Panic "Registry.Marshal:unregistered(nil)"
  | Some k =>
      match type_find (pk_type k) (by_type r) with
      | None => Panic "Registry.Marshal:unregistered"
      | Some name => Ok (pad_to prefix_size name ++ pk_bytes k)
      end
  end.

(** Registry.Unmarshal: the generated body, instantiated with this registry's byPrefix map.
    Slicing a nil slice behaves as slicing an empty one. *)
Definition reg_unmarshal (r : registry) (b : gbytes) : res (option pubkey) :=
  registry_unmarshal (fun p => option_map apply_ctor (alist_find p (by_prefix r))) (gb2s b).

(** [res (option T)] = Go's (T, error) plus panics: [Ok None] is "returned an error". *)
Definition bindE {A B} (r : res (option A)) (f : A -> res (option B)) : res (option B) :=
  match r with Panic s => Panic s | Ok None => Ok None | Ok (Some a) => f a end.

(** * Encoding direction *)

(** toJSONCommitProof: ranges over the Go map (any order: the order of the association list). *)
Definition entries_of (m : pmap) : list jentry :=
  map (fun kv => mk_jentry (Some (fst kv)) (snd kv)) (pm_list m).
Definition to_json_commit_proof (p : commit_proof) : jcommit_proof :=
  mk_jcommit_proof (cp_round p) (Some (cp_pkh p)) (Some (entries_of (cp_proofs p))).

(** toJSONValidator *)
Definition to_json_validator (r : registry) (v : validator) : res jvalidator :=
  bind (reg_marshal r (v_pub v)) (fun b => Ok (mk_jvalidator (Some b) (v_power v))).

Fixpoint to_json_validators (r : registry) (vs : list validator) : res (list jvalidator) :=
  match vs with
  | [] => Ok []
  | v :: vs' => bind (to_json_validator r v) (fun jv =>
                bind (to_json_validators r vs') (fun jvs => Ok (jv :: jvs)))
  end.

Definition to_json_valset (r : registry) (vs : valset) : res jvalset :=
  bind (to_json_validators r (opt_list (vs_vals vs))) (fun jvs =>
  Ok (mk_jvalset (Some jvs) (vs_pkh vs) (vs_vph vs))).

(** toJSONHeader *)
Definition to_json_header (r : registry) (h : header) : res jheader :=
  bind (to_json_valset r (h_vs h)) (fun jvs =>
  bind (to_json_valset r (h_nvs h)) (fun jnvs =>
  Ok (mk_jheader (h_hash h) (h_prev h) (h_height h) (to_json_commit_proof (h_pcp h))
        jvs jnvs (h_dataid h) (h_pash h) (h_user h) (h_driver h)))).

(** toJSONProposedHeader *)
Definition to_json_proposed (r : registry) (ph : proposed_header) : res jproposed :=
  bind (to_json_header r (ph_header ph)) (fun jh =>
  bind (match ph_pub ph with
        | None => Ok None
        | Some k => bind (reg_marshal r (Some k)) (fun b => Ok (Some b))
        end) (fun pk =>
  Ok (mk_jproposed jh (ph_round ph) pk (ph_sig ph) (ph_user ph) (ph_driver ph)))).

(** toJSONCommittedHeader *)
Definition to_json_committed (r : registry) (ch : committed_header) : res jcommitted :=
  bind (to_json_header r (ch_header ch)) (fun jh =>
  Ok (mk_jcommitted jh (to_json_commit_proof (ch_proof ch)))).

(** slices.SortFunc(.., bytes.Compare on BlockHash), as an insertion sort
    (keys of a Go map are unique, so stability does not matter). *)
Definition je_key (e : jentry) : list N := gb2s (je_hash e).
Fixpoint insert_entry (e : jentry) (l : list jentry) : list jentry :=
  match l with
  | [] => [e]
  | x :: l' => if bytes_ltb (je_key e) (je_key x) then e :: x :: l' else x :: insert_entry e l'
  end.
Definition sort_entries (l : list jentry) : list jentry := fold_right insert_entry [] l.

(** MarshalPrevoteProof / MarshalPrecommitProof up to json.Marshal *)
Definition to_json_sparse (p : sparse_proof) : jsparse :=
  mk_jsparse (sp_height p) (sp_round p) (Some (sp_pkh p)) (Some (sort_entries (entries_of (sp_proofs p)))).

(** MarshalConsensusMessage up to json.Marshal: first non-nil pointer wins. *)
Definition to_json_cmsg (r : registry) (m : cmsg) : res jcmsg :=
  match cm_ph m, cm_pv m, cm_pc m with
  | Some ph, _, _ => bind (to_json_proposed r ph) (fun j => Ok (mk_jcmsg (RawOk j) RawNil RawNil))
  | None, Some p, _ => Ok (mk_jcmsg RawNil (RawOk (to_json_sparse p)) RawNil)
  | None, None, Some p => Ok (mk_jcmsg RawNil RawNil (RawOk (to_json_sparse p)))
  | None, None, None => Ok (mk_jcmsg RawNil RawNil RawNil)
  end.

(** * Decoding direction *)

(** p.Proofs[string(e.BlockHash)] = e.Signatures for each entry, into a fresh map. *)
Definition build_map (es : list jentry) : list (list N * gsigs) :=
  fold_left (fun m e => alist_set m (je_key e) (je_sigs e)) es [].

(** jsonCommitProof.ToCommitProof (never fails) *)
Definition to_commit_proof (j : jcommit_proof) : commit_proof :=
  mk_commit_proof (jcp_round j) (gb2s (jcp_pkh j)) (Some (build_map (opt_list (jcp_commits j)))).

(** jsonValidator.ToValidator *)
Definition to_validator (r : registry) (jv : jvalidator) : res (option validator) :=
  bindE (reg_unmarshal r (jv_pub jv)) (fun k => Ok (Some (mk_validator (Some k) (jv_power jv)))).

(** the two validator loops of ToHeader: the first failure (error or panic) ends the loop *)
Fixpoint to_validators (r : registry) (jvs : list jvalidator) : res (option (list validator)) :=
  match jvs with
  | [] => Ok (Some [])
  | jv :: rest => bindE (to_validator r jv) (fun v =>
                  bindE (to_validators r rest) (fun vs => Ok (Some (v :: vs))))
  end.

Definition to_valset (r : registry) (j : jvalset) : res (option valset) :=
  bindE (to_validators r (opt_list (jvs_vals j))) (fun vs =>
  Ok (Some (mk_valset (Some vs) (Some (map v_pub vs)) (jvs_pkh j) (jvs_vph j)))).

Definition zero_commit_proof : commit_proof := mk_commit_proof 0 [] None.

(** jsonHeader.ToHeader *)
Definition to_header (r : registry) (j : jheader) : res (option header) :=
  bindE (to_valset r (jh_vs j)) (fun vs =>
  bindE (to_valset r (jh_nvs j)) (fun nvs =>
  let proof := match jcp_pkh (jh_pcp j) with
               | None => zero_commit_proof
               | Some _ => to_commit_proof (jh_pcp j)
               end in
  Ok (Some (mk_header (jh_hash j) (jh_prev j) (jh_height j) proof vs nvs
              (jh_dataid j) (jh_pash j) (jh_user j) (jh_driver j))))).

(** jsonProposedHeader.ToProposedHeader *)
Definition to_proposed (r : registry) (j : jproposed) : res (option proposed_header) :=
  bindE (to_header r (jph_header j)) (fun h =>
  bindE (match jph_pub j with
         | None => Ok (Some None)
         | Some b => bindE (reg_unmarshal r (Some b)) (fun k => Ok (Some (Some k)))
         end) (fun pk =>
  Ok (Some (mk_proposed h (jph_round j) pk (jph_user j) (jph_driver j) (jph_sig j))))).

(** jsonCommittedHeader.ToCommittedHeader *)
Definition to_committed (r : registry) (j : jcommitted) : res (option committed_header) :=
  bindE (to_header r (jch_header j)) (fun h =>
  Ok (Some (mk_committed h (to_commit_proof (jch_proof j))))).

(** UnmarshalPrevoteProof / UnmarshalPrecommitProof after json.Unmarshal (never fails) *)
Definition to_sparse (j : jsparse) : sparse_proof :=
  mk_sparse (jsp_height j) (jsp_round j) (gb2s (jsp_pkh j)) (Some (build_map (opt_list (jsp_proofs j)))).

(** UnmarshalConsensusMessage after the outer json.Unmarshal, into a zero message. *)
Definition to_cmsg (r : registry) (j : jcmsg) : res (option cmsg) :=
  match jcm_ph j, jcm_pv j, jcm_pc j with
  | RawBad, _, _ => Ok None
  | RawOk jp, _, _ => bindE (to_proposed r jp) (fun ph => Ok (Some (mk_cmsg (Some ph) None None)))
  | RawNil, RawBad, _ => Ok None
  | RawNil, RawOk p, _ => Ok (Some (mk_cmsg None (Some (to_sparse p)) None))
  | RawNil, RawNil, RawBad => Ok None
  | RawNil, RawNil, RawOk p => Ok (Some (mk_cmsg None None (Some (to_sparse p))))
  | RawNil, RawNil, RawNil => Ok (Some (mk_cmsg None None None))
  end.

(** * Whole round trips at the struct level (encoding/json taken as the identity on
      intermediate structs; the correspondence run validates that on every case). *)
Definition rt_header (r : registry) (h : header) : res (option header) :=
  bind (to_json_header r h) (to_header r).
Definition rt_proposed (r : registry) (p : proposed_header) : res (option proposed_header) :=
  bind (to_json_proposed r p) (to_proposed r).
Definition rt_committed (r : registry) (c : committed_header) : res (option committed_header) :=
  bind (to_json_committed r c) (to_committed r).
Definition rt_sparse (p : sparse_proof) : sparse_proof := to_sparse (to_json_sparse p).
Definition rt_cmsg (r : registry) (m : cmsg) : res (option cmsg) :=
  bind (to_json_cmsg r m) (to_cmsg r).

(** Which variant a message / an intermediate message carries (0 = none). *)
Definition cmsg_variant (m : cmsg) : N :=
  match cm_ph m, cm_pv m, cm_pc m with
  | Some _, _, _ => 1 | None, Some _, _ => 2 | None, None, Some _ => 3 | None, None, None => 0
  end.

(** The registry the harness uses: ed25519 (gcrypto.RegisterEd25519: name "ed25519",
    NewEd25519PubKey) as type 1, and a strict 4-byte key type named "fixkey08"
    (exactly prefixSize bytes, no padding) as type 2.  Type 3 is never registered. *)
Definition name_ed25519 : list N := [101; 100; 50; 53; 53; 49; 57].
Definition name_fixkey : list N := [102; 105; 120; 107; 101; 121; 48; 56].
Definition harness_registry : registry :=
  mk_reg [(2, name_fixkey); (1, name_ed25519)]
         [(name_fixkey, CtorLen 2 4); (name_ed25519, CtorAny 1)].
