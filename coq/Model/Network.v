(** C03 - abstract history model of Tendermint agreement at the level of vote sets
    (DESIGN section 4, C03).  Executable definitions only; proofs are in Proofs/Network.v.

    What is modelled, and where the Go code does it:
    - a vote = (kind, height, round, block, signer index); block 0 is the nil vote
      (tmconsensus.VoteTarget with BlockHash "" ; signer = index into the height's validator set);
    - [signers V k h r b] = the signer bit set of the proof filed under (k, h, r, b)
      (VersionedRoundView.PrevoteProofs / PrecommitProofs [hash].SignatureBitSet);
    - [quorumb vals mask] = the test `PrecommitBlockPower[hash] >= ByzantineMajority(AvailablePower)`
      of tmstate/statemachine.go:handlePrecommitViewUpdate / handlePrevoteViewUpdate and
      tmi/kernel.go:checkVotingPrecommitViewShift, with the threshold being the GENERATED
      image of tm/tmconsensus/math.go (Gen/Math.v, regenerated on every run);
    - a node = (height, finalized-this-height flag, the votes it holds, its finalize stream):
      [Deliver] admits a vote (mirror.go:handlePrecommitProofs/HandlePrevoteProofs after signature
      verification), [Finalize r b] is the FinalizeBlockRequest of beginCommit - refused unless the node
      holds a precommit quorum for (height, r, b), b non-nil, and it has not finalized this height yet,
      [Enter h] is the round entrance of the next height (advanceHeight) - refused unless the current
      height is finalized and h = height + 1, [Restart] drops the volatile vote sets and keeps what
      the stores keep (height, finalization). *)
From Coq Require Import List NArith Bool.
From GV Require Import Base.Ints Gen.Math Proofs.Thresholds.
Import ListNotations.
Local Open Scope N_scope.

Inductive kind := Prevote | Precommit.

Definition kind_eqb (a b : kind) : bool :=
  match a, b with
  | Prevote, Prevote => true
  | Precommit, Precommit => true
  | _, _ => false
  end.

Record vote := mkVote {
  v_kind : kind;
  v_height : N;
  v_round : N;
  v_block : N;     (* 0 = nil *)
  v_signer : N     (* index into the validator set of v_height *)
}.

Definition vote_matches (k : kind) (h r b : N) (v : vote) : bool :=
  kind_eqb (v_kind v) k && (v_height v =? h) && (v_round v =? r) && (v_block v =? b).

(** Signer bit set of the votes of [V] filed under (k, h, r, b). *)
Fixpoint signers (V : list vote) (k : kind) (h r b : N) : N :=
  match V with
  | [] => 0
  | v :: V' =>
      if vote_matches k h r b v then N.setbit (signers V' k h r b) (v_signer v)
      else signers V' k h r b
  end.

(** The Go threshold test `pow >= ByzantineMajority(total)`; a panic of ByzantineMajority
    (total power 0) is "no quorum". *)
Definition quorumb (vals : list N) (mask : N) : bool :=
  match byz_majority (total vals) with
  | Ok m => m <=? pow vals mask
  | Panic _ => false
  end.

(** Quorum "up to the Byzantine validators": the signers recorded in V together with the
    Byzantine set reach the majority threshold. *)
Definition qmask (byzm : N) (V : list vote) (k : kind) (h r b : N) : N :=
  N.lor (signers V k h r b) byzm.

Definition bquorumb (vals : list N) (byzm : N) (V : list vote) (k : kind) (h r b : N) : bool :=
  quorumb vals (qmask byzm V k h r b).

(** ** Node model *)
Record node := mkNode {
  n_height : N;
  n_done : bool;                 (* current height finalized *)
  n_held : list vote;            (* votes admitted so far (volatile) *)
  n_stream : list (N * N)        (* finalized (height, block), newest first *)
}.

Inductive event :=
| Deliver (v : vote)
| Finalize (r b : N)
| Enter (h : N)
| Restart.

Definition init_node (h0 : N) : node := mkNode h0 false [] [].

Definition step (vals : N -> list N) (n : node) (e : event) : option node :=
  match e with
  | Deliver v => Some (mkNode (n_height n) (n_done n) (v :: n_held n) (n_stream n))
  | Finalize r b =>
      if negb (n_done n) && negb (b =? 0) &&
         quorumb (vals (n_height n)) (signers (n_held n) Precommit (n_height n) r b)
      then Some (mkNode (n_height n) true (n_held n) ((n_height n, b) :: n_stream n))
      else None
  | Enter h =>
      if n_done n && (h =? n_height n + 1)
      then Some (mkNode h false (n_held n) (n_stream n))
      else None
  | Restart => Some (mkNode (n_height n) (n_done n) [] (n_stream n))
  end.

Fixpoint run (vals : N -> list N) (n : node) (tr : list event) : option node :=
  match tr with
  | [] => Some n
  | e :: tr' => match step vals n e with Some n' => run vals n' tr' | None => None end
  end.

(** The finalize stream in order of emission. *)
Definition stream_of (n : node) : list (N * N) := rev (n_stream n).

(** ** Executable checkers of the hypotheses on the set of signed votes (used for the Example
    and evaluated by the check on the votes the real engines signed). *)
Definition correctb (byz : N -> N) (v : vote) : bool :=
  negb (N.testbit (byz (v_height v)) (v_signer v)).

Definition a1b (byz : N -> N) (V : list vote) : bool :=
  forallb (fun v => negb (correctb byz v) ||
    forallb (fun w =>
      negb (kind_eqb (v_kind v) (v_kind w) && (v_height v =? v_height w) &&
            (v_round v =? v_round w) && (v_signer v =? v_signer w))
      || (v_block v =? v_block w)) V) V.

Definition a2b (vals : N -> list N) (byz : N -> N) (V : list vote) : bool :=
  forallb (fun v =>
    negb (correctb byz v) || negb (kind_eqb (v_kind v) Precommit) || (v_block v =? 0) ||
    bquorumb (vals (v_height v)) (byz (v_height v)) V Prevote (v_height v) (v_round v) (v_block v)) V.

Definition rounds_between (lo hi : N) : list N :=
  map (fun i => lo + N.of_nat i) (seq 0 (N.to_nat (hi - lo))).

Definition a3b (vals : N -> list N) (byz : N -> N) (V : list vote) : bool :=
  forallb (fun v => negb (correctb byz v) || negb (kind_eqb (v_kind v) Precommit) || (v_block v =? 0) ||
    forallb (fun w =>
      negb (kind_eqb (v_kind w) Prevote && (v_signer v =? v_signer w) && (v_height v =? v_height w) &&
            negb (v_block w =? 0) && negb (v_block w =? v_block v) && (v_round v <? v_round w))
      || existsb (fun r =>
           bquorumb (vals (v_height v)) (byz (v_height v)) V Prevote (v_height v) r (v_block w))
           (rounds_between (v_round v) (v_round w))) V) V.

Definition valset_okb (vals : list N) (byzm : N) : bool :=
  (1 <=? total vals) && (total vals <? two64) && (pow vals byzm <? mnr (total vals)).

Definition vote_eqb (v w : vote) : bool :=
  kind_eqb (v_kind v) (v_kind w) && (v_height v =? v_height w) && (v_round v =? v_round w) &&
  (v_block v =? v_block w) && (v_signer v =? v_signer w).

Definition authenticb (byz : N -> N) (V : list vote) (tr : list event) : bool :=
  forallb (fun e => match e with
                    | Deliver v => negb (correctb byz v) || existsb (vote_eqb v) V
                    | _ => true
                    end) tr.
