(** Specification-level (executable) definitions for C19: what "the pending list applies
    cleanly, in order, to the base state" means, the greedy in-order re-application a rebase
    must perform, and the simple specification machine whose state is only (base, pending) --
    no cached working state.  NO proofs here. *)
From Coq Require Import List NArith Bool.
From GV Require Import Model.TxBuf.
Import ListNotations.

Section Spec.
  Context {S T : Type}.
  Variable apply : S -> T -> ares S.
  Variable deleter : list T -> T -> bool.

  (** Apply the transactions in order; [Some s] iff every step succeeds. *)
  Fixpoint fold_apply (s : S) (l : list T) : option S :=
    match l with
    | [] => Some s
    | t :: r => match apply s t with AOk s' => fold_apply s' r | _ => None end
    end.

  Definition applies (s : S) (l : list T) : bool :=
    match fold_apply s l with Some _ => true | None => false end.

  (** Greedy in-order re-application on a new base: a transaction is kept iff it applies to
      the state produced by the transactions kept before it; invalid ones are collected in
      order; a fatal error aborts. *)
  Inductive gres : Type := GDone (kept inv : list T) | GFatal (e : N).

  Fixpoint greedy (s : S) (l : list T) : gres :=
    match l with
    | [] => GDone [] []
    | t :: r =>
        match apply s t with
        | AOk s' => match greedy s' r with GDone k i => GDone (t :: k) i | GFatal e => GFatal e end
        | AInvalid _ => match greedy s r with GDone k i => GDone k (t :: i) | GFatal e => GFatal e end
        | AFatal e => GFatal e
        end
    end.

  (** Pending transactions not reported applied (the deleter is consulted only for a
      non-empty applied list, as in the Go code). *)
  Definition not_applied (applied : list T) (p : list T) : list T := drop_applied deleter applied p.

  (** The specification machine: state = (base, pending).  [None] as next state = the buffer
      met a fatal error during rebase; nothing is specified afterwards (errors.go: "any other
      error type is effectively fatal to the Buffer"). *)
  Definition spec_step (b : S) (p : list T) (o : op S T) : out T * option (S * list T) :=
    match o with
    | OpAdd t =>
        match fold_apply b p with
        | Some c =>
            match apply c t with
            | AOk _ => (OutAdd ENone, Some (b, p ++ [t]))
            | AInvalid e => (OutAdd (EInvalid e), Some (b, p))
            | AFatal e => (OutAdd (EFatal e), Some (b, p))
            end
        | None => (OutAdd (EFatal 0), None)   (* unreachable: pending always applies *)
        end
    | OpBuffered dst => (OutBuffered (dst ++ p), Some (b, p))
    | OpRebase nb ap =>
        match greedy nb (not_applied ap p) with
        | GDone k i => (OutRebase ENone i, Some (nb, k))
        | GFatal e => (OutRebase (EFatal e) [], None)
        end
    end.

  (** Outputs of the specification machine, up to and including a fatal rebase. *)
  Fixpoint spec_outs (b : S) (p : list T) (ops : list (op S T)) : list (out T) :=
    match ops with
    | [] => []
    | o :: r =>
        match spec_step b p o with
        | (x, Some (b', p')) => x :: spec_outs b' p' r
        | (x, None) => [x]
        end
    end.

  Definition is_fatal_rebase (x : out T) : bool :=
    match x with OutRebase (EFatal _) _ => true | _ => false end.

  (** Keep outputs up to and including the first fatal rebase. *)
  Fixpoint cut_fatal (xs : list (out T)) : list (out T) :=
    match xs with
    | [] => []
    | x :: r => if is_fatal_rebase x then [x] else x :: cut_fatal r
    end.
End Spec.

Arguments gres : clear implicits.
