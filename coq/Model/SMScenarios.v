(** Scripted event histories for the round state machine: interleavings that the random model walk
    (Model/SMWalk.v) lines up only rarely.  They are run on every check: the real state machine's
    outputs are compared with the model's, and the monitors (Monitors/SMm.v) judge the implementation's
    observations.  No proofs here. *)
From Coq Require Import List NArith String Bool.
From GV Require Import Base.Ints Gen.Math Gen.StepSM Model.StateMachine Model.SMWire Model.SMWalk.
Import ListNotations.
Local Open Scope N_scope.

Definition svs (tpvp tpcp : N) (pv pc : list (list N * N)) : vote_summary :=
  mk_vote_summary 40 tpvp tpcp pv pc (most_voted pv [] 0) (most_voted pc [] 0).
Definition sv (h r ver : N) (vs : vote_summary) (phs : list ph) : view := mkView h r ver vs phs [] 0.
Definition sph (i : N) : ph := mkPh [i] genesis_ash genesis_vs genesis_vs [100 + i] false.
Definition empty0 : view := sv 1 0 1 (svs 0 0 [] []) [].
Definition enter0 : list event := [EvStart; EvRERespVRV empty0].

(** restarts in the middle of a round, on the same stores *)
Definition sc_nil_prevote_restart_block : list event :=
  enter0 ++ [EvTimer; EvAnswer 0 []; EvStop; EvStart;
             EvRERespVRV (sv 1 0 2 (svs 0 0 [] []) [sph 8]); EvAnswer 0 [8]].
Definition sc_block_prevote_restart_nil : list event :=
  [EvStart; EvRERespVRV (sv 1 0 1 (svs 0 0 [] []) [sph 7]); EvAnswer 0 [7]; EvStop; EvStart;
   EvRERespVRV (sv 1 0 2 (svs 0 0 [] []) []); EvTimer; EvAnswer 0 []].
Definition sc_block_prevote_restart_other : list event :=
  [EvStart; EvRERespVRV (sv 1 0 1 (svs 0 0 [] []) [sph 7]); EvAnswer 0 [7]; EvStop; EvStart;
   EvRERespVRV (sv 1 0 2 (svs 0 0 [] []) [sph 7; sph 8]); EvAnswer 0 [8]].
Definition sc_nil_precommit_restart_block : list event :=
  enter0 ++ [EvTimer; EvAnswer 0 [];
             EvView (sv 1 0 2 (svs 30 0 [([], 30)] []) []) None; EvAnswer 0 [];
             EvStop; EvStart;
             EvRERespVRV (sv 1 0 3 (svs 30 0 [([7], 30)] []) [sph 7]); EvAnswer 0 [7]; EvAnswer 0 [7]].
Definition sc_block_precommit_restart_nil : list event :=
  [EvStart; EvRERespVRV (sv 1 0 1 (svs 0 0 [] []) [sph 7]); EvAnswer 0 [7];
   EvView (sv 1 0 2 (svs 30 0 [([7], 30)] []) [sph 7]) None; EvAnswer 0 [7];
   EvStop; EvStart;
   EvRERespVRV (sv 1 0 3 (svs 30 0 [([], 30)] []) []); EvAnswer 0 []; EvAnswer 0 []].
Definition sc_proposal_restart_other_proposal : list event :=
  enter0 ++ [EvProposal [51]; EvStop; EvStart; EvRERespVRV (sv 1 0 2 (svs 0 0 [] []) []); EvProposal [52]].

(** timers: every way out of a delay step *)
Definition sc_prevote_delay_then_commit : list event :=
  enter0 ++ [EvTimer; EvAnswer 0 [];
             EvView (sv 1 0 2 (svs 30 0 [([7], 15); ([], 15)] []) [sph 7]) None;
             EvView (sv 1 0 3 (svs 30 30 [([7], 15); ([], 15)] [([7], 30)]) [sph 7]) None].
Definition sc_prevote_delay_then_nil_commit : list event :=
  enter0 ++ [EvTimer; EvAnswer 0 [];
             EvView (sv 1 0 2 (svs 30 0 [([7], 15); ([], 15)] []) [sph 7]) None;
             EvView (sv 1 0 3 (svs 30 30 [([7], 15); ([], 15)] [([], 30)]) [sph 7]) None;
             EvRERespVRV (sv 1 1 1 (svs 0 0 [] []) [])].
Definition sc_prevote_delay_then_precommit_delay : list event :=
  enter0 ++ [EvTimer; EvAnswer 0 [];
             EvView (sv 1 0 2 (svs 30 0 [([7], 15); ([], 15)] []) [sph 7]) None;
             EvView (sv 1 0 3 (svs 30 30 [([7], 15); ([], 15)] [([7], 15); ([], 15)]) [sph 7]) None;
             EvAnswer 0 []; EvTimer].
Definition sc_prevote_delay_elapses : list event :=
  enter0 ++ [EvTimer; EvAnswer 0 [];
             EvView (sv 1 0 2 (svs 30 0 [([7], 15); ([], 15)] []) [sph 7]) None; EvTimer; EvAnswer 0 []].
Definition sc_precommit_delay_then_commit : list event :=
  enter0 ++ [EvTimer; EvAnswer 0 [];
             EvView (sv 1 0 2 (svs 30 0 [([], 30)] []) []) None; EvAnswer 0 [];
             EvView (sv 1 0 3 (svs 30 30 [([], 30)] [([7], 15); ([], 15)]) [sph 7]) None;
             EvView (sv 1 0 4 (svs 30 40 [([], 30)] [([7], 25); ([], 15)]) [sph 7]) None;
             EvView (sv 1 0 5 (svs 30 40 [([], 30)] [([7], 30); ([], 10)]) [sph 7]) None].

(** views of a round the machine has left (or not reached) *)
Definition sc_stale_round_nil_quorum : list event :=
  enter0 ++ [EvTimer; EvAnswer 0 [];
             EvView (sv 1 0 2 (svs 0 30 [] [([], 30)]) []) None;
             EvRERespVRV (sv 1 1 1 (svs 0 0 [] []) []);
             EvView (sv 1 0 3 (svs 0 40 [] [([], 40)]) []) None;
             EvView (sv 1 0 4 (svs 0 40 [] [([7], 30); ([], 10)]) [sph 7]) None;
             EvTimer; EvAnswer 0 []].
Definition sc_future_round_view : list event :=
  enter0 ++ [EvView (sv 1 2 5 (svs 0 30 [] [([], 30)]) []) None;
             EvView (sv 2 0 5 (svs 0 30 [] [([7], 30)]) [sph 7]) None; EvTimer; EvAnswer 0 []].

(** the witness of C12sm_timed_step_has_timer_refuted (Proofs/SMInvTimer.v): commit wait, jump-ahead, the mirror
    answers the new round entrance with the committed header: the machine sits in round (1,1) with the stale
    step AwaitingProposal and no timer (same root cause as witness w1: the step is not reset on a
    committed-header response) *)
Definition sc_stale_step_after_committed_header : list event :=
  enter0 ++ [EvView (sv 1 0 2 (svs 0 0 [] []) []) (Some (1, 1)); EvRERespCH [7] 1 0; EvTimer].

(** commit wait without the committed block's header: the header of ANOTHER block, which leads the prevote tally,
    arrives first and must not be finalized; the right header arrives afterwards *)
Definition sc_commit_wait_other_header_first : list event :=
  enter0 ++ [EvView (sv 1 0 2 (svs 0 30 [] [([7], 30)]) []) None;
             EvView (sv 1 0 3 (svs 30 30 [([8], 20); ([7], 10)] [([7], 30)]) [sph 8]) None;
             EvView (sv 1 0 4 (svs 30 30 [([8], 20); ([7], 10)] [([7], 30)]) [sph 8; sph 7]) None].

(** three heights finalized live with a validator-set change in between (the finalization of height 2 drops a
    validator: the set of height 4), then a stop and a restart at height 4 and the local validator proposes: the
    previous-commit proof it has to finalize was signed under the set of height 3 (= the finalization of height 1),
    which the restart must reload from the right finalization *)
Definition svw (h ver : N) (pc : list (list N * N)) (phs : list ph) (ph0 : hash) (pvs : N) : view :=
  mkView h 0 ver (svs 0 (fold_left (fun a e => a + snd e) pc 0) [] pc) phs ph0 pvs.
Definition one_height (h b prev pvs fvs : N) : list event :=
  [EvRERespVRV (svw h 1 [] [] [prev] pvs);
   EvView (svw h 2 [([b], 30)] [mkPh [b] genesis_ash genesis_vs genesis_vs [100 + b] false] [prev] pvs) None;
   EvFinResp h 0 [b] fvs [2]; EvTimer].
Definition sc_restart_after_valset_change : list event :=
  [EvStart] ++ one_height 1 7 0 0 15 ++ one_height 2 8 7 15 13 ++ one_height 3 9 8 15 15
  ++ [EvRERespVRV (svw 4 1 [] [] [9] 15); EvStop; EvStart; EvRERespVRV (svw 4 1 [] [] [9] 15); EvProposal [51]].

(** a height decided in a LATER round (two nil rounds first), the finalization stored, then a stop during commit wait
    and a restart: the restarted machine finds the finalization of height 1 and must enter height 2 at round 0 *)
Definition sc_restart_in_commit_wait_later_round : list event :=
  enter0 ++
  [EvView (sv 1 0 2 (svs 0 30 [] [([], 30)]) []) None;
   EvRERespVRV (sv 1 1 1 (svs 0 0 [] []) []);
   EvView (sv 1 1 2 (svs 0 30 [] [([], 30)]) []) None;
   EvRERespVRV (sv 1 2 1 (svs 0 0 [] []) []);
   EvView (sv 1 2 2 (svs 0 30 [] [([7], 30)]) [sph 7]) None;
   EvFinResp 1 2 [7] 15 [2];
   EvStop; EvStart;
   EvRERespVRV (svw 2 1 [] [] [7] 15)].

(** the validator set changes twice (the finalization of height 1 keeps all four validators, the finalization of height 2
    drops the local validator: the set of height 4), the finalization of height 3 is stored, then a stop during commit wait
    and a restart: the restarted machine enters height 4 and must use the set the finalization of height 2 returned
    (not participating), not the set of height 3 *)
Definition sc_restart_in_commit_wait_after_valset_change : list event :=
  [EvStart] ++ one_height 1 7 0 0 15 ++ one_height 2 8 7 15 14
  ++ [EvRERespVRV (svw 3 1 [] [] [8] 15);
      EvView (svw 3 2 [([9], 30)] [mkPh [9] genesis_ash 15 14 [109] false] [8] 15) None;
      EvFinResp 3 0 [9] 15 [2];
      EvStop; EvStart; EvRERespVRV (svw 4 1 [] [] [9] 15)].

(** a header whose NEXT validator set has the right keys and other powers (set 15 + 16 in the harness: equal key hash,
    different power hash) next to the genuine header: only the genuine one may be offered to the consensus strategy, at
    the initial height and one height later (where the expected next set is the one the first finalization returned) *)
Definition sc_header_with_altered_next_powers : list event :=
  enter0 ++
  [EvView (sv 1 0 2 (svs 0 0 [] []) [mkPh [8] genesis_ash 15 31 [108] false; sph 7]) None;
   EvAnswer 0 [7];
   EvView (sv 1 0 3 (svs 30 30 [([7], 30)] [([7], 30)]) [mkPh [8] genesis_ash 15 31 [108] false; sph 7]) None;
   EvFinResp 1 0 [7] 15 [2]; EvTimer;
   EvRERespVRV (svw 2 1 [] [] [7] 15);
   EvView (svw 2 2 [] [mkPh [9] [2] 15 31 [109] false; mkPh [6] [2] 31 15 [106] false; mkPh [5] [2] 15 15 [105] false] [7] 15) None].

(** the precommits seen while still counting prevotes exceed 2/3 in TOTAL, no block has a precommit majority, and the block
    leading the precommits has a PREVOTE majority: that is no commit (a prevote majority locks nobody) - the machine must go
    on to its own precommit decision, not ask the driver to finalize *)
Definition sc_prevote_majority_is_no_precommit_quorum : list event :=
  enter0 ++
  [EvView (sv 1 0 2 (svs 0 0 [] []) [sph 7]) None;
   EvAnswer 0 [7];
   EvView (sv 1 0 3 (svs 30 30 [([7], 30)] [([7], 20); ([], 10)]) [sph 7]) None;
   EvAnswer 0 [7]].

Definition scenarios : list (list event) :=
  [sc_nil_prevote_restart_block; sc_block_prevote_restart_nil; sc_block_prevote_restart_other;
   sc_nil_precommit_restart_block; sc_block_precommit_restart_nil; sc_proposal_restart_other_proposal;
   sc_prevote_delay_then_commit; sc_prevote_delay_then_nil_commit; sc_prevote_delay_then_precommit_delay;
   sc_prevote_delay_elapses; sc_precommit_delay_then_commit; sc_stale_round_nil_quorum; sc_future_round_view;
   sc_stale_step_after_committed_header; sc_commit_wait_other_header_first;
   sc_restart_after_valset_change; sc_restart_in_commit_wait_later_round;
   sc_restart_in_commit_wait_after_valset_change; sc_header_with_altered_next_powers;
   sc_prevote_majority_is_no_precommit_quorum].

Definition scenario_report : list (list (list N * (list (list N) * list (list N)))) :=
  map (fun es => combine (map enc_event es) (map project (run_events (sm0 true) es))) scenarios.
