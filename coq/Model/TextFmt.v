(** Text rendering primitives used by the test hash scheme and signature scheme
    (Go [fmt] verbs %x and %d, [sort.Strings], separator-joined loops).
    Executable definitions only; proofs are in Proofs/TextFmt.v. Bytes and characters are [N]. *)
From Coq Require Import List NArith String Ascii Bool Decimal.
From GV Require Import Base.Ints.
Import ListNotations.
Local Open Scope N_scope.

(** A Go string literal as its bytes. *)
Definition s2b (s : string) : list N := map N_of_ascii (list_ascii_of_string s).
Definition nl : list N := [10].

(** fmt verb %x on a byte slice / string: two lower-case hex digits per byte. *)
Definition hexdigit (n : N) : N := if n <? 10 then 48 + n else 87 + n.
Definition hex_byte (b : N) : list N := [hexdigit (b / 16); hexdigit (b mod 16)].
Definition hex (bs : list N) : list N := flat_map hex_byte bs.

(** fmt verb %d on an unsigned integer: decimal without leading zeros, "0" for zero. *)
Fixpoint uint_chars (u : Decimal.uint) : list N :=
  match u with
  | Nil => []
  | D0 u => 48 :: uint_chars u | D1 u => 49 :: uint_chars u | D2 u => 50 :: uint_chars u
  | D3 u => 51 :: uint_chars u | D4 u => 52 :: uint_chars u | D5 u => 53 :: uint_chars u
  | D6 u => 54 :: uint_chars u | D7 u => 55 :: uint_chars u | D8 u => 56 :: uint_chars u
  | D9 u => 57 :: uint_chars u
  end.
Definition dec (n : N) : list N := uint_chars (N.to_uint n).

(** Go string comparison [a <= b]: bytewise lexicographic, a proper prefix is smaller. *)
Fixpoint lex_leb (a b : list N) : bool :=
  match a, b with
  | [], _ => true
  | _ :: _, [] => false
  | x :: a', y :: b' => if x <? y then true else if x =? y then lex_leb a' b' else false
  end.

(** sort.Strings: the result is the unique sorted arrangement, so any sorting algorithm models it. *)
Fixpoint insert_str (x : list N) (l : list (list N)) : list (list N) :=
  match l with
  | [] => [x]
  | y :: l' => if lex_leb x y then x :: l else y :: insert_str x l'
  end.
Definition sort_strings (l : list (list N)) : list (list N) := fold_right insert_str [] l.

(** The loop [for i, s := range xs { if i > 0 { write(sep) }; write(s) }]. *)
Fixpoint join (sep : list N) (l : list (list N)) : list N :=
  match l with
  | [] => []
  | x :: l' => match l' with [] => x | _ :: _ => x ++ sep ++ join sep l' end
  end.

(** Go map[string]V read: association list, first binding wins (keys are unique in a Go map). *)
Fixpoint alookup {V : Type} (k : list N) (m : list (list N * V)) : option V :=
  match m with
  | [] => None
  | (k', v) :: m' => if bytes_eqb k' k then Some v else alookup k m'
  end.

(** Packing of a byte string into one number (leading 1 keeps leading zero bytes);
    used only to print model outputs compactly from coqc. *)
Definition pack (bs : list N) : N := fold_left (fun acc b => acc * 256 + b) bs 1.
