(** C16 - decidable comparison of store observations (used by the correspondence run and
    by the monitors).  Definitions only. *)
From Coq Require Import List NArith Bool.
From GV Require Import Base.Ints Model.Stores.
Import ListNotations.
Local Open Scope N_scope.

Section Generic.
  Context {A : Type} (eqb : A -> A -> bool).
  Fixpoint list_eqb (a b : list A) : bool :=
    match a, b with
    | [], [] => true
    | x :: a', y :: b' => eqb x y && list_eqb a' b'
    | _, _ => false
    end.
  Definition opt_eqb (a b : option A) : bool :=
    match a, b with
    | Some x, Some y => eqb x y
    | None, None => true
    | _, _ => false
    end.
End Generic.

Definition akind_eqb (a b : akind) : bool :=
  match a, b with
  | KProposal, KProposal | KPrevote, KPrevote | KPrecommit, KPrecommit => true
  | _, _ => false
  end.

Definition err_eqb (a b : err) : bool :=
  match a, b with
  | EDoubleAction k, EDoubleAction k' => akind_eqb k k'
  | EPubKeyChanged k w g, EPubKeyChanged k' w' g' => akind_eqb k k' && bytes_eqb w w' && bytes_eqb g g'
  | ERoundUnknown h r, ERoundUnknown h' r' => N.eqb h h' && N.eqb r r'
  | EHeightUnknown h, EHeightUnknown h' => N.eqb h h'
  | EFinOverwrite h, EFinOverwrite h' => N.eqb h h'
  | EOverwrite f v, EOverwrite f' v' => N.eqb f f' && bytes_eqb v v'
  | EUninitialized, EUninitialized => true
  | EKeysExist h, EKeysExist h' => bytes_eqb h h'
  | EPowsExist h, EPowsExist h' => bytes_eqb h h'
  | ENoHash a1 b1, ENoHash a2 b2 => opt_eqb bytes_eqb a1 a2 && opt_eqb bytes_eqb b1 b2
  | ECountMismatch a1 b1, ECountMismatch a2 b2 => N.eqb a1 a2 && N.eqb b1 b2
  | EHashScheme, EHashScheme => true
  | _, _ => false
  end.

Definition ph_eqb (a b : ph) : bool :=
  N.eqb (ph_h a) (ph_h b) && N.eqb (ph_r a) (ph_r b) && bytes_eqb (ph_hash a) (ph_hash b) &&
  key_eqb (ph_key a) (ph_key b) && N.eqb (ph_tag a) (ph_tag b).

Definition ra_eqb (a b : ra) : bool :=
  N.eqb (ra_h a) (ra_h b) && N.eqb (ra_r a) (ra_r b) && ph_eqb (ra_ph a) (ra_ph b) &&
  key_eqb (ra_key a) (ra_key b) &&
  bytes_eqb (ra_pvt a) (ra_pvt b) && bytes_eqb (ra_pvs a) (ra_pvs b) &&
  bytes_eqb (ra_pct a) (ra_pct b) && bytes_eqb (ra_pcs a) (ra_pcs b).

Definition aout_eqb (a b : aout) : bool :=
  match a, b with
  | AOk, AOk => true
  | AErr e, AErr e' => err_eqb e e'
  | ALoaded x, ALoaded y => ra_eqb x y
  | APanic, APanic => true
  | _, _ => false
  end.

Definition fout_eqb (a b : fout) : bool :=
  match a, b with
  | FOk, FOk => true
  | FErr e, FErr e' => err_eqb e e'
  | FLoaded r bh vs ah, FLoaded r' bh' vs' ah' => N.eqb r r' && bytes_eqb bh bh' && N.eqb vs vs' && bytes_eqb ah ah'
  | _, _ => false
  end.

Definition cout_eqb (a b : cout) : bool :=
  match a, b with
  | COk, COk => true
  | CErr e, CErr e' => err_eqb e e'
  | CLoaded t, CLoaded t' => N.eqb t t'
  | _, _ => false
  end.

Definition mout_eqb (a b : mout) : bool :=
  match a, b with
  | MOk, MOk => true
  | MErr e, MErr e' => err_eqb e e'
  | MVal a1 a2 a3 a4, MVal b1 b2 b3 b4 => N.eqb a1 b1 && N.eqb a2 b2 && N.eqb a3 b3 && N.eqb a4 b4
  | _, _ => false
  end.

Definition sout_eqb (a b : sout) : bool :=
  match a, b with
  | SOk, SOk => true
  | SErr e, SErr e' => err_eqb e e'
  | SVal a1 a2, SVal b1 b2 => N.eqb a1 b1 && N.eqb a2 b2
  | _, _ => false
  end.

Definition kp_eqb (a b : bytes * N) : bool := bytes_eqb (fst a) (fst b) && N.eqb (snd a) (snd b).

Definition vout_eqb (a b : vout) : bool :=
  match a, b with
  | VSaved h, VSaved h' => bytes_eqb h h'
  | VSaveErr h e, VSaveErr h' e' => bytes_eqb h h' && err_eqb e e'
  | VFail e, VFail e' => err_eqb e e'
  | VKeys k, VKeys k' => list_eqb bytes_eqb k k'
  | VPows p, VPows p' => list_eqb N.eqb p p'
  | VVals l, VVals l' => list_eqb kp_eqb l l'
  | VDone, VDone => true
  | VPanic, VPanic => true
  | _, _ => false
  end.

(** Go map iteration order is unspecified: signature maps and header lists are compared
    as multisets, by sorting (insertion sort on a total preorder). *)
Section Sort.
  Context {A : Type} (leb : A -> A -> bool).
  Fixpoint insert_sorted (x : A) (l : list A) : list A :=
    match l with
    | [] => [x]
    | y :: l' => if leb x y then x :: l else y :: insert_sorted x l'
    end.
  Definition isort (l : list A) : list A := fold_right insert_sorted [] l.
End Sort.

Fixpoint bytes_leb (a b : bytes) : bool :=
  match a, b with
  | [], _ => true
  | _ :: _, [] => false
  | x :: a', y :: b' => if N.ltb x y then true else if N.ltb y x then false else bytes_leb a' b'
  end.

Definition ph_leb (a b : ph) : bool :=
  if N.ltb (ph_tag a) (ph_tag b) then true else if N.ltb (ph_tag b) (ph_tag a) then false
  else bytes_leb (ph_hash a) (ph_hash b).

Definition sig_leb (a b : bytes * N) : bool :=
  if bytes_eqb (fst a) (fst b) then N.leb (snd a) (snd b) else bytes_leb (fst a) (fst b).

Definition ssc_eqb (a b : ssc) : bool :=
  bytes_eqb (fst a) (fst b) &&
  match snd a, snd b with
  | None, None => true
  | Some x, Some y => list_eqb kp_eqb (isort sig_leb x) (isort sig_leb y)
  | _, _ => false
  end.

Definition rout_eqb (a b : rout) : bool :=
  match a, b with
  | ROk, ROk => true
  | RErr e, RErr e' => err_eqb e e'
  | RLoaded p v c, RLoaded p' v' c' =>
      list_eqb ph_eqb (isort ph_leb p) (isort ph_leb p') && ssc_eqb v v' && ssc_eqb c c'
  | RUnknown v c h r, RUnknown v' c' h' r' => ssc_eqb v v' && ssc_eqb c c' && N.eqb h h' && N.eqb r r'
  | RPanic, RPanic => true
  | _, _ => false
  end.

(** First index at which the observed outputs differ from the model's, with the model's
    output there ([None] = the whole trace agrees). *)
Section Corr.
  Context {S Op Out : Type} (step : S -> Op -> S * Out) (out_eqb : Out -> Out -> bool).
  Fixpoint first_diff (i : N) (s : S) (tr : list (Op * Out)) : option (N * Out) :=
    match tr with
    | [] => None
    | (o, seen) :: tr' =>
        let '(s', out) := step s o in
        if out_eqb out seen then first_diff (i + 1) s' tr' else Some (i, out)
    end.
End Corr.
