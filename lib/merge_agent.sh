#!/bin/bash
# usage: merge_agent.sh <id>  -- merge /verif branch agent-<id>, cherry-pick its repo commits
set -e
id=$1
cd /verif
git merge --no-edit agent-$id >/tmp/merge_$id.log 2>&1 || {
  # resolve the expected conflicts
  for f in $(git diff --name-only --diff-filter=U); do
    case "$f" in
      MANIFEST.json) git checkout --ours MANIFEST.json; git add MANIFEST.json;;
      known-findings.txt)
        git show :2:known-findings.txt > /tmp/kf_ours 2>/dev/null || true
        git show :3:known-findings.txt > /tmp/kf_theirs 2>/dev/null || true
        cat /tmp/kf_ours /tmp/kf_theirs | awk '!seen[$0]++' > known-findings.txt; git add known-findings.txt;;
      hooks.json) git checkout --ours hooks.json; git add hooks.json;;
      evidence/*) git checkout --theirs "$f"; git add "$f";;
      *) echo "UNRESOLVED CONFLICT: $f";;
    esac
  done
  if git diff --name-only --diff-filter=U | grep -q .; then echo "manual resolution needed"; exit 1; fi
  git commit -qm "Merge agent-$id"
}
echo "verif merged: $(git log --oneline -1)"
echo "repo commits on agent-$id:"
git -C /repo log --oneline main..agent-$id
