#!/bin/bash
# usage: verifyseed.sh <id> <dir with patch.diff, demo/, meta.json>
# Confirms a seeded change in a scratch worktree of /repo (current main): the patch applies and builds, the
# demonstration passes without it and fails with it, the repository's own tests still pass with it.
# Prints one JSON object (also written to <dir>/confirmed.json); removes the worktree afterwards.
id=$1; src=$2
export GOFLAGS=-mod=mod GOPROXY=off
wt=/tmp/vs/$id
mkdir -p /tmp/vs
git -C /repo worktree remove --force $wt >/dev/null 2>&1
git -C /repo worktree add --detach -q $wt main || exit 2
cd $wt
demos=()
pkgs=()
for f in $src/demo/*_test.go; do
  pk=$(grep -m1 '^package ' $f | awk '{print $2}' | sed 's/_test$//')
  # package directory: taken from the go test lines of the README, matched by its last path element
  d=$(grep -o '\./[A-Za-z0-9_/]*' $src/demo/README.txt | sed 's#/$##' | sort -u | awk -F/ -v p=$pk '$NF==p{print; exit}')
  [ -z "$d" ] && { echo "cannot place $f"; exit 2; }
  cp $f $d/; demos+=("$d/$(basename $f)"); pkgs+=("$d")
done
pat=$(grep -o "\-run '\?[A-Za-z0-9_]*" $src/demo/README.txt | head -1 | sed "s/-run '\?//")
run_demo() { rc=0; for d in $(printf '%s\n' "${pkgs[@]}" | sort -u); do GORDIAN_TEST_TIME_FACTOR=5 go test $d -run "$pat" -count=1 > /tmp/vs/$id.demo.$1.log 2>&1 || rc=1; done; return $rc; }
run_demo clean; clean_rc=$?
git apply $src/patch.diff || { echo "patch does not apply"; exit 2; }
build=ok; go build ./... >/tmp/vs/$id.build.log 2>&1 || build=FAIL
go vet $(git diff --name-only | xargs -n1 dirname | sort -u | sed 's#^#./#') >/dev/null 2>&1 || build="$build,vet-fail"
run_demo patched; patched_rc=$?
fail_line=$(grep -m1 -E '^\s+.*_test.go:[0-9]+:|^panic:|^--- FAIL' /tmp/vs/$id.demo.patched.log | cut -c1-300)
rm -f "${demos[@]}"
/verif/lib/stabletest.sh $wt ./... > /tmp/vs/$id.tests.log 2>&1; tests_rc=$?
python3 - "$id" "$clean_rc" "$patched_rc" "$build" "$tests_rc" "$fail_line" "$src" "$pat" <<'P'
import sys, json, subprocess
id_, clean, patched, build, tests, fl, src, pat = sys.argv[1:9]
log = open('/tmp/vs/%s.tests.log' % id_).read().strip().splitlines()
d = {"seed": id_, "confirmed_on": subprocess.run(['git','-C','/repo','rev-parse','--short','main'],capture_output=True,text=True).stdout.strip(),
     "patch_applies_and_builds": build == "ok", "build": build,
     "demo_run": "go test <package of the demo file> -run %s -count=1" % pat,
     "demo_passes_without_patch": clean == "0", "demo_fails_with_patch": patched != "0", "demo_failure": fl,
     "existing_tests_with_patch": "pass" if tests == "0" else "FAIL",
     "existing_tests_cmd": "lib/stabletest.sh <worktree> ./...  (go test -count=1 ./...; a failing test is re-run alone up to 3 times, a test that then passes is flaky under load)",
     "existing_tests_log_tail": log[-6:]}
json.dump(d, open(src + '/confirmed.json', 'w'), indent=1)
print(json.dumps(d))
P
cd /; git -C /repo worktree remove --force $wt; rm -f /tmp/vs/$id.*.log
