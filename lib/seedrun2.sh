#!/bin/bash
# usage: seedrun2.sh <patch.diff> <PROP>...  -- like seedrun.sh, but on a scratch worktree of /repo (VERIF_REPO), so that
# /repo's working tree is not touched while other work reads it
patch=$1; shift
wt=${SEED_WT:-/tmp/seedrepo}
vd=${VERIF_DIR:-/verif}
tag=$(basename $wt)
git -C /repo worktree remove --force $wt >/dev/null 2>&1
git -C /repo worktree add --detach -q $wt main || exit 2
cd $wt
git apply --check "$patch" || { echo "patch does not apply"; git -C /repo worktree remove --force $wt; exit 2; }
git apply "$patch"
export GOFLAGS=-mod=mod GOPROXY=off VERIF_REPO=$wt
if ! go build ./... 2>/tmp/${tag}_build.log; then echo "does not build"; git -C /repo worktree remove --force $wt; exit 2; fi
cd $vd
for p in "$@"; do
  ./check $p > /tmp/${tag}_$p.log 2>&1; rc=$?
  echo "$p exit=$rc violations=$(grep -c '^VIOLATION' /tmp/${tag}_$p.log) concrete=$(grep '^VIOLATION' /tmp/${tag}_$p.log | grep -vc no-failing-input-found); $(grep '^#' /tmp/${tag}_$p.log | head -2 | cut -c1-170 | tr '\n' '|')"
done
git -C /repo worktree remove --force $wt
VERIF_REPO=/repo python3 -c "import sys; sys.path.insert(0,'$vd/lib'); import vcheck; vcheck.Check('C18',[]).sync_gosum()" >/dev/null 2>&1
