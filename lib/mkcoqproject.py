#!/usr/bin/env python3
import os, sys
sys.path.insert(0, os.path.dirname(os.path.abspath(__file__)))
import vcheck
p = os.path.join(vcheck.COQ, "_CoqProject")
t = vcheck.coqproject_text()
if not os.path.exists(p) or open(p).read() != t:
    open(p, "w").write(t)
