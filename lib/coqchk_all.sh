#!/bin/bash
# Re-checks every compiled Properties module (and everything it depends on) with the independent checker and
# records the axioms it reports. Slow (tens of minutes); not part of any registered command.
cd /verif/coq || exit 2
mods=$(ls Properties/*.v | sed 's#Properties/\(.*\)\.v#GV.Properties.\1#')
out=/verif/evidence/coqchk.txt
{ echo "coqchk -silent -o over: $mods"; date -u; } > $out
timeout 7200 coqchk -silent -o -Q . GV $mods >> $out 2>&1
echo "exit=$?" >> $out
tail -30 $out
