#!/bin/bash
# usage: seed7.sh <seed id> <PROP>...   confirm a delivered seeded change (lib/verifyseed.sh) and run the named checks on a
# scratch worktree with the change applied (lib/seedrun2.sh); log: /tmp/seedlogs/<id>.txt
id=$1; shift
mkdir -p /tmp/seedlogs
{
  echo "== confirm $id"
  /verif/lib/verifyseed.sh $id /verif/seeded/$id
  echo "== checks $id: $*"
  SEED_WT=/tmp/seedrepo_$id ${VERIF_DIR:-/verif}/lib/seedrun2.sh /verif/seeded/$id/patch.diff "$@"
  for p in "$@"; do echo "-- $p"; grep -E "^VIOLATION|^KNOWN|^OK|^#" /tmp/seedrepo_${id}_$p.log | cut -c1-400 | head -12; done
} > /tmp/seedlogs/$id.txt 2>&1
