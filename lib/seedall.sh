#!/bin/bash
# Runs every stored seeded change against the check of its property (and extra checks named in seeded/<id>/also)
# and prints one line per run. Each change is applied in a scratch worktree of /repo (lib/seedrun2.sh) that the checks read through VERIF_REPO.
# VERIF_DIR (default /verif): the copy of the machinery to run; SEED_WT: the scratch worktree (see seedrun2.sh)
vd=${VERIF_DIR:-/verif}
cd $vd
for d in seeded/*/; do
  id=$(basename $d); P=$(echo ${id^^} | cut -c1-3)
  [ -f $d/obsolete ] && { echo "$id: skipped (obsolete, see $d/obsolete)"; continue; }
  props="$P $(cat $d/also 2>/dev/null)"
  ./lib/seedrun2.sh $vd/$d/patch.diff $props 2>&1 | grep -E 'exit=|does not|patch' | sed "s/^/$id: /" | cut -c1-260
done
