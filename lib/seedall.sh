#!/bin/bash
# Runs every stored seeded change against the check of its property (and extra checks named in seeded/<id>/also)
# and prints one line per run. The changes are applied to /repo's working tree and undone straight afterwards.
cd /verif
for d in seeded/*/; do
  id=$(basename $d); P=${id^^}
  props="$P $(cat $d/also 2>/dev/null)"
  ./lib/seedrun.sh /verif/$d/patch.diff $props 2>&1 | grep -E 'exit=|does not|patch' | sed "s/^/$id: /" | cut -c1-260
done
