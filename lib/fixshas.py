#!/usr/bin/env python3
"""After cherry-picking agent commits into /repo main: rewrite `fixed:` shas in known-findings.txt to the
shas on main (matched by subject) and list hook commits in hooks.json."""
import subprocess, re, json
BASE = "6a5c986"
def log(ref):
    out = subprocess.run(['git', '-C', '/repo', 'log', '--format=%h %s', BASE + '..' + ref], capture_output=True, text=True).stdout.strip()
    return [l.split(' ', 1) for l in out.splitlines() if l]
main = log('main')
subj2sha = {s: h for h, s in main}
old = {}
for br in subprocess.run(['git', '-C', '/repo', 'branch', '--format=%(refname:short)'], capture_output=True, text=True).stdout.split():
    if br.startswith('agent-'):
        for h, s in log(br):
            old[h] = s
lines = []
for l in open('/verif/known-findings.txt').read().splitlines():
    m = re.match(r'(fixed: property=\S+ )(\w+)( .*)', l)
    if m and m.group(2) in old and old[m.group(2)] in subj2sha:
        l = m.group(1) + subj2sha[old[m.group(2)]] + m.group(3)
    lines.append(l)
open('/verif/known-findings.txt', 'w').write('\n'.join(lines) + '\n')
hooks = json.load(open('/verif/hooks.json'))
hooks['source_commits'] = [h for h, s in main if s.startswith('hook:')]
json.dump(hooks, open('/verif/hooks.json', 'w'), indent=1)
print("hooks:", hooks['source_commits'])
