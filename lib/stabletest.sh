#!/bin/bash
# usage: stabletest.sh <repo> <pkg>... ; a test counts as failing only if it fails in 3 consecutive isolated attempts
export GOFLAGS=-mod=mod GOPROXY=off
cd "$1"; shift
fails=$(go test -count=1 -p 2 "$@" -json 2>/dev/null | python3 -c "
import sys,json
f=set()
for l in sys.stdin:
    try: e=json.loads(l)
    except: continue
    if e.get('Action')=='fail' and e.get('Test'): f.add((e['Package'],e['Test'].split('/')[0]))
    if e.get('Action')=='fail' and not e.get('Test'): f.add((e['Package'],''))
for p,t in sorted(f): print(p,t)
")
rc=0
while read -r pkg t; do
  [ -z "$pkg" ] && continue
  [ -z "$t" ] && continue
  ok=0
  for i in 1 2 3; do if go test -count=1 "$pkg" -run "^${t}\$" >/dev/null 2>&1; then ok=1; break; fi; done
  if [ $ok = 0 ]; then echo "STABLE-FAIL $pkg $t"; rc=1; else echo "flaky-under-load $pkg $t"; fi
done <<< "$fails"
echo "stabletest rc=$rc"; exit $rc
