#!/bin/bash
# usage: seedrun.sh <patch.diff> <PROP>...   -- apply a seeded change to /repo, run the checks, undo it
patch=$1; shift
cd /repo || exit 2
git apply --check "$patch" || { echo "patch does not apply"; exit 2; }
git apply "$patch"
export GOFLAGS=-mod=mod GOPROXY=off
if ! go build ./... 2>/tmp/seedbuild.log; then echo "does not build"; git checkout -- .; exit 2; fi
cd /verif
for p in "$@"; do
  ./check $p > /tmp/seed_$p.log 2>&1; rc=$?
  echo "$p exit=$rc violations=$(grep -c '^VIOLATION' /tmp/seed_$p.log) concrete=$(grep '^VIOLATION' /tmp/seed_$p.log | grep -vc no-failing-input-found); $(grep '^#' /tmp/seed_$p.log | head -2 | cut -c1-170 | tr '\n' '|')"
done
git -C /repo checkout -- .
git -C /repo status --short | head -3
