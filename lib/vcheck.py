"""Shared machinery for the /verif checks (see DESIGN.md sections 1, 2.5, 7).

A check = (1) regenerate coq/Gen from /repo, (2) build the property's theorems
(full .vo build, Print Assumptions parsed), (3) run the real code through the Go
harness and evaluate the Coq model / monitors on the same cases inside coqc
(vm_compute), (4) verdict + evidence.
"""
import fcntl
import hashlib
import json
import os
import re
import subprocess
import sys
import time

VERIF = os.path.dirname(os.path.dirname(os.path.abspath(__file__)))
REPO = os.environ.get("VERIF_REPO", "/repo")
COQ = os.path.join(VERIF, "coq")
BIN = os.path.join(VERIF, "bin")
HARNESS = os.path.join(VERIF, "harness")
GUARD_TAG = "verif"

FORBIDDEN = re.compile(
    r"\b(Admitted|admit|Axiom|Axioms|Parameter|Parameters|Conjecture|Conjectures|Admit Obligations|"
    r"Unset Guard Checking|Unset Positivity Checking|Unset Universe Checking|bypass_check|"
    r"type-in-type|impredicative-set|native_compute)\b")

TRUSTED_BASE_COMMON = [
    "Coq 8.16.1 kernel via coqc full .vo builds (vm_compute used; native_compute not used; no -type-in-type, "
    "no -impredicative-set, no Unset Guard/Positivity/Universe Checking)",
    "no Axiom/Parameter/Conjecture/Admitted in the development (grep gate run by every check)",
]


def goenv():
    env = dict(os.environ)
    env["GOFLAGS"] = "-mod=mod"
    env["GOPROXY"] = "off"
    env.pop("GOTOOLCHAIN", None)  # this repo only builds with the default (auto) toolchain selection
    env.pop("GOSUMDB", None)
    env.setdefault("CGO_ENABLED", "1")
    return env


def coqproject_text():
    """_CoqProject is derived from the file tree: every .v under the listed directories."""
    lines = ["-Q . GV",
             "-arg -w -arg -notation-overridden,-deprecated-hint-without-locality,-deprecated-instance-without-locality"]
    for d in ("Base", "Gen", "Monitors", "Model", "Proofs", "Properties"):
        dd = os.path.join(COQ, d)
        if os.path.isdir(dd):
            for f in sorted(os.listdir(dd)):
                if f.endswith(".v"):
                    lines.append("%s/%s" % (d, f))
    return "\n".join(lines) + "\n"


class SplitMix64:
    def __init__(self, seed):
        self.s = seed & 0xFFFFFFFFFFFFFFFF

    def next(self):
        self.s = (self.s + 0x9E3779B97F4A7C15) & 0xFFFFFFFFFFFFFFFF
        z = self.s
        z = ((z ^ (z >> 30)) * 0xBF58476D1CE4E5B9) & 0xFFFFFFFFFFFFFFFF
        z = ((z ^ (z >> 27)) * 0x94D049BB133111EB) & 0xFFFFFFFFFFFFFFFF
        return z ^ (z >> 31)

    def below(self, n):
        return self.next() % n if n > 0 else 0

    def choice(self, xs):
        return xs[self.below(len(xs))]

    def chance(self, num, den):
        return self.below(den) < num


class BuildLock:
    def __init__(self):
        self.path = os.path.join(VERIF, ".build.lock")

    def __enter__(self):
        self.f = open(self.path, "w")
        fcntl.flock(self.f, fcntl.LOCK_EX)
        return self

    def __exit__(self, *a):
        fcntl.flock(self.f, fcntl.LOCK_UN)
        self.f.close()


def run(cmd, cwd=None, env=None, timeout=1200, stdin=None):
    p = subprocess.run(cmd, cwd=cwd, env=env, input=stdin, stdout=subprocess.PIPE,
                       stderr=subprocess.STDOUT, timeout=timeout, text=True)
    return p.returncode, p.stdout


def coq_term_bytes(b):
    return "[" + ";".join(str(x) for x in b) + "]"


def load_known_findings():
    """known-findings.txt: `finding: property=<id> key=<key> <text>` / `fixed: property=<id> <commit> <text>`"""
    out = {}
    p = os.path.join(VERIF, "known-findings.txt")
    if not os.path.exists(p):
        return out
    for line in open(p):
        line = line.strip()
        m = re.match(r"finding:\s+property=(\S+)\s+key=(\S+)\s+(.*)", line)
        if m:
            out.setdefault(m.group(1), {})[m.group(2)] = m.group(3)
    return out


class Check:
    def __init__(self, pid, argv=None):
        self.pid = pid
        argv = list(argv or [])
        self.tier = os.environ.get("VERIF_TIER", "quick")
        self.replay = None
        i = 0
        while i < len(argv):
            if argv[i] == "--tier":
                self.tier = argv[i + 1]
                i += 2
            elif argv[i] == "--replay":
                self.replay = argv[i + 1]
                i += 2
            else:
                i += 1
        if self.tier not in ("quick", "thorough"):
            self.tier = "quick"
        self.seed = int(os.environ.get("VERIF_SEED", "20260923"))
        self.rng = SplitMix64(self.seed ^ int(hashlib.sha256(pid.encode()).hexdigest()[:8], 16))
        self.t0 = time.time()
        self.violations = []      # (key, what, replay_path, found_input)
        self.known_seen = []
        self.known = load_known_findings().get(pid, {})
        self.obligations = []     # theorem names
        self.discharged = []
        self.assumptions = {}     # theorem -> text
        self.checker_cmds = []
        self.coverage = {}
        self.trusted = list(TRUSTED_BASE_COMMON)
        self.assumes = []
        self.samples = []
        self.notes = []
        os.makedirs(os.path.join(VERIF, "replays"), exist_ok=True)
        os.makedirs(os.path.join(VERIF, "evidence"), exist_ok=True)
        os.makedirs(os.path.join(COQ, "Cases"), exist_ok=True)
        os.makedirs(BIN, exist_ok=True)

    # ------------------------------------------------------------------ gates
    def grep_gate(self):
        bad = []
        for root, _, files in os.walk(COQ):
            for f in files:
                if not f.endswith(".v"):
                    continue
                p = os.path.join(root, f)
                txt = open(p).read()
                txt = re.sub(r"\(\*.*?\*\)", "", txt, flags=re.S)
                for m in FORBIDDEN.finditer(txt):
                    bad.append("%s: %s" % (os.path.relpath(p, COQ), m.group(0)))
        if bad:
            self.fail_obligation("grep-gate", "forbidden construct in development: " + "; ".join(bad[:5]))
        return not bad

    # ------------------------------------------------------------- translator
    def translate(self, only=None):
        """Regenerate coq/Gen/*.v from REPO. Returns (ok, log)."""
        with BuildLock():
            tb = os.path.join(BIN, "translate")
            src = os.path.join(VERIF, "translate")
            newest = max(os.path.getmtime(os.path.join(src, f)) for f in os.listdir(src) if f.endswith((".go", ".mod")))
            if not os.path.exists(tb) or os.path.getmtime(tb) < newest:
                env = dict(os.environ)
                env["GOFLAGS"] = "-mod=mod"
                env["GOPROXY"] = "off"
                env["GOTOOLCHAIN"] = "local"
                rc, out = run(["go", "build", "-o", tb, "."], cwd=src, env=env)
                if rc != 0:
                    raise SystemExit("cannot build translator:\n" + out)
            cmd = [tb, "-repo", REPO, "-cfg", os.path.join(src, "targets.d"), "-out", COQ]
            if only:
                cmd += ["-only", ",".join(only)]
            rc, out = run(cmd)
        self.checker_cmds.append(" ".join(cmd))
        return rc == 0, out

    # -------------------------------------------------------------------- coq
    def _ensure_makefile(self):
        mk = os.path.join(COQ, "Makefile")
        cp = os.path.join(COQ, "_CoqProject")
        txt = coqproject_text()
        if not os.path.exists(cp) or open(cp).read() != txt:
            with open(cp, "w") as f:
                f.write(txt)
        if not os.path.exists(mk) or os.path.getmtime(mk) < os.path.getmtime(cp):
            rc, out = run(["coq_makefile", "-f", "_CoqProject", "-o", "Makefile"], cwd=COQ)
            if rc != 0:
                raise SystemExit("coq_makefile failed:\n" + out)

    def coq_make(self, targets, timeout=1500):
        """make the given .vo targets (relative to coq/). Returns (ok, log)."""
        with BuildLock():
            self._ensure_makefile()
            cmd = ["timeout", str(timeout), "make", "-j16"] + list(targets)
            rc, out = run(cmd, cwd=COQ, timeout=timeout + 60)
        self.checker_cmds.append("cd coq && " + " ".join(cmd))
        return rc == 0, out

    def prove(self, prop_file, deps_models=()):
        """Build Properties/<prop_file>.v freshly; parse theorems and Print Assumptions.
        On failure records a broken obligation and returns False."""
        vfile = os.path.join(COQ, "Properties", prop_file + ".v")
        txt = open(vfile).read()
        names = re.findall(r"^\s*Theorem\s+(\w+)", txt, flags=re.M)
        self.obligations += names
        vo = os.path.join(COQ, "Properties", prop_file + ".vo")
        with BuildLock():
            if os.path.exists(vo):
                os.remove(vo)
        ok, out = self.coq_make(["Properties/%s.vo" % prop_file])
        self.last_coq_log = out
        if not ok:
            # which file failed?
            m = re.search(r'File "\./([^"]+)", line (\d+)', out)
            where = "%s:%s" % (m.group(1), m.group(2)) if m else "unknown"
            err = out[-1500:]
            self.broken = {"file": where, "log": err}
            return False
        # parse Print Assumptions blocks in order
        blocks = re.findall(r"(Closed under the global context|Axioms:\n(?:.+\n?)+?(?=\n|Closed under|Axioms:|$))", out)
        # more robust: split by markers
        marks = []
        lines = out.splitlines()
        i = 0
        while i < len(lines):
            if lines[i].startswith("Closed under the global context"):
                marks.append("Closed under the global context")
            elif lines[i].startswith("Axioms:"):
                j = i + 1
                ax = []
                while j < len(lines) and (lines[j].startswith(" ") or (lines[j] and not lines[j].startswith(("Closed", "Axioms:", "COQC", "make", "File")))):
                    ax.append(lines[j].strip())
                    j += 1
                marks.append("Axioms: " + " ".join(ax))
                i = j - 1
            i += 1
        for k, n in enumerate(names):
            if k < len(marks):
                self.assumptions[n] = marks[k]
                self.discharged.append(n)
        if len(marks) != len(names):
            self.notes.append("Print Assumptions count %d != theorem count %d in %s" % (len(marks), len(names), prop_file))
        return True

    def coq_eval(self, name, body, timeout=900):
        """Compile a throw-away Cases/<name>.v (evaluated with vm_compute inside coqc).
        Returns (ok, stdout)."""
        d = os.path.join(COQ, "Cases")
        p = os.path.join(d, name + ".v")
        with open(p, "w") as f:
            f.write(body)
        cmd = ["timeout", str(timeout), "coqc", "-Q", COQ, "GV", "-w", "-all", p]
        rc, out = run(cmd, cwd=d, timeout=timeout + 60)
        for ext in (".vo", ".vok", ".vos", ".glob"):
            q = os.path.join(d, name + ext)
            if os.path.exists(q):
                os.remove(q)
        aux = os.path.join(d, "." + name + ".aux")
        if os.path.exists(aux):
            os.remove(aux)
        return rc == 0, out

    # --------------------------------------------------------------------- go
    def sync_gomod(self):
        tpl = open(os.path.join(HARNESS, "go.mod.in")).read().replace("@REPO@", REPO)
        dst = os.path.join(HARNESS, "go.mod")
        if not os.path.exists(dst) or tpl.split("require")[0] not in open(dst).read() or ("=> " + REPO + "\n") not in open(dst).read():
            with open(dst, "w") as f:
                f.write(tpl)

    def sync_gosum(self):
        self.sync_gomod()
        src = os.path.join(REPO, "go.sum")
        dst = os.path.join(HARNESS, "go.sum")
        if not os.path.exists(dst) or open(src).read() != open(dst).read():
            with open(dst, "w") as f:
                f.write(open(src).read())

    def go_build(self, pkg, timeout=1500):
        """Build harness package ./<pkg> with the verif tag against REPO's working tree."""
        self.sync_gosum()
        out_bin = os.path.join(BIN, "h_" + pkg.replace("/", "_"))
        cmd = ["go", "build", "-tags", GUARD_TAG, "-o", out_bin, "./" + pkg]
        rc, out = run(cmd, cwd=HARNESS, env=goenv(), timeout=timeout)
        if rc != 0:
            return None, out
        return out_bin, out

    def run_bin(self, binary, args=(), stdin=None, timeout=900, env=None):
        e = goenv()
        if env:
            e.update(env)
        p = subprocess.run([binary] + list(args), input=stdin, stdout=subprocess.PIPE, stderr=subprocess.PIPE,
                           text=True, timeout=timeout, env=e)
        return p.returncode, p.stdout, p.stderr

    # --------------------------------------------------------------- verdicts
    def write_replay(self, key, obj):
        safe = re.sub(r"[^A-Za-z0-9_.-]", "_", key)[:80]
        path = os.path.join(VERIF, "replays", "%s_%s.json" % (self.pid, safe))
        with open(path, "w") as f:
            json.dump(obj, f, indent=1, default=str)
        return path

    def report(self, key, what, replay_obj, found_input=True):
        """A property failure observed on the implementation (or a broken obligation)."""
        if found_input and key in self.known:
            if key not in [k for k, _ in self.known_seen]:
                self.known_seen.append((key, what))
            return
        obj = {"property": self.pid, "key": key, "what": what, "seed": self.seed, "tier": self.tier}
        obj.update(replay_obj or {})
        path = self.write_replay(key, obj)
        self.violations.append((key, what, path, found_input))

    def fail_obligation(self, name, log, replay_obj=None):
        o = {"broken": name, "log": log}
        o.update(replay_obj or {})
        self.report("obligation:" + name, "obligation no longer checks: " + name, o, found_input=False)

    # ---------------------------------------------------------------- finish
    def finish(self, level="proof", extra_cov=None):
        cov = {
            "obligations": len(self.obligations),
            "discharged": len(self.discharged),
            "checker_cmd": " ; ".join(dict.fromkeys(self.checker_cmds)) or "none",
            "trusted_base": self.trusted + sorted(set("Print Assumptions %s: %s" % (k, v) for k, v in self.assumptions.items())),
            "theorems": self.obligations,
            "known_findings_observed": [k for k, _ in self.known_seen],
            "samples": self.samples[:12] or ["(no cases)"],
        }
        cov.update(self.coverage)
        cov.update(extra_cov or {})
        if self.notes:
            cov["notes"] = self.notes
        ev = {
            "property_id": self.pid,
            "tier": self.tier,
            "seed": self.seed,
            "level": level,
            "coverage": cov,
            "assumptions": self.assumes,
            "wall_s": round(time.time() - self.t0, 2),
            "violations": len(self.violations),
        }
        with open(os.path.join(VERIF, "evidence", self.pid + ".json"), "w") as f:
            json.dump(ev, f, indent=1, default=str)
        for key, what in self.known_seen:
            print("KNOWN-FINDING: property=%s key=%s %s" % (self.pid, key, what))
        # a concrete failing input takes precedence in the output order
        self.violations.sort(key=lambda v: not v[3])
        for key, what, path, found in self.violations:
            print("# %s: %s" % (key, what))
            print("VIOLATION property=%s replay=%s%s" % (self.pid, path, "" if found else " no-failing-input-found"))
        sys.stdout.flush()
        if self.violations:
            sys.exit(1)
        print("OK property=%s tier=%s obligations=%d/%d wall=%.1fs" % (
            self.pid, self.tier, len(self.discharged), len(self.obligations), time.time() - self.t0))
        sys.exit(0)
