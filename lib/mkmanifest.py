#!/usr/bin/env python3
"""Regenerate MANIFEST.json from checks/cXX.py META dictionaries (+ hooks.json, not_applicable.json)."""
import importlib, json, os, sys
here = os.path.dirname(os.path.dirname(os.path.abspath(__file__)))
sys.path.insert(0, os.path.join(here, "lib")); sys.path.insert(0, os.path.join(here, "checks"))
props = [json.loads(l) for l in open(os.path.join(here, "properties.jsonl"))]
hooks = json.load(open(os.path.join(here, "hooks.json")))
na_reasons = json.load(open(os.path.join(here, "not_applicable.json")))
checks, na, engines = [], [], {}
for p in props:
    pid = p["id"]
    f = os.path.join(here, "checks", pid.lower() + ".py")
    if not os.path.exists(f):
        na.append({"property_id": pid, "reason": na_reasons.get(pid, "check under construction: model and proofs not yet committed (see DESIGN.md section 4)")})
        continue
    M = importlib.import_module(pid.lower()).META
    checks.append({
        "property_id": pid,
        "quick_cmd": "./check %s --tier quick" % pid,
        "thorough_cmd": "./check %s --tier thorough" % pid,
        "evidence_file": "/verif/evidence/%s.json" % pid,
        "replay_cmd_template": "./check %s --replay {path}" % pid,
        "engine": M["engine"],
        "technique": M["technique"],
        "level_claimed": {"category": M.get("category", "proof"), "text": M["level"], "design_ref": M.get("design_ref", "DESIGN.md 4 (%s)" % pid)},
        "level_note": M["note"],
    })
    engines.setdefault(M["engine"], []).append(pid)
m = {
    "version": 1,
    "setup_cmd": "./setup.sh",
    "hooks": hooks,
    "engines": [{"name": k, "path": "/verif", "serves_properties": v,
                 "kind_free_text": "Coq 8.16 proofs over executable Gallina models; tie to /repo by Go-AST->Gallina translator and/or differential correspondence (Go harness vs model evaluated in coqc)"} for k, v in sorted(engines.items())],
    "checks": checks,
    "not_applicable": na,
    "notes": "Machine-checked proof in Coq 8.16.1; every model is tied to /repo's working tree on every run (translator and/or correspondence). See DESIGN.md.",
}
json.dump(m, open(os.path.join(here, "MANIFEST.json"), "w"), indent=1)
print("manifest: %d checks, %d not_applicable" % (len(checks), len(na)))
