package main

// Structure extractor for gcrypto/registry.go Registry.Unmarshal (C09 iii): which length guard precedes the
// two prefix slices b[:prefixSize] / b[prefixSize:].  Emits Gallina data; fails loudly on an unknown shape.

import (
	"fmt"
	"go/ast"
	"go/token"
	"strconv"
)

func init() { structureExtractors["registry_unmarshal_c09"] = extractRegistryUnmarshalC09 }

func extractRegistryUnmarshalC09(m *modCtx, sc StructureCfg) {
	f := parseRepoFile(m, sc.File)
	// const prefixSize = N
	psize := -1
	for _, d := range f.Decls {
		gd, ok := d.(*ast.GenDecl)
		if !ok || gd.Tok != token.CONST {
			continue
		}
		for _, s := range gd.Specs {
			vs := s.(*ast.ValueSpec)
			for i, n := range vs.Names {
				if n.Name == "prefixSize" && i < len(vs.Values) {
					v, err := strconv.Atoi(exprString(m.fset, vs.Values[i]))
					if err != nil {
						fail("prefixSize is not an integer literal")
					}
					psize = v
				}
			}
		}
	}
	if psize < 0 {
		fail("const prefixSize not found in %s", sc.File)
	}
	var fd *ast.FuncDecl
	for _, d := range f.Decls {
		if g, ok := d.(*ast.FuncDecl); ok && g.Name.Name == "Unmarshal" && g.Recv != nil {
			fd = g
		}
	}
	if fd == nil || len(fd.Type.Params.List) != 1 || len(fd.Type.Params.List[0].Names) != 1 {
		fail("Registry.Unmarshal(b []byte) not found")
	}
	b := fd.Type.Params.List[0].Names[0].Name
	guard := "None"
	nSlices := 0
	sawSlice := false
	for _, st := range fd.Body.List {
		if is, ok := st.(*ast.IfStmt); ok && is.Init == nil && !sawSlice {
			if exprString(m.fset, is.Cond) == "len("+b+") < prefixSize" && len(is.Body.List) == 1 {
				if rs, ok := is.Body.List[0].(*ast.ReturnStmt); ok && len(rs.Results) == 2 && exprString(m.fset, rs.Results[0]) == "nil" && exprString(m.fset, rs.Results[1]) != "nil" {
					guard = fmt.Sprintf("(Some %d%%Z)", psize)
				}
			}
		}
		ast.Inspect(st, func(x ast.Node) bool {
			se, ok := x.(*ast.SliceExpr)
			if !ok {
				return true
			}
			if exprString(m.fset, se.X) != b {
				fail("Unmarshal line %d: slice of something other than the argument", m.line(se.Pos()))
			}
			lo, hi := "", ""
			if se.Low != nil {
				lo = exprString(m.fset, se.Low)
			}
			if se.High != nil {
				hi = exprString(m.fset, se.High)
			}
			if !((lo == "" && hi == "prefixSize") || (lo == "prefixSize" && hi == "")) {
				fail("Unmarshal line %d: unexpected slice bounds [%s:%s]", m.line(se.Pos()), lo, hi)
			}
			nSlices++
			sawSlice = true
			return true
		})
	}
	if nSlices != 2 {
		fail("Unmarshal: expected the two slices b[:prefixSize] and b[prefixSize:], found %d", nSlices)
	}
	start, end := m.fset.Position(fd.Pos()), m.fset.Position(fd.End())
	fmt.Fprintf(&m.out, "(* Registry.Unmarshal : %s lines %d-%d *)\n", sc.File, start.Line, end.Line)
	fmt.Fprintf(&m.out, "Definition registry_prefix_size : Z := %d%%Z.\n", psize)
	fmt.Fprintf(&m.out, "(* `if len(b) < prefixSize { return nil, err }` before the first slice expression *)\n")
	fmt.Fprintf(&m.out, "Definition unmarshal_len_guard : option Z := %s.\n\n", guard)
}
