// Command translate regenerates Gallina definitions (coq/Gen/*.v) from the Go
// sources under a repository root.  It accepts a small, loop-free subset of Go
// (see DESIGN.md section 2.1) and fails loudly on anything else.
//
// usage: translate -repo /repo -cfg targets.d -out /verif/coq
package main

import (
	"crypto/sha256"
	"encoding/json"
	"flag"
	"fmt"
	"go/ast"
	"go/parser"
	"go/printer"
	"go/token"
	"os"
	"path/filepath"
	"sort"
	"strconv"
	"strings"
)

type FuncCfg struct {
	Name     string            `json:"name"`     // Go name; methods as "Recv.Name"
	Coq      string            `json:"coq"`      // Gallina name
	Params   map[string]string `json:"params"`   // override param types (by name)
	Recv     string            `json:"recv"`     // type name to treat the receiver as (record name)
	Results  []string          `json:"results"`  // per result: "" keep, "skip" drop
	DropArgs []string          `json:"dropargs"` // parameter names to drop
	// Opaque maps the source text of a callee (e.g. "m.Handler.HandleProposedHeader") to "param:type":
	// the call's result is an input of the generated function (an extra parameter), its arguments are not evaluated.
	Opaque map[string]string `json:"opaque"`
}

type RecordCfg struct {
	Coq    string     `json:"coq"`
	Fields [][]string `json:"fields"` // [go path, type]
}

type EnumCfg struct {
	File string `json:"file"`
	Type string `json:"type"`
}

type StructureCfg struct {
	Kind string `json:"kind"`
	File string `json:"file"`
	Func string `json:"func"`
	Coq  string `json:"coq"`
}

type ModuleCfg struct {
	Out        string               `json:"out"`
	File       string               `json:"file"`
	Requires   []string             `json:"requires"`
	Enums      []EnumCfg            `json:"enums"`
	Records    map[string]RecordCfg `json:"records"`
	Funcs      []FuncCfg            `json:"funcs"`
	Calls      map[string]string    `json:"calls"`       // Go callee -> "coqname:res|pure:type"
	IgnoreCall []string             `json:"ignorecalls"` // statement-level calls to drop (logging)
	Consts     map[string]string    `json:"consts"`      // extra named constants: name -> "value:type"
	Structures []StructureCfg       `json:"structures"`
	Types      map[string]string    `json:"types"` // named-type aliases: Go type name (without package) -> builtin type
}

type Config struct {
	Modules []ModuleCfg `json:"modules"`
}

// ---------- types ----------

type Ty struct {
	Kind string // "uint","int","bool","bytes","map","record","enum","untyped","byte"
	Bits int    // for uint
	Name string // record/enum name
}

func (t Ty) coq() string {
	switch t.Kind {
	case "uint", "enum", "byte":
		return "N"
	case "int", "untyped", "sint":
		return "Z"
	case "bool":
		return "bool"
	case "bytes":
		return "list N"
	case "map":
		return "list (list N * N)"
	case "record":
		return t.Name
	}
	return "UNKNOWN_" + t.Kind
}

func parseTy(s string, m *modCtx) Ty {
	switch s {
	case "uint64", "uint":
		return Ty{Kind: "uint", Bits: 64}
	case "uint32":
		return Ty{Kind: "uint", Bits: 32}
	case "uint16":
		return Ty{Kind: "uint", Bits: 16}
	case "uint8", "byte":
		return Ty{Kind: "uint", Bits: 8}
	case "int", "int64":
		return Ty{Kind: "int"}
	case "int64w": // a signed 64-bit integer whose arithmetic wraps (time.Duration): Z with swrap64
		return Ty{Kind: "sint", Bits: 64}
	case "bool":
		return Ty{Kind: "bool"}
	case "[]byte", "string":
		return Ty{Kind: "bytes"}
	case "map[string]uint64":
		return Ty{Kind: "map"}
	}
	if i := strings.LastIndex(s, "."); i >= 0 {
		s = s[i+1:]
	}
	if e, ok := m.enumTypes[s]; ok {
		return e
	}
	if a, ok := m.cfg.Types[s]; ok && a != s {
		return parseTy(a, m)
	}
	if r, ok := m.cfg.Records[s]; ok {
		return Ty{Kind: "record", Name: r.Coq}
	}
	fail("unsupported type %q", s)
	return Ty{}
}

func fail(f string, a ...any) {
	fmt.Fprintf(os.Stderr, "translate: "+f+"\n", a...)
	os.Exit(2)
}

// ---------- module context ----------

type modCtx struct {
	cfg       ModuleCfg
	repo      string
	fset      *token.FileSet
	enumTypes map[string]Ty          // Go type name -> Ty
	consts    map[string]constInfo   // Go const name -> value/type
	enumVals  map[string][]constName // type -> ordered constants
	out       strings.Builder
}

type constInfo struct {
	val uint64
	ty  Ty
}
type constName struct {
	name string
	val  uint64
}

type env struct {
	vars map[string]Ty
	recs map[string]string // var name -> Go record type name
	fn   string
	m    *modCtx
	fc   FuncCfg
}

func (e *env) clone() *env {
	n := &env{vars: map[string]Ty{}, recs: map[string]string{}, fn: e.fn, m: e.m, fc: e.fc}
	for k, v := range e.vars {
		n.vars[k] = v
	}
	for k, v := range e.recs {
		n.recs[k] = v
	}
	return n
}

func exprString(fset *token.FileSet, x ast.Node) string {
	var b strings.Builder
	printer.Fprint(&b, fset, x)
	return b.String()
}

func (m *modCtx) line(p token.Pos) int { return m.fset.Position(p).Line }

// ---------- enums ----------

func (m *modCtx) loadEnum(ec EnumCfg) {
	path := filepath.Join(m.repo, ec.File)
	f, err := parser.ParseFile(m.fset, path, nil, parser.ParseComments)
	if err != nil {
		fail("%v", err)
	}
	// find underlying type
	var under string
	for _, d := range f.Decls {
		gd, ok := d.(*ast.GenDecl)
		if !ok || gd.Tok != token.TYPE {
			continue
		}
		for _, s := range gd.Specs {
			ts := s.(*ast.TypeSpec)
			if ts.Name.Name == ec.Type {
				under = exprString(m.fset, ts.Type)
			}
		}
	}
	if under == "" {
		fail("enum type %s not found in %s", ec.Type, ec.File)
	}
	base := parseTy(under, m)
	ty := Ty{Kind: "enum", Bits: base.Bits, Name: ec.Type}
	m.enumTypes[ec.Type] = ty
	found := false
	for _, d := range f.Decls {
		gd, ok := d.(*ast.GenDecl)
		if !ok || gd.Tok != token.CONST {
			continue
		}
		// a const block belongs to the enum if its first spec has the type and iota
		isEnum := false
		cur := ""
		for i, s := range gd.Specs {
			vs := s.(*ast.ValueSpec)
			if vs.Type != nil {
				cur = exprString(m.fset, vs.Type)
			}
			if i == 0 {
				if cur == ec.Type && len(vs.Values) == 1 && exprString(m.fset, vs.Values[0]) == "iota" {
					isEnum = true
				} else {
					break
				}
			} else if len(vs.Values) != 0 {
				fail("enum %s: unsupported explicit value at line %d", ec.Type, m.line(vs.Pos()))
			}
			if !isEnum {
				break
			}
			for _, n := range vs.Names {
				if n.Name != "_" {
					m.consts[n.Name] = constInfo{uint64(i), ty}
					m.enumVals[ec.Type] = append(m.enumVals[ec.Type], constName{n.Name, uint64(i)})
				}
			}
		}
		if isEnum {
			found = true
		}
	}
	if !found {
		fail("enum const block for %s not found in %s", ec.Type, ec.File)
	}
	fmt.Fprintf(&m.out, "(* enum %s from %s *)\n", ec.Type, ec.File)
	var names []string
	for _, c := range m.enumVals[ec.Type] {
		fmt.Fprintf(&m.out, "Definition %s : N := %d.\n", c.name, c.val)
		names = append(names, c.name)
	}
	fmt.Fprintf(&m.out, "Definition all_%s : list N := [%s].\n", ec.Type, strings.Join(names, "; "))
	var strs []string
	for _, c := range m.enumVals[ec.Type] {
		strs = append(strs, fmt.Sprintf("(%d, \"%s\")", c.val, c.name))
	}
	fmt.Fprintf(&m.out, "Definition names_%s : list (N * string) := [%s].\n\n", ec.Type, strings.Join(strs, "; "))
}

// ---------- expressions ----------

type bind struct {
	v    string
	term string // a res-valued term
}

type exprOut struct {
	binds []bind
	term  string
	ty    Ty
}

var tmpCounter int

func fresh(p string) string { tmpCounter++; return fmt.Sprintf("%s_%d", p, tmpCounter) }

func wrapFn(t Ty) string {
	if t.Kind == "uint" || t.Kind == "enum" {
		return fmt.Sprintf("wrap%d", t.Bits)
	}
	return ""
}

func unify(a, b Ty, m *modCtx, pos token.Pos) Ty {
	if a.Kind == "untyped" {
		return b
	}
	if b.Kind == "untyped" {
		return a
	}
	if a.Kind != b.Kind || a.Bits != b.Bits {
		if (a.Kind == "enum" && b.Kind == "uint") || (a.Kind == "uint" && b.Kind == "enum") {
			if a.Bits == b.Bits {
				return a
			}
		}
		fail("line %d: type mismatch %v vs %v", m.line(pos), a, b)
	}
	return a
}

// literal conversion: an untyped Z literal used at N type
func coerce(term string, from, to Ty) string {
	if from.Kind == "untyped" && (to.Kind == "uint" || to.Kind == "enum" || to.Kind == "byte") {
		// term is a numeral
		return strings.TrimSuffix(strings.TrimPrefix(term, "("), "%Z)") + "%N"
	}
	return term
}

func (e *env) selectorPath(x ast.Expr) (root string, path []string, ok bool) {
	switch v := x.(type) {
	case *ast.Ident:
		return v.Name, nil, true
	case *ast.SelectorExpr:
		r, p, ok := e.selectorPath(v.X)
		if !ok {
			return "", nil, false
		}
		return r, append(p, v.Sel.Name), true
	}
	return "", nil, false
}

func (e *env) expr(x ast.Expr) exprOut {
	m := e.m
	switch v := x.(type) {
	case *ast.ParenExpr:
		o := e.expr(v.X)
		o.term = "(" + o.term + ")"
		return o
	case *ast.BasicLit:
		switch v.Kind {
		case token.INT:
			n, err := strconv.ParseUint(v.Value, 0, 64)
			if err != nil {
				fail("bad int literal %s", v.Value)
			}
			return exprOut{term: fmt.Sprintf("(%d%%Z)", n), ty: Ty{Kind: "untyped"}}
		case token.STRING:
			s, err := strconv.Unquote(v.Value)
			if err != nil {
				fail("bad string literal")
			}
			var bs []string
			for _, c := range []byte(s) {
				bs = append(bs, fmt.Sprintf("%d%%N", c))
			}
			return exprOut{term: "[" + strings.Join(bs, "; ") + "]", ty: Ty{Kind: "bytes"}}
		}
	case *ast.Ident:
		switch v.Name {
		case "true", "false":
			return exprOut{term: v.Name, ty: Ty{Kind: "bool"}}
		}
		if t, ok := e.vars[v.Name]; ok {
			return exprOut{term: v.Name, ty: t}
		}
		if c, ok := m.consts[v.Name]; ok {
			return exprOut{term: v.Name, ty: c.ty}
		}
		fail("line %d: unknown identifier %s", m.line(v.Pos()), v.Name)
	case *ast.SelectorExpr:
		// pkg.Const ?
		if id, ok := v.X.(*ast.Ident); ok {
			if _, isVar := e.vars[id.Name]; !isVar {
				if c, ok := m.consts[v.Sel.Name]; ok {
					return exprOut{term: v.Sel.Name, ty: c.ty}
				}
			}
		}
		root, path, ok := e.selectorPath(v)
		if ok {
			if rn, isRec := e.recs[root]; isRec {
				rc := m.cfg.Records[rn]
				p := strings.Join(path, ".")
				for _, f := range rc.Fields {
					if f[0] == p {
						return exprOut{term: fmt.Sprintf("(%s_%s %s)", rc.Coq, strings.ReplaceAll(p, ".", "_"), root), ty: parseTy(f[1], m)}
					}
				}
				fail("line %d: field %s of record %s not declared in config", m.line(v.Pos()), p, rn)
			}
		}
		fail("line %d: unsupported selector %s", m.line(v.Pos()), exprString(m.fset, v))
	case *ast.UnaryExpr:
		o := e.expr(v.X)
		switch v.Op {
		case token.NOT:
			o.term = "(negb " + o.term + ")"
			return o
		}
		fail("line %d: unsupported unary %s", m.line(v.Pos()), v.Op)
	case *ast.BinaryExpr:
		return e.binary(v)
	case *ast.CallExpr:
		return e.call(v)
	case *ast.IndexExpr:
		a := e.expr(v.X)
		i := e.expr(v.Index)
		switch a.ty.Kind {
		case "map":
			if i.ty.Kind != "bytes" {
				fail("line %d: map key must be bytes", m.line(v.Pos()))
			}
			return exprOut{binds: append(a.binds, i.binds...), term: fmt.Sprintf("(map_get %s %s)", a.term, i.term), ty: Ty{Kind: "uint", Bits: 64}}
		case "bytes":
			it := toZ(i)
			t := fresh("ix")
			b := append(append(a.binds, i.binds...), bind{t, fmt.Sprintf("index_bytes %s %s \"%s:%d\"", a.term, it, e.fn, m.line(v.Pos()))})
			return exprOut{binds: b, term: t, ty: Ty{Kind: "uint", Bits: 8}}
		}
		fail("line %d: unsupported index expression", m.line(v.Pos()))
	case *ast.SliceExpr:
		a := e.expr(v.X)
		if a.ty.Kind != "bytes" || v.Slice3 {
			fail("line %d: unsupported slice expression", m.line(v.Pos()))
		}
		lo, hi := "0%Z", fmt.Sprintf("(Z.of_nat (List.length %s))", a.term)
		b := a.binds
		if v.Low != nil {
			l := e.expr(v.Low)
			b = append(b, l.binds...)
			lo = toZ(l)
		}
		if v.High != nil {
			h := e.expr(v.High)
			b = append(b, h.binds...)
			hi = toZ(h)
		}
		t := fresh("sl")
		b = append(b, bind{t, fmt.Sprintf("slice_bytes %s %s %s \"%s:%d\"", a.term, lo, hi, e.fn, m.line(v.Pos()))})
		return exprOut{binds: b, term: t, ty: Ty{Kind: "bytes"}}
	}
	fail("line %d: unsupported expression %s (%T)", m.line(x.Pos()), exprString(m.fset, x), x)
	return exprOut{}
}

func toZ(o exprOut) string {
	switch o.ty.Kind {
	case "int", "untyped":
		return o.term
	case "uint", "enum", "byte":
		return "(Z.of_N " + o.term + ")"
	}
	fail("cannot convert %v to Z", o.ty)
	return ""
}

func (e *env) binary(v *ast.BinaryExpr) exprOut {
	m := e.m
	a := e.expr(v.X)
	b := e.expr(v.Y)
	binds := append(append([]bind{}, a.binds...), b.binds...)
	switch v.Op {
	case token.LAND, token.LOR:
		if len(b.binds) != 0 {
			fail("line %d: partial expression on the right of a short-circuit operator", m.line(v.Pos()))
		}
		op := "andb"
		if v.Op == token.LOR {
			op = "orb"
		}
		return exprOut{binds: binds, term: fmt.Sprintf("(%s %s %s)", op, a.term, b.term), ty: Ty{Kind: "bool"}}
	}
	t := unify(a.ty, b.ty, m, v.Pos())
	at, bt := coerce(a.term, a.ty, t), coerce(b.term, b.ty, t)
	isN := t.Kind == "uint" || t.Kind == "enum" || t.Kind == "byte"
	mod := "Z"
	if isN {
		mod = "N"
	}
	cmp := func(fn string, neg bool) exprOut {
		s := fmt.Sprintf("(%s.%s %s %s)", mod, fn, at, bt)
		if neg {
			s = "(negb " + s + ")"
		}
		return exprOut{binds: binds, term: s, ty: Ty{Kind: "bool"}}
	}
	switch v.Op {
	case token.EQL, token.NEQ:
		if t.Kind == "bytes" {
			s := fmt.Sprintf("(bytes_eqb %s %s)", at, bt)
			if v.Op == token.NEQ {
				s = "(negb " + s + ")"
			}
			return exprOut{binds: binds, term: s, ty: Ty{Kind: "bool"}}
		}
		if t.Kind == "bool" {
			s := fmt.Sprintf("(Bool.eqb %s %s)", at, bt)
			if v.Op == token.NEQ {
				s = "(negb " + s + ")"
			}
			return exprOut{binds: binds, term: s, ty: Ty{Kind: "bool"}}
		}
		return cmp("eqb", v.Op == token.NEQ)
	case token.LSS:
		return cmp("ltb", false)
	case token.LEQ:
		return cmp("leb", false)
	case token.GTR:
		at, bt = bt, at
		return cmp("ltb", false)
	case token.GEQ:
		at, bt = bt, at
		return cmp("leb", false)
	case token.ADD, token.MUL:
		op := "+"
		if v.Op == token.MUL {
			op = "*"
		}
		s := fmt.Sprintf("(%s %s %s)", at, op, bt)
		if isN {
			s = fmt.Sprintf("(%s %s)", wrapFn(t), s)
		}
		if t.Kind == "sint" {
			s = fmt.Sprintf("(swrap%d %s)", t.Bits, s)
		}
		if t.Kind == "untyped" {
			fail("line %d: constant folding of untyped arithmetic not supported", m.line(v.Pos()))
		}
		return exprOut{binds: binds, term: s, ty: t}
	case token.SUB:
		if isN {
			return exprOut{binds: binds, term: fmt.Sprintf("(sub%d %s %s)", t.Bits, at, bt), ty: t}
		}
		if t.Kind == "sint" {
			return exprOut{binds: binds, term: fmt.Sprintf("(swrap%d (%s - %s))", t.Bits, at, bt), ty: t}
		}
		return exprOut{binds: binds, term: fmt.Sprintf("(%s - %s)", at, bt), ty: t}
	case token.QUO, token.REM:
		fn := "div"
		if v.Op == token.REM {
			fn = "modulo"
		}
		if !isN {
			fail("line %d: signed division not supported", m.line(v.Pos()))
		}
		// constant non-zero divisor: total
		if lit, ok := v.Y.(*ast.BasicLit); ok && lit.Kind == token.INT && lit.Value != "0" {
			return exprOut{binds: binds, term: fmt.Sprintf("(N.%s %s %s)", fn, at, bt), ty: t}
		}
		tv := fresh("q")
		binds = append(binds, bind{tv, fmt.Sprintf("checked_%s %s %s \"%s:%d\"", fn, at, bt, e.fn, m.line(v.Pos()))})
		return exprOut{binds: binds, term: tv, ty: t}
	}
	fail("line %d: unsupported binary operator %s", m.line(v.Pos()), v.Op)
	return exprOut{}
}

func (e *env) call(v *ast.CallExpr) exprOut {
	m := e.m
	name := exprString(m.fset, v.Fun)
	switch name {
	case "len":
		a := e.expr(v.Args[0])
		if a.ty.Kind != "bytes" {
			fail("line %d: len of non-bytes", m.line(v.Pos()))
		}
		return exprOut{binds: a.binds, term: fmt.Sprintf("(Z.of_nat (List.length %s))", a.term), ty: Ty{Kind: "int"}}
	case "int":
		a := e.expr(v.Args[0])
		return exprOut{binds: a.binds, term: toZ(a), ty: Ty{Kind: "int"}}
	case "uint":
		a := e.expr(v.Args[0])
		if a.ty.Kind == "uint" {
			return exprOut{binds: a.binds, term: a.term, ty: Ty{Kind: "uint", Bits: 64}}
		}
	case "string", "[]byte":
		a := e.expr(v.Args[0])
		if a.ty.Kind == "bytes" {
			return a
		}
	case "time.Duration":
		// conversion of an unsigned integer to int64: two's complement reinterpretation
		a := e.expr(v.Args[0])
		if a.ty.Kind == "uint" {
			return exprOut{binds: a.binds, term: fmt.Sprintf("(swrap64 (Z.of_N %s))", a.term), ty: Ty{Kind: "sint", Bits: 64}}
		}
	case "binary.BigEndian.Uint16":
		a := e.expr(v.Args[0])
		t := fresh("be")
		b := append(a.binds, bind{t, fmt.Sprintf("be_uint16 %s \"%s:%d\"", a.term, e.fn, m.line(v.Pos()))})
		return exprOut{binds: b, term: t, ty: Ty{Kind: "uint", Bits: 16}}
	}
	if spec, ok := e.fc.Opaque[name]; ok {
		parts := strings.SplitN(spec, ":", 2)
		return exprOut{term: parts[0], ty: parseTy(parts[1], m)}
	}
	if spec, ok := m.cfg.Calls[name]; ok {
		// "coqname:res:type" or "coqname:pure:type"
		parts := strings.SplitN(spec, ":", 3)
		var args []string
		var binds []bind
		for _, a := range v.Args {
			o := e.expr(a)
			binds = append(binds, o.binds...)
			args = append(args, o.term)
		}
		app := parts[0] + " " + strings.Join(args, " ")
		ty := parseTy(parts[2], m)
		if parts[1] == "res" {
			t := fresh("c")
			binds = append(binds, bind{t, app})
			return exprOut{binds: binds, term: t, ty: ty}
		}
		return exprOut{binds: binds, term: "(" + app + ")", ty: ty}
	}
	fail("line %d: unsupported call %s", m.line(v.Pos()), name)
	return exprOut{}
}

// ---------- statements ----------

func indent(n int) string { return strings.Repeat("  ", n) }

func withBinds(bs []bind, body string, d int) string {
	var s strings.Builder
	for _, b := range bs {
		fmt.Fprintf(&s, "%sbind (%s) (fun %s =>\n", indent(d), b.term, b.v)
	}
	s.WriteString(body)
	for range bs {
		s.WriteString(")")
	}
	return s.String()
}

type cont func(e *env, d int) string

func (e *env) stmts(list []ast.Stmt, d int, k cont) string {
	if len(list) == 0 {
		return k(e, d)
	}
	rest := func(e2 *env, d2 int) string { return e2.stmts(list[1:], d2, k) }
	return e.stmt(list[0], d, rest)
}

func (e *env) assign(lhs []ast.Expr, rhs []ast.Expr, define bool, d int, k cont, pos token.Pos) string {
	m := e.m
	if len(lhs) != len(rhs) {
		fail("line %d: unsupported multi-value assignment from call", m.line(pos))
	}
	ne := e.clone()
	var binds []bind
	var lets []string
	// evaluate all rhs first (Go semantics), bind to temporaries, then rename
	type pair struct{ name, tmp string }
	var pairs []pair
	for i := range lhs {
		id, ok := lhs[i].(*ast.Ident)
		if !ok {
			fail("line %d: assignment target must be a local variable", m.line(pos))
		}
		o := e.expr(rhs[i])
		binds = append(binds, o.binds...)
		ty := o.ty
		term := o.term
		if old, exists := e.vars[id.Name]; exists && !define {
			term = coerce(term, ty, old)
			ty = unify(old, ty, m, pos)
		} else if exists && define {
			// redeclaration in := with at least one new var keeps the type
			term = coerce(term, ty, old)
			ty = unify(old, ty, m, pos)
		} else if ty.Kind == "untyped" {
			ty = Ty{Kind: "int"}
		}
		if id.Name == "_" {
			continue
		}
		tmp := fresh("a")
		lets = append(lets, fmt.Sprintf("%slet %s := %s in\n", indent(d), tmp, term))
		pairs = append(pairs, pair{id.Name, tmp})
		ne.vars[id.Name] = ty
	}
	for _, p := range pairs {
		lets = append(lets, fmt.Sprintf("%slet %s := %s in\n", indent(d), p.name, p.tmp))
	}
	return withBinds(binds, strings.Join(lets, "")+k(ne, d), d)
}

func (e *env) stmt(s ast.Stmt, d int, k cont) string {
	m := e.m
	switch v := s.(type) {
	case *ast.ReturnStmt:
		var binds []bind
		var terms []string
		for i, r := range v.Results {
			if i < len(e.fc.Results) && e.fc.Results[i] == "skip" {
				continue
			}
			o := e.expr(r)
			binds = append(binds, o.binds...)
			t := o.term
			if o.ty.Kind == "untyped" {
				// numeric literal returned at an enum/uint type: emit as N
				t = coerce(t, o.ty, Ty{Kind: "uint", Bits: 64})
			}
			terms = append(terms, t)
		}
		return withBinds(binds, fmt.Sprintf("%sOk (%s)", indent(d), strings.Join(terms, ", ")), d)
	case *ast.ExprStmt:
		if c, ok := v.X.(*ast.CallExpr); ok {
			name := exprString(m.fset, c.Fun)
			if name == "panic" {
				return fmt.Sprintf("%sPanic \"%s:%d\"", indent(d), e.fn, m.line(v.Pos()))
			}
			for _, ig := range m.cfg.IgnoreCall {
				if ig == name {
					return k(e, d)
				}
			}
		}
		fail("line %d: unsupported expression statement %s", m.line(v.Pos()), exprString(m.fset, v))
	case *ast.AssignStmt:
		switch v.Tok {
		case token.DEFINE, token.ASSIGN:
			return e.assign(v.Lhs, v.Rhs, v.Tok == token.DEFINE, d, k, v.Pos())
		case token.ADD_ASSIGN, token.SUB_ASSIGN:
			op := token.ADD
			if v.Tok == token.SUB_ASSIGN {
				op = token.SUB
			}
			return e.assign(v.Lhs, []ast.Expr{&ast.BinaryExpr{X: v.Lhs[0], Op: op, Y: v.Rhs[0], OpPos: v.Pos()}}, false, d, k, v.Pos())
		}
		fail("line %d: unsupported assignment operator", m.line(v.Pos()))
	case *ast.IncDecStmt:
		op := token.ADD
		if v.Tok == token.DEC {
			op = token.SUB
		}
		one := &ast.BasicLit{Kind: token.INT, Value: "1", ValuePos: v.Pos()}
		return e.assign([]ast.Expr{v.X}, []ast.Expr{&ast.BinaryExpr{X: v.X, Op: op, Y: one, OpPos: v.Pos()}}, false, d, k, v.Pos())
	case *ast.DeclStmt:
		gd := v.Decl.(*ast.GenDecl)
		if gd.Tok != token.VAR {
			fail("line %d: unsupported declaration", m.line(v.Pos()))
		}
		ne := e.clone()
		var lets []string
		for _, sp := range gd.Specs {
			vs := sp.(*ast.ValueSpec)
			if len(vs.Values) != 0 || vs.Type == nil {
				fail("line %d: unsupported var declaration", m.line(v.Pos()))
			}
			ty := parseTy(exprString(m.fset, vs.Type), m)
			zero := map[string]string{"uint": "0%N", "enum": "0%N", "int": "0%Z", "bool": "false", "bytes": "[]"}[ty.Kind]
			for _, n := range vs.Names {
				ne.vars[n.Name] = ty
				lets = append(lets, fmt.Sprintf("%slet %s := %s in\n", indent(d), n.Name, zero))
			}
		}
		return strings.Join(lets, "") + k(ne, d)
	case *ast.BlockStmt:
		// variables declared inside do not escape, but assignments to outer ones do;
		// shadowing declarations inside nested blocks are rejected for simplicity.
		return e.stmts(v.List, d, func(e2 *env, d2 int) string {
			for n := range e2.vars {
				if _, ok := e.vars[n]; !ok {
					delete(e2.vars, n)
				}
			}
			return k(e2, d2)
		})
	case *ast.IfStmt:
		if v.Init != nil {
			return e.stmt(v.Init, d, func(e2 *env, d2 int) string {
				c := *v
				c.Init = nil
				return e2.stmt(&c, d2, k)
			})
		}
		c := e.expr(v.Cond)
		if c.ty.Kind != "bool" {
			fail("line %d: non-bool condition", m.line(v.Pos()))
		}
		thenS := e.stmt(v.Body, d+1, k)
		var elseS string
		if v.Else != nil {
			elseS = e.stmt(v.Else, d+1, k)
		} else {
			elseS = k(e, d+1)
		}
		body := fmt.Sprintf("%sif %s then\n%s\n%selse\n%s", indent(d), c.term, thenS, indent(d), elseS)
		return withBinds(c.binds, body, d)
	case *ast.SwitchStmt:
		if v.Init != nil {
			fail("line %d: switch init not supported", m.line(v.Pos()))
		}
		var tag *exprOut
		var pre []bind
		tagVar := ""
		if v.Tag != nil {
			o := e.expr(v.Tag)
			tag = &o
			pre = o.binds
			tagVar = fresh("tag")
		}
		var deflt *ast.CaseClause
		var clauses []*ast.CaseClause
		for _, c := range v.Body.List {
			cc := c.(*ast.CaseClause)
			if cc.List == nil {
				deflt = cc
			} else {
				clauses = append(clauses, cc)
			}
			for _, st := range cc.Body {
				if br, ok := st.(*ast.BranchStmt); ok {
					fail("line %d: %s in switch not supported", m.line(br.Pos()), br.Tok)
				}
			}
		}
		var build func(i int, d int) string
		build = func(i int, d int) string {
			if i == len(clauses) {
				if deflt != nil {
					return e.stmts(deflt.Body, d, k)
				}
				return k(e, d)
			}
			cc := clauses[i]
			var conds []string
			for _, x := range cc.List {
				o := e.expr(x)
				if len(o.binds) != 0 {
					fail("line %d: partial expression in case", m.line(x.Pos()))
				}
				if tag != nil {
					t := unify(tag.ty, o.ty, m, x.Pos())
					if t.Kind == "bytes" {
						conds = append(conds, fmt.Sprintf("(bytes_eqb %s %s)", tagVar, o.term))
					} else if t.Kind == "int" {
						conds = append(conds, fmt.Sprintf("(Z.eqb %s %s)", tagVar, o.term))
					} else {
						conds = append(conds, fmt.Sprintf("(N.eqb %s %s)", tagVar, coerce(o.term, o.ty, t)))
					}
				} else {
					conds = append(conds, o.term)
				}
			}
			cond := conds[0]
			for _, c := range conds[1:] {
				cond = fmt.Sprintf("(orb %s %s)", cond, c)
			}
			return fmt.Sprintf("%sif %s then\n%s\n%selse\n%s", indent(d), cond, e.stmts(cc.Body, d+1, k), indent(d), build(i+1, d+1))
		}
		body := build(0, d)
		if tag != nil {
			body = fmt.Sprintf("%slet %s := %s in\n%s", indent(d), tagVar, tag.term, body)
		}
		return withBinds(pre, body, d)
	}
	fail("line %d: unsupported statement %T", m.line(s.Pos()), s)
	return ""
}

// ---------- functions ----------

func (m *modCtx) translateFunc(f *ast.File, fc FuncCfg, src []byte) {
	var fd *ast.FuncDecl
	for _, d := range f.Decls {
		g, ok := d.(*ast.FuncDecl)
		if !ok {
			continue
		}
		n := g.Name.Name
		if g.Recv != nil && len(g.Recv.List) == 1 {
			rt := exprString(m.fset, g.Recv.List[0].Type)
			rt = strings.TrimPrefix(rt, "*")
			n = rt + "." + n
		}
		if n == fc.Name {
			fd = g
		}
	}
	if fd == nil {
		fail("function %s not found in %s", fc.Name, m.cfg.File)
	}
	e := &env{vars: map[string]Ty{}, recs: map[string]string{}, fn: fc.Name, m: m, fc: fc}
	var params []string
	drop := map[string]bool{}
	for _, a := range fc.DropArgs {
		drop[a] = true
	}
	addParam := func(name, tyS string) {
		if drop[name] {
			return
		}
		if o, ok := fc.Params[name]; ok {
			tyS = o
		}
		base := tyS
		if i := strings.LastIndex(base, "."); i >= 0 {
			base = base[i+1:]
		}
		base = strings.TrimPrefix(base, "*")
		if r, ok := m.cfg.Records[base]; ok {
			e.recs[name] = base
			e.vars[name] = Ty{Kind: "record", Name: r.Coq}
			params = append(params, fmt.Sprintf("(%s : %s)", name, r.Coq))
			return
		}
		t := parseTy(tyS, m)
		e.vars[name] = t
		params = append(params, fmt.Sprintf("(%s : %s)", name, t.coq()))
	}
	if fd.Recv != nil && len(fd.Recv.List) == 1 && len(fd.Recv.List[0].Names) == 1 {
		rn := fd.Recv.List[0].Names[0].Name
		rt := strings.TrimPrefix(exprString(m.fset, fd.Recv.List[0].Type), "*")
		if fc.Recv != "" {
			rt = fc.Recv
		}
		if _, ok := m.cfg.Records[rt]; ok {
			addParam(rn, rt)
		}
	}
	for _, p := range fd.Type.Params.List {
		for _, n := range p.Names {
			addParam(n.Name, exprString(m.fset, p.Type))
		}
	}
	var opaqueKeys []string
	for k := range fc.Opaque {
		opaqueKeys = append(opaqueKeys, k)
	}
	sort.Strings(opaqueKeys)
	for _, k := range opaqueKeys {
		parts := strings.SplitN(fc.Opaque[k], ":", 2)
		if len(parts) != 2 {
			fail("opaque spec for %s must be param:type", k)
		}
		t := parseTy(parts[1], m)
		params = append(params, fmt.Sprintf("(%s : %s)", parts[0], t.coq()))
	}
	// named results become zero-initialised locals
	var resTys []string
	var namedLets []string
	if fd.Type.Results != nil {
		idx := 0
		for _, r := range fd.Type.Results.List {
			cnt := len(r.Names)
			if cnt == 0 {
				cnt = 1
			}
			for j := 0; j < cnt; j++ {
				skip := idx < len(fc.Results) && fc.Results[idx] == "skip"
				idx++
				if skip {
					continue
				}
				t := parseTy(exprString(m.fset, r.Type), m)
				resTys = append(resTys, t.coq())
				if len(r.Names) > 0 {
					e.vars[r.Names[j].Name] = t
					zero := map[string]string{"uint": "0%N", "enum": "0%N", "int": "0%Z", "bool": "false", "bytes": "[]"}[t.Kind]
					namedLets = append(namedLets, fmt.Sprintf("  let %s := %s in\n", r.Names[j].Name, zero))
				}
			}
		}
	}
	body := e.stmts(fd.Body.List, 1, func(e2 *env, d int) string {
		return fmt.Sprintf("%sPanic \"%s:missing-return\"", indent(d), fc.Name)
	})
	start, end := m.fset.Position(fd.Pos()), m.fset.Position(fd.End())
	text := src[start.Offset:end.Offset]
	h := sha256.Sum256(text)
	fmt.Fprintf(&m.out, "(* %s : %s lines %d-%d sha256 %x *)\n", fc.Name, m.cfg.File, start.Line, end.Line, h[:8])
	fmt.Fprintf(&m.out, "Definition %s %s : res (%s) :=\n%s%s.\n", fc.Coq, strings.Join(params, " "), strings.Join(resTys, " * "), strings.Join(namedLets, ""), body)
	fmt.Fprintf(&m.out, "Definition %s_src : string := \"%s:%d-%d:%x\".\n\n", fc.Coq, m.cfg.File, start.Line, end.Line, h[:8])
}

func (m *modCtx) emitRecords() {
	var names []string
	for n := range m.cfg.Records {
		names = append(names, n)
	}
	sort.Strings(names)
	for _, n := range names {
		r := m.cfg.Records[n]
		var fs []string
		for _, f := range r.Fields {
			fs = append(fs, fmt.Sprintf("%s_%s : %s", r.Coq, strings.ReplaceAll(f[0], ".", "_"), parseTy(f[1], m).coq()))
		}
		fmt.Fprintf(&m.out, "Record %s := mk_%s { %s }.\n\n", r.Coq, r.Coq, strings.Join(fs, "; "))
	}
}

func main() {
	repo := flag.String("repo", "/repo", "repository root")
	cfgPath := flag.String("cfg", "targets.d", "directory of *.json configs")
	out := flag.String("out", "/verif/coq", "coq root")
	only := flag.String("only", "", "comma separated list of output modules (default all)")
	flag.Parse()
	var cfg Config
	files, err := filepath.Glob(filepath.Join(*cfgPath, "*.json"))
	if err != nil || len(files) == 0 {
		fail("no config files in %s", *cfgPath)
	}
	sort.Strings(files)
	for _, cf := range files {
		raw, err := os.ReadFile(cf)
		if err != nil {
			fail("%v", err)
		}
		var one Config
		if err := json.Unmarshal(raw, &one); err != nil {
			fail("config %s: %v", cf, err)
		}
		cfg.Modules = append(cfg.Modules, one.Modules...)
	}
	want := map[string]bool{}
	for _, o := range strings.Split(*only, ",") {
		if o != "" {
			want[o] = true
		}
	}
	for _, mc := range cfg.Modules {
		if len(want) > 0 && !want[mc.Out] {
			continue
		}
		tmpCounter = 0
		m := &modCtx{cfg: mc, repo: *repo, fset: token.NewFileSet(), enumTypes: map[string]Ty{}, consts: map[string]constInfo{}, enumVals: map[string][]constName{}}
		fmt.Fprintf(&m.out, "(* GENERATED by /verif/translate from %s -- do not edit; regenerated on every run *)\n", mc.File)
		m.out.WriteString("From Coq Require Import List NArith ZArith String Bool.\nFrom GV Require Import Base.Ints.\n")
		for _, r := range mc.Requires {
			fmt.Fprintf(&m.out, "From GV Require Import %s.\n", r)
		}
		m.out.WriteString("Import ListNotations.\nLocal Open Scope N_scope.\nLocal Open Scope string_scope.\n\n")
		var constNames []string
		for n := range mc.Consts {
			constNames = append(constNames, n)
		}
		sort.Strings(constNames)
		for _, n := range constNames {
			parts := strings.SplitN(mc.Consts[n], ":", 2)
			val, _ := strconv.ParseUint(parts[0], 0, 64)
			m.consts[n] = constInfo{val, parseTy(parts[1], m)}
			sc := "N"
			if m.consts[n].ty.coq() == "Z" {
				sc = "Z"
			}
			fmt.Fprintf(&m.out, "Definition %s : %s := (%d)%%%s.\n", n, m.consts[n].ty.coq(), val, sc)
		}
		for _, ec := range mc.Enums {
			m.loadEnum(ec)
		}
		m.emitRecords()
		if len(mc.Funcs) > 0 {
			path := filepath.Join(*repo, mc.File)
			src, err := os.ReadFile(path)
			if err != nil {
				fail("%v", err)
			}
			f, err := parser.ParseFile(m.fset, path, src, parser.ParseComments)
			if err != nil {
				fail("%v", err)
			}
			for _, fc := range mc.Funcs {
				m.translateFunc(f, fc, src)
			}
		}
		for _, sc := range mc.Structures {
			m.extractStructure(sc)
		}
		dst := filepath.Join(*out, mc.Out)
		old, _ := os.ReadFile(dst)
		if string(old) != m.out.String() {
			if err := os.WriteFile(dst, []byte(m.out.String()), 0o644); err != nil {
				fail("%v", err)
			}
			fmt.Printf("translate: wrote %s\n", mc.Out)
		} else {
			fmt.Printf("translate: unchanged %s\n", mc.Out)
		}
	}
}
