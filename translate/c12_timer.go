package main

// Structure extractor for C12(b): reads StandardRoundTimer.background
// (tm/tmengine/internal/tmstate/roundtimer.go) and renders its statements before
// the loop, the two select statements of the loop and the body of the cancel
// function handed to the caller as Gallina data over the closed vocabulary of
// coq/Model/TimerVocab.v.  Every statement must match one of the patterns below;
// anything else is an error (never a silent skip).

import (
	"crypto/sha256"
	"fmt"
	"go/ast"
	"go/parser"
	"go/token"
	"os"
	"path/filepath"
	"strings"
)

func init() {
	structureExtractors["roundtimer_selects"] = extractRoundTimer
}

type rtx struct {
	m          *modCtx
	closures   map[string]*ast.FuncLit // local func literals (inlined at call sites)
	mutexes    map[string]bool         // local sync.Mutex variables
	runLabel   string                  // label of the second select ("" if none)
	cancelBody []string                // body of the cancel function
	haveCancel bool
	aliasOK    bool // localCancel := cancelTimer seen after make(cancel) in the current body
	onceOK     bool // var cancelOnce sync.Once seen in the current body
	madeCancel bool
}

func (x *rtx) str(n ast.Node) string { return exprString(x.m.fset, n) }

func (x *rtx) bad(n ast.Node, why string) {
	fail("roundtimer extractor: line %d: %s: %s", x.m.line(n.Pos()), why, x.str(n))
}

// isStopDrain matches: if !timer.Stop() { select { case <-timer.C: case <-ctx.Done(): return } }
func (x *rtx) isStopDrain(s *ast.IfStmt) bool {
	if s.Init != nil || s.Else != nil || x.str(s.Cond) != "!timer.Stop()" || len(s.Body.List) != 1 {
		return false
	}
	sel, ok := s.Body.List[0].(*ast.SelectStmt)
	if !ok || len(sel.Body.List) != 2 {
		return false
	}
	seenC, seenCtx := false, false
	for _, c := range sel.Body.List {
		cc := c.(*ast.CommClause)
		if cc.Comm == nil {
			return false
		}
		switch x.str(cc.Comm) {
		case "<-timer.C":
			if len(cc.Body) != 0 {
				return false
			}
			seenC = true
		case "<-ctx.Done()":
			if len(cc.Body) != 1 || x.str(cc.Body[0]) != "return" {
				return false
			}
			seenCtx = true
		default:
			return false
		}
	}
	return seenC && seenCtx
}

// basics renders a statement list into basic statements; nested selects are not allowed here.
func (x *rtx) basics(stmts []ast.Stmt, inCancel bool) []string {
	var out []string
	for _, s := range stmts {
		acts := x.stmt(s, inCancel)
		for _, a := range acts {
			if strings.HasPrefix(a, "AIfCancelled") {
				x.bad(s, "nested select inside a nested select / cancel body is outside the vocabulary")
			}
			out = append(out, strings.TrimPrefix(a, "ABasic "))
		}
	}
	return out
}

// stmt renders one statement as a list of actions ("ABasic Bxxx" or "AIfCancelled [...] [...]").
func (x *rtx) stmt(s ast.Stmt, inCancel bool) []string {
	b := func(n string) []string { return []string{"ABasic " + n} }
	switch st := s.(type) {
	case *ast.EmptyStmt:
		return nil
	case *ast.ReturnStmt:
		if len(st.Results) != 0 {
			x.bad(s, "return with values")
		}
		return b("BReturn")
	case *ast.BranchStmt:
		if st.Tok == token.GOTO && st.Label != nil && st.Label.Name == x.runLabel && x.runLabel != "" {
			return b("BGotoRunning")
		}
		x.bad(s, "unsupported branch statement")
	case *ast.DeclStmt:
		if x.str(s) == "var cancelOnce sync.Once" {
			x.onceOK = true
			return nil
		}
		x.bad(s, "unsupported declaration")
	case *ast.IfStmt:
		if x.isStopDrain(st) {
			return b("BStopDrain")
		}
		x.bad(s, "unsupported if statement")
	case *ast.SelectStmt:
		// select { case <-cancelTimer: A  default: B }
		if len(st.Body.List) != 2 {
			x.bad(s, "nested select must have exactly a cancelTimer case and a default")
		}
		var thenB, elseB []string
		seenT, seenD := false, false
		for _, c := range st.Body.List {
			cc := c.(*ast.CommClause)
			if cc.Comm == nil {
				elseB = x.basics(cc.Body, inCancel)
				seenD = true
			} else if x.str(cc.Comm) == "<-cancelTimer" {
				thenB = x.basics(cc.Body, inCancel)
				seenT = true
			} else {
				x.bad(cc, "unsupported case in nested select")
			}
		}
		if !seenT || !seenD {
			x.bad(s, "nested select must have exactly a cancelTimer case and a default")
		}
		return []string{fmt.Sprintf("AIfCancelled [%s] [%s]", strings.Join(thenB, "; "), strings.Join(elseB, "; "))}
	case *ast.AssignStmt:
		t := x.str(s)
		switch t {
		case "timerElapsed = make(chan struct{})":
			return b("BMakeElapsed")
		case "cancelTimer = make(chan struct{})":
			x.madeCancel = true
			x.aliasOK = false
			return b("BMakeCancel")
		case "timerElapsed = nil":
			return b("BNilElapsed")
		case "cancelTimer = nil":
			return b("BNilCancel")
		case "localCancel := cancelTimer":
			if !x.madeCancel {
				x.bad(s, "alias of cancelTimer taken before the channel is made")
			}
			x.aliasOK = true
			return nil
		}
		x.bad(s, "unsupported assignment")
	case *ast.SendStmt:
		return x.reply(st)
	case *ast.ExprStmt:
		call, ok := st.X.(*ast.CallExpr)
		if !ok {
			x.bad(s, "unsupported expression statement")
		}
		t := x.str(call)
		switch {
		case t == "timer.Reset(req.Dur)":
			return b("BResetTimer")
		case t == "close(timerElapsed)" && !inCancel:
			return b("BCloseElapsed")
		case t == "close(localCancel)" && inCancel:
			return b("BCloseCancel")
		case strings.HasPrefix(t, "panic("):
			return b("BPanic")
		}
		if sel, ok := call.Fun.(*ast.SelectorExpr); ok && len(call.Args) == 0 {
			if id, ok := sel.X.(*ast.Ident); ok && x.mutexes[id.Name] {
				if sel.Sel.Name == "Lock" {
					return b("BLock")
				}
				if sel.Sel.Name == "Unlock" {
					return b("BUnlock")
				}
			}
		}
		if id, ok := call.Fun.(*ast.Ident); ok && !inCancel {
			if fl, ok := x.closures[id.Name]; ok {
				if len(call.Args) != 1 || x.str(call.Args[0]) != "req" {
					x.bad(s, "local closure must be called as f(req)")
				}
				var out []string
				for _, s2 := range fl.Body.List {
					out = append(out, x.stmt(s2, false)...)
				}
				return out
			}
		}
		x.bad(s, "unsupported call")
	}
	x.bad(s, "statement outside the vocabulary")
	return nil
}

// reply matches req.Resp <- startTimerResponse{Elapsed: timerElapsed, Cancel: func() { cancelOnce.Do(func() { BODY }) }}
func (x *rtx) reply(st *ast.SendStmt) []string {
	if x.str(st.Chan) != "req.Resp" {
		x.bad(st, "unsupported send")
	}
	lit, ok := st.Value.(*ast.CompositeLit)
	if !ok || x.str(lit.Type) != "startTimerResponse" || len(lit.Elts) != 2 {
		x.bad(st, "reply must be a startTimerResponse{Elapsed:, Cancel:} literal")
	}
	if !x.aliasOK || !x.onceOK {
		x.bad(st, "reply without a fresh `localCancel := cancelTimer` alias and `var cancelOnce sync.Once` in the same body")
	}
	for _, e := range lit.Elts {
		kv, ok := e.(*ast.KeyValueExpr)
		if !ok {
			x.bad(st, "reply literal must use field names")
		}
		switch x.str(kv.Key) {
		case "Elapsed":
			if x.str(kv.Value) != "timerElapsed" {
				x.bad(kv, "Elapsed must be timerElapsed")
			}
		case "Cancel":
			fl, ok := kv.Value.(*ast.FuncLit)
			if !ok || len(fl.Body.List) != 1 {
				x.bad(kv, "Cancel must be func() { cancelOnce.Do(func() {...}) }")
			}
			es, ok := fl.Body.List[0].(*ast.ExprStmt)
			if !ok {
				x.bad(kv, "Cancel must be func() { cancelOnce.Do(func() {...}) }")
			}
			call, ok := es.X.(*ast.CallExpr)
			if !ok || x.str(call.Fun) != "cancelOnce.Do" || len(call.Args) != 1 {
				x.bad(kv, "Cancel must be func() { cancelOnce.Do(func() {...}) }")
			}
			inner, ok := call.Args[0].(*ast.FuncLit)
			if !ok {
				x.bad(kv, "Cancel must be func() { cancelOnce.Do(func() {...}) }")
			}
			body := x.basics(inner.Body.List, true)
			if x.haveCancel && strings.Join(body, ";") != strings.Join(x.cancelBody, ";") {
				x.bad(kv, "two different cancel function bodies")
			}
			x.cancelBody, x.haveCancel = body, true
		default:
			x.bad(kv, "unexpected field in reply")
		}
	}
	return []string{"ABasic BReply"}
}

func (x *rtx) selectBranches(sel *ast.SelectStmt) []string {
	var out []string
	for _, c := range sel.Body.List {
		cc := c.(*ast.CommClause)
		if cc.Comm == nil {
			x.bad(cc, "default case in a loop select")
		}
		var ch string
		switch x.str(cc.Comm) {
		case "<-ctx.Done()":
			ch = "ChCtxDone"
		case "req := <-t.startTimerRequests", "<-t.startTimerRequests":
			ch = "ChStartReq"
		case "<-timer.C":
			ch = "ChTimerC"
		case "<-cancelTimer":
			ch = "ChCancel"
		default:
			x.bad(cc, "unsupported channel operation in select case")
		}
		x.aliasOK, x.onceOK, x.madeCancel = false, false, false
		var acts []string
		for _, s := range cc.Body {
			acts = append(acts, x.stmt(s, false)...)
		}
		out = append(out, fmt.Sprintf("mkBranch %s [%s]", ch, strings.Join(acts, "; ")))
	}
	return out
}

func extractRoundTimer(m *modCtx, sc StructureCfg) {
	path := filepath.Join(m.repo, sc.File)
	src, err := os.ReadFile(path)
	if err != nil {
		fail("%v", err)
	}
	f, err := parser.ParseFile(m.fset, path, src, parser.ParseComments)
	if err != nil {
		fail("%v", err)
	}
	var fd *ast.FuncDecl
	for _, d := range f.Decls {
		if g, ok := d.(*ast.FuncDecl); ok && g.Name.Name == sc.Func && g.Recv != nil {
			fd = g
		}
	}
	if fd == nil {
		fail("roundtimer extractor: method %s not found in %s", sc.Func, sc.File)
	}
	x := &rtx{m: m, closures: map[string]*ast.FuncLit{}, mutexes: map[string]bool{}}
	var initActs []string
	var loop *ast.ForStmt
	for _, s := range fd.Body.List {
		if loop != nil {
			x.bad(s, "statement after the for loop")
		}
		switch st := s.(type) {
		case *ast.DeferStmt:
			t := x.str(st.Call)
			if t != "close(t.bgDone)" && t != "timer.Stop()" {
				x.bad(s, "unsupported defer")
			}
		case *ast.ForStmt:
			if st.Init != nil || st.Cond != nil || st.Post != nil {
				x.bad(s, "loop must be a bare for")
			}
			loop = st
		case *ast.DeclStmt:
			t := x.str(s)
			if t == "var timerElapsed, cancelTimer chan struct{}" {
				continue
			}
			gd := st.Decl.(*ast.GenDecl)
			okm := false
			if gd.Tok == token.VAR && len(gd.Specs) == 1 {
				vs := gd.Specs[0].(*ast.ValueSpec)
				if len(vs.Names) == 1 && vs.Type != nil && x.str(vs.Type) == "sync.Mutex" && len(vs.Values) == 0 {
					x.mutexes[vs.Names[0].Name] = true
					okm = true
				}
			}
			if !okm {
				x.bad(s, "unsupported declaration before the loop")
			}
		case *ast.AssignStmt:
			if len(st.Lhs) == 1 && len(st.Rhs) == 1 && st.Tok == token.DEFINE {
				if fl, ok := st.Rhs[0].(*ast.FuncLit); ok {
					ft := x.str(fl.Type)
					if ft != "func(req startTimerRequest)" {
						x.bad(s, "local closure must be func(req startTimerRequest)")
					}
					x.closures[x.str(st.Lhs[0])] = fl
					continue
				}
				if x.str(st.Lhs[0]) == "timer" && strings.HasPrefix(x.str(st.Rhs[0]), "time.NewTimer(") {
					initActs = append(initActs, "BNewTimer")
					continue
				}
			}
			x.bad(s, "unsupported assignment before the loop")
		case *ast.IfStmt:
			if !x.isStopDrain(st) {
				x.bad(s, "unsupported if before the loop")
			}
			initActs = append(initActs, "BStopDrain")
		default:
			x.bad(s, "unsupported statement before the loop")
		}
	}
	if loop == nil {
		fail("roundtimer extractor: no for loop in %s", sc.Func)
	}
	if len(loop.Body.List) != 2 {
		x.bad(loop, "loop body must consist of exactly two select statements")
	}
	sel1, ok := loop.Body.List[0].(*ast.SelectStmt)
	if !ok {
		x.bad(loop.Body.List[0], "first loop statement must be a select")
	}
	var sel2 *ast.SelectStmt
	switch st := loop.Body.List[1].(type) {
	case *ast.SelectStmt:
		sel2 = st
	case *ast.LabeledStmt:
		s2, ok := st.Stmt.(*ast.SelectStmt)
		if !ok {
			x.bad(st, "label must be on the second select")
		}
		sel2 = s2
		x.runLabel = st.Label.Name
	default:
		x.bad(loop.Body.List[1], "second loop statement must be a select")
	}
	idle := x.selectBranches(sel1)
	running := x.selectBranches(sel2)
	if !x.haveCancel {
		fail("roundtimer extractor: no reply with a cancel function found")
	}
	start, end := m.fset.Position(fd.Pos()), m.fset.Position(fd.End())
	h := sha256.Sum256(src[start.Offset:end.Offset])
	fmt.Fprintf(&m.out, "(* %s : %s lines %d-%d sha256 %x *)\n", sc.Func, sc.File, start.Line, end.Line, h[:8])
	fmt.Fprintf(&m.out, "Definition %s : program := mkProgram\n  [%s]\n  [%s]\n  [%s]\n  [%s].\n",
		sc.Coq, strings.Join(initActs, "; "),
		strings.Join(idle, ";\n   "), strings.Join(running, ";\n   "), strings.Join(x.cancelBody, "; "))
	fmt.Fprintf(&m.out, "Definition %s_src : string := \"%s:%d-%d:%x\".\n\n", sc.Coq, sc.File, start.Line, end.Line, h[:8])
}
