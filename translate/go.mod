module veriftranslate

go 1.23
