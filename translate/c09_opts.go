package main

// Structure extractor for C09: the engine option table (tm/tmengine/opts.go) and the shape of the two
// constructors (engine.go New/validateSettings/maybeInitializeChain, mirror.go NewMirror/validateMirrorSettings).
// Emits Gallina DATA (types in coq/Model/OptTypes.v).  Fails loudly on anything it does not recognise.

import (
	"fmt"
	"go/ast"
	"go/parser"
	"go/token"
	"path/filepath"
	"regexp"
	"sort"
	"strconv"
	"strings"
)

func init() {
	structureExtractors["engine_options"] = extractEngineOptions
	structureExtractors["engine_ctor"] = extractEngineCtor
}

func parseRepoFile(m *modCtx, rel string) *ast.File {
	f, err := parser.ParseFile(m.fset, filepath.Join(m.repo, rel), nil, parser.ParseComments)
	if err != nil {
		fail("%v", err)
	}
	return f
}

func findFunc(f *ast.File, name string) *ast.FuncDecl {
	for _, d := range f.Decls {
		if g, ok := d.(*ast.FuncDecl); ok && g.Name.Name == name {
			return g
		}
	}
	return nil
}

type optWrite struct {
	target string // TEngine | TSmc
	field  string
	guard  string // "" | TEngine | TSmc
}

type optInfo struct {
	name     string
	writes   []optWrite
	canErr   bool
	required bool
	delegate string
}

func coqTargetOpt(s string) string {
	if s == "" {
		return "None"
	}
	return "(Some " + s + ")"
}

var requiredRe = regexp.MustCompile(`(?m)^This option is required\.$`)

// closure body of an option: assignments through the parameters, optional `if <param> != nil {}` guards,
// optional leading `if <cond> { return <non-nil error> }`, final `return nil`.
func (m *modCtx) optClosure(name string, fl *ast.FuncLit, info *optInfo) {
	if len(fl.Type.Params.List) != 2 {
		fail("%s: option closure must have two parameters", name)
	}
	pn := func(i int) string {
		l := fl.Type.Params.List[i]
		if len(l.Names) != 1 {
			fail("%s: unexpected parameter list", name)
		}
		return l.Names[0].Name
	}
	eName, sName := pn(0), pn(1)
	targetOf := func(root string) string {
		switch {
		case root == eName && root != "_":
			return "TEngine"
		case root == sName && root != "_":
			return "TSmc"
		}
		return ""
	}
	sawWrite := false
	var walk func(list []ast.Stmt, guard string, top bool)
	walk = func(list []ast.Stmt, guard string, top bool) {
		for i, st := range list {
			switch v := st.(type) {
			case *ast.AssignStmt:
				if v.Tok != token.ASSIGN || len(v.Lhs) != 1 {
					fail("%s line %d: unsupported assignment in option closure", name, m.line(v.Pos()))
				}
				e := &env{m: m}
				root, path, ok := e.selectorPath(v.Lhs[0])
				tg := targetOf(root)
				if !ok || tg == "" || len(path) == 0 {
					fail("%s line %d: option writes to something that is not a closure parameter: %s", name, m.line(v.Pos()), exprString(m.fset, v.Lhs[0]))
				}
				prefix := "e."
				if tg == "TSmc" {
					prefix = "smc."
				}
				info.writes = append(info.writes, optWrite{tg, prefix + strings.Join(path, "."), guard})
				sawWrite = true
			case *ast.IfStmt:
				if v.Init != nil || v.Else != nil {
					fail("%s line %d: unsupported if in option closure", name, m.line(v.Pos()))
				}
				// nil guard on a parameter?
				if be, ok := v.Cond.(*ast.BinaryExpr); ok && be.Op == token.NEQ {
					if id, ok := be.X.(*ast.Ident); ok && exprString(m.fset, be.Y) == "nil" && targetOf(id.Name) != "" {
						if guard != "" {
							fail("%s line %d: nested guards", name, m.line(v.Pos()))
						}
						walk(v.Body.List, targetOf(id.Name), false)
						continue
					}
				}
				// error exit: body is a single `return <expr != nil>`; must precede every write
				if len(v.Body.List) == 1 {
					if rs, ok := v.Body.List[0].(*ast.ReturnStmt); ok && len(rs.Results) == 1 && exprString(m.fset, rs.Results[0]) != "nil" {
						if sawWrite || !top {
							fail("%s line %d: error return after a write is not supported by the model", name, m.line(v.Pos()))
						}
						info.canErr = true
						continue
					}
				}
				fail("%s line %d: unsupported if in option closure", name, m.line(v.Pos()))
			case *ast.ReturnStmt:
				if !top || i != len(list)-1 || len(v.Results) != 1 || exprString(m.fset, v.Results[0]) != "nil" {
					fail("%s line %d: unsupported return in option closure", name, m.line(v.Pos()))
				}
			default:
				fail("%s line %d: unsupported statement %T in option closure", name, m.line(st.Pos()), st)
			}
		}
	}
	walk(fl.Body.List, "", true)
}

func (m *modCtx) loadOptions(file string) []optInfo {
	f := parseRepoFile(m, file)
	var out []optInfo
	for _, d := range f.Decls {
		g, ok := d.(*ast.FuncDecl)
		if !ok || g.Recv != nil || !strings.HasPrefix(g.Name.Name, "With") {
			continue
		}
		if g.Type.Results == nil || len(g.Type.Results.List) != 1 || exprString(m.fset, g.Type.Results.List[0].Type) != "Opt" {
			continue
		}
		info := optInfo{name: g.Name.Name}
		if g.Doc != nil && requiredRe.MatchString(g.Doc.Text()) {
			info.required = true
		}
		if len(g.Body.List) != 1 {
			fail("%s: option constructor body must be a single return", g.Name.Name)
		}
		rs, ok := g.Body.List[0].(*ast.ReturnStmt)
		if !ok || len(rs.Results) != 1 {
			fail("%s: option constructor body must be a single return", g.Name.Name)
		}
		switch r := rs.Results[0].(type) {
		case *ast.FuncLit:
			m.optClosure(g.Name.Name, r, &info)
		case *ast.CallExpr:
			id, ok := r.Fun.(*ast.Ident)
			if !ok || !strings.HasPrefix(id.Name, "With") {
				fail("%s: unsupported delegation", g.Name.Name)
			}
			info.delegate = id.Name
		default:
			fail("%s: unsupported option constructor", g.Name.Name)
		}
		out = append(out, info)
	}
	byName := map[string]*optInfo{}
	for i := range out {
		byName[out[i].name] = &out[i]
	}
	for i := range out {
		if d := out[i].delegate; d != "" {
			t, ok := byName[d]
			if !ok || t.delegate != "" {
				fail("%s: delegation target %s not found", out[i].name, d)
			}
			out[i].writes, out[i].canErr = t.writes, t.canErr
		}
	}
	if len(out) == 0 {
		fail("no options found in %s", file)
	}
	return out
}

func extractEngineOptions(m *modCtx, sc StructureCfg) {
	opts := m.loadOptions(sc.File)
	fmt.Fprintf(&m.out, "(* option table extracted from %s (%d options) *)\n", sc.File, len(opts))
	var rows []string
	for _, o := range opts {
		var ws []string
		for _, w := range o.writes {
			ws = append(ws, fmt.Sprintf("mk_write %s \"%s\" %s", w.target, w.field, coqTargetOpt(w.guard)))
		}
		rows = append(rows, fmt.Sprintf("  mk_opt \"%s\" [%s] %v %v", o.name, strings.Join(ws, "; "), o.canErr, o.required))
	}
	fmt.Fprintf(&m.out, "Definition %s : list optinfo := [\n%s\n].\n\n", sc.Coq, strings.Join(rows, ";\n"))
}

// ---- constructors ----

var useRe = regexp.MustCompile(`tmengine\.(With[A-Za-z]+)`)

type condT struct {
	kind string // nil, notnil, empty, and
	f    string
	a, b *condT
}

func (c *condT) coq() string {
	switch c.kind {
	case "nil":
		return fmt.Sprintf("(CNil \"%s\")", c.f)
	case "notnil":
		return fmt.Sprintf("(CNotNil \"%s\")", c.f)
	case "empty":
		return fmt.Sprintf("(CEmpty \"%s\")", c.f)
	}
	return fmt.Sprintf("(CAnd %s %s)", c.a.coq(), c.b.coq())
}

// normalise a selector path under an alias map (root identifier -> normalised prefix)
func (m *modCtx) normPath(x ast.Expr, alias map[string]string) (string, bool) {
	e := &env{m: m}
	root, path, ok := e.selectorPath(x)
	if !ok {
		return "", false
	}
	p, ok := alias[root]
	if !ok {
		return "", false
	}
	return strings.Join(append([]string{p}, path...), "."), true
}

func (m *modCtx) parseCond(x ast.Expr, alias map[string]string) *condT {
	switch v := x.(type) {
	case *ast.ParenExpr:
		return m.parseCond(v.X, alias)
	case *ast.BinaryExpr:
		switch v.Op {
		case token.LAND:
			return &condT{kind: "and", a: m.parseCond(v.X, alias), b: m.parseCond(v.Y, alias)}
		case token.EQL, token.NEQ:
			if exprString(m.fset, v.Y) == "nil" {
				if p, ok := m.normPath(v.X, alias); ok {
					if v.Op == token.EQL {
						return &condT{kind: "nil", f: p}
					}
					return &condT{kind: "notnil", f: p}
				}
			}
			if v.Op == token.EQL && exprString(m.fset, v.Y) == "0" {
				if c, ok := v.X.(*ast.CallExpr); ok && exprString(m.fset, c.Fun) == "len" && len(c.Args) == 1 {
					// len(cfg.InitialValidatorSet.Validators): the emptiness of the field holding the set
					if sel, ok := c.Args[0].(*ast.SelectorExpr); ok {
						if p, ok := m.normPath(sel.X, alias); ok {
							return &condT{kind: "empty", f: p}
						}
					}
				}
			}
		}
	}
	fail("line %d: unsupported validation condition %s", m.line(x.Pos()), exprString(m.fset, x))
	return nil
}

type vcheckT struct {
	c   *condT
	opt string
}

// body of a validate*Settings function: `var err error`, a list of `if C { err = errors.Join(err, errors.New("...")) }`, `return err`.
func (m *modCtx) parseValidate(fd *ast.FuncDecl, alias map[string]string) []vcheckT {
	var out []vcheckT
	for i, st := range fd.Body.List {
		switch v := st.(type) {
		case *ast.DeclStmt:
			if exprString(m.fset, v) != "var err error" {
				fail("%s line %d: unsupported declaration", fd.Name.Name, m.line(v.Pos()))
			}
		case *ast.ReturnStmt:
			if i != len(fd.Body.List)-1 || len(v.Results) != 1 || exprString(m.fset, v.Results[0]) != "err" {
				fail("%s line %d: unsupported return", fd.Name.Name, m.line(v.Pos()))
			}
		case *ast.IfStmt:
			if v.Init != nil || v.Else != nil || len(v.Body.List) != 1 {
				fail("%s line %d: unsupported if", fd.Name.Name, m.line(v.Pos()))
			}
			as, ok := v.Body.List[0].(*ast.AssignStmt)
			if !ok || as.Tok != token.ASSIGN || len(as.Lhs) != 1 || exprString(m.fset, as.Lhs[0]) != "err" {
				fail("%s line %d: validation arm must assign err", fd.Name.Name, m.line(v.Pos()))
			}
			call, ok := as.Rhs[0].(*ast.CallExpr)
			if !ok || exprString(m.fset, call.Fun) != "errors.Join" || len(call.Args) != 2 || exprString(m.fset, call.Args[0]) != "err" {
				fail("%s line %d: validation arm must be err = errors.Join(err, ...) (an overwriting arm loses earlier reports)", fd.Name.Name, m.line(v.Pos()))
			}
			mm := useRe.FindStringSubmatch(exprString(m.fset, call.Args[1]))
			if mm == nil {
				fail("%s line %d: validation message does not name an option (use tmengine.WithX)", fd.Name.Name, m.line(v.Pos()))
			}
			out = append(out, vcheckT{m.parseCond(v.Cond, alias), mm[1]})
		default:
			fail("%s line %d: unsupported statement %T", fd.Name.Name, m.line(st.Pos()), st)
		}
	}
	return out
}

type derivedT struct {
	dst, src   string
	guarded    bool
	uninitOnly bool
}

// emptyLenCond recognises `len(<path>.Validators) == 0` and returns the normalised <path>.
func (m *modCtx) emptyLenCond(x ast.Expr, alias map[string]string) (string, bool) {
	be, ok := x.(*ast.BinaryExpr)
	if !ok || be.Op != token.EQL || exprString(m.fset, be.Y) != "0" {
		return "", false
	}
	c, ok := be.X.(*ast.CallExpr)
	if !ok || exprString(m.fset, c.Fun) != "len" || len(c.Args) != 1 {
		return "", false
	}
	sel, ok := c.Args[0].(*ast.SelectorExpr)
	if !ok {
		return "", false
	}
	return m.normPath(sel.X, alias)
}

func extractEngineCtor(m *modCtx, sc StructureCfg) {
	f := parseRepoFile(m, sc.File)
	fd := findFunc(f, sc.Func)
	if fd == nil {
		fail("constructor %s not found in %s", sc.Func, sc.File)
	}
	// pointer-typed fields of Engine (a selection through them is a dereference)
	ef := parseRepoFile(m, "tm/tmengine/engine.go")
	ptrField := map[string]bool{}
	for _, d := range ef.Decls {
		gd, ok := d.(*ast.GenDecl)
		if !ok || gd.Tok != token.TYPE {
			continue
		}
		for _, s := range gd.Specs {
			ts := s.(*ast.TypeSpec)
			st, ok := ts.Type.(*ast.StructType)
			if !ok || ts.Name.Name != "Engine" {
				continue
			}
			for _, fl := range st.Fields.List {
				if _, isPtr := fl.Type.(*ast.StarExpr); isPtr {
					for _, n := range fl.Names {
						ptrField[n.Name] = true
					}
				}
			}
		}
	}
	if len(ptrField) == 0 {
		fail("Engine struct not found")
	}

	alias := map[string]string{"e": "e"}
	var loopIdx = -1
	smcNil, accumulates := false, false
	smcVar := ""
	for i, st := range fd.Body.List {
		rs, ok := st.(*ast.RangeStmt)
		if !ok || exprString(m.fset, rs.X) != "opts" {
			continue
		}
		if len(rs.Body.List) != 1 {
			fail("%s: option loop body must be a single assignment", sc.Func)
		}
		as, ok := rs.Body.List[0].(*ast.AssignStmt)
		if !ok || exprString(m.fset, as.Lhs[0]) != "err" {
			fail("%s: option loop must assign err", sc.Func)
		}
		call, ok := as.Rhs[0].(*ast.CallExpr)
		if !ok || exprString(m.fset, call.Fun) != "errors.Join" {
			fail("%s: option loop must use errors.Join", sc.Func)
		}
		var oc *ast.CallExpr
		switch len(call.Args) {
		case 1:
			oc, _ = call.Args[0].(*ast.CallExpr)
		case 2:
			if exprString(m.fset, call.Args[0]) == "err" {
				accumulates = true
			}
			oc, _ = call.Args[1].(*ast.CallExpr)
		}
		if oc == nil || exprString(m.fset, oc.Fun) != exprString(m.fset, rs.Value) || len(oc.Args) != 2 {
			fail("%s: option loop does not call the option with two arguments", sc.Func)
		}
		a0 := strings.TrimPrefix(exprString(m.fset, oc.Args[0]), "&")
		if a0 != "e" {
			fail("%s: first option argument must be the engine value e", sc.Func)
		}
		a1 := exprString(m.fset, oc.Args[1])
		if a1 == "nil" {
			smcNil = true
		} else if strings.HasPrefix(a1, "&") {
			smcVar = a1[1:]
			alias[smcVar] = "smc"
		} else {
			fail("%s: unsupported second option argument %s", sc.Func, a1)
		}
		loopIdx = i
	}
	if loopIdx < 0 {
		fail("%s: option loop not found", sc.Func)
	}
	// the statement after the loop must be `if err != nil { return nil, err }`
	if loopIdx+1 >= len(fd.Body.List) {
		fail("%s: nothing after the option loop", sc.Func)
	}
	if is, ok := fd.Body.List[loopIdx+1].(*ast.IfStmt); !ok || exprString(m.fset, is.Cond) != "err != nil" {
		fail("%s: option errors are not returned right after the loop", sc.Func)
	}

	// statements between the error return and the validate call
	var derived []derivedT
	var checks, late []vcheckT
	validateSeen := false
	reads := map[string]bool{}
	derefScan := func(n ast.Node, guardedSrc string) {
		ast.Inspect(n, func(x ast.Node) bool {
			as, ok := x.(*ast.AssignStmt)
			if !ok {
				return true
			}
			for i, r := range as.Rhs {
				e := &env{m: m}
				root, path, ok := e.selectorPath(r)
				if !ok || root != "e" || len(path) < 2 || !ptrField[path[0]] {
					continue
				}
				src := "e." + path[0]
				dst, ok2 := m.normPath(as.Lhs[i], alias)
				if !ok2 {
					fail("%s line %d: dereference of %s feeds an unsupported target", sc.Func, m.line(as.Pos()), src)
				}
				derived = append(derived, derivedT{dst, src, guardedSrc == src, false})
			}
			return true
		})
	}
	for _, st := range fd.Body.List[loopIdx+2:] {
		if validateSeen {
			break
		}
		switch v := st.(type) {
		case *ast.AssignStmt:
			// cfg := e.mCfg  (alias)
			if v.Tok == token.DEFINE && len(v.Lhs) == 1 && len(v.Rhs) == 1 {
				if p, ok := m.normPath(v.Rhs[0], alias); ok {
					if _, isSel := v.Rhs[0].(*ast.SelectorExpr); isSel {
						alias[exprString(m.fset, v.Lhs[0])] = p
						reads[p] = true
						continue
					}
				}
			}
			derefScan(v, "")
		case *ast.IfStmt:
			// validate call?
			if v.Init != nil {
				if as, ok := v.Init.(*ast.AssignStmt); ok && len(as.Rhs) == 1 {
					if call, ok := as.Rhs[0].(*ast.CallExpr); ok {
						fn := exprString(m.fset, call.Fun)
						if strings.Contains(strings.ToLower(fn), "validate") {
							vname := fn[strings.LastIndex(fn, ".")+1:]
							vfd := findFunc(f, vname)
							if vfd == nil {
								fail("%s: validation function %s not found", sc.Func, vname)
							}
							valias := map[string]string{}
							if vfd.Recv != nil {
								valias[vfd.Recv.List[0].Names[0].Name] = "e"
							}
							if len(call.Args) != 1 || len(vfd.Type.Params.List) != 1 {
								fail("%s: validation function must take one argument", sc.Func)
							}
							arg := exprString(m.fset, call.Args[0])
							ap, ok := alias[arg]
							if !ok {
								fail("%s: validation argument %s is not a known configuration value", sc.Func, arg)
							}
							valias[vfd.Type.Params.List[0].Names[0].Name] = ap
							checks = m.parseValidate(vfd, valias)
							validateSeen = true
							continue
						}
					}
				}
			}
			// `if e.genesis != nil { ... }` guard around dereferences
			if be, ok := v.Cond.(*ast.BinaryExpr); ok && be.Op == token.NEQ && exprString(m.fset, be.Y) == "nil" && v.Init == nil && v.Else == nil {
				if p, ok := m.normPath(be.X, alias); ok {
					derefScan(v.Body, p)
					continue
				}
			}
			fail("%s line %d: unsupported statement before validation", sc.Func, m.line(v.Pos()))
		default:
			fail("%s line %d: unsupported statement %T before validation", sc.Func, m.line(st.Pos()), st)
		}
	}
	if !validateSeen {
		fail("%s: no validate*Settings call found", sc.Func)
	}
	for _, d := range derived {
		reads[d.src] = true
	}
	// late checks: nil checks with a descriptive error in maybeInitializeChain (only if the constructor calls it)
	callsInit := false
	ast.Inspect(fd, func(x ast.Node) bool {
		if c, ok := x.(*ast.CallExpr); ok && strings.HasSuffix(exprString(m.fset, c.Fun), "maybeInitializeChain") {
			callsInit = true
		}
		return true
	})
	if callsInit {
		ifd := findFunc(f, "maybeInitializeChain")
		if ifd == nil {
			fail("maybeInitializeChain not found")
		}
		la := map[string]string{ifd.Recv.List[0].Names[0].Name: "e"}
		for _, st := range ifd.Body.List {
			is, ok := st.(*ast.IfStmt)
			if !ok || is.Init != nil {
				continue
			}
			be, ok := is.Cond.(*ast.BinaryExpr)
			if !ok || be.Op != token.EQL || exprString(m.fset, be.Y) != "nil" {
				continue
			}
			p, ok := m.normPath(be.X, la)
			if !ok || !strings.HasPrefix(p, "e.") {
				continue
			}
			mm := useRe.FindStringSubmatch(exprString(m.fset, is.Body))
			if mm == nil {
				continue
			}
			late = append(late, vcheckT{&condT{kind: "nil", f: p}, mm[1]})
		}
	}
	// final checks: `if len(<cfg>.Validators) == 0 { return nil, errors.New("... tmengine.WithX ...") }` after validation
	var final []vcheckT
	afterValidate := false
	for _, st := range fd.Body.List[loopIdx+2:] {
		is, ok := st.(*ast.IfStmt)
		if ok && is.Init != nil && strings.Contains(strings.ToLower(exprString(m.fset, is.Init)), "validate") {
			afterValidate = true
			continue
		}
		if !afterValidate {
			continue
		}
		if ok && is.Init == nil {
			if p, ok := m.emptyLenCond(is.Cond, alias); ok {
				mm := useRe.FindStringSubmatch(exprString(m.fset, is.Body))
				if mm == nil {
					fail("%s line %d: emptiness check without a message naming an option", sc.Func, m.line(is.Pos()))
				}
				final = append(final, vcheckT{&condT{kind: "empty", f: p}, mm[1]})
			}
		}
		// tmengine.New: the mirror's initial validator set is the (possibly app-overridden) genesis set when the
		// chain is initialised by this call, else it is loaded from the finalization store
		if as, ok := st.(*ast.AssignStmt); ok && len(as.Lhs) == 1 {
			if exprString(m.fset, as.Lhs[0]) == "e.mCfg.InitialValidatorSet" && strings.HasSuffix(exprString(m.fset, as.Rhs[0]), ".Genesis.ValidatorSet") {
				derived = append(derived, derivedT{"e.mCfg.InitialValidatorSet", "e.genesis", true, true})
			}
		}
	}
	// sink: tmi.NewKernel panics on an empty initial validator set
	var sinks []string
	kf := parseRepoFile(m, "tm/tmengine/internal/tmmirror/internal/tmi/kernel.go")
	kfd := findFunc(kf, "NewKernel")
	if kfd == nil {
		fail("tmi.NewKernel not found")
	}
	for _, st := range kfd.Body.List {
		is, ok := st.(*ast.IfStmt)
		if !ok || is.Init != nil {
			continue
		}
		hasPanic := false
		ast.Inspect(is.Body, func(x ast.Node) bool {
			if c, ok := x.(*ast.CallExpr); ok && exprString(m.fset, c.Fun) == "panic" {
				hasPanic = true
			}
			return true
		})
		if !hasPanic {
			continue
		}
		p, ok := m.emptyLenCond(is.Cond, map[string]string{"cfg": "e.mCfg"})
		if !ok {
			fail("NewKernel line %d: unrecognised panic guard %s", m.line(is.Pos()), exprString(m.fset, is.Cond))
		}
		sinks = append(sinks, (&condT{kind: "empty", f: p}).coq())
	}
	// which configuration the constructor consumes
	var readList []string
	returnsEngine := false
	ast.Inspect(fd, func(x ast.Node) bool {
		if rs, ok := x.(*ast.ReturnStmt); ok && len(rs.Results) == 2 && exprString(m.fset, rs.Results[0]) == "e" {
			returnsEngine = true
		}
		return true
	})
	if returnsEngine {
		readList = []string{"e.", "smc."}
	} else {
		for r := range reads {
			readList = append(readList, r)
		}
		sort.Strings(readList)
	}
	var ds, cs, ls, rl, fs []string
	for _, c := range final {
		fs = append(fs, fmt.Sprintf("mk_vcheck %s \"%s\"", c.c.coq(), c.opt))
	}
	for _, d := range derived {
		ds = append(ds, fmt.Sprintf("mk_derived \"%s\" \"%s\" %v %v", d.dst, d.src, d.guarded, d.uninitOnly))
	}
	for _, c := range checks {
		cs = append(cs, fmt.Sprintf("  mk_vcheck %s \"%s\"", c.c.coq(), c.opt))
	}
	for _, c := range late {
		ls = append(ls, fmt.Sprintf("mk_vcheck %s \"%s\"", c.c.coq(), c.opt))
	}
	for _, r := range readList {
		rl = append(rl, strconv.Quote(r))
	}
	start, end := m.fset.Position(fd.Pos()), m.fset.Position(fd.End())
	fmt.Fprintf(&m.out, "(* constructor %s : %s lines %d-%d *)\n", sc.Func, sc.File, start.Line, end.Line)
	fmt.Fprintf(&m.out, "Definition %s : ctor := mk_ctor \"%s\" %v %v\n  [%s]\n  [\n%s\n  ]\n  [%s]\n  [%s]\n  [%s]\n  [%s].\n\n",
		sc.Coq, sc.Func, smcNil, accumulates, strings.Join(ds, "; "), strings.Join(cs, ";\n"), strings.Join(ls, "; "),
		strings.Join(fs, "; "), strings.Join(sinks, "; "), strings.Join(rl, "; "))
}
