package main

// C14 structure extractor: gcrypto/registry.go (*Registry).Unmarshal.
//
// The function is a straight line of a few statement forms over one byte
// slice: optional length guards returning an error, a prefix slice trimmed of
// trailing NULs, a map lookup by that prefix, a nil check of the looked-up
// constructor, and a tail call of the constructor on a second slice.
// The extractor regenerates a Gallina function with exactly those slice
// bounds / guards (slice faults become Panic), so that a change of any bound
// or the removal of a guard changes the generated definition.
// Any statement outside this vocabulary is an error.

import (
	"crypto/sha256"
	"fmt"
	"go/ast"
	"go/parser"
	"go/token"
	"os"
	"path/filepath"
	"strconv"
	"strings"
)

func init() {
	structureExtractors["registry_unmarshal"] = extractRegistryUnmarshal
}

type c14ctx struct {
	m      *modCtx
	fset   *token.FileSet
	consts map[string]int64
	bytesV map[string]bool // local byte-slice variables
	fnV    map[string]bool // local constructor variables (option type before nil check)
	fnOK   map[string]bool // constructor variables known non-nil
	fn     string
	tmp    int
}

func (c *c14ctx) line(p token.Pos) int { return c.fset.Position(p).Line }

func (c *c14ctx) intExpr(x ast.Expr) string {
	switch v := x.(type) {
	case *ast.ParenExpr:
		return "(" + c.intExpr(v.X) + ")"
	case *ast.BasicLit:
		if v.Kind == token.INT {
			n, err := strconv.ParseInt(v.Value, 0, 64)
			if err == nil {
				return fmt.Sprintf("(%d)%%Z", n)
			}
		}
	case *ast.Ident:
		if n, ok := c.consts[v.Name]; ok {
			return fmt.Sprintf("(%d)%%Z", n)
		}
	case *ast.CallExpr:
		if id, ok := v.Fun.(*ast.Ident); ok && id.Name == "len" && len(v.Args) == 1 {
			if a, ok := v.Args[0].(*ast.Ident); ok && c.bytesV[a.Name] {
				return fmt.Sprintf("(Z.of_nat (List.length %s))", a.Name)
			}
		}
	case *ast.BinaryExpr:
		switch v.Op {
		case token.ADD:
			return fmt.Sprintf("(%s + %s)%%Z", c.intExpr(v.X), c.intExpr(v.Y))
		case token.SUB:
			return fmt.Sprintf("(%s - %s)%%Z", c.intExpr(v.X), c.intExpr(v.Y))
		case token.MUL:
			return fmt.Sprintf("(%s * %s)%%Z", c.intExpr(v.X), c.intExpr(v.Y))
		}
	}
	fail("registry_unmarshal: line %d: unsupported integer expression %s", c.line(x.Pos()), exprString(c.fset, x))
	return ""
}

// bytesExpr returns (binds, term) for a byte-slice expression.
func (c *c14ctx) bytesExpr(x ast.Expr) ([]bind, string) {
	switch v := x.(type) {
	case *ast.ParenExpr:
		return c.bytesExpr(v.X)
	case *ast.Ident:
		if c.bytesV[v.Name] {
			return nil, v.Name
		}
	case *ast.SliceExpr:
		if v.Slice3 {
			break
		}
		bs, a := c.bytesExpr(v.X)
		lo := "0%Z"
		hi := fmt.Sprintf("(Z.of_nat (List.length %s))", a)
		if v.Low != nil {
			lo = c.intExpr(v.Low)
		}
		if v.High != nil {
			hi = c.intExpr(v.High)
		}
		c.tmp++
		t := fmt.Sprintf("sl_%d", c.tmp)
		bs = append(bs, bind{t, fmt.Sprintf("slice_bytes %s %s %s \"%s:%d\"", a, lo, hi, c.fn, c.line(v.Pos()))})
		return bs, t
	case *ast.CallExpr:
		name := exprString(c.fset, v.Fun)
		if name == "bytes.TrimRight" && len(v.Args) == 2 {
			if lit, ok := v.Args[1].(*ast.BasicLit); ok && lit.Kind == token.STRING {
				s, err := strconv.Unquote(lit.Value)
				if err == nil && s == "\x00" {
					bs, a := c.bytesExpr(v.Args[0])
					return bs, fmt.Sprintf("(trim_right_zeros %s)", a)
				}
			}
		}
		if (name == "string" || name == "[]byte") && len(v.Args) == 1 {
			return c.bytesExpr(v.Args[0])
		}
	}
	fail("registry_unmarshal: line %d: unsupported byte-slice expression %s", c.line(x.Pos()), exprString(c.fset, x))
	return nil, ""
}

func (c *c14ctx) cond(x ast.Expr) string {
	if p, ok := x.(*ast.ParenExpr); ok {
		return c.cond(p.X)
	}
	b, ok := x.(*ast.BinaryExpr)
	if !ok {
		fail("registry_unmarshal: line %d: unsupported condition %s", c.line(x.Pos()), exprString(c.fset, x))
	}
	switch b.Op {
	case token.LOR:
		return fmt.Sprintf("(%s || %s)", c.cond(b.X), c.cond(b.Y))
	case token.LAND:
		return fmt.Sprintf("(%s && %s)", c.cond(b.X), c.cond(b.Y))
	}
	l, r := c.intExpr(b.X), c.intExpr(b.Y)
	switch b.Op {
	case token.LSS:
		return fmt.Sprintf("(%s <? %s)%%Z", l, r)
	case token.LEQ:
		return fmt.Sprintf("(%s <=? %s)%%Z", l, r)
	case token.GTR:
		return fmt.Sprintf("(%s <? %s)%%Z", r, l)
	case token.GEQ:
		return fmt.Sprintf("(%s <=? %s)%%Z", r, l)
	case token.EQL:
		return fmt.Sprintf("(%s =? %s)%%Z", l, r)
	case token.NEQ:
		return fmt.Sprintf("(negb (%s =? %s)%%Z)", l, r)
	}
	fail("registry_unmarshal: line %d: unsupported condition %s", c.line(x.Pos()), exprString(c.fset, x))
	return ""
}

func isErrReturn(s ast.Stmt) bool {
	r, ok := s.(*ast.ReturnStmt)
	if !ok || len(r.Results) != 2 {
		return false
	}
	id, ok := r.Results[0].(*ast.Ident)
	return ok && id.Name == "nil"
}

func (c *c14ctx) stmts(list []ast.Stmt, d int) string {
	ind := strings.Repeat("  ", d)
	if len(list) == 0 {
		fail("registry_unmarshal: function %s falls off its end", c.fn)
	}
	s := list[0]
	rest := list[1:]
	switch v := s.(type) {
	case *ast.IfStmt:
		if v.Init != nil || v.Else != nil || len(v.Body.List) != 1 || !isErrReturn(v.Body.List[0]) {
			fail("registry_unmarshal: line %d: only `if cond { return nil, err }` is supported", c.line(v.Pos()))
		}
		// fn == nil ?
		if b, ok := v.Cond.(*ast.BinaryExpr); ok && b.Op == token.EQL {
			if id, ok := b.X.(*ast.Ident); ok && c.fnV[id.Name] {
				if n, ok := b.Y.(*ast.Ident); ok && n.Name == "nil" {
					c.fnOK[id.Name] = true
					return fmt.Sprintf("%smatch %s with\n%s| None => Ok None\n%s| Some %s =>\n%s\n%send", ind, id.Name, ind, ind, id.Name, c.stmts(rest, d+1), ind)
				}
			}
		}
		return fmt.Sprintf("%sif %s then Ok None else\n%s", ind, c.cond(v.Cond), c.stmts(rest, d))
	case *ast.AssignStmt:
		if v.Tok != token.DEFINE || len(v.Lhs) != 1 || len(v.Rhs) != 1 {
			fail("registry_unmarshal: line %d: unsupported assignment", c.line(v.Pos()))
		}
		name := v.Lhs[0].(*ast.Ident).Name
		// constructor lookup: fn := r.byPrefix[string(prefix)]
		if ix, ok := v.Rhs[0].(*ast.IndexExpr); ok && exprString(c.fset, ix.X) == "r.byPrefix" {
			bs, k := c.bytesExpr(ix.Index)
			c.fnV[name] = true
			return withBindsC14(bs, fmt.Sprintf("%slet %s := by_prefix %s in\n%s", ind, name, k, c.stmts(rest, d)), d)
		}
		bs, t := c.bytesExpr(v.Rhs[0])
		c.bytesV[name] = true
		return withBindsC14(bs, fmt.Sprintf("%slet %s := %s in\n%s", ind, name, t, c.stmts(rest, d)), d)
	case *ast.ReturnStmt:
		if isErrReturn(v) {
			return ind + "Ok None"
		}
		if len(v.Results) == 1 {
			if call, ok := v.Results[0].(*ast.CallExpr); ok && len(call.Args) == 1 {
				if id, ok := call.Fun.(*ast.Ident); ok && c.fnV[id.Name] {
					bs, a := c.bytesExpr(call.Args[0])
					body := fmt.Sprintf("%s%s %s", ind, id.Name, a)
					if !c.fnOK[id.Name] {
						// calling a nil func value panics
						body = fmt.Sprintf("%smatch %s with None => Panic \"%s:%d:nil-func\" | Some f => f %s end", ind, id.Name, c.fn, c.line(v.Pos()), a)
					}
					return withBindsC14(bs, body, d)
				}
			}
		}
		fail("registry_unmarshal: line %d: unsupported return %s", c.line(v.Pos()), exprString(c.fset, v))
	}
	fail("registry_unmarshal: line %d: unsupported statement %s", c.line(s.Pos()), exprString(c.fset, s))
	return ""
}

func withBindsC14(bs []bind, body string, d int) string {
	ind := strings.Repeat("  ", d)
	out := body
	for i := len(bs) - 1; i >= 0; i-- {
		out = fmt.Sprintf("%sbind (%s) (fun %s =>\n%s)", ind, bs[i].term, bs[i].v, out)
	}
	return out
}

func extractRegistryUnmarshal(m *modCtx, sc StructureCfg) {
	path := filepath.Join(m.repo, sc.File)
	src, err := os.ReadFile(path)
	if err != nil {
		fail("%v", err)
	}
	fset := token.NewFileSet()
	f, err := parser.ParseFile(fset, path, src, parser.ParseComments)
	if err != nil {
		fail("%v", err)
	}
	c := &c14ctx{m: m, fset: fset, consts: map[string]int64{}, bytesV: map[string]bool{}, fnV: map[string]bool{}, fnOK: map[string]bool{}, fn: sc.Func}
	var fd *ast.FuncDecl
	for _, d := range f.Decls {
		switch g := d.(type) {
		case *ast.GenDecl:
			if g.Tok != token.CONST {
				continue
			}
			for _, sp := range g.Specs {
				vs := sp.(*ast.ValueSpec)
				for i, n := range vs.Names {
					if i < len(vs.Values) {
						if lit, ok := vs.Values[i].(*ast.BasicLit); ok && lit.Kind == token.INT {
							if x, err := strconv.ParseInt(lit.Value, 0, 64); err == nil {
								c.consts[n.Name] = x
							}
						}
					}
				}
			}
		case *ast.FuncDecl:
			n := g.Name.Name
			if g.Recv != nil && len(g.Recv.List) == 1 {
				n = strings.TrimPrefix(exprString(fset, g.Recv.List[0].Type), "*") + "." + n
			}
			if n == sc.Func {
				fd = g
			}
		}
	}
	if fd == nil {
		fail("registry_unmarshal: function %s not found in %s", sc.Func, sc.File)
	}
	ps, ok := c.consts["prefixSize"]
	if !ok {
		fail("registry_unmarshal: const prefixSize not found in %s", sc.File)
	}
	if fd.Type.Params == nil || len(fd.Type.Params.List) != 1 || len(fd.Type.Params.List[0].Names) != 1 ||
		exprString(fset, fd.Type.Params.List[0].Type) != "[]byte" {
		fail("registry_unmarshal: %s must take exactly one []byte parameter", sc.Func)
	}
	pn := fd.Type.Params.List[0].Names[0].Name
	c.bytesV[pn] = true
	body := c.stmts(fd.Body.List, 1)
	start, end := fset.Position(fd.Pos()), fset.Position(fd.End())
	h := sha256.Sum256(src[start.Offset:end.Offset])
	fmt.Fprintf(&m.out, "(* const prefixSize : %s *)\nDefinition prefix_size : nat := %d.\n\n", sc.File, ps)
	fmt.Fprintf(&m.out, "(* %s : %s lines %d-%d sha256 %x *)\n", sc.Func, sc.File, start.Line, end.Line, h[:8])
	fmt.Fprintf(&m.out, "Definition %s {K : Type} (by_prefix : list N -> option (list N -> res (option K))) (%s : list N) : res (option K) :=\n%s.\n", sc.Coq, pn, body)
	fmt.Fprintf(&m.out, "Definition %s_src : string := \"%s:%d-%d:%x\".\n\n", sc.Coq, sc.File, start.Line, end.Line, h[:8])
}
