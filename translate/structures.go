package main

// Structure extractors: pattern-specific readers that turn a piece of Go
// control structure into Gallina *data*.  Each fails loudly when the pattern
// it expects is not found.

func (m *modCtx) extractStructure(sc StructureCfg) {
	switch sc.Kind {
	default:
		fail("unknown structure extractor kind %q", sc.Kind)
	}
}
