package main

// Structure extractors: pattern-specific readers that turn a piece of Go
// control structure into Gallina *data*.  Each fails loudly when the pattern
// it expects is not found.  Extractors register themselves in init().

var structureExtractors = map[string]func(m *modCtx, sc StructureCfg){}

func (m *modCtx) extractStructure(sc StructureCfg) {
	f, ok := structureExtractors[sc.Kind]
	if !ok {
		fail("unknown structure extractor kind %q", sc.Kind)
	}
	f(m, sc)
}
