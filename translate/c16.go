package main

// Structure extractor "storelocks" (C16): reads every non-test Go file of a package
// directory and emits, for each exported method of each struct type that owns a
// `mu sync.Mutex|sync.RWMutex` field, the facts that justify modelling one method call as
// one atomic step:
//
//	lock kind        1 = first mutex operation is a top-level `recv.mu.Lock()`, 2 = `recv.mu.RLock()`, 0 = none
//	deferred unlock  the very next statement is `defer recv.mu.Unlock()` (resp. RUnlock)
//	early touch      a statement before the lock mentions a field of the receiver that some method writes
//	bad write        under RLock, an assignment / inc-dec / delete through anything but a plain local
//	                 identifier or a local freshly created with make()
//	extra mutex ops  number of further recv.mu.* calls in the body (an early Unlock would split the step)
//
// It also lists struct types of the package that have exported methods but no mutex.
// The output is Gallina data; Proofs/StoreLocks.v decides it by vm_compute.

import (
	"crypto/sha256"
	"fmt"
	"go/ast"
	"go/parser"
	"os"
	"path/filepath"
	"sort"
	"strings"
)

func init() { structureExtractors["storelocks"] = extractStoreLocks }

type lockFacts struct {
	typ, method              string
	kind                     int
	deferOK, early, badWrite bool
	extra                    int
}

func recvInfo(fd *ast.FuncDecl) (name, typ string) {
	if fd.Recv == nil || len(fd.Recv.List) != 1 {
		return "", ""
	}
	f := fd.Recv.List[0]
	if len(f.Names) == 1 {
		name = f.Names[0].Name
	}
	t := f.Type
	if st, ok := t.(*ast.StarExpr); ok {
		t = st.X
	}
	if id, ok := t.(*ast.Ident); ok {
		typ = id.Name
	}
	return
}

// muCall reports whether e is `recv.mu.<M>()` and returns M.
func muCall(e ast.Expr, recv string) (string, bool) {
	call, ok := e.(*ast.CallExpr)
	if !ok || len(call.Args) != 0 {
		return "", false
	}
	sel, ok := call.Fun.(*ast.SelectorExpr)
	if !ok {
		return "", false
	}
	inner, ok := sel.X.(*ast.SelectorExpr)
	if !ok || inner.Sel.Name != "mu" {
		return "", false
	}
	id, ok := inner.X.(*ast.Ident)
	if !ok || id.Name != recv {
		return "", false
	}
	return sel.Sel.Name, true
}

func rootIdent(e ast.Expr) (*ast.Ident, bool) {
	plain := true
	for {
		switch x := e.(type) {
		case *ast.Ident:
			return x, plain
		case *ast.IndexExpr:
			e, plain = x.X, false
		case *ast.SelectorExpr:
			e, plain = x.X, false
		case *ast.StarExpr:
			e, plain = x.X, false
		case *ast.ParenExpr:
			e = x.X
		default:
			return nil, false
		}
	}
}

func extractStoreLocks(m *modCtx, sc StructureCfg) {
	dir := filepath.Join(m.repo, sc.File)
	names, err := filepath.Glob(filepath.Join(dir, "*.go"))
	if err != nil || len(names) == 0 {
		fail("storelocks: no Go files in %s", dir)
	}
	sort.Strings(names)
	var files []*ast.File
	hasher := sha256.New()
	for _, n := range names {
		if strings.HasSuffix(n, "_test.go") {
			continue
		}
		src, err := os.ReadFile(n)
		if err != nil {
			fail("%v", err)
		}
		hasher.Write(src)
		f, err := parser.ParseFile(m.fset, n, src, 0)
		if err != nil {
			fail("%v", err)
		}
		files = append(files, f)
	}
	// struct types and whether they own a mutex
	hasMu := map[string]bool{}
	structs := map[string]bool{}
	for _, f := range files {
		ast.Inspect(f, func(n ast.Node) bool {
			ts, ok := n.(*ast.TypeSpec)
			if !ok {
				return true
			}
			st, ok := ts.Type.(*ast.StructType)
			if !ok {
				return true
			}
			structs[ts.Name.Name] = true
			for _, fl := range st.Fields.List {
				for _, nm := range fl.Names {
					if nm.Name == "mu" {
						ty := exprString(m.fset, fl.Type)
						if ty == "sync.Mutex" || ty == "sync.RWMutex" {
							hasMu[ts.Name.Name] = true
						}
					}
				}
			}
			return true
		})
	}
	// fields written by some method, per type
	written := map[string]map[string]bool{}
	var methods []*ast.FuncDecl
	for _, f := range files {
		for _, d := range f.Decls {
			fd, ok := d.(*ast.FuncDecl)
			if !ok || fd.Body == nil {
				continue
			}
			recv, typ := recvInfo(fd)
			if typ == "" || !structs[typ] {
				continue
			}
			methods = append(methods, fd)
			if written[typ] == nil {
				written[typ] = map[string]bool{}
			}
			mark := func(e ast.Expr) {
				// recv.field... as the root of a written location
				for {
					switch x := e.(type) {
					case *ast.IndexExpr:
						e = x.X
						continue
					case *ast.StarExpr:
						e = x.X
						continue
					case *ast.ParenExpr:
						e = x.X
						continue
					case *ast.SelectorExpr:
						if id, ok := x.X.(*ast.Ident); ok && id.Name == recv {
							written[typ][x.Sel.Name] = true
							return
						}
						e = x.X
						continue
					}
					return
				}
			}
			ast.Inspect(fd.Body, func(n ast.Node) bool {
				switch x := n.(type) {
				case *ast.AssignStmt:
					for _, l := range x.Lhs {
						mark(l)
					}
				case *ast.IncDecStmt:
					mark(x.X)
				case *ast.CallExpr:
					if id, ok := x.Fun.(*ast.Ident); ok && id.Name == "delete" && len(x.Args) > 0 {
						mark(x.Args[0])
					}
				}
				return true
			})
		}
	}
	// Map-typed and other reference fields are written through aliases as well (byRound := s.phs[h]; byRound[r] = ...),
	// so every field other than the mutex that is not provably constructor-only counts as mutable when it is a map,
	// slice or pointer; scalar fields count when assigned.  Conservative: treat every field as mutable except those
	// never assigned AND never indexed/aliased in a method with a write through the alias.  We approximate "aliased"
	// by: the field appears on the right-hand side of a := or = whose left side is later the root of a write.
	for _, fd := range methods {
		recv, typ := recvInfo(fd)
		alias := map[string]string{} // local -> field
		ast.Inspect(fd.Body, func(n ast.Node) bool {
			as, ok := n.(*ast.AssignStmt)
			if !ok {
				return true
			}
			for i, r := range as.Rhs {
				field := ""
				ast.Inspect(r, func(k ast.Node) bool {
					if se, ok := k.(*ast.SelectorExpr); ok {
						if id, ok := se.X.(*ast.Ident); ok && id.Name == recv && se.Sel.Name != "mu" {
							field = se.Sel.Name
						}
					}
					return true
				})
				if field != "" && i < len(as.Lhs) {
					if id, ok := as.Lhs[i].(*ast.Ident); ok {
						alias[id.Name] = field
					}
				}
			}
			for _, l := range as.Lhs {
				if id, plain := rootIdent(l); id != nil && !plain {
					if f, ok := alias[id.Name]; ok {
						written[typ][f] = true
					}
				}
			}
			return true
		})
	}

	var facts []lockFacts
	var noMutex []string
	for _, fd := range methods {
		recv, typ := recvInfo(fd)
		if !ast.IsExported(fd.Name.Name) {
			continue
		}
		if !hasMu[typ] {
			noMutex = append(noMutex, typ+"."+fd.Name.Name)
			continue
		}
		lf := lockFacts{typ: typ, method: fd.Name.Name}
		lockIdx := -1
		for i, st := range fd.Body.List {
			if es, ok := st.(*ast.ExprStmt); ok {
				if mname, ok := muCall(es.X, recv); ok && (mname == "Lock" || mname == "RLock") {
					lockIdx = i
					if mname == "Lock" {
						lf.kind = 1
					} else {
						lf.kind = 2
					}
					break
				}
			}
		}
		total := 0
		ast.Inspect(fd.Body, func(n ast.Node) bool {
			if ce, ok := n.(*ast.CallExpr); ok {
				if _, ok := muCall(ce, recv); ok {
					total++
				}
			}
			return true
		})
		if lockIdx >= 0 {
			if lockIdx+1 < len(fd.Body.List) {
				if ds, ok := fd.Body.List[lockIdx+1].(*ast.DeferStmt); ok {
					if mname, ok := muCall(ds.Call, recv); ok {
						lf.deferOK = (lf.kind == 1 && mname == "Unlock") || (lf.kind == 2 && mname == "RUnlock")
					}
				}
			}
			lf.extra = total - 1
			if lf.deferOK {
				lf.extra = total - 2
			}
			for _, st := range fd.Body.List[:lockIdx] {
				ast.Inspect(st, func(n ast.Node) bool {
					if se, ok := n.(*ast.SelectorExpr); ok {
						if id, ok := se.X.(*ast.Ident); ok && id.Name == recv && written[typ][se.Sel.Name] {
							lf.early = true
						}
					}
					return true
				})
			}
		} else {
			lf.extra = total
			// without a lock every mention of a written field is unprotected
			ast.Inspect(fd.Body, func(n ast.Node) bool {
				if se, ok := n.(*ast.SelectorExpr); ok {
					if id, ok := se.X.(*ast.Ident); ok && id.Name == recv && written[typ][se.Sel.Name] {
						lf.early = true
					}
				}
				return true
			})
		}
		if lf.kind == 2 {
			fresh := map[string]bool{}
			ast.Inspect(fd.Body, func(n ast.Node) bool {
				if as, ok := n.(*ast.AssignStmt); ok {
					for i, r := range as.Rhs {
						if ce, ok := r.(*ast.CallExpr); ok {
							if id, ok := ce.Fun.(*ast.Ident); ok && id.Name == "make" && i < len(as.Lhs) {
								if l, ok := as.Lhs[i].(*ast.Ident); ok {
									fresh[l.Name] = true
								}
							}
						}
					}
				}
				return true
			})
			chk := func(e ast.Expr) {
				id, plain := rootIdent(e)
				if id == nil {
					lf.badWrite = true
					return
				}
				if plain && id.Name != recv {
					return
				}
				if !plain && fresh[id.Name] {
					return
				}
				lf.badWrite = true
			}
			ast.Inspect(fd.Body, func(n ast.Node) bool {
				switch x := n.(type) {
				case *ast.AssignStmt:
					for _, l := range x.Lhs {
						chk(l)
					}
				case *ast.IncDecStmt:
					chk(x.X)
				case *ast.CallExpr:
					if id, ok := x.Fun.(*ast.Ident); ok && id.Name == "delete" {
						lf.badWrite = true
					}
				}
				return true
			})
		}
		facts = append(facts, lf)
	}
	sort.Slice(facts, func(i, j int) bool {
		if facts[i].typ != facts[j].typ {
			return facts[i].typ < facts[j].typ
		}
		return facts[i].method < facts[j].method
	})
	sort.Strings(noMutex)
	b := func(x bool) string {
		if x {
			return "true"
		}
		return "false"
	}
	fmt.Fprintf(&m.out, "(* storelocks: %s, %d files, sha256 %x *)\n", sc.File, len(files), hasher.Sum(nil)[:8])
	fmt.Fprintf(&m.out, "Definition %s_source : string := \"%s sha256:%x\".\n\n", sc.Coq, sc.File, hasher.Sum(nil)[:8])
	fmt.Fprintf(&m.out, "(* (type, method, lock kind, deferred unlock right after, touches a written field before the lock,\n    writes under RLock, further mutex operations) *)\n")
	fmt.Fprintf(&m.out, "Definition %s : list (string * string * N * bool * bool * bool * N) := [\n", sc.Coq)
	for i, lf := range facts {
		sep := ";"
		if i == len(facts)-1 {
			sep = ""
		}
		fmt.Fprintf(&m.out, "  (\"%s\", \"%s\", %d, %s, %s, %s, %d)%s\n", lf.typ, lf.method, lf.kind, b(lf.deferOK), b(lf.early), b(lf.badWrite), lf.extra, sep)
	}
	fmt.Fprintf(&m.out, "].\n\n")
	fmt.Fprintf(&m.out, "(* exported methods of struct types that own no mutex *)\nDefinition %s_unguarded : list string := [%s].\n", sc.Coq, func() string {
		q := make([]string, len(noMutex))
		for i, s := range noMutex {
			q[i] = "\"" + s + "\""
		}
		return strings.Join(q, "; ")
	}())
}
