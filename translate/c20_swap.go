package main

// Structure extractor "c20_swap" (property C20).
//
// Reads tm/tmp2p/tmlibp2p/connection.go and emits, as Gallina DATA over the
// vocabulary of Model/P2PRelayVocab.v:
//
//   conn_init_ops     the ordered topic-validator / subscription calls made by
//                     NewConnection followed by the prologue of `background`
//                     (everything before its event loop);
//   swap_nil_ops      the ordered calls of the handler-swap case of `background`
//   swap_nonnil_ops   for a nil / non-nil requested handler;
//   dispatch_nil_validator  what the fixed dispatching validator (if any is
//                     registered) does while the handler cell is nil.
//
// It fails loudly on any statement it does not understand.

import (
	"crypto/sha256"
	"fmt"
	"go/ast"
	"go/parser"
	"go/token"
	"os"
	"path/filepath"
	"strings"
)

func init() { structureExtractors["c20_swap"] = extractC20Swap }

type c20x struct {
	m    *modCtx
	file *ast.File
	src  []byte
}

func (x *c20x) str(n ast.Node) string {
	return strings.Join(strings.Fields(exprString(x.m.fset, n)), "")
}

func (x *c20x) fn(name string) *ast.FuncDecl {
	for _, d := range x.file.Decls {
		if fd, ok := d.(*ast.FuncDecl); ok && fd.Name.Name == name {
			return fd
		}
	}
	return nil
}

// classify a validator expression passed to RegisterTopicValidator.
func (x *c20x) classify(e ast.Expr) string {
	s := x.str(e)
	switch {
	case s == "ignoreMessage":
		return "VIgnoreAll"
	case s == "c.consensusValidator":
		return "VDispatch"
	case s == "c.libp2pConsensusMessageValidator(req.Handler)" || s == "c.libp2pConsensusMessageValidator(h)":
		return "VWrapReq"
	}
	fail("c20_swap: line %d: unrecognised validator expression %s", x.m.line(e.Pos()), s)
	return ""
}

// opOfCall maps a call expression to a registry op ("" if it is not one).
func (x *c20x) opOfCall(c *ast.CallExpr) string {
	sel, ok := c.Fun.(*ast.SelectorExpr)
	if !ok {
		return ""
	}
	switch sel.Sel.Name {
	case "RegisterTopicValidator":
		if len(c.Args) < 2 || x.str(c.Args[0]) != "topicConsensus" {
			fail("c20_swap: line %d: RegisterTopicValidator on an unexpected topic", x.m.line(c.Pos()))
		}
		return "OpRegister " + x.classify(c.Args[1])
	case "UnregisterTopicValidator":
		if len(c.Args) != 1 || x.str(c.Args[0]) != "topicConsensus" {
			fail("c20_swap: line %d: UnregisterTopicValidator on an unexpected topic", x.m.line(c.Pos()))
		}
		return "OpUnregister"
	case "Subscribe":
		return "OpSubscribe"
	case "Store":
		if strings.HasSuffix(x.str(sel.X), "consensusHandler") {
			if len(c.Args) != 1 || (x.str(c.Args[0]) != "&h" && x.str(c.Args[0]) != "&req.Handler") {
				fail("c20_swap: line %d: consensusHandler.Store of something other than the requested handler", x.m.line(c.Pos()))
			}
			return "OpStoreHandler"
		}
	}
	return ""
}

// collectOps gathers registry ops of a statement list in source order (used for
// NewConnection and the prologue of background, where control flow is only
// early error returns).
func (x *c20x) collectOps(stmts []ast.Stmt, ops *[]string, sawGo *bool) {
	for _, st := range stmts {
		if g, ok := st.(*ast.GoStmt); ok {
			if x.str(g.Call.Fun) == "c.background" {
				if sawGo != nil {
					*sawGo = true
				}
				bg := x.fn("background")
				if bg == nil {
					fail("c20_swap: background not found")
				}
				var pro []ast.Stmt
				found := false
				for _, s := range bg.Body.List {
					if _, isFor := s.(*ast.ForStmt); isFor {
						found = true
						break
					}
					pro = append(pro, s)
				}
				if !found {
					fail("c20_swap: background has no event loop")
				}
				x.collectOps(pro, ops, nil)
			}
			continue
		}
		ast.Inspect(st, func(n ast.Node) bool {
			if _, isLit := n.(*ast.FuncLit); isLit {
				return false
			}
			if c, ok := n.(*ast.CallExpr); ok {
				if op := x.opOfCall(c); op != "" {
					if op == "OpStoreHandler" {
						fail("c20_swap: line %d: handler store outside the swap case", x.m.line(c.Pos()))
					}
					*ops = append(*ops, op)
				}
			}
			return true
		})
	}
}

// swapPaths interprets the statements of the handler-swap case; it returns the
// op lists for the nil-handler and non-nil-handler paths.
func (x *c20x) swapPaths(stmts []ast.Stmt) (nilOps, someOps []string) {
	for _, st := range stmts {
		switch v := st.(type) {
		case *ast.IfStmt:
			cond := x.str(v.Cond)
			if v.Init != nil {
				// if err := <call>; err != nil { log }
				as, ok := v.Init.(*ast.AssignStmt)
				if !ok || len(as.Rhs) != 1 || cond != "err!=nil" {
					fail("c20_swap: line %d: unsupported if-init in swap case", x.m.line(v.Pos()))
				}
				call, ok := as.Rhs[0].(*ast.CallExpr)
				if !ok {
					fail("c20_swap: line %d: unsupported if-init in swap case", x.m.line(v.Pos()))
				}
				op := x.opOfCall(call)
				if op == "" || op == "OpSubscribe" {
					fail("c20_swap: line %d: unexpected call %s in swap case", x.m.line(v.Pos()), x.str(call))
				}
				x.onlyLogging(v.Body.List)
				if v.Else != nil {
					fail("c20_swap: line %d: else on an error check", x.m.line(v.Pos()))
				}
				nilOps = append(nilOps, op)
				someOps = append(someOps, op)
				continue
			}
			if cond != "req.Handler==nil" && cond != "req.Handler!=nil" {
				fail("c20_swap: line %d: unsupported condition %s in swap case", x.m.line(v.Pos()), cond)
			}
			tn, ts := x.swapPaths(v.Body.List)
			var en, es []string
			if v.Else != nil {
				eb, ok := v.Else.(*ast.BlockStmt)
				if !ok {
					fail("c20_swap: line %d: else-if in swap case", x.m.line(v.Pos()))
				}
				en, es = x.swapPaths(eb.List)
			}
			if cond == "req.Handler==nil" {
				nilOps = append(nilOps, tn...)
				someOps = append(someOps, es...)
			} else {
				someOps = append(someOps, ts...)
				nilOps = append(nilOps, en...)
			}
		case *ast.AssignStmt:
			s := x.str(v)
			if s == "h:=req.Handler" {
				continue
			}
			if len(v.Lhs) == 1 && x.str(v.Lhs[0]) == "_" && len(v.Rhs) == 1 {
				if call, ok := v.Rhs[0].(*ast.CallExpr); ok {
					if op := x.opOfCall(call); op != "" && op != "OpSubscribe" {
						nilOps = append(nilOps, op)
						someOps = append(someOps, op)
						continue
					}
				}
			}
			fail("c20_swap: line %d: unsupported assignment %s in swap case", x.m.line(v.Pos()), s)
		case *ast.ExprStmt:
			call, ok := v.X.(*ast.CallExpr)
			if !ok {
				fail("c20_swap: line %d: unsupported statement in swap case", x.m.line(v.Pos()))
			}
			if x.str(call) == "close(req.Ready)" {
				continue
			}
			if strings.HasPrefix(x.str(call.Fun), "c.log.") {
				continue
			}
			op := x.opOfCall(call)
			if op == "" || op == "OpSubscribe" {
				fail("c20_swap: line %d: unsupported call %s in swap case", x.m.line(v.Pos()), x.str(call))
			}
			nilOps = append(nilOps, op)
			someOps = append(someOps, op)
		default:
			fail("c20_swap: line %d: unsupported statement %T in swap case", x.m.line(st.Pos()), st)
		}
	}
	return
}

func (x *c20x) onlyLogging(stmts []ast.Stmt) {
	for _, st := range stmts {
		es, ok := st.(*ast.ExprStmt)
		if ok {
			if c, ok2 := es.X.(*ast.CallExpr); ok2 && strings.HasPrefix(x.str(c.Fun), "c.log.") {
				continue
			}
		}
		fail("c20_swap: line %d: error branch does more than logging", x.m.line(st.Pos()))
	}
}

func (x *c20x) swapCase() *ast.CommClause {
	bg := x.fn("background")
	if bg == nil {
		fail("c20_swap: background not found")
	}
	var found *ast.CommClause
	ast.Inspect(bg, func(n ast.Node) bool {
		cc, ok := n.(*ast.CommClause)
		if !ok || cc.Comm == nil {
			return true
		}
		if strings.Contains(x.str(cc.Comm), "<-c.setConsensusHandlerRequests") {
			if found != nil {
				fail("c20_swap: two handler-swap cases")
			}
			found = cc
		}
		return true
	})
	if found == nil {
		fail("c20_swap: handler-swap case of background not found")
	}
	if x.str(found.Comm) != "req:=<-c.setConsensusHandlerRequests" {
		fail("c20_swap: unexpected receive form %s", x.str(found.Comm))
	}
	// close(req.Ready) must be the final statement: the caller is released only after all ops.
	if n := len(found.Body); n == 0 || x.str(found.Body[n-1]) != "close(req.Ready)" {
		fail("c20_swap: handler-swap case does not end with close(req.Ready)")
	}
	return found
}

// dispatchNil checks the shape of the fixed dispatching validator and returns
// what it does while the cell is nil.
func (x *c20x) dispatchNil() string {
	fd := x.fn("consensusValidator")
	if fd == nil {
		fail("c20_swap: c.consensusValidator is registered but not defined")
	}
	b := fd.Body.List
	if len(b) != 3 ||
		x.str(b[0]) != "hp:=c.consensusHandler.Load()" {
		fail("c20_swap: consensusValidator: unexpected shape (load)")
	}
	ifs, ok := b[1].(*ast.IfStmt)
	if !ok || ifs.Init != nil || ifs.Else != nil || x.str(ifs.Cond) != "hp==nil||*hp==nil" || len(ifs.Body.List) != 1 {
		fail("c20_swap: consensusValidator: unexpected shape (nil check)")
	}
	ret, ok := ifs.Body.List[0].(*ast.ReturnStmt)
	if !ok || len(ret.Results) != 1 {
		fail("c20_swap: consensusValidator: unexpected shape (nil branch)")
	}
	call, ok := ret.Results[0].(*ast.CallExpr)
	if !ok || len(call.Args) != 3 || x.str(call.Args[0]) != "ctx" || x.str(call.Args[1]) != "id" || x.str(call.Args[2]) != "msg" {
		fail("c20_swap: consensusValidator: nil branch must delegate to a validator (found %s)", x.str(ret.Results[0]))
	}
	nilV := x.classify(call.Fun)
	if x.str(b[2]) != "returnc.libp2pConsensusMessageValidator(*hp)(ctx,id,msg)" {
		fail("c20_swap: consensusValidator: unexpected shape (dispatch): %s", x.str(b[2]))
	}
	return nilV
}

func extractC20Swap(m *modCtx, sc StructureCfg) {
	path := filepath.Join(m.repo, sc.File)
	src, err := os.ReadFile(path)
	if err != nil {
		fail("%v", err)
	}
	f, err := parser.ParseFile(m.fset, path, src, parser.ParseComments)
	if err != nil {
		fail("%v", err)
	}
	x := &c20x{m: m, file: f, src: src}

	nc := x.fn("NewConnection")
	if nc == nil {
		fail("c20_swap: NewConnection not found")
	}
	var initOps []string
	sawGo := false
	x.collectOps(nc.Body.List, &initOps, &sawGo)
	if !sawGo {
		fail("c20_swap: NewConnection does not start c.background")
	}
	cc := x.swapCase()
	nilOps, someOps := x.swapPaths(cc.Body)

	usesDispatch := false
	for _, l := range [][]string{initOps, nilOps, someOps} {
		for _, o := range l {
			if o == "OpRegister VDispatch" {
				usesDispatch = true
			}
		}
	}
	nilV := "VIgnoreAll"
	if usesDispatch {
		nilV = x.dispatchNil()
	} else if x.fn("consensusValidator") != nil {
		nilV = x.dispatchNil()
	}

	h := sha256.New()
	for _, fd := range []*ast.FuncDecl{nc, x.fn("background"), x.fn("consensusValidator")} {
		if fd != nil {
			h.Write(src[m.fset.Position(fd.Pos()).Offset:m.fset.Position(fd.End()).Offset])
		}
	}
	list := func(l []string) string { return "[" + strings.Join(l, "; ") + "]" }
	fmt.Fprintf(&m.out, "(* structure c20_swap from %s: NewConnection + background prologue, handler-swap case (line %d) *)\n",
		sc.File, m.line(cc.Pos()))
	fmt.Fprintf(&m.out, "Definition conn_init_ops : list reg_op := %s.\n", list(initOps))
	fmt.Fprintf(&m.out, "Definition swap_nil_ops : list reg_op := %s.\n", list(nilOps))
	fmt.Fprintf(&m.out, "Definition swap_nonnil_ops : list reg_op := %s.\n", list(someOps))
	fmt.Fprintf(&m.out, "Definition dispatch_nil_validator : vkind := %s.\n", nilV)
	fmt.Fprintf(&m.out, "Definition swap_src : string := \"%s:%d:%x\".\n\n", sc.File, m.line(cc.Pos()), h.Sum(nil)[:8])
	_ = token.NoPos
}
