package main

// Structure extractor "decision_ladder" (property C03).
//
// Reads a Go method that inspects a VoteSummary and decides what the node does with a
// round's precommits (tmstate.handlePrecommitViewUpdate, tmi.checkVotingPrecommitViewShift)
// and emits its decision ladder as a total Gallina function
//
//   <coq> (avail total_pc max_pow : N) (most_nil has_ph hdr_nil : bool) : res c03_act
//
// in continuation-passing style: every `if` becomes an `if`, a threshold call
// (tmconsensus.ByzantineMajority / ByzantineMinority) becomes a `bind` on the generated
// function of Gen/Math.v, the first *action call* on a path (advanceRound, beginCommit,
// advanceVotingRound, ShiftVotingToCommitting) is the result of that path, `panic` is
// `Panic`, a path without an action is `ActNone`.  Statements that neither act nor branch
// on an action (timers, logging, bookkeeping assignments) are dropped; an `if` whose
// condition is outside the vocabulary is accepted only when both branches decide the same
// (then it is dropped) - otherwise the extractor fails loudly.

import (
	"crypto/sha256"
	"fmt"
	"go/ast"
	"go/parser"
	"go/token"
	"os"
	"path/filepath"
	"strings"
)

func init() { structureExtractors["decision_ladder"] = extractDecisionLadder }

var ladderHeaderDone = map[*modCtx]bool{}

var ladderActions = map[string]string{
	"advanceRound":            "ActAdvanceRound",
	"advanceVotingRound":      "ActAdvanceRound",
	"beginCommit":             "ActBeginCommit",
	"ShiftVotingToCommitting": "ActShiftCommit",
}

// leaf vocabulary: Go source text -> Gallina term (N-typed unless in ladderBoolVocab)
var ladderVocab = map[string]string{
	"vs.TotalPrecommitPower": "total_pc",
	"vs.AvailablePower":      "avail",
}

// whole boolean expressions with a fixed meaning
var ladderBoolVocab = map[string]string{
	`vs.MostVotedPrecommitHash == ""`: "most_nil",
	`committingHash == ""`:            "most_nil",
	`hasPH`:                           "has_ph",
	`votedHeader.Hash == nil`:         "hdr_nil",
}

type ladderCtx struct {
	m       *modCtx
	fn      string
	alias   map[string]string // Go local -> Gallina term
	pending [][2]string       // threshold calls met inside a condition: (fresh name, call)
}

func (c *ladderCtx) text(x ast.Node) string { return exprString(c.m.fset, x) }

func (c *ladderCtx) actionOf(x ast.Expr) (string, bool) {
	call, ok := x.(*ast.CallExpr)
	if !ok {
		return "", false
	}
	switch f := call.Fun.(type) {
	case *ast.SelectorExpr:
		if a, ok := ladderActions[f.Sel.Name]; ok {
			return "Ok " + a, true
		}
	case *ast.Ident:
		if f.Name == "panic" {
			return fmt.Sprintf("Panic \"%s:%d\"", c.fn, c.m.line(call.Pos())), true
		}
	}
	return "", false
}

func (c *ladderCtx) thresholdOf(x ast.Expr) (string, bool) {
	call, ok := x.(*ast.CallExpr)
	if !ok || len(call.Args) != 1 {
		return "", false
	}
	sel, ok := call.Fun.(*ast.SelectorExpr)
	if !ok {
		return "", false
	}
	arg, ok := c.term(call.Args[0])
	if !ok {
		return "", false
	}
	switch sel.Sel.Name {
	case "ByzantineMajority":
		return "byz_majority " + arg, true
	case "ByzantineMinority":
		return "byz_minority " + arg, true
	}
	return "", false
}

func (c *ladderCtx) term(x ast.Expr) (string, bool) {
	switch v := x.(type) {
	case *ast.ParenExpr:
		return c.term(v.X)
	case *ast.Ident:
		if t, ok := c.alias[v.Name]; ok {
			return t, true
		}
	case *ast.BasicLit:
		if v.Kind == token.INT {
			return v.Value, true
		}
	}
	if t, ok := ladderVocab[c.text(x)]; ok {
		return t, true
	}
	if th, ok := c.thresholdOf(x); ok {
		name := fresh("thr")
		c.pending = append(c.pending, [2]string{name, th})
		return name, true
	}
	// PrecommitBlockPower[<most voted hash>] is the power of the most voted target
	if ix, ok := x.(*ast.IndexExpr); ok && c.text(ix.X) == "vs.PrecommitBlockPower" {
		k := c.text(ix.Index)
		if k == "vs.MostVotedPrecommitHash" || c.alias[k] == "<most_voted_hash>" {
			return "max_pow", true
		}
	}
	return "", false
}

func (c *ladderCtx) cond(x ast.Expr) (string, bool) {
	if t, ok := ladderBoolVocab[c.text(x)]; ok {
		return t, true
	}
	switch v := x.(type) {
	case *ast.ParenExpr:
		return c.cond(v.X)
	case *ast.UnaryExpr:
		if v.Op == token.NOT {
			if t, ok := c.cond(v.X); ok {
				return "(negb " + t + ")", true
			}
		}
	case *ast.BinaryExpr:
		switch v.Op {
		case token.LAND, token.LOR:
			a, ok1 := c.cond(v.X)
			b, ok2 := c.cond(v.Y)
			if ok1 && ok2 {
				op := "&&"
				if v.Op == token.LOR {
					op = "||"
				}
				return "(" + a + " " + op + " " + b + ")", true
			}
		case token.GEQ, token.LEQ, token.LSS, token.GTR, token.EQL, token.NEQ:
			a, ok1 := c.term(v.X)
			b, ok2 := c.term(v.Y)
			if ok1 && ok2 {
				switch v.Op {
				case token.GEQ:
					return "(" + b + " <=? " + a + ")%N", true
				case token.LEQ:
					return "(" + a + " <=? " + b + ")%N", true
				case token.LSS:
					return "(" + a + " <? " + b + ")%N", true
				case token.GTR:
					return "(" + b + " <? " + a + ")%N", true
				case token.EQL:
					return "(" + a + " =? " + b + ")%N", true
				case token.NEQ:
					return "(negb (" + a + " =? " + b + ")%N)", true
				}
			}
		}
	}
	return "", false
}

// walk returns the Gallina decision for executing stmts and then continuing with k.
func (c *ladderCtx) walk(stmts []ast.Stmt, k string) string {
	if len(stmts) == 0 {
		return k
	}
	s := stmts[0]
	rest := func() string { return c.walk(stmts[1:], k) }
	switch v := s.(type) {
	case *ast.ReturnStmt:
		return "Ok ActNone"
	case *ast.ExprStmt:
		if a, ok := c.actionOf(v.X); ok {
			return a
		}
		return rest()
	case *ast.AssignStmt:
		if len(v.Rhs) == 1 {
			if a, ok := c.actionOf(v.Rhs[0]); ok {
				return a
			}
			if len(v.Lhs) == 1 {
				if id, ok := v.Lhs[0].(*ast.Ident); ok {
					if th, ok := c.thresholdOf(v.Rhs[0]); ok {
						c.alias[id.Name] = id.Name
						return fmt.Sprintf("bind (%s) (fun %s =>\n%s)", th, id.Name, rest())
					}
					if c.text(v.Rhs[0]) == "vs.MostVotedPrecommitHash" {
						c.alias[id.Name] = "<most_voted_hash>"
						return rest()
					}
					if t, ok := c.term(v.Rhs[0]); ok {
						c.alias[id.Name] = t
						return rest()
					}
				}
			}
		}
		return rest()
	case *ast.IfStmt:
		if as, ok := v.Init.(*ast.AssignStmt); ok && len(as.Rhs) == 1 {
			if a, ok := c.actionOf(as.Rhs[0]); ok {
				return a
			}
		}
		r := rest()
		thenS := c.walk(v.Body.List, r)
		elseS := r
		switch e := v.Else.(type) {
		case *ast.BlockStmt:
			elseS = c.walk(e.List, r)
		case *ast.IfStmt:
			elseS = c.walk([]ast.Stmt{e}, r)
		}
		if thenS == elseS {
			return thenS
		}
		c.pending = nil
		cd, ok := c.cond(v.Cond)
		if !ok {
			fail("decision_ladder %s: condition %q (line %d) guards a decision but is outside the vocabulary",
				c.fn, c.text(v.Cond), c.m.line(v.Pos()))
		}
		out := fmt.Sprintf("if %s then\n%s\nelse\n%s", cd, thenS, elseS)
		for i := len(c.pending) - 1; i >= 0; i-- {
			out = fmt.Sprintf("bind (%s) (fun %s =>\n%s)", c.pending[i][1], c.pending[i][0], out)
		}
		c.pending = nil
		return out
	case *ast.BlockStmt:
		return c.walk(append(append([]ast.Stmt{}, v.List...), stmts[1:]...), k)
	case *ast.RangeStmt:
		if c.walk(v.Body.List, "K") != "K" {
			fail("decision_ladder %s: loop at line %d contains a decision", c.fn, c.m.line(v.Pos()))
		}
		return rest()
	case *ast.ForStmt, *ast.SwitchStmt, *ast.SelectStmt, *ast.GoStmt:
		fail("decision_ladder %s: unsupported statement at line %d", c.fn, c.m.line(s.Pos()))
	}
	return rest() // defer, var declarations, inc/dec, ...
}

func extractDecisionLadder(m *modCtx, sc StructureCfg) {
	path := filepath.Join(m.repo, sc.File)
	src, err := os.ReadFile(path)
	if err != nil {
		fail("%v", err)
	}
	f, err := parser.ParseFile(m.fset, path, src, parser.ParseComments)
	if err != nil {
		fail("%v", err)
	}
	var fd *ast.FuncDecl
	for _, d := range f.Decls {
		g, ok := d.(*ast.FuncDecl)
		if !ok {
			continue
		}
		n := g.Name.Name
		if g.Recv != nil && len(g.Recv.List) == 1 {
			n = strings.TrimPrefix(exprString(m.fset, g.Recv.List[0].Type), "*") + "." + n
		}
		if n == sc.Func {
			fd = g
		}
	}
	if fd == nil || fd.Body == nil {
		fail("decision_ladder: function %s not found in %s", sc.Func, sc.File)
	}
	if !ladderHeaderDone[m] {
		ladderHeaderDone[m] = true
		m.out.WriteString("Inductive c03_act := ActNone | ActAdvanceRound | ActBeginCommit | ActShiftCommit.\n\n")
	}
	c := &ladderCtx{m: m, fn: sc.Func, alias: map[string]string{}}
	body := c.walk(fd.Body.List, "Ok ActNone")
	if !strings.Contains(body, "byz_majority") && !strings.Contains(body, "byz_minority") {
		fail("decision_ladder %s: no threshold call found (pattern changed?)", sc.Func)
	}
	start, end := m.fset.Position(fd.Pos()), m.fset.Position(fd.End())
	h := sha256.Sum256(src[start.Offset:end.Offset])
	fmt.Fprintf(&m.out, "(* %s : %s lines %d-%d sha256 %x *)\n", sc.Func, sc.File, start.Line, end.Line, h[:8])
	fmt.Fprintf(&m.out, "Definition %s (avail total_pc max_pow : N) (most_nil has_ph hdr_nil : bool) : res c03_act :=\n%s.\n", sc.Coq, body)
	fmt.Fprintf(&m.out, "Definition %s_src : string := \"%s:%d-%d:%x\".\n\n", sc.Coq, sc.File, start.Line, end.Line, h[:8])
}
