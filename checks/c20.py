"""C20 - Peers relay a consensus message only if the local handler accepted it (DESIGN 4, C20)."""
import json
import re
import vcheck

META = {
    "engine": "coq+translator",
    "technique": "Coq proofs over (a) the feedback->pubsub mapping regenerated from connection.go by the translator, (b) a "
                 "hand model of the validator wrapper, (c) the topic-validator registry as a transition system whose program is "
                 "the call sequence EXTRACTED from NewConnection/background on every run (relay_only_if_accepted for every "
                 "interleaving of arrivals and swaps, proved for every program passing the boolean check prog_safe and "
                 "instantiated on the extracted one), (d) a model of the DaisyChain test network; differential correspondence of "
                 "all four against the real code (direct calls of the real wrapper, real DaisyChain lines, real libp2p A-B-C on localhost)",
    "level": "Result -> feedback tables (tm/tmconsensus/feedbackmapper.go, regenerated as Gen/Mappers.v): C20_mappers_accept_only_verified - both mappers "
             "answer FeedbackAccepted only for results that mean the engine verified the message, for every N a handler could return. "
             "Full for the tmlibp2p path after fix 7f091a8 (one validator registered before Subscribe, handler swapped atomically): "
             "accept_iff_accepted, out_of_range_ignored, wrapper_spec/wrapper_accept, relay_only_if_accepted (every interleaving, "
             "every request list), no_handler_no_relay, swap_is_atomic. Partial for DaisyChain: the test network passes messages "
             "through a node whose handler is nil (known finding daisychain-nil-handler-passthrough); daisy_relay_spec is proved, "
             "daisy_no_handler_no_relay is refuted by a witness replayed on the real network. libp2p-pubsub internals and real "
             "network timing are outside the model (assumed: forwarded iff subscribed and (no validator or Accept)).",
    "note": "Trusted: Coq kernel, translator + c20_swap extractor (cross-checked by live runs every time), pubsub forwarding "
            "semantics, the stub codec/handlers of the harness. The live swap correspondence is sequential (swaps between "
            "messages); arrivals inside a swap are covered by the theorem over the extracted sequence, and the no-validator "
            "window is replayed on the real pubsub registry when the extracted sequence has one.",
    "design_ref": "DESIGN.md 4 (C20), design/C20.md",
}

KINDS = ["KPH", "KPV", "KPC"]
KSHORT = {"ph": 0, "pv": 1, "pc": 2}


# ----------------------------------------------------------------------------- generators
def verdict(rng):
    x = rng.below(100)
    if x < 35:
        return 1
    if x < 50:
        return 2
    if x < 65:
        return 3
    if x < 72:
        return 0
    if x < 80:
        return 4
    return 5 + rng.below(251)


def decode(payload):
    """abstract decoding of the stub codec's format: None = undecodable, else (ph, pv, pc) ids or None"""
    if len(payload) != 6 or payload[0] != 1:
        return None
    i = (payload[4] << 8) | payload[5]
    return tuple(i if payload[k] else None for k in (1, 2, 3))


def first_variant(d):
    if d is None:
        return None
    for k in range(3):
        if d[k] is not None:
            return (k, d[k])
    return None


def gen_payload(rng, ident, force=None):
    """mostly decodable single-variant payloads; also none/several variants and a malformed stream"""
    x = rng.below(100) if force is None else force
    hi, lo = (ident >> 8) & 255, ident & 255
    if x < 55:
        f = [0, 0, 0]
        f[rng.below(3)] = 1
        return bytes([1] + f + [hi, lo])
    if x < 67:
        return bytes([1, 0, 0, 0, hi, lo])
    if x < 82:
        f = [rng.below(2), rng.below(2), rng.below(2)]
        if sum(f) < 2:
            f = [1, 1, rng.below(2)] if rng.below(2) else [0, 1, 1]
        return bytes([1] + f + [hi, lo])
    y = rng.below(4)
    if y == 0:
        return bytes([0xEE, 1, 0, 0, hi, lo])           # wrong tag
    if y == 1:
        return bytes([1, 1, 0, 0, hi, lo, 0x55])         # trailing byte
    if y == 2:
        return bytes([0, 0, 0, 0, hi, lo])               # zero tag
    return bytes([2 + rng.below(250), rng.below(2), rng.below(2), rng.below(2), hi, lo])


def gen_wrapper_cases(rng, n):
    cases = []
    # exhaustive verdict values for each kind through a single-variant message
    for f in range(256):
        k = f % 3
        fl = [0, 0, 0]
        fl[k] = 1
        t = [1, 1, 1]
        t[k] = f
        cases.append({"self": 0, "payload": bytes([1] + fl + [0, f]).hex(), "handler": t})
    while len(cases) < n:
        ident = rng.below(65536)
        h = None if rng.chance(15, 100) else [verdict(rng), verdict(rng), verdict(rng)]
        cases.append({"self": 1 if rng.chance(8, 100) else 0, "payload": gen_payload(rng, ident).hex(), "handler": h})
    return cases


def gen_daisy_cases(rng, n):
    cases = [
        # recorded witness of the known finding: nil handler in the middle passes the message through
        {"n": 3, "ops": [["M", 0, 0]]},
        {"n": 3, "ops": [["S", 1, [2, 1, 3]], ["M", 0, 0], ["M", 0, 1], ["M", 2, 2], ["S", 1, None], ["M", 1, 0]]},
    ]
    while len(cases) < n:
        ln = 3 + rng.below(3)
        nmsg = 2 + rng.below(6)
        ops = []
        sent = 0
        while sent < nmsg:
            if rng.chance(40, 100):
                node = 1 + rng.below(ln - 2)
                if rng.chance(20, 100):
                    ops.append(["S", node, None])
                else:
                    ops.append(["S", node, [verdict(rng) if rng.chance(50, 100) else 1 for _ in range(nmsg)]])
            else:
                ops.append(["M", rng.below(ln), rng.below(3)])
                sent += 1
        cases.append({"n": ln, "ops": ops})
    return cases


def gen_live_cases(rng, n, per_case, exhaustive):
    """scripts for node B of a live A-B-C line; ids are unique: case*64 + j"""
    cases = []
    if exhaustive:
        # every feedback value through B's handler
        vals = list(range(256))
        for ci in range(0, 256, 32):
            chunk = vals[ci:ci + 32]
            cases.append({"ops": [["S", chunk]] + [["P", None, j] for j in range(len(chunk))]})
    while len(cases) < n:
        ops = []
        npub = 0
        if rng.chance(30, 100):
            ops.append(["P", None, None])
            npub += 1
        while npub < per_case:
            x = rng.below(100)
            if x < 30:
                ops.append(["S", None] if rng.chance(25, 100) else ["S", [verdict(rng) for _ in range(per_case + 2)]])
            else:
                ops.append(["P", None, None])
                npub += 1
        cases.append({"ops": ops})
    # assign ids and payloads
    for ci, c in enumerate(cases):
        j = 0
        for op in c["ops"]:
            if op[0] == "P":
                ident = ci * 64 + j
                forced = op[2]
                if forced is not None:
                    j = forced
                    ident = ci * 64 + j
                    op[1] = bytes([1, 1, 0, 0, ident >> 8, ident & 255]).hex()
                else:
                    op[1] = gen_payload(rng, ident).hex()
                del op[2:]
                j += 1
    return cases


# ----------------------------------------------------------------------------- coq term printers
def opt(x, f=str):
    return "None" if x is None else "(Some %s)" % f(x)


def coq_list(xs):
    return "[" + "; ".join(xs) + "]"


def nat(x):
    return "%d%%nat" % x


def coq_bool(b):
    return "true" if b else "false"


def coq_msg(self_, payload):
    d = decode(payload)
    body = "Undecodable" if d is None else "(Decoded (mk_dmsg %s %s %s))" % tuple(opt(x) for x in d)
    return "(mk_netmsg %s %s)" % (coq_bool(self_), body)


def coq_z(x):
    return "None" if x is None else "(Some (%d)%%Z)" % x


def main(argv):
    c = vcheck.Check("C20", argv)
    c.trusted += [
        "translator /verif/translate for exchangeFeedbackToLibp2p + Feedback enum; structure extractor translate/c20_swap.go "
        "(NewConnection/background call sequences); both cross-checked on every run by live execution of the real code",
        "Go harness /verif/harness/c20 (stub codec, table handlers, pubsub RawTracer on B, connection gater keeping A and C apart) "
        "and the Cases evaluation inside coqc (vm_compute)",
        "hook tm/tmp2p/tmlibp2p/verif_hooks.go (build tag verif; re-exports only)",
    ]
    c.assumes += [
        "libp2p-pubsub: a topic message is delivered/forwarded iff the node is subscribed and (no validator is registered or the "
        "validator returns ValidationAccept); Register on an occupied slot / Unregister on an empty slot change nothing",
        "a message's ReceivedFrom equals the local peer id only for local publications",
        "Go select/channel semantics of the DaisyChain goroutines (each connection loop is sequential)",
    ]
    c.grep_gate()
    quick = c.tier == "quick"
    n_wrap = 600 if quick else 12000
    n_daisy = 60 if quick else 500
    n_live = 10 if quick else 60
    wrapper_cases = gen_wrapper_cases(c.rng, n_wrap)
    daisy_cases = gen_daisy_cases(c.rng, n_daisy)
    live_cases = gen_live_cases(c.rng, n_live, 6 if quick else 8, exhaustive=not quick)
    if c.replay:
        rp = json.load(open(c.replay)).get("cases", {})
        wrapper_cases = rp.get("wrapper", [])
        daisy_cases = rp.get("daisy", [])
        live_cases = rp.get("live", [])

    # 1. regenerate the generated model parts, 2. re-check the theorems
    tok, tlog = c.translate(only=["Gen/Feedback.v", "Gen/RelaySwap.v"])
    c.coq_make(["Monitors/C20m.vo"])
    proved = False
    if not tok:
        c.obligations.append("translate Gen/Feedback.v Gen/RelaySwap.v")
        c.broken = {"file": "translate", "log": tlog[-800:]}
    else:
        proved = c.prove("C20")
    # 2b. the result -> feedback tables (feedbackmapper.go, regenerated as Gen/Mappers.v): FeedbackAccepted only for verified results
    tokm, tlogm = c.translate(only=["Gen/Mappers.v"])
    if not tokm:
        c.obligations.append("translate Gen/Mappers.v")
        c.fail_obligation("translate Gen/Mappers.v (feedbackmapper.go left the translated subset)", tlogm[-800:])
    else:
        saved_broken = getattr(c, "broken", None)
        if not c.prove("C20Mappers"):
            mb = dict(getattr(c, "broken", {"file": "?", "log": ""}))
            c.broken = saved_broken
            # search: which enumerated result does a table accept although it does not mean "verified"?
            body = ("From Coq Require Import List NArith String Bool.\nFrom GV Require Import Base.Ints Gen.Mappers.\nImport ListNotations. Local Open Scope N_scope.\n"
                    "Definition acc (f : N -> res N) (all : list N) := filter (fun r => match f r with Ok x => N.eqb x FeedbackAccepted | Panic _ => false end) all.\n"
                    "Definition bad := Eval vm_compute in\n"
                    "  [filter (fun r => negb (existsb (N.eqb r) [HandleProposedHeaderAccepted; HandleProposedHeaderAlreadyStored])) (acc aav_map_ph all_HandleProposedHeaderResult);\n"
                    "   filter (fun r => negb (N.eqb r HandleProposedHeaderAccepted)) (acc dd_map_ph all_HandleProposedHeaderResult);\n"
                    "   filter (fun r => negb (existsb (N.eqb r) [HandleVoteProofsAccepted; HandleVoteProofsNoNewSignatures; HandleVoteProofsFutureVerified])) (acc aav_map_vote all_HandleVoteProofsResult);\n"
                    "   filter (fun r => negb (existsb (N.eqb r) [HandleVoteProofsAccepted; HandleVoteProofsFutureVerified])) (acc dd_map_vote all_HandleVoteProofsResult)].\n"
                    "Print bad. Print names_HandleProposedHeaderResult. Print names_HandleVoteProofsResult.\n")
            ok, cout = c.coq_eval("c20_mapper_search", body)
            m = re.search(r"bad\s*=\s*(\[.*?\])\s*\n\s*:\s*list", cout, flags=re.S) if ok else None
            found = []
            if m:
                groups = re.findall(r"\[([^\[\]]*)\]", m.group(1))
                tables = ["AcceptAllValidFeedbackMapper.HandleProposedHeader", "DropDuplicateFeedbackMapper.HandleProposedHeader",
                          "AcceptAllValidFeedbackMapper.mapVoteResult", "DropDuplicateFeedbackMapper.mapVoteResult"]
                for t, g in zip(tables, groups):
                    for r in re.findall(r"\d+", g):
                        kind = "HandleProposedHeader" if "ProposedHeader" in t else "HandleVoteProofs"
                        nm = re.search(r'\(\s*%s(?:%%N)?\s*,\s*"(%s\w+)"' % (r, kind), cout)
                        found.append((t, int(r), nm.group(1) if nm else "?"))
            if found:
                t, r, nm = found[0]
                c.report("mapper-accepts-unverified:%s" % nm, "%s answers FeedbackAccepted for the result %s (%d), which does not mean that the engine "
                         "verified the message: a peer wired with this mapper relays a message its handler did not accept" % (t, nm, r),
                         {"table": t, "result": nm, "value": r, "all_offending": found,
                          "how": "call the mapper with a FineGrainedConsensusHandler that returns %s; the table is the source text of "
                                 "tm/tmconsensus/feedbackmapper.go as translated in this run (Gen/Mappers.v)" % nm})
            else:
                c.fail_obligation("Properties/C20Mappers.v (%s)" % mb.get("file"), mb.get("log", ""))
    broken = getattr(c, "broken", None)
    # with a failed translation coq/Gen is stale: the model is then not evaluated at all (monitors still are)
    model_ok = tok and c.coq_make(["Model/P2PRelay.vo"])[0]

    # 3. run the real code
    binary, blog = c.go_build("c20")
    if binary is None:
        c.fail_obligation("harness-build", blog[-1500:])
        c.finish()

    def harness(mode, lines, timeout=600):
        rc, out, err = c.run_bin(binary, [mode], stdin="\n".join(lines) + "\n", timeout=timeout)
        return rc, out, err

    # --- feedback
    rc, out, err = harness("feedback", [])
    fobs = [(int(a), int(b)) for a, b in re.findall(r"^F (\d+) (-?\d+)$", out, flags=re.M)]
    if len(fobs) != 256:
        c.fail_obligation("harness-run feedback", "got %d of 256 results: %s" % (len(fobs), err[-400:]))

    # --- wrapper
    wl = ["W %d %s %s" % (w["self"], w["payload"], "nil" if w["handler"] is None else ",".join(map(str, w["handler"])))
          for w in wrapper_cases]
    wobs = []
    if wl:
        rc, out, err = harness("wrapper", wl)
        for line in out.splitlines():
            m = re.match(r"^R (\S+) (\S+)$", line)
            if m:
                res = None if m.group(1) == "P" else int(m.group(1))
                calls = [] if m.group(2) == "-" else [(KSHORT[x.split(":")[0]], int(x.split(":")[1])) for x in m.group(2).split(",")]
                wobs.append((res, calls))
        if len(wobs) != len(wl):
            c.fail_obligation("harness-run wrapper", "got %d of %d results: %s" % (len(wobs), len(wl), err[-400:]))
            wobs = wobs + [(None, [])] * (len(wl) - len(wobs))

    # --- daisy
    dl = []
    for d in daisy_cases:
        toks = [str(d["n"])]
        for op in d["ops"]:
            if op[0] == "S":
                toks.append("S%d:%s" % (op[1], "nil" if op[2] is None else ",".join(map(str, op[2]))))
            else:
                toks.append("M%d:%d" % (op[1], op[2]))
        dl.append(" ".join(toks))
    dobs = []
    if dl:
        rc, out, err = harness("daisy", dl)
        for line in out.splitlines():
            if line.startswith("D "):
                dobs.append([[] if x == "-" else [int(y) for y in x.split(",")] for x in line[2:].split()])
        if len(dobs) != len(dl):
            c.fail_obligation("harness-run daisy", "got %d of %d results: %s" % (len(dobs), len(dl), err[-400:]))
            dobs = dobs + [[]] * (len(dl) - len(dobs))

    # --- live libp2p line
    def live_lines(cases):
        ls = []
        for lc in cases:
            toks = []
            for op in lc["ops"]:
                if op[0] == "S":
                    toks.append("S:%s" % ("nil" if op[1] is None else ",".join(map(str, op[1]))))
                elif op[0] == "P":
                    toks.append("P:" + op[1])
                else:
                    toks.append(op[0])
            ls.append(" ".join(toks))
        return ls

    def parse_live(out):
        res = []
        for line in out.splitlines():
            if line.startswith("L"):
                row = []
                for x in line[1:].split():
                    ident, rest = x.split(":", 1)
                    parts = rest.rsplit(":", 2)
                    row.append({"id": int(ident), "event": parts[0], "calls": int(parts[1]), "c": int(parts[2])})
                res.append(row)
        return res

    lobs = []
    if live_cases:
        rc, out, err = harness("libp2p", live_lines(live_cases))
        lobs = parse_live(out)
        if len(lobs) != len(live_cases):
            c.fail_obligation("harness-run libp2p", "got %d of %d results: %s" % (len(lobs), len(live_cases), err[-400:]))
            lobs = lobs + [[]] * (len(live_cases) - len(lobs))

    # ------------------------------------------------------------------ build Coq case data
    # feedback
    f_terms = ["(%d, (%d)%%Z)" % (f, r) for f, r in fobs]
    # wrapper: correspondence tuples and monitor observations
    w_corr, w_mon = [], []
    for i, (w, (res, calls)) in enumerate(zip(wrapper_cases, wobs)):
        payload = bytes.fromhex(w["payload"])
        d = decode(payload)
        h = w["handler"]
        hterm = "None" if h is None else "(Some (tbl_kind %d %d %d))" % tuple(h)
        cterm = coq_list(["(%s, %d)" % (KINDS[k], i2) for k, i2 in calls])
        w_corr.append("(%d, (%s, %s, %s, %s))" % (i, coq_msg(w["self"], payload), hterm, coq_z(res), cterm))
        verdict_v = h[calls[0][0]] if (h is not None and calls) else None
        w_mon.append("(%d, mk_wobs %s %s %s %s %s %d %s)" % (
            i, coq_bool(w["self"]), coq_bool(d is not None), coq_bool(first_variant(d) is not None),
            coq_bool(h is not None), opt(verdict_v), len(calls), coq_z(res)))
    # daisy
    d_corr, d_mon = [], []
    d_mon_info = {}
    for i, (d, obs) in enumerate(zip(daisy_cases, dobs)):
        ops = []
        n = d["n"]
        tables = [None] * n
        tables[0] = tables[n - 1] = "acc"
        mid = 0
        for op in d["ops"]:
            if op[0] == "S":
                ops.append("DSet %s %s" % (nat(op[1]), "None" if op[2] is None else "(Some (tbl_id %s))" % coq_list(map(str, op[2]))))
                tables[op[1]] = op[2]
            else:
                ops.append("DMsg %s %s" % (nat(op[1]), KINDS[op[2]]))
                if mid < len(obs):
                    st = []
                    for t in tables:
                        if t is None:
                            st.append(None)
                        elif t == "acc":
                            st.append(1)
                        else:
                            st.append(t[mid] if mid < len(t) else 0)
                    key = i * 1000 + mid
                    d_mon.append("(%d, (%s, %s, %s))" % (key, coq_list(opt(x) for x in st), nat(op[1]), coq_list(map(nat, obs[mid]))))
                    d_mon_info[key] = {"case": i, "msg": mid, "status": st, "origin": op[1], "seen": obs[mid]}
                mid += 1
        d_corr.append("(%d, (%s, %s, %s))" % (i, nat(n), coq_list(ops), coq_list(coq_list(map(nat, o)) for o in obs)))

    # live
    raw_keys = set()

    def live_terms(cases, observations, base=0):
        corr, mon, info = [], [], {}
        for i, (lc, obs) in enumerate(zip(cases, observations)):
            ops, exp = [], []
            cur = None
            has_handler = False
            pi = 0
            for op in lc["ops"]:
                if op[0] == "S":
                    cur = op[1]
                    has_handler = cur is not None
                    ops.append("LSet %s" % ("None" if cur is None else "(Some (tbl_mod 64 %s))" % coq_list(map(str, cur))))
                elif op[0] == "P":
                    payload = bytes.fromhex(op[1])
                    ops.append("LPub %s" % coq_msg(0, payload))
                    if pi < len(obs):
                        o = obs[pi]
                        fwd = o["event"] == "D"
                        res = None if fwd else {"R:validation_failed": 1, "R:validation_ignored": 2}.get(o["event"], 99)
                        exp.append("(%s, %s, %s, %s)" % (coq_bool(fwd), coq_z(res), nat(o["calls"]), coq_bool(o["c"] == 1)))
                        d = decode(payload)
                        ident = (payload[4] << 8 | payload[5]) if len(payload) >= 6 else 0
                        v = 0
                        if cur is not None and (ident % 64) < len(cur):
                            v = cur[ident % 64]
                        key = (base + i) * 1000 + pi
                        mon.append("(%d, mk_lobs %s %s %s %d %s %s)" % (
                            key, coq_bool(has_handler), coq_bool(d is not None), coq_bool(first_variant(d) is not None), v,
                            coq_bool(fwd), coq_bool(o["c"] == 1)))
                        info[key] = {"case": i, "publish": pi, "payload": op[1], "handler": cur, "observed": o}
                    pi += 1
            raw = any(op[0] not in ("S", "P") for op in lc["ops"])
            if raw:
                # the script drives B's pubsub registry directly (staged registry state of a replay): no model
                # counterpart; its monitor verdict counts only while the extracted sequence really has such a state
                raw_keys.update(k for k in info if info[k]["case"] == i)
            else:
                corr.append("(%d, (%s, %s))" % (base + i, coq_list(ops), coq_list(exp)))
        return corr, mon, info

    l_corr, l_mon, l_info = live_terms(live_cases, lobs)

    prelude_mon = """From Coq Require Import List NArith ZArith Bool.
From GV Require Import Monitors.C20m.
Import ListNotations. Local Open Scope N_scope.
Definition bad {A} (f : A -> bool) (l : list (N * A)) : list N := map fst (filter (fun c => negb (f (snd c))) l).
"""
    mon_body = prelude_mon + """
Definition fcases : list (N * Z) := %s.
Definition wmon : list (N * wobs) := %s.
Definition dmon : list (N * (list (option N) * nat * list nat)) := %s.
Definition lmon : list (N * lobs) := %s.
Definition f_mon_bad := Eval vm_compute in map fst (filter (fun c => negb (c20_feedback_mon (fst c) (snd c))) fcases).
Definition w_mon_bad := Eval vm_compute in bad c20_wrapper_mon wmon.
Definition d_weak_bad := Eval vm_compute in bad (fun x => let '(st, o, seen) := x in c20_daisy_mon false st o seen) dmon.
Definition d_strict_bad := Eval vm_compute in bad (fun x => let '(st, o, seen) := x in c20_daisy_mon true st o seen) dmon.
Definition l_mon_bad := Eval vm_compute in bad c20_relay_mon lmon.
Print f_mon_bad. Print w_mon_bad. Print d_weak_bad. Print d_strict_bad. Print l_mon_bad.
""" % (coq_list(f_terms), coq_list(t for t in w_mon), coq_list(d_mon), coq_list(l_mon))

    def grab(cout, name):
        m = re.search(name + r"\s*=\s*\[(.*?)\]\s*:", cout, flags=re.S)
        return [int(x) for x in re.findall(r"\d+", m.group(1))] if m else None

    mon_res = {}
    ok, cout = c.coq_eval("c20_mon", mon_body)
    if not ok:
        c.fail_obligation("monitor-eval", cout[-1500:])
    for nm in ("f_mon_bad", "w_mon_bad", "d_weak_bad", "d_strict_bad", "l_mon_bad"):
        mon_res[nm] = (grab(cout, nm) or []) if ok else []

    corr_res = {}
    gaps = []
    corr_ok = False
    if model_ok:
        corr_body = """From Coq Require Import List NArith ZArith Bool String.
From GV Require Import Base.Ints Model.P2PRelayVocab Gen.Feedback Gen.RelaySwap Model.P2PRelay.
Import ListNotations. Local Open Scope N_scope.
Definition bad {A} (f : A -> bool) (l : list (N * A)) : list N := map fst (filter (fun c => negb (f (snd c))) l).
Definition kind_eqb (a b : kind) : bool := match a, b with KPH, KPH | KPV, KPV | KPC, KPC => true | _, _ => false end.
Fixpoint calls_eqb (a b : list call) : bool :=
  match a, b with [], [] => true | (k, i) :: a', (k2, i2) :: b' => kind_eqb k k2 && (i =? i2) && calls_eqb a' b' | _, _ => false end.
Definition res_eqb (r : res Z) (o : option Z) : bool :=
  match r, o with Ok a, Some b => Z.eqb a b | Panic _, None => true | _, _ => false end.
Definition optz_eqb (a b : option Z) : bool := match a, b with Some x, Some y => Z.eqb x y | None, None => true | _, _ => false end.
Fixpoint nats_eqb (a b : list nat) : bool :=
  match a, b with [], [] => true | x :: a', y :: b' => Nat.eqb x y && nats_eqb a' b' | _, _ => false end.
Fixpoint natss_eqb (a b : list (list nat)) : bool :=
  match a, b with [], [] => true | x :: a', y :: b' => nats_eqb x y && natss_eqb a' b' | _, _ => false end.
Definition acc : handler := fun _ _ => 1.
Definition dc_init (n : nat) : list (option handler) := Some acc :: repeat None (n - 2) ++ [Some acc].
Definition fcases : list (N * Z) := %s.
Definition wcases : list (N * (netmsg * option handler * option Z * list call)) := %s.
Definition dcases : list (N * (nat * list dc_op * list (list nat))) := %s.
Definition lcases : list (N * (list live_op * list (bool * option Z * nat * bool))) := %s.
Definition wcorr (x : netmsg * option handler * option Z * list call) : bool :=
  let '(m, h, r, cs) := x in let '(mr, mcs) := wrapper h m in res_eqb mr r && calls_eqb mcs cs.
Definition dcorr (x : nat * list dc_op * list (list nat)) : bool :=
  let '(n, ops, obs) := x in natss_eqb (dc_run (dc_init n) 0 ops) obs.
Definition lproj (o : aobs) : bool * option Z * nat * bool :=
  (a_forwarded o, if a_forwarded o then None else match a_result o with Some (Ok z) => Some z | _ => Some 99%%Z end,
   List.length (a_calls o), a_forwarded o).
Fixpoint lobs_eqb (a b : list (bool * option Z * nat * bool)) : bool :=
  match a, b with
  | [], [] => true
  | (f1, r1, n1, c1) :: a', (f2, r2, n2, c2) :: b' =>
      Bool.eqb f1 f2 && optz_eqb r1 r2 && Nat.eqb n1 n2 && Bool.eqb c1 c2 && lobs_eqb a' b'
  | _, _ => false
  end.
Definition lcorr (x : list live_op * list (bool * option Z * nat * bool)) : bool :=
  let '(ops, obs) := x in lobs_eqb (map lproj (live_run extracted_prog ops)) obs.
Definition f_corr_bad := Eval vm_compute in map fst (filter (fun c => negb (res_eqb (exchange_feedback_to_libp2p (fst c)) (Some (snd c)))) fcases).
Definition w_corr_bad := Eval vm_compute in bad wcorr wcases.
Definition d_corr_bad := Eval vm_compute in bad dcorr dcases.
Definition l_corr_bad := Eval vm_compute in bad lcorr lcases.
Definition gaps := Eval vm_compute in firstn 4 (gap_search extracted_prog 3 12).
Print f_corr_bad. Print w_corr_bad. Print d_corr_bad. Print l_corr_bad. Print gaps.
""" % (coq_list(f_terms), coq_list(w_corr), coq_list(d_corr), coq_list(l_corr))
        corr_ok, cout2 = c.coq_eval("c20_corr", corr_body)
        if corr_ok:
            for nm in ("f_corr_bad", "w_corr_bad", "d_corr_bad", "l_corr_bad"):
                corr_res[nm] = grab(cout2, nm) or []
            m = re.search(r"gaps\s*=\s*\[(.*?)\]\s*:\s*list", cout2, flags=re.S)
            if m:
                for g in re.findall(r"\((\d+)(?:%nat)?,\s*(\d+)(?:%nat)?,\s*(true|false),\s*(None|Some \w+)\)", m.group(1)):
                    gaps.append({"requests": int(g[0]), "steps": int(g[1]), "subscribed": g[2] == "true", "registered": g[3]})
        else:
            c.fail_obligation("correspondence-eval", cout2[-1500:])

    # ------------------------------------------------------------------ verdict
    found = False
    for f in mon_res["f_mon_bad"][:3]:
        r = dict(fobs).get(f)
        found = True
        c.report("feedback-f=%d" % f, "real exchangeFeedbackToLibp2p(%d) = %s: accept must mean FeedbackAccepted, out-of-range must be ignore" % (f, r),
                 {"observed": {"feedback": f, "pubsub_result": r}, "how": "bin/h_c20 feedback | grep '^F %d '" % f})
    for i in mon_res["w_mon_bad"][:3]:
        w = wrapper_cases[i]
        found = True
        d = decode(bytes.fromhex(w["payload"]))
        cls = "self" if w["self"] else ("undecodable" if d is None else ("novariant" if first_variant(d) is None else
              ("nilhandler" if w["handler"] is None else "verdict-%d" % w["handler"][first_variant(d)[0]])))
        c.report("wrapper-%s" % cls,
                 "real validator wrapper returned %s (handler calls %s) for a message that the handler did not accept" % (wobs[i][0], wobs[i][1]),
                 {"cases": {"wrapper": [w]}, "observed": {"result": wobs[i][0], "calls": wobs[i][1]},
                  "how": "echo '%s' | bin/h_c20 wrapper" % wl[i]})
    weak_bad = set(mon_res["d_weak_bad"])
    for key in sorted(weak_bad)[:3]:
        inf = d_mon_info[key]
        found = True
        c.report("daisy-relay-not-accepted-case%d" % inf["case"],
                 "DaisyChain relayed message %d past a node whose handler did not accept it" % inf["msg"],
                 {"cases": {"daisy": [daisy_cases[inf["case"]]]}, "observed": inf, "how": "echo '%s' | bin/h_c20 daisy" % dl[inf["case"]]})
    strict_only = [k for k in mon_res["d_strict_bad"] if k not in weak_bad]
    if strict_only:
        inf = d_mon_info[sorted(strict_only)[0]]
        c.report("daisychain-nil-handler-passthrough",
                 "DaisyChain passes a message through a node whose handler is nil (observed in %d messages; first: line of %d, "
                 "origin %d, statuses %s, seen by %s)" % (len(strict_only), daisy_cases[inf["case"]]["n"], inf["origin"], inf["status"], inf["seen"]),
                 {"cases": {"daisy": [daisy_cases[inf["case"]]]}, "observed": inf, "how": "echo '%s' | bin/h_c20 daisy" % dl[inf["case"]]})
    l_bad = [k for k in mon_res["l_mon_bad"] if k not in raw_keys or gaps]
    if len(l_bad) != len(mon_res["l_mon_bad"]):
        c.notes.append("replayed registry-staging script ignored: the sequence extracted from the current tree has no "
                       "no-validator window")
    for key in l_bad[:3]:
        inf = l_info[key]
        found = True
        c.report("libp2p-relay-not-accepted",
                 "live A-B-C line: B forwarded / C received a message that B's installed handler did not accept",
                 {"cases": {"live": [live_cases[inf["case"]]]}, "observed": inf,
                  "how": "echo '%s' | bin/h_c20 libp2p" % live_lines([live_cases[inf["case"]]])[0]})

    # a no-validator window in the extracted call sequence: replay it on the real pubsub registry
    gap_replayed = None
    if gaps and not c.replay:
        g = ([x for x in gaps if x["requests"] >= 1] or gaps)[0]
        ops = []
        if g["requests"] >= 1:
            ops.append(["S", [2] * 8])
        ops += [["U"], ["P", bytes([1, 1, 0, 0, 0, 5]).hex()]]
        rawcase = {"ops": ops}
        rc, out, err = harness("libp2p", live_lines([rawcase]))
        robs = parse_live(out)
        if robs and robs[0]:
            o = robs[0][0]
            gap_replayed = {"model_witness": g, "live_ops": live_lines([rawcase])[0], "observed": o}
            if o["event"] == "D" or o["c"] == 1:
                found = True
                c.report("swap-gap-no-validator-window",
                         "the call sequence extracted from connection.go passes through a state with the topic subscribed and NO "
                         "validator registered (after %d program steps with %d handler requests); in that registry state the real "
                         "pubsub relayed a message to C that B's handler rejects (handler calls at B: %d)" % (g["steps"], g["requests"], o["calls"]),
                         {"cases": {"live": [rawcase]}, "model_witness": g, "observed": o, "extracted_gaps": gaps,
                          "how": "echo '%s' | bin/h_c20 libp2p" % live_lines([rawcase])[0]})

    corr_total = sum(len(v) for v in corr_res.values())
    if corr_total and not found:
        detail = {k: v[:5] for k, v in corr_res.items() if v}
        ex = {}
        if corr_res.get("w_corr_bad"):
            i = corr_res["w_corr_bad"][0]
            ex = {"cases": {"wrapper": [wrapper_cases[i]]}, "observed": wobs[i]}
        elif corr_res.get("d_corr_bad"):
            i = corr_res["d_corr_bad"][0]
            ex = {"cases": {"daisy": [daisy_cases[i]]}, "observed": dobs[i]}
        elif corr_res.get("l_corr_bad"):
            i = corr_res["l_corr_bad"][0]
            ex = {"cases": {"live": [live_cases[i]]}, "observed": lobs[i]}
        ex["disagreements"] = detail
        c.fail_obligation("correspondence model vs real code", "model and implementation disagree: %s" % detail, ex)
    if (not proved) and not found and not c.replay:
        b = broken or getattr(c, "broken", {"file": "?", "log": ""})
        c.fail_obligation("Properties/C20.v (%s)" % b["file"], b["log"],
                          {"extracted_gaps": gaps, "gap_replay": gap_replayed,
                           "searched": {"feedback": len(fobs), "wrapper": len(wobs), "daisy": len(dobs), "live": len(lobs)}})

    # ------------------------------------------------------------------ evidence
    def wclass(w):
        d = decode(bytes.fromhex(w["payload"]))
        if w["self"]:
            return "self"
        if d is None:
            return "undecodable"
        nv = sum(1 for x in d if x is not None)
        if w["handler"] is None:
            return "nil-handler"
        return {0: "no-variant", 1: "one-variant"}.get(nv, "several-variants")
    dist = {}
    for w in wrapper_cases:
        dist[wclass(w)] = dist.get(wclass(w), 0) + 1
    n_dmsgs = sum(len(o) for o in dobs)
    n_lpubs = sum(len(o) for o in lobs)
    n_swaps_d = sum(1 for d in daisy_cases for op in d["ops"] if op[0] == "S")
    n_swaps_l = sum(1 for d in live_cases for op in d["ops"] if op[0] == "S")
    distinct = len(set((w["self"], w["payload"][:8], str(w["handler"])) for w in wrapper_cases if wclass(w) not in ("self",)))
    c.samples = [
        {"feedback": fobs[:6]},
        {"wrapper_case": wrapper_cases[300] if len(wrapper_cases) > 300 else None, "observed": wobs[300] if len(wobs) > 300 else None},
        {"daisy_case": dl[1] if len(dl) > 1 else None, "observed": dobs[1] if len(dobs) > 1 else None},
        {"live_case": live_lines(live_cases[:1]), "observed": lobs[:1]},
        {"extracted_gaps": gaps, "gap_replay": gap_replayed},
        {"theorem": "C20_relay_only_if_accepted: forall reqs evs, Forall relay_ok (run extracted_prog (rinit extracted_prog reqs) evs)"},
    ]
    c.coverage.update({
        "evaluations": len(fobs) + len(wobs) + n_dmsgs + n_lpubs,
        "distinct_nontrivial": distinct + n_dmsgs + n_lpubs,
        "rule": "feedback: all 256 uint8 values; wrapper: all 256 verdicts x kind + random (self / undecodable / no, one, several "
                "variants / nil handler / verdict values biased to the enum and out-of-range); daisy: lines of 3-5 nodes, random "
                "origins, kinds, per-message verdict tables and handler swaps (nil included) on inner nodes; live: real libp2p "
                "A-B-C, SetConsensusHandler swaps (nil included) between publications, same payload generator. "
                "non-trivial = message not from self (wrapper) / every DaisyChain message / every live publication",
        "traces_validated_against_impl": len(wobs) + len(dobs) + len(lobs) + 1,
        "wrapper_class_distribution": dist,
        "daisy": {"lines": len(dobs), "messages": n_dmsgs, "handler_swaps": n_swaps_d},
        "live_libp2p": {"scripts": len(lobs), "publications": n_lpubs, "handler_swaps": n_swaps_l},
        "correspondence_disagreements": corr_total,
        "monitor_failures_on_impl": {k: len(v) for k, v in mon_res.items()},
        "extracted_no_validator_windows": len(gaps),
        "correspondence_evaluated": bool(corr_ok),
    })
    c.finish()
