"""C13 sub-check: the commit-proof hand-over.  The REAL tsi.CommitProofFinalizer.Finalize followed by the receiver's
reconstruction + the real ValidateFinalizedProof (harness/c13cpf) against Model/CommitFinalizer.v (evaluated inside coqc)
and the monitor Monitors/C13Cpfm.v (the statement of Properties/C13Cpf.v evaluated on the implementation's observations)."""
import json
import os
import re
import sys

sys.path.insert(0, os.path.join(os.path.dirname(os.path.abspath(__file__)), "..", "lib"))
import vcheck  # noqa: E402

HEAD = """From Coq Require Import List NArith ZArith String Bool.
From GV Require Import Base.Ints Model.SimpleProofBase Model.SimpleProof Model.CommitFinalizer Model.SignBytes Monitors.C13m Monitors.C13Cpfm.
Import ListNotations. Local Open Scope N_scope.
Definition rsb (h r : N) (bh : list N) : list N := precommit_sign_bytes (Build_vote_target h r bh).
Definition G (h r k : N) (over : list N) : sigv := Good k (rsb h r over) 0.
Record tcase := T { t_h : N; t_r : N; t_keys : list N; t_committed : list N; t_p : commit_proof; t_obs : list N }.
Definition tbl_of (p : commit_proof) : list sigv := flat_map (fun e => map snd (snd e)) (cp_proofs p).
Definition cases : list tcase := [
%s
].
(* per case: (model obs = implementation obs, monitor on the implementation, monitor on the model), model obs *)
Definition eval1 (c : tcase) : (bool * (N * N)) * list N :=
  let sb := rsb (t_h c) (t_r c) in
  let m := cpf_case_obs sb (tbl_of (t_p c)) (t_keys c) (t_committed c) (t_p c) in
  ((bytes_eqb m (t_obs c),
    (cpf_mon sb (t_keys c) (t_committed c) (cp_round (t_p c)) (cp_proofs (t_p c)) (t_obs c),
     cpf_mon sb (t_keys c) (t_committed c) (cp_round (t_p c)) (cp_proofs (t_p c)) m)), m).
Fixpoint number {A} (i : N) (l : list A) : list (N * A) := match l with [] => [] | x :: t => (i, x) :: number (i + 1) t end.
Definition evald := Eval vm_compute in number 0 (map eval1 cases).
Definition results := Eval vm_compute in map (fun e => (fst e, fst (snd e))) evald.
Definition details := Eval vm_compute in
  map (fun e => (fst e, snd (snd e)))
      (filter (fun e => negb (fst (fst (snd e))) || negb (N.eqb (snd (snd (fst (snd e)))) 0)) evald).
Definition hyp_count := Eval vm_compute in
  List.length (filter (fun c => cpf_hyp (rsb (t_h c) (t_r c)) (t_keys c) (t_committed c) (cp_proofs (t_p c))) cases).
Print results.
Print details.
Print hyp_count.
"""


def cl(xs):
    return "[" + "; ".join(str(x) for x in xs) + "]"


def coq_sig(cs, s):
    if s["junk"]:
        return "Junk %d" % s["junk"]
    return "G %d %d %d %s" % (cs["h"], cs["round"], s["k"], cl(s["over"]))


def coq_case(cs, obs):
    ents = "; ".join("(%s, [%s])" % (cl(e["bh"]), "; ".join("(%s, %s)" % (cl(s["id"]), coq_sig(cs, s)) for s in e["sigs"]))
                     for e in cs["proofs"])
    return "T %d %d %s %s (mk_cp %d %s [%s]) %s" % (
        cs["h"], cs["round"], cl(range(cs["nkeys"])), cl(cs["committed"]), cs["round"], cl(cs["pkh"]), ents, cl(obs))


class Gen:
    def __init__(self, rng):
        self.r = rng
        self.junk = 0

    def rbytes(self, lo, hi):
        return [self.r.below(256) for _ in range(lo + self.r.below(hi - lo + 1))]

    def good(self, i, bh):
        return {"id": [i >> 8, i & 255], "k": i, "over": bh, "junk": 0}

    def case(self):
        r = self.r
        kind = "wellformed" if r.chance(6, 10) else "defective"
        nkeys = r.choice([1, 2, 3, 4, 4, 5, 7, 8, 9, 12, 16, 17, 33, 40])
        if kind == "defective" and r.chance(1, 25):
            nkeys = 0
        nb = r.choice([1, 1, 2, 2, 2, 3, 3, 4, 5])
        hashes = []
        while len(hashes) < nb:
            b = self.rbytes(1, 4) if not r.chance(1, 6) else self.rbytes(32, 32)
            if b not in hashes:
                hashes.append(b)
        if hashes and r.chance(1, 8):  # a hash that is a prefix of another one (ordering, injectivity of the sign bytes)
            ext = hashes[0] + [r.below(256)]
            if ext not in hashes:
                hashes.append(ext)
        committed = r.choice(hashes)
        double = r.chance(1, 4)   # validators that precommitted two blocks (valid signatures, flag must become false)
        taken = set()
        proofs = []
        defects = []
        for bh in hashes:
            sigs = []
            cand = list(range(nkeys))
            want = 1 + r.below(max(1, min(nkeys, 6)))
            picked = []
            for _ in range(want):
                if not cand:
                    break
                i = cand.pop(r.below(len(cand)))
                if i in taken and not double:
                    continue
                picked.append(i)
            if not picked and nkeys > 0:
                free = [i for i in range(nkeys) if i not in taken] or list(range(nkeys))
                picked = [r.choice(free)]
            for i in picked:
                taken.add(i)
                sigs.append(self.good(i, bh))
            if r.chance(1, 6) and sigs:  # the same signature twice
                sigs.append(dict(r.choice(sigs)))
            proofs.append({"bh": bh, "sigs": sigs})
        if kind == "defective" and nkeys > 0:
            for _ in range(1 + r.below(2)):
                e = r.choice(proofs)
                d = r.below(9)
                other = r.choice(hashes)
                i = r.below(nkeys)
                self.junk += 1
                if d == 0:
                    e["sigs"] = []
                    defects.append("empty-entry")
                elif d == 1:
                    e["sigs"].append({"id": [i >> 8, i & 255], "k": i, "over": e["bh"] + [1], "junk": 0})
                    defects.append("signature-over-another-hash")
                elif d == 2:
                    e["sigs"].append({"id": [i >> 8, i & 255], "k": i, "over": [], "junk": self.junk})
                    defects.append("junk-signature")
                elif d == 3:
                    j = nkeys + r.below(3)
                    e["sigs"].append({"id": [j >> 8, j & 255], "k": i, "over": e["bh"], "junk": 0})
                    defects.append("id-out-of-range")
                elif d == 4:
                    e["sigs"].append({"id": [i & 255], "k": i, "over": e["bh"], "junk": 0})
                    defects.append("one-byte-id")
                elif d == 5:
                    e["sigs"].append({"id": [0, i >> 8, i & 255], "k": i, "over": e["bh"], "junk": 0})
                    defects.append("three-byte-id")
                elif d == 6:
                    j = (i + 1) % nkeys
                    e["sigs"].append({"id": [j >> 8, j & 255], "k": i, "over": e["bh"], "junk": 0})
                    defects.append("id-names-another-key" if j != i else "duplicate-good")
                elif d == 7:
                    e["sigs"] = [{"id": [i >> 8, i & 255], "k": i, "over": other, "junk": 0}]
                    defects.append("only-a-signature-for-another-block" if other != e["bh"] else "single-good")
                else:
                    committed = self.rbytes(5, 6)
                    defects.append("committed-hash-absent")
        # Go iterates the map in random order; the case lists the entries in a shuffled order
        for i in range(len(proofs) - 1, 0, -1):
            j = r.below(i + 1)
            proofs[i], proofs[j] = proofs[j], proofs[i]
        return {"h": 1 + r.below(1 << 20), "round": r.below(5), "nkeys": nkeys, "committed": committed, "pkh": self.rbytes(1, 3),
                "proofs": proofs, "_kind": kind, "_defects": defects, "_double": double}


def strip(cs):
    return {k: v for k, v in cs.items() if not k.startswith("_")}


def parse_obs(line):
    t = line.split()
    if not t:
        return None
    if t[0] == "P":
        return [999]
    if t[0] == "E":
        return [900 + min(int(t[1]), 3)]
    if t[0] == "O":
        v = t.index("V")
        return [0] + [int(x) for x in t[1:v]] + [777] + [65535 if x == "-1" else int(x) for x in t[v + 1:]]
    return None


MON_CLAUSE = {1: "Finalize panicked on a non-empty key list",
              2: "well-formed precommit proofs were rejected by Finalize",
              3: "the finalized proof carries another round",
              4: "the finalized proof has another number of blocks",
              5: "the receiver's ValidateFinalizedProof does not return exactly the signer sets the proofs held "
                 "(or the wrong double-signer flag)"}


def run_cpf(c, proved):
    ok, mlog = c.coq_make(["Model/CommitFinalizer.vo", "Monitors/C13Cpfm.vo", "Model/SignBytes.vo"])
    if not ok:
        c.fail_obligation("build Model/CommitFinalizer.vo Monitors/C13Cpfm.vo", mlog[-1500:])
        return {}
    binary, blog = c.go_build("c13cpf")
    if binary is None:
        c.fail_obligation("harness-build-cpf", blog[-1500:])
        return {}
    g = Gen(vcheck.SplitMix64(c.seed ^ 0xC13C9F))
    rp = json.load(open(c.replay)) if c.replay else {}
    if "cpf_case" in rp:
        cases = [rp["cpf_case"]]
    else:
        cases = [g.case() for _ in range(240 if c.tier == "quick" else 4000)]
    rc, out, err = c.run_bin(binary, stdin="\n".join(json.dumps(strip(cs)) for cs in cases) + "\n")
    lines = [ln for ln in out.split("\n") if ln.strip()]
    obs = [parse_obs(ln) for ln in lines]
    if rc != 0 or len(obs) != len(cases) or any(o is None for o in obs):
        bad = next((i for i, o in enumerate(obs) if o is None), len(obs))
        c.fail_obligation("harness-run-cpf", "harness rc=%d answered %d of %d cases; first bad line %d: %r; stderr: %s"
                          % (rc, len(obs), len(cases), bad, lines[bad][:200] if bad < len(lines) else None, err[-600:]),
                          {"cpf_case": strip(cases[min(bad, len(cases) - 1)])})
        return {}
    results, details, hyp = {}, {}, 0
    shard = 120
    res_re = re.compile(r"\((\d+)(?:%N)?,\s*\((true|false),\s*\((\d+)(?:%N)?,\s*(\d+)(?:%N)?\)\)\)")
    for si in range(0, len(cases), shard):
        part = list(zip(cases[si:si + shard], obs[si:si + shard]))
        ok, cout = c.coq_eval("c13_cpf_cases_%d" % (si // shard), HEAD % ";\n".join(coq_case(cs, ob) for cs, ob in part))
        if not ok:
            c.fail_obligation("cases-eval-cpf", cout[-2000:])
            return {}
        m1 = re.search(r"results\s*=\s*(.*?)\n\s*:\s*list", cout, flags=re.S)
        m2 = re.search(r"details\s*=\s*(.*?)\n\s*:\s*list", cout, flags=re.S)
        m3 = re.search(r"hyp_count\s*=\s*(\d+)", cout)
        got = res_re.findall(m1.group(1)) if m1 else []
        if not m1 or not m2 or not m3 or len(got) != len(part):
            c.fail_obligation("cases-eval-cpf-parse", "parsed %d of %d results\n%s" % (len(got), len(part), cout[-1500:]))
            return {}
        hyp += int(m3.group(1))
        for i, eq, mi, mm in got:
            results[si + int(i)] = (eq == "true", int(mi), int(mm))
        for i, body in re.findall(r"\((\d+)(?:%N)?,\s*\[([^\]]*)\]\)", m2.group(1)):
            details[si + int(i)] = [int(x) for x in re.findall(r"\d+", body)]

    def replay_obj(ci):
        cs = cases[ci]
        return {"cpf_case": strip(cs), "kind": cs.get("_kind"), "defects": cs.get("_defects"), "observed": obs[ci],
                "model": details.get(ci, "same as observed"), "coq_case": coq_case(cs, obs[ci]),
                "how": "echo '%s' | bin/h_c13cpf   (or ./check C13 --replay <this file>)" % json.dumps(strip(cs), separators=(",", ":"))}

    mon_bad = [ci for ci in sorted(results) if results[ci][1] != 0]
    corr_bad = [ci for ci in sorted(results) if not results[ci][0]]
    model_mon_bad = [ci for ci in sorted(results) if results[ci][2] != 0]
    seen = set()
    for ci in mon_bad:
        key = "cpf-clause-%d" % results[ci][1]
        if key in seen:
            continue
        seen.add(key)
        c.report(key, "commit-proof hand-over: " + MON_CLAUSE.get(results[ci][1], "?") + " (real tsi.CommitProofFinalizer / "
                 "ValidateFinalizedProof; observation %s)" % obs[ci], replay_obj(ci))
    if corr_bad and not mon_bad:
        ci = corr_bad[0]
        c.fail_obligation("correspondence Model/CommitFinalizer.v vs tsi/commitprooffinalizer.go + ValidateFinalizedProof",
                          "model and implementation differ on %d of %d cases; first: case %d: model %s, implementation %s"
                          % (len(corr_bad), len(cases), ci, details.get(ci), obs[ci]), replay_obj(ci))
    if model_mon_bad and not mon_bad:
        ci = model_mon_bad[0]
        c.fail_obligation("cpf model_satisfies_monitor (sampled)", "the model's own run is rejected by the monitor: case %d clause %d"
                          % (ci, results[ci][2]), replay_obj(ci))
    if not proved and not mon_bad:
        b = getattr(c, "broken", {"file": "?", "log": ""})
        c.fail_obligation("Properties/C13Cpf.v (%s)" % b["file"], b["log"], {"searched_cases": len(cases)})

    outcomes, defects, blocks = {}, {}, {}
    for cs, ob in zip(cases, obs):
        k = {999: "panic", 901: "error-main-no-signatures", 902: "error-main-invalid", 903: "error-other-block"}.get(ob[0], "finalized")
        outcomes[k] = outcomes.get(k, 0) + 1
        for d in cs.get("_defects", []):
            defects[d] = defects.get(d, 0) + 1
        blocks[len(cs["proofs"])] = blocks.get(len(cs["proofs"]), 0) + 1
    c.samples.append({"cpf_case": strip(cases[0]), "observation": obs[0]})
    return {"cpf_cases": len(cases), "cpf_cases_meeting_the_theorem_hypotheses": hyp, "cpf_outcomes": outcomes,
            "cpf_defect_kinds": defects, "cpf_blocks_per_proof": {str(k): v for k, v in sorted(blocks.items())},
            "cpf_double_signer_cases": sum(1 for cs in cases if cs.get("_double")),
            "cpf_uniqueness_flag_false": sum(1 for ob in obs if ob[0] == 0 and ob[ob.index(777) + 1] == 0),
            "cpf_correspondence_disagreements": len(corr_bad), "cpf_monitor_failures_on_impl": len(mon_bad),
            "cpf_rule": "every case: the real Finalize + receiver observation is compared with Model/CommitFinalizer.v (vm_compute in coqc) "
                        "and judged by Monitors/C13Cpfm.cpf_mon; error 3/4 (another block rejected) are one class because Go's map order decides which is met first"}
