"""C07 - The validator set used at each height is the one the chain committed (DESIGN 4, mirror part)."""
import vcheck
import mirrorlib

META = {
    "engine": "coq+correspondence",
    "technique": "Coq invariant proof (voting validator set = genesis or committed header's next set, lists match hashes) over all "
                 "histories of the mirror-kernel model + differential correspondence with forged-list proposals on the real mirror; "
                 "state-machine half: correspondence of the real state machine with Model/StateMachine.v + Coq monitors on its observations",
    "level": "P/partial. Proved for all histories of the sequential mirror model (incl. replayed headers): the voting and next-round "
             "validator set is the genesis set before the first commit and otherwise exactly the committing header's next set, whose "
             "lists match the hashes covered by the block hash; only hash-consistent proposals are held; every held proposal and every "
             "committed header NAMES, as its own validator set, the set the chain prescribes for its height (chain_vals) - after the repo "
             "fix that compares the field, found while proving kernel totality. Monitored on the real mirror on every run (consistency "
             "flags computed with the real hash scheme; own set of each committed header = next set of the header below). Partial: the "
             "state-machine half (set used at h+2 = driver's finalization of h) is MONITORED, not proved: the real tmstate.StateMachine is "
             "driven through walked and scripted histories with changing sets (incl. a restart in commit wait and headers whose sets "
             "have the right keys and other powers) and judged by the Coq monitors c07_sm_valset / c07_sm_considered_match, next to the "
             "step-by-step correspondence with Model/StateMachine.v; restart: proved in "
             "C10, and the generated histories here include crashes and restarts after validator-set changes, replays two rounds ahead "
             "and replays that leave the set unchanged with a forged next list (template 12).",
    "note": "Trusted: Coq kernel; vs_ok / hd_ok flags stand for hash equality (no collisions among generated inputs); "
            "correspondence harness. No axioms.",
    "design_ref": "DESIGN.md 4 (C01/C04/C05/C07)",
}


def main(argv):
    c = vcheck.Check("C07", argv)
    mirrorlib.mirror_check(c, "C07", ["c07", "c06"], "C07 validator sets", extra=["-crashes"], templates=[8, 12])  # c06: the available power every view counts against is that of its own set
    # the state-machine half of C07: the set the state machine uses at height h is what the driver returned when finalizing h-2,
    # also across restarts on the same stores (model walk with changing sets + the scripted histories of Model/SMScenarios.v);
    # monitor Monitors/SMm.c07_sm_valset on the real tmstate.StateMachine's observations
    import sm_common as S
    tok, binary = S.prepare(c)
    if binary is not None:
        clauses = ["c07_sm_valset", "c07_sm_considered_match"]

        def classify(name, evs, fl):
            # the known defect of the catch-up branch (C08's finding, witness w8): after a round entrance answered with a committed
            # header the validator-set bookkeeping stays empty - the model predicts the monitor's failure on such a history
            if S.catchup_valsets_empty(name, evs, fl):
                return "catchup-leaves-validator-sets-empty"
            return name
        n, steps = (24, 40) if c.tier == "quick" else (300, 60)
        cov_mirror = dict(c.coverage)
        S.walked(c, "C07", binary, "c07sm", n, steps, clauses, classify)
        S.run_scenarios(c, binary, "c07sm", clauses, classify)
        sm_cov = {k: c.coverage[k] for k in ("evaluations", "traces", "event_distribution", "scripted_histories") if k in c.coverage}
        c.coverage.update(cov_mirror)
        c.coverage["state_machine_validator_sets"] = sm_cov
    c.finish()
