"""C14 - Wire codec round-trips every message and never panics on bytes (DESIGN 4, C14)."""
import base64
import concurrent.futures
import json
import os
import re
import subprocess
import vcheck

META = {
    "engine": "coq+correspondence",
    "technique": "Coq proofs over an executable Gallina model of tmjson's intermediate structs and conversions (both "
                 "directions) and of gcrypto.Registry (Unmarshal regenerated from registry.go by a structure extractor on "
                 "every run); differential correspondence: generated values and a hostile JSON stream run through the real "
                 "tmjson.MarshalCodec and through the model (vm_compute inside coqc); Coq monitors on the real outcomes",
    "level": "Partial in one named respect (encoding/json is trusted). Full-strength theorems, for every registry and every "
             "well-formed value: decode(encode v) returns a value equivalent to v in every consensus-relevant field (relation "
             "written out: identifies nil/empty Validators, derived PubKeys, nil/empty/reordered Proofs maps; everything else "
             "identical) for headers, proposed headers, committed headers, prevote/precommit sparse proofs; consensus-message "
             "variant preserved; the conversion from ANY intermediate-struct value returns a value or an error, never a panic "
             "(after fix 'Registry.Unmarshal length check'). encoding/json (bytes <-> intermediate structs) is not modelled: "
             "it is validated on every run (json identity on intermediate structs per round-trip case; every hostile document "
             "is parsed by the real encoding/json into the real intermediate struct, which is what the model then consumes).",
    "note": "Trusted: Coq kernel; encoding/json, encoding/base64, reflect (type identity of registered keys); the structure "
            "extractor for Registry.Unmarshal (cross-checked by the differential run); harness + Coq-term printers. "
            "Go slice capacity is not modelled (b[:8] is judged against len); with the length guard in place no slice "
            "expression of the anchored code can exceed len, so the two coincide. No axioms.",
    "design_ref": "DESIGN.md 4 (C14), design/C14.md",
}

KINDS = ["H", "PH", "CH", "PV", "PC", "CM"]
KIND_NAME = {"H": "Header", "PH": "ProposedHeader", "CH": "CommittedHeader", "PV": "PrevoteProof",
             "PC": "PrecommitProof", "CM": "ConsensusMessage"}
RT_FN = {"H": "chk_rt_header R", "PH": "chk_rt_proposed R", "CH": "chk_rt_committed R", "PV": "chk_rt_sparse",
         "PC": "chk_rt_sparse", "CM": "chk_rt_cmsg R"}
DEC_FN = {"H": "chk_dec_header R", "PH": "chk_dec_proposed R", "CH": "chk_dec_committed R", "PV": "chk_dec_sparse",
          "PC": "chk_dec_sparse", "CM": "chk_dec_cmsg R"}

CASES_HEAD = """From Coq Require Import List NArith String.
From GV Require Import Base.Ints Model.CodecTypes Model.Codec Model.CodecCheck.
Import ListNotations. Local Open Scope string_scope. Local Open Scope list_scope. Local Open Scope N_scope.
Definition R := harness_registry.
Set Printing Depth 1000000.
Definition codes : list (N * N) := Eval vm_compute in [
%s].
Print codes.
"""


def obs_class(term):
    if term.startswith("(Panic"):
        return "panic"
    if term == "(Ok None)":
        return "error"
    return "value"


def parse_harness(out):
    cases = []
    for line in out.splitlines():
        f = line.split("\t")
        if f[0] == "RT" and len(f) >= 8:
            cases.append({"t": "RT", "kind": f[1], "id": int(f[2]), "value": f[3], "hook": f[4], "obs": f[5],
                          "ident": f[6], "doc": f[7], "cls": "roundtrip"})
        elif f[0] == "DEC" and len(f) >= 7:
            cases.append({"t": "DEC", "kind": f[1], "id": int(f[2]), "struct": f[3], "obs": f[4], "cls": f[5], "doc": f[6]})
    return cases


def coq_item(c):
    if c["t"] == "RT":
        if c["kind"] == "CM":
            return "(%d, %s %s %s)" % (c["id"], RT_FN["CM"], c["value"], c["obs"])
        return "(%d, %s %s %s %s)" % (c["id"], RT_FN[c["kind"]], c["value"], c["hook"], c["obs"])
    if c["struct"] == "JSONERR":
        return None
    return "(%d, %s %s %s)" % (c["id"], DEC_FN[c["kind"]], c["struct"], c["obs"])


def doc_text(c):
    try:
        return base64.b64decode(c["doc"]).decode("utf-8", "replace")
    except Exception:
        return ""


def replay_of(c, extra=None):
    d = {"case": {k: (v if len(str(v)) < 6000 else str(v)[:6000] + "...") for k, v in c.items() if k != "doc"},
         "method": ("Marshal%s then Unmarshal%s" if c["t"] == "RT" else "Unmarshal%s%.0s") % (KIND_NAME[c["kind"]], KIND_NAME[c["kind"]]),
         "json_document": doc_text(c)[:20000], "json_document_b64": c["doc"] if len(c["doc"]) < 40000 else c["doc"][:40000],
         "kind": c["kind"],
         "how": "write json_document to a file F; bin/h_c14 -doc F -kind %s  (prints the real Unmarshal%s outcome; "
                "for round-trip cases the document is the real encoder's output for case.value)" % (c["kind"], KIND_NAME[c["kind"]])}
    d.update(extra or {})
    return d


def main(argv):
    c = vcheck.Check("C14", argv)
    c.trusted += [
        "encoding/json + encoding/base64 (bytes <-> intermediate structs): not modelled; validated per run (identity on "
        "intermediate structs for every round-trip case; hostile documents are parsed by the real encoding/json)",
        "structure extractor translate/c14.go (Registry.Unmarshal -> Gen/Registry.v), cross-checked by the differential run",
        "Go harness harness/c14 (generators, Coq-term printers) and the Cases evaluation inside coqc (vm_compute)",
        "reflect type identity of registered public key types (modelled as a type id)",
    ]
    c.assumes += [
        "registered NewPubKeyFunc constructors do not panic and return a key of the registered type holding exactly the "
        "given bytes (true of gcrypto.NewEd25519PubKey; BLS keys are outside this model)",
        "slice capacity is not modelled: b[:k] is judged against len(b) (exact once Registry.Unmarshal checks len(b) first)",
        "slices.SortFunc is modelled as an insertion sort; map keys are unique so stability is irrelevant",
    ]
    c.grep_gate()

    # 1. regenerate the generated part of the model, 2. re-check the theorems
    tok, tlog = c.translate(only=["Gen/Registry.v"])
    proved = False
    if not tok:
        c.obligations.append("translate Gen/Registry.v")
        c.broken = {"file": "translate (gcrypto/registry.go Registry.Unmarshal left the extractor's vocabulary)", "log": tlog[-800:]}
    else:
        proved = c.prove("C14")
    okm, mlog = c.coq_make(["Model/CodecCheck.vo"])

    # 3. the real code
    binary, blog = c.go_build("c14")
    if binary is None:
        c.fail_obligation("harness-build", blog[-1500:])
        c.finish()
    if c.replay:
        rp = json.load(open(c.replay))
        tmp = os.path.join(vcheck.VERIF, "replays", "_c14_replay_doc.json")
        with open(tmp, "wb") as f:
            f.write(base64.b64decode(rp.get("json_document_b64", "")) if rp.get("json_document_b64") else rp.get("json_document", "").encode())
        args = ["-doc", tmp] + (["-kind", rp["kind"]] if rp.get("kind") and rp.get("case", {}).get("t") != "RT" else [])
    else:
        nrt, ndoc = (32, 96) if c.tier == "quick" else (300, 1200)
        args = ["-seed", str(c.rng.next()), "-nrt", str(nrt), "-ndoc", str(ndoc)]
    # run under an address-space limit: huge counts / deep nesting must not take the process down
    cmd = "ulimit -v 8000000; exec %s %s" % (binary, " ".join(args))
    p = subprocess.run(["bash", "-c", cmd], stdout=subprocess.PIPE, stderr=subprocess.PIPE, text=True, timeout=1500, env=vcheck.goenv())
    cases = parse_harness(p.stdout)
    if p.returncode != 0 or not cases:
        c.fail_obligation("harness-run", "harness exit %d, %d cases: %s" % (p.returncode, len(cases), p.stderr[-800:]))
        c.finish()
    byid = {x["id"]: x for x in cases}

    # 4. model + monitors on the same cases inside coqc
    codes = {}
    eval_failed = None
    if okm:
        items = [(x["id"], coq_item(x)) for x in cases]
        items = [(i, t) for i, t in items if t is not None]
        shards, cur, size = [], [], 0
        for i, t in items:
            cur.append(t)
            size += len(t)
            if size > 120000 or len(cur) >= 250:
                shards.append(cur)
                cur, size = [], 0
        if cur:
            shards.append(cur)

        def run_shard(k):
            return c.coq_eval("c14_cases_%d" % k, CASES_HEAD % ";\n".join(shards[k]))
        with concurrent.futures.ThreadPoolExecutor(max_workers=8) as ex:
            for ok, cout in ex.map(run_shard, range(len(shards))):
                if not ok:
                    eval_failed = cout[-1500:]
                    continue
                for a, b in re.findall(r"\(\s*(\d+),\s*(\d+)\s*\)", cout):
                    codes[int(a)] = int(b)
    else:
        eval_failed = mlog[-1500:]

    # 5. verdict
    mon_fail, corr_fail, enc_fail, ident_fail, model_mon_fail, jsonerr_bad = [], [], [], [], [], []
    for x in cases:
        cls = obs_class(x["obs"])
        code = codes.get(x["id"])
        if x["t"] == "DEC":
            if cls == "panic":           # the no-panic monitor needs nothing but the outcome class
                mon_fail.append(x)
                continue
            if x["struct"] == "JSONERR":
                if cls != "error":
                    jsonerr_bad.append(x)
                continue
        if code is None:
            continue
        if not code & 4:
            mon_fail.append(x)
        elif not code & 1:
            corr_fail.append(x)
        elif not code & 2:
            enc_fail.append(x)
        if not code & 16:
            model_mon_fail.append(x)
        if x["t"] == "RT" and x["ident"] != "1":
            ident_fail.append(x)

    seen = set()
    for x in mon_fail:
        if x["t"] == "RT":
            key = "roundtrip-%s" % KIND_NAME[x["kind"]]
            what = ("real Marshal%s/Unmarshal%s of a well-formed value returned %s not equivalent to the original" %
                    (KIND_NAME[x["kind"]], KIND_NAME[x["kind"]], obs_class(x["obs"])))
        else:
            key = "decode-panic-%s" % KIND_NAME[x["kind"]]
            what = "real Unmarshal%s panicked on a JSON document (class %s)" % (KIND_NAME[x["kind"]], x["cls"])
        if key in seen:
            continue
        seen.add(key)
        # prefer the smallest failing document of this key as the replay
        same = [y for y in mon_fail if y["t"] == x["t"] and y["kind"] == x["kind"]]
        best = min(same, key=lambda y: len(y["doc"]))
        c.report(key, what, replay_of(best, {"failing_cases_of_this_key": len(same)}))
    found = bool(mon_fail)
    if corr_fail and not found:
        x = min(corr_fail, key=lambda y: len(y["doc"]))
        c.fail_obligation("correspondence Model/Codec.v vs tm/tmcodec/tmjson (decode/round-trip outcome)",
                          "model and real codec disagree on %d cases; monitors hold on the real outcomes" % len(corr_fail),
                          replay_of(x, {"model_vs_impl": "outcome differs", "code": codes.get(x["id"])}))
    if enc_fail and not found:
        x = min(enc_fail, key=lambda y: len(y["doc"]))
        c.fail_obligation("correspondence Model/Codec.v vs tm/tmcodec/tmjson (toJSON* intermediate struct)",
                          "model and real toJSON* differ on %d cases" % len(enc_fail), replay_of(x))
    if ident_fail and not found:
        x = ident_fail[0]
        c.fail_obligation("encoding/json identity on intermediate structs", "json.Unmarshal(json.Marshal(s)) != s on %d cases" % len(ident_fail), replay_of(x))
    if jsonerr_bad and not found:
        x = jsonerr_bad[0]
        c.fail_obligation("json-error passthrough", "json.Unmarshal into the intermediate struct fails but Unmarshal%s returned a value" % KIND_NAME[x["kind"]], replay_of(x))
    if eval_failed and not found:
        c.fail_obligation("cases-eval", eval_failed)
    if (not proved or model_mon_fail) and not found:
        b = getattr(c, "broken", {"file": "?", "log": ""})
        extra = {"searched_cases": len(cases)}
        if model_mon_fail:
            extra["model_counterexample"] = replay_of(model_mon_fail[0])["case"]
        c.fail_obligation("Properties/C14.v (%s)" % b["file"], b["log"], extra)

    # evidence
    rt = [x for x in cases if x["t"] == "RT"]
    dec = [x for x in cases if x["t"] == "DEC"]
    dist = {}
    for x in dec:
        for part in x["cls"].split("+"):
            dist[part] = dist.get(part, 0) + 1
    outcome = {"value": 0, "error": 0, "panic": 0}
    for x in dec:
        outcome[obs_class(x["obs"])] += 1
    wf_rt = sum(1 for x in rt if codes.get(x["id"], 0) & 8)
    dec_val = sum(1 for x in dec if codes.get(x["id"], 0) & 8)
    distinct = len(set((x["kind"], x.get("value") or x.get("struct")) for x in cases
                       if (x["t"] == "RT" and codes.get(x["id"], 0) & 8) or (x["t"] == "DEC" and x["struct"] not in ("JSONERR",))))
    c.samples = [{"kind": x["kind"], "type": x["t"], "class": x["cls"], "outcome": obs_class(x["obs"]),
                  "document": doc_text(x)[:300]} for x in (rt[:3] + dec[40 * 6:40 * 6 + 4] + dec[-3:])]
    c.coverage.update({
        "evaluations": len(cases),
        "model_evaluations_in_coq": len(codes),
        "distinct_nontrivial": distinct,
        "rule": "round-trip: generated Header/ProposedHeader/CommittedHeader/Prevote/Precommit/ConsensusMessage values (nil vs empty "
                "slices and maps, 0..5 validators of two registered key types and odd key lengths, 0..4 proof entries incl. the nil "
                "block and prefix-related keys, annotations, max uint64/uint32; every 5th case leaves the well-formedness hypothesis: "
                "nil/unregistered/refused keys, PubKeys not matching Validators, zero or several message variants); hostile stream: "
                "hand-written documents plus 1-3 random edits of valid documents (absent field, null, short/empty bytes, wrong type, "
                "duplicated entries, altered key prefix, boundary numbers, field-name case, unknown field, bad base64, huge counts, "
                "truncation), EACH document fed to ALL SIX Unmarshal methods under recover and ulimit -v. "
                "non-trivial = well-formed round-trip value, or hostile document that encoding/json accepted into the struct",
        "traces_validated_against_impl": len(codes),
        "roundtrip_cases": len(rt), "roundtrip_wellformed": wf_rt,
        "decode_cases": len(dec), "decode_model_value": dec_val,
        "decode_outcomes_impl": outcome, "hostile_edit_distribution": dict(sorted(dist.items())),
        "json_rejected_documents": sum(1 for x in dec if x["struct"] == "JSONERR"),
        "correspondence_disagreements": len(corr_fail) + len(enc_fail),
        "monitor_failures_on_impl": len(mon_fail),
        "generated_source": "Gen/Registry.v from gcrypto/registry.go (Registry.Unmarshal, prefixSize)",
    })
    c.finish()
