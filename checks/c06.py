"""C06 - Vote power accounting counts every validator exactly once (DESIGN 4, C06)."""
import json
import re
import vcheck

META = {
    "engine": "coq+correspondence",
    "technique": "Coq proofs over an executable Gallina model of VoteSummary.Set*Powers / newVoteDistribution and the kernel's "
                 "threshold comparisons, plus GetStepFromVoteSummary regenerated from tsi/step.go by the translator on every run; "
                 "differential correspondence: generated vote multisets are turned into real signature-proof maps (real ed25519 "
                 "signatures), run through the real Go methods and through the model evaluated with vm_compute inside coqc; a "
                 "Coq monitor recomputes the summary from the bitsets on the implementation's observations; single-message "
                 "scenarios (compared with the model) and multi-message sub-minority histories (monitors after every message) "
                 "on the real Mirror observe the voting round and the voting view's summary",
    "level": "Full for the summary functions: for all validator power lists with sum < 2^64 and all maps target->signer bitset "
             "(any number of targets per validator, any iteration order): block power = power of the distinct signers, "
             "available = sum, total = power of the UNION of the signer sets, most voted = least hash among the targets of "
             "maximal power, all invariant under permutation of the entries; signers of distinct power below ByzantineMinority "
             "cannot reach any threshold the mirror kernel or the state machine's step function compares against "
             "(no round skip, no delay step, not fully voted). At mirror level: for EVERY history of the mirror-kernel model the voting "
             "and next-round views' available power is the sum of the view's own validator powers and the precommit block powers are the "
             "recomputation from the view's proofs (Properties/C06Mirror.v); the summary of both views of the REAL mirror is recomputed by "
             "a Coq monitor after every message of generated histories in which the validator set and its total power change at every "
             "height; and for EVERY history (Properties/C06Power.v): all seven summary fields of both views are the recomputation, the "
             "totals over the DISTINCT signers; a vote message changes the round only with a stated cause (nil majority / all precommits "
             "in / next-round minority; to the next or next-but-one round), and validators whose distinct power is below ByzantineMinority "
             "cannot move the mirror at all (C06_minority_cannot_move_the_mirror; guard: sum of powers < 2^64, shown necessary); a rejected "
             "replayed header leaves the state unchanged and an accepted one carries a majority certificate (after the repo fix found by "
             "this proof).",
    "note": "Trusted: Coq kernel; the translator for tsi/step.go (cross-checked by the correspondence run); the hand-written model of "
            "votesummary.go/votedistribution.go/kernel.go comparisons (tied by differential execution on every run); "
            "bits-and-blooms/bitset and ed25519. The repo carries a fix: commit (totals from the union bitset); on the "
            "unfixed code the check reports the double count with a concrete vote multiset.",
    "design_ref": "DESIGN.md 4 (C06), design/C06.md",
}

MAXK = 24
STEP_NAMES = {0: "Invalid", 1: "AwaitingProposal", 2: "AwaitingPrevotes", 3: "PrevoteDelay", 4: "AwaitingPrecommits",
              5: "PrecommitDelay", 6: "CommitWait", 7: "AwaitingFinalization"}


# ----------------------------------------------------------------------------- generation
HASH_POOL = ["00", "0000", "01", "0100", "7f", "80", "aa", "aa00", "aabb", "ab", "ff", "ffff", "00ff", "ff00",
             "a1" * 32, "a2" * 32, "00" * 32, "a1" * 31 + "a0"]


def gen_powers(rng, n):
    mode = rng.below(100)
    if mode < 25:
        p = rng.choice([1, 1, 10, 1000])
        return [p] * n, "equal"
    if mode < 45:
        return [rng.below(6) for _ in range(n)], "small-with-zeros"
    if mode < 70:
        return [1 + rng.below(100) for _ in range(n)], "medium"
    if mode < 85:
        return [rng.below(2 ** 40) for _ in range(n)], "large"
    if mode < 96:
        # close to the 2^64 boundary but below it
        top = (2 ** 64 - 1) // max(n, 1)
        return [top - rng.below(1000) for _ in range(n)], "near-2^64"
    # sum wraps: outside the property's guard, compared with the model only
    return [2 ** 63 + rng.below(2 ** 62) for _ in range(max(n, 2))][:max(n, 2)], "overflow"


def gen_kind(rng, n, k, powers, style):
    """Return list of (hexhash or '-', mask)."""
    ntargets = 1 + rng.below(5)
    pool = list(HASH_POOL)
    targets = []
    if rng.chance(1, 2):
        targets.append("-")
    while len(targets) < ntargets:
        h = rng.choice(pool)
        if h not in targets:
            targets.append(h)
    masks = {t: 0 for t in targets}
    if style == "tie":
        # disjoint signer sets of equal size over equal powers -> ties for the maximum
        size = max(1, n // len(targets))
        idx = 0
        for t in targets:
            for _ in range(size):
                if idx < n:
                    masks[t] |= 1 << idx
                    idx += 1
    elif style == "minority":
        # only a small set of validators votes, each of them for (almost) every target
        total = sum(powers)
        mn = (total + 2) // 3
        order = list(range(n))
        for i in range(n - 1, 0, -1):
            j = rng.below(i + 1)
            order[i], order[j] = order[j], order[i]
        acc = 0
        for i in order:
            if acc + powers[i] < mn:
                acc += powers[i]
                for t in targets:
                    if rng.chance(4, 5):
                        masks[t] |= 1 << i
    else:
        p_equiv = rng.choice([0, 10, 30, 60, 100])
        for i in range(k):
            r = rng.below(100)
            if r < 15:
                continue
            if rng.below(100) < p_equiv and len(targets) > 1:
                cnt = 2 + rng.below(len(targets) - 1)
                ts = list(targets)
                for _ in range(cnt):
                    t = ts.pop(rng.below(len(ts)))
                    masks[t] |= 1 << i
            else:
                masks[rng.choice(targets)] |= 1 << i
    ents = [(t, masks[t]) for t in targets]
    if rng.chance(1, 10):
        ents = [e for e in ents if e[1] != 0] or ents[:1]
    # iteration order is Go's choice; shuffle what the model sees
    for i in range(len(ents) - 1, 0, -1):
        j = rng.below(i + 1)
        ents[i], ents[j] = ents[j], ents[i]
    if rng.chance(1, 12):
        ents = []
    return ents


def gen_case(rng, cid):
    n = rng.choice([0, 1, 2, 3, 4, 4, 4, 5, 6, 7, 8, 10, 13, 16, 20])
    powers, pmode = gen_powers(rng, n)
    n = len(powers)
    k = max(1, min(MAXK, n + rng.choice([0, 0, 0, 1, 3])))
    s = rng.below(100)
    style = "tie" if s < 15 else ("minority" if s < 40 else "random")
    if style == "tie" and pmode != "equal":
        powers, pmode = [rng.choice([1, 7])] * n, "equal"
    pv = gen_kind(rng, n, k, powers, style)
    pc = gen_kind(rng, n, k, powers, style if rng.chance(2, 3) else "random")
    if style == "minority":
        pc = gen_kind(rng, n, k, powers, "minority")
    return {"id": cid, "powers": powers, "k": k, "pv": pv, "pc": pc, "pmode": pmode, "style": style}


def case_line(c):
    def ents(es):
        return ";".join("%s:%d" % (h, m) for h, m in es) or "."
    return "%d|%s|%d|%s|%s" % (c["id"], ",".join(str(p) for p in c["powers"]), c["k"], ents(c["pv"]), ents(c["pc"]))


CORPUS = [
    # 1 of 4 equal validators signs two targets (the double count of DESIGN 8 #7)
    {"powers": [1, 1, 1, 1], "k": 4, "pv": [("aa", 1), ("bb", 1)], "pc": [("aa", 1), ("-", 1)]},
    # every validator signs every target
    {"powers": [3, 3, 3], "k": 3, "pv": [("aa", 7), ("ab", 7), ("-", 7)], "pc": [("ff", 7), ("00", 7)]},
    # tie broken towards the smaller hash, prefix ordering
    {"powers": [5, 5], "k": 2, "pv": [("0100", 1), ("01", 2)], "pc": [("ff", 1), ("-", 2)]},
    # bits beyond len(vals) are ignored
    {"powers": [2, 2], "k": 5, "pv": [("aa", 31)], "pc": [("aa", 28)]},
    # no validators: step function panics (ByzantineMajority(0))
    {"powers": [], "k": 2, "pv": [("aa", 3)], "pc": []},
    # zero-power validators only
    {"powers": [0, 0, 0], "k": 3, "pv": [("aa", 3), ("-", 4)], "pc": [("aa", 7)]},
    # total just below 2^64
    {"powers": [2 ** 63, 2 ** 63 - 1], "k": 2, "pv": [("aa", 1), ("bb", 3)], "pc": [("-", 3)]},
    # wraps
    {"powers": [2 ** 63, 2 ** 63, 5], "k": 3, "pv": [("aa", 7)], "pc": [("aa", 3), ("bb", 6)]},
]


MIRROR_CORPUS = [
    # DESIGN 8 #7: 1 of 4 equal validators sends two prevotes for the next round
    {"powers": [1, 1, 1, 1], "prevote": True, "round": 1, "entries": [("aa", 1), ("bb", 1)]},
    {"powers": [1, 1, 1, 1], "prevote": False, "round": 1, "entries": [("aa", 1), ("bb", 1), ("-", 1)]},
    # 1 of 4 signs every target in the voting round: must not be "fully voted"
    {"powers": [1, 1, 1, 1], "prevote": False, "round": 0, "entries": [("aa", 1), ("bb", 1), ("ab", 1), ("-", 1)]},
    # genuine minority of two validators: the jump is live
    {"powers": [1, 1, 1, 1], "prevote": True, "round": 1, "entries": [("aa", 1), ("bb", 2)]},
    # 100% present without consensus / nil majority: round advances
    {"powers": [1, 1, 1, 1], "prevote": False, "round": 0, "entries": [("aa", 3), ("-", 12)]},
    {"powers": [1, 1, 1, 1], "prevote": False, "round": 0, "entries": [("-", 7)]},
]


def gen_mirror_case(rng, cid):
    n = rng.choice([1, 2, 3, 4, 4, 4, 5, 6, 7, 8, 10])
    while True:
        powers, pmode = gen_powers(rng, n)
        if pmode != "overflow" and sum(powers) >= 1 and len(powers) == n:
            break
    s = rng.below(100)
    style = "tie" if s < 10 else ("minority" if s < 55 else "random")
    if style == "tie" and pmode != "equal":
        powers, pmode = [rng.choice([1, 7])] * n, "equal"
    ents = [e for e in gen_kind(rng, n, n, powers, style) if e[1] != 0]
    if not ents:
        ents = [(rng.choice(HASH_POOL), 1 << rng.below(n))]
    prevote = rng.chance(1, 2)
    rnd = rng.choice([0, 1, 1])
    total = sum(powers)
    maj = 2 * total // 3 + 1
    if not prevote and rnd == 1:
        mx = max(sum(p for i, p in enumerate(powers) if m >> i & 1) for _, m in ents)
        if mx >= maj:
            rnd = 0  # the kernel has an explicit TODO panic for a majority precommit in the next round (C09's subject)
    return {"id": cid, "powers": powers, "prevote": prevote, "round": rnd, "entries": ents, "pmode": pmode, "style": style}


def gen_history(rng, hid):
    """Several vote messages, all signed by members of one set B whose distinct power is below the minority threshold."""
    n = rng.choice([3, 4, 4, 5, 6, 7, 8, 10])
    while True:
        powers, pmode = gen_powers(rng, n)
        if pmode not in ("overflow", "small-with-zeros") and len(powers) == n:
            break
    total = sum(powers)
    mn = (total + 2) // 3
    order = list(range(n))
    for i in range(n - 1, 0, -1):
        j = rng.below(i + 1)
        order[i], order[j] = order[j], order[i]
    members, acc = [], 0
    for i in order:
        if acc + powers[i] < mn:
            acc += powers[i]
            members.append(i)
    if not members:
        return None
    targets = ["-"] + [rng.choice(HASH_POOL[:12]) for _ in range(3)]
    targets = list(dict.fromkeys(targets))
    msgs = []
    for _ in range(2 + rng.below(5)):
        masks = {}
        for i in members:
            if rng.chance(1, 4):
                continue
            for _ in range(1 + rng.below(3)):
                t = rng.choice(targets)
                masks[t] = masks.get(t, 0) | (1 << i)
        if masks:
            msgs.append({"prevote": rng.chance(1, 2), "round": rng.below(2), "entries": sorted(masks.items())})
    if not msgs:
        return None
    return {"id": 100000 + 100 * hid, "powers": powers, "msgs": msgs, "members": members}


def history_line(h):
    return "%d|%s|%s" % (h["id"], ",".join(str(p) for p in h["powers"]),
                         "/".join("%s,%d,%s" % ("pv" if m["prevote"] else "pc", m["round"], ";".join("%s:%d" % e for e in m["entries"]))
                                  for m in h["msgs"]))


def mirror_line(c):
    return "%d|%s|%s|%d|%s" % (c["id"], ",".join(str(p) for p in c["powers"]), "pv" if c["prevote"] else "pc", c["round"],
                               ";".join("%s:%d" % (h, m) for h, m in c["entries"]))


def parse_mirror_obs(line):
    f = line.split("|")
    if len(f) != 13:
        return None

    def pe(s):
        return [] if s == "." else [(e.split(":")[0], int(e.split(":")[1])) for e in s.split(";")]
    cid = sum(int(x) for x in f[0].split("."))
    return {"id": cid, "res": int(f[1]), "h": int(f[2]), "r": int(f[3]), "avail": int(f[4]), "tpv": int(f[5]), "tpc": int(f[6]),
            "pvb": parse_map(f[7]), "pcb": parse_map(f[8]), "mpv": f[9], "mpc": f[10], "pvp": pe(f[11]), "pcp": pe(f[12])}


def coq_mcase(c, o):
    return ("mk_mcase %d [%s] %s %d %s %d %d %d (mk_obs %d %d %d %s %s %s %s None) %s %s" % (
        c["id"], ";".join(str(p) for p in c["powers"]), "true" if c["prevote"] else "false", c["round"], coq_entries(c["entries"]),
        o["res"], o["h"], o["r"], o["avail"], o["tpv"], o["tpc"], coq_entries(o["pvb"]), coq_entries(o["pcb"]),
        coq_hash(o["mpv"]), coq_hash(o["mpc"]), coq_entries(o["pvp"]), coq_entries(o["pcp"])))


MCASES_HEADER = """From Coq Require Import List NArith String.
From GV Require Import Base.Ints Model.VoteSummary Monitors.C06m Model.C06Run.
Import ListNotations. Local Open Scope N_scope.
%s
Definition mcases : list mcase := [
%s
].
Definition mcorr_bad := Eval vm_compute in firstn 20 (mbad_ids mcorr_ok mcases).
Definition mmon_bad := Eval vm_compute in firstn 20 (mbad_codes mcases).
Print mcorr_bad. Print mmon_bad.
"""


def mirror_replay(c, o):
    if "history" in c:
        h = c["history"]
        return {"mirror_histories": [history_line(h)], "failing_step": c["step"],
                "input": {"powers": h["powers"], "messages": h["msgs"][:c["step"] + 1], "signers_so_far_mask": c["entries"][0][1]},
                "observed": o, "distinct_signer_power": distinct_power(c["powers"], c["entries"]),
                "minority_threshold": (sum(c["powers"]) + 2) // 3,
                "how": "echo '%s' | bin/h_c06 mirror   (one output line per message: id.step|result|H|R|available|totPV|totPC|...)" % history_line(h)}
    return {"mirror_cases": [mirror_line(c)],
            "input": {"powers": c["powers"], "message": "prevotes" if c["prevote"] else "precommits", "height": 1, "round": c["round"],
                      "votes": c["entries"]},
            "observed": o, "distinct_signer_power": distinct_power(c["powers"], c["entries"]),
            "minority_threshold": (sum(c["powers"]) + 2) // 3,
            "how": "echo '%s' | bin/h_c06 mirror   (fields: id|result|H|R|available|totPV|totPC|pvBlock|pcBlock|mostPV|mostPC|pvProofs|pcProofs)" % mirror_line(c)}


# ----------------------------------------------------------------------------- python-side statistics only
def distinct_power(powers, ents):
    u = 0
    for _, m in ents:
        u |= m
    return sum(p for i, p in enumerate(powers) if u >> i & 1)


def equivocates(powers, ents):
    seen = 0
    for _, m in ents:
        m &= (1 << len(powers)) - 1
        if seen & m:
            return True
        seen |= m
    return False


def has_tie(powers, ents):
    ps = [sum(p for i, p in enumerate(powers) if m >> i & 1) for _, m in ents]
    return len(ps) > 1 and max(ps) > 0 and ps.count(max(ps)) > 1


# ----------------------------------------------------------------------------- Coq rendering
def coq_hash_lit(h):
    return "[" + ";".join(str(int(h[i:i + 2], 16)) for i in range(0, len(h), 2)) + "]"


def coq_hash(h):
    if h == "-":
        return "[]"
    if h in HASH_POOL:
        return "h%d" % HASH_POOL.index(h)
    return "[" + ";".join(str(int(h[i:i + 2], 16)) for i in range(0, len(h), 2)) + "]"


def coq_entries(es):
    return "[" + ";".join("(%s,%d)" % (coq_hash(h), m) for h, m in es) + "]"


def parse_map(s):
    if s == ".":
        return []
    out = []
    for kv in s.split(","):
        k, v = kv.split("=")
        out.append((k, int(v)))
    return out


def parse_obs(line):
    f = line.split("|")
    if len(f) != 12:
        return None
    dpv = f[9].split(",", 2)
    dpc = f[10].split(",", 2)
    return {"id": int(f[0]), "avail": int(f[1]), "tpv": int(f[2]), "tpc": int(f[3]), "pvb": parse_map(f[4]), "pcb": parse_map(f[5]),
            "mpv": f[6], "mpc": f[7], "step": None if f[8] == "P" else int(f[8]),
            "dpv": (int(dpv[0]), int(dpv[1]), parse_map(dpv[2])), "dpc": (int(dpc[0]), int(dpc[1]), parse_map(dpc[2])),
            "stable": f[11] == "1"}


def coq_case(c, o):
    def dist(d):
        return "(%d, %d, %s)" % (d[0], d[1], coq_entries(d[2]))
    step = "None" if o["step"] is None else "(Some %d)" % o["step"]
    return ("mk_case %d [%s] %s %s (mk_obs %d %d %d %s %s %s %s %s) %s %s" % (
        c["id"], ";".join(str(p) for p in c["powers"]), coq_entries(c["pv"]), coq_entries(c["pc"]),
        o["avail"], o["tpv"], o["tpc"], coq_entries(o["pvb"]), coq_entries(o["pcb"]), coq_hash(o["mpv"]), coq_hash(o["mpc"]),
        step, dist(o["dpv"]), dist(o["dpc"])))


CASES_HEADER = """From Coq Require Import List NArith String.
From GV Require Import Base.Ints Model.VoteSummary Monitors.C06m Model.C06Run.
Import ListNotations. Local Open Scope N_scope.
%s
Definition cases : list case := [
%s
].
Definition corr_bad := Eval vm_compute in firstn 20 (bad_ids corr_ok cases).
Definition mon_bad := Eval vm_compute in firstn 20 (bad_codes cases).
%s
Print corr_bad. Print mon_bad. Print model_bad.
"""
MODEL_BAD_ON = "Definition model_bad := Eval vm_compute in firstn 20 (bad_ids model_mon_ok cases)."
MODEL_BAD_OFF = "Definition model_bad : list N := []. (* quick tier: C06_model_satisfies_monitor is proved; evaluated in the thorough tier *)"

CODE_BITS = [(1, "available-power"), (2, "total-prevote-power"), (4, "total-precommit-power"), (8, "prevote-block-power"),
             (16, "precommit-block-power"), (32, "most-voted-prevote"), (64, "most-voted-precommit"), (128, "step"),
             (256, "minority-consequence"), (512, "distribution-prevotes"), (1024, "distribution-precommits")]


def grab_list(cout, name):
    m = re.search(name + r"\s*=\s*(\[.*?\])\s*:\s*list", cout, flags=re.S)
    if not m:
        return None
    return [int(x) for x in re.findall(r"\d+", m.group(1))]


def replay_of(c, o):
    return {"cases": [case_line(c)], "input": {"powers": c["powers"], "proof_keys": c["k"], "prevotes": c["pv"], "precommits": c["pc"]},
            "observed": {k: o[k] for k in ("avail", "tpv", "tpc", "pvb", "pcb", "mpv", "mpc", "step", "dpv", "dpc")},
            "distinct_prevote_power": distinct_power(c["powers"], c["pv"]), "distinct_precommit_power": distinct_power(c["powers"], c["pc"]),
            "how": "echo '%s' | bin/h_c06   (fields: id|available|totalPrevote|totalPrecommit|prevoteBlock|precommitBlock|mostPV|mostPC|step|dist..)" % case_line(c)}


def main(argv):
    c = vcheck.Check("C06", argv)
    c.trusted += [
        "translator /verif/translate for tsi/step.go GetStepFromVoteSummary (Gen/Step.v), cross-checked on every run by the step "
        "observable of the correspondence",
        "hand-written model coq/Model/VoteSummary.v of votesummary.go / votedistribution.go / kernel.go threshold comparisons, tied by "
        "differential execution against the real methods on every run",
        "Go harness /verif/harness/c06 (tmconsensustest fixture: real ed25519 keys, real sign bytes, real SimpleCommonMessageSignatureProof), "
        "the cases file evaluation inside coqc (vm_compute)",
        "bits-and-blooms/bitset (NextSet, InPlaceUnion, CopyFull) behaves as a set of naturals",
    ]
    c.assumes += ["sum of the validator powers < 2^64 (not checked by the Go code; outside it the model still corresponds, with wrap-around)",
                  "a Go map has distinct keys (entries of a proof map have distinct block hashes)",
                  "a proof's SignatureBitSet has bit i set iff key i of the proof's key list signed (C13's subject)"]
    c.grep_gate()
    import time
    marks = [("start", time.time())]

    # ---- cases
    n_cases = 600 if c.tier == "quick" else 30000
    cases = []
    for i, cc in enumerate(CORPUS):
        d = dict(cc)
        d.update({"id": i, "pmode": "corpus", "style": "corpus"})
        cases.append(d)
    if c.replay:
        rp = json.load(open(c.replay))
        cases = []
        for i, line in enumerate(rp.get("cases", [])):
            f = line.split("|")

            def pe(s):
                return [] if s in ("", ".") else [(e.split(":")[0], int(e.split(":")[1])) for e in s.split(";")]
            cases.append({"id": i, "powers": [int(x) for x in f[1].split(",")] if f[1] else [], "k": int(f[2]), "pv": pe(f[3]), "pc": pe(f[4]),
                          "pmode": "replay", "style": "replay"})
    else:
        while len(cases) < n_cases:
            cases.append(gen_case(c.rng, len(cases)))

    # ---- 1. regenerate Gen/Step.v (and Gen/Math.v it calls), 2. re-check the theorems
    tok, tlog = c.translate(only=["Gen/Math.v", "Gen/Step.v"])
    proved = False
    if not tok:
        c.obligations.append("translate Gen/Step.v")
        c.broken = {"file": "translate", "log": tlog[-800:]}
    else:
        proved = c.prove("C06")
        proved = c.prove("C06Mirror") and proved
        proved = c.prove("C06Power") and proved

    marks.append(("translate+prove", time.time()))
    # ---- 3. the real code
    binary, blog = c.go_build("c06")
    if binary is None:
        c.fail_obligation("harness-build", blog[-1500:])
        c.finish()
    rc, out, err = c.run_bin(binary, stdin="\n".join(case_line(x) for x in cases) + "\n")
    obs = {}
    for line in out.splitlines():
        o = parse_obs(line)
        if o is not None:
            obs[o["id"]] = o
    if len(obs) != len(cases):
        c.fail_obligation("harness-run", "harness returned %d of %d results (rc=%s): %s" % (len(obs), len(cases), rc, err[-600:]))
    done = [x for x in cases if x["id"] in obs]
    byid = {x["id"]: x for x in done}

    # recomputation stability observed by the harness itself (SetVotePowers vs the two single calls on a clone)
    for x in done:
        if not obs[x["id"]]["stable"]:
            c.report("recompute-not-deterministic", "two recomputations of the summary from the same proofs differ", replay_of(x, obs[x["id"]]))
            break

    marks.append(("go build+run", time.time()))
    # ---- 4. model + monitors inside Coq
    corr_bad, mon_bad, model_bad = [], [], []
    evaluated = 0
    models_ok = c.coq_make(["Model/C06Run.vo"])[0] if tok else False
    if models_ok:
        shard = 320 if c.tier == "quick" else 400
        hdefs = "\n".join("Definition h%d : hash := %s." % (i, coq_hash_lit(h)) for i, h in enumerate(HASH_POOL))
        jobs = []
        for si in range(0, len(done), shard):
            sh = done[si:si + shard]
            jobs.append((si // shard, sh, CASES_HEADER % (hdefs, ";\n".join(coq_case(x, obs[x["id"]]) for x in sh),
                                                           MODEL_BAD_ON if (c.tier != "quick" or c.replay or not proved) else MODEL_BAD_OFF)))
        from concurrent.futures import ThreadPoolExecutor
        with ThreadPoolExecutor(max_workers=6) as ex:
            results = list(ex.map(lambda j: c.coq_eval("c06_cases_%d" % j[0], j[2]), jobs))
        for (si, sh, _), (ok, cout) in zip(jobs, results):
            if not ok:
                c.fail_obligation("cases-eval", cout[-1500:])
                break
            evaluated += len(sh)
            corr_bad += grab_list(cout, "corr_bad") or []
            mb = grab_list(cout, "mon_bad") or []
            mon_bad += list(zip(mb[0::2], mb[1::2]))
            model_bad += grab_list(cout, "model_bad") or []
    elif tok:
        c.fail_obligation("Model/C06Run.v", getattr(c, "last_coq_log", "")[-1500:] or "model does not build")

    marks.append(("coq eval pure cases", time.time()))
    # ---- 5. verdict
    reported = set()
    for cid, code in mon_bad:
        names = [n for b, n in CODE_BITS if code & b]
        key = names[0] if names else "monitor"
        if key in reported:
            continue
        reported.add(key)
        x, o = byid[cid], obs[cid]
        what = ("real VoteSummary violates the recomputation from the signature bitsets (%s): powers=%s prevotes=%s precommits=%s -> "
                "available=%d totalPrevote=%d (distinct signers hold %d) totalPrecommit=%d (distinct %d) mostPV=%s mostPC=%s step=%s" % (
                    ",".join(names), x["powers"], x["pv"], x["pc"], o["avail"], o["tpv"], distinct_power(x["powers"], x["pv"]),
                    o["tpc"], distinct_power(x["powers"], x["pc"]), o["mpv"], o["mpc"], STEP_NAMES.get(o["step"], o["step"])))
        c.report(key, what, replay_of(x, o))
    if corr_bad and not mon_bad:
        x = byid[corr_bad[0]]
        c.fail_obligation("correspondence Model/VoteSummary.v + Gen/Step.v vs votesummary.go/votedistribution.go/step.go",
                          "model and real code differ on case ids %s (the monitor holds on the implementation's outputs for all %d cases)" % (corr_bad[:10], evaluated),
                          replay_of(x, obs[x["id"]]))
    if model_bad:
        c.fail_obligation("model-satisfies-monitor", "the model's own output fails the monitor on case ids %s" % model_bad[:10],
                          replay_of(byid[model_bad[0]], obs[model_bad[0]]))
    if not proved and not mon_bad:
        b = getattr(c, "broken", {"file": "?", "log": ""})
        c.fail_obligation("Properties/C06.v (%s)" % b["file"], b["log"], {"searched_inputs": evaluated,
                          "note": "monitor evaluated on the implementation's output for every generated case without a failure"})

    # ---- 6. single-message scenarios on the real mirror
    mcases = []
    if c.replay:
        rp = json.load(open(c.replay))
        for i, line in enumerate(rp.get("mirror_cases", [])):
            f = line.split("|")
            mcases.append({"id": i, "powers": [int(x) for x in f[1].split(",")], "prevote": f[2] == "pv", "round": int(f[3]),
                           "entries": [(e.split(":")[0], int(e.split(":")[1])) for e in f[4].split(";")], "pmode": "replay", "style": "replay"})
    else:
        for i, cc in enumerate(MIRROR_CORPUS):
            d = dict(cc)
            d.update({"id": i, "pmode": "corpus", "style": "corpus"})
            mcases.append(d)
        n_m = 200 if c.tier == "quick" else 6000
        while len(mcases) < n_m:
            mcases.append(gen_mirror_case(c.rng, len(mcases)))
    histories = []
    if c.replay:
        for i, line in enumerate(json.load(open(c.replay)).get("mirror_histories", [])):
            f = line.split("|")
            msgs = []
            for ms in f[2].split("/"):
                k, r, es = ms.split(",", 2)
                msgs.append({"prevote": k == "pv", "round": int(r), "entries": [(e.split(":")[0], int(e.split(":")[1])) for e in es.split(";")]})
            histories.append({"id": 100000 + 100 * i, "powers": [int(x) for x in f[1].split(",")], "msgs": msgs, "members": []})
    else:
        n_h = 60 if c.tier == "quick" else 1500
        while len(histories) < n_h:
            h = gen_history(c.rng, len(histories))
            if h is not None:
                h["id"] = 100000 + 100 * len(histories)
                histories.append(h)
    # each history step becomes a monitor-only case: the signers so far form one pseudo entry
    hsteps = {}
    for h in histories:
        cum = 0
        for k, m in enumerate(h["msgs"]):
            for _, mask in m["entries"]:
                cum |= mask
            hsteps[h["id"] + k] = {"id": h["id"] + k, "powers": h["powers"], "prevote": m["prevote"], "round": m["round"],
                                   "entries": [("-", cum)], "pmode": "history", "style": "history", "history": h, "step": k}
    mobs, mcorr_bad, mmon_bad, mevaluated = {}, [], [], 0
    if mcases or histories:
        rc, out, err = c.run_bin(binary, args=["mirror"], stdin="\n".join([mirror_line(x) for x in mcases] + [history_line(h) for h in histories]) + "\n")
        mcases = mcases + list(hsteps.values())
        for line in out.splitlines():
            o = parse_mirror_obs(line)
            if o is not None:
                mobs[o["id"]] = o
        if len(mobs) != len(mcases):
            missing = [x for x in mcases if x["id"] not in mobs][:1]
            c.fail_obligation("mirror-harness-run", "mirror harness returned %d of %d results (rc=%s): %s %s" % (
                len(mobs), len(mcases), rc, out[-300:], err[-600:]),
                {"mirror_histories": [history_line(x["history"]) for x in missing]} if missing and "history" in missing[0]
                else {"mirror_cases": [mirror_line(x) for x in missing]})
        mdone = [x for x in mcases if x["id"] in mobs]
        mbyid = {x["id"]: x for x in mdone}
        if models_ok and mdone:
            hdefs = "\n".join("Definition h%d : hash := %s." % (i, coq_hash_lit(h)) for i, h in enumerate(HASH_POOL))
            jobs = [(si // 500, mdone[si:si + 500]) for si in range(0, len(mdone), 500)]
            from concurrent.futures import ThreadPoolExecutor
            with ThreadPoolExecutor(max_workers=6) as ex:
                results = list(ex.map(lambda j: c.coq_eval("c06_mcases_%d" % j[0], MCASES_HEADER % (
                    hdefs, ";\n".join(coq_mcase(x, mobs[x["id"]]) for x in j[1]))), jobs))
            for (si, sh), (ok, cout) in zip(jobs, results):
                if not ok:
                    c.fail_obligation("mirror-cases-eval", cout[-1500:])
                    break
                mevaluated += len(sh)
                mcorr_bad += [i for i in (grab_list(cout, "mcorr_bad") or []) if i < 100000]
                mb = grab_list(cout, "mmon_bad") or []
                mmon_bad += list(zip(mb[0::2], mb[1::2]))
        seen = set()
        for cid, code in mmon_bad:
            key = "mirror-round-moved-by-sub-minority-signers" if code & 2 else "mirror-summary-differs-from-recomputation"
            if key in seen:
                continue
            seen.add(key)
            x, o = mbyid[cid], mobs[cid]
            if "history" in x:
                c.report(key, "real Mirror, fresh at height 1 round 0, after messages %s from validators of powers %s (distinct signer power "
                              "so far %d, minority threshold %d) -> voting view height %d round %d, summary available=%d totalPrevote=%d "
                              "totalPrecommit=%d prevote proofs %s precommit proofs %s" % (
                                  history_line(x["history"]).split("|")[2].split("/")[:x["step"] + 1], x["powers"],
                                  distinct_power(x["powers"], x["entries"]), (sum(x["powers"]) + 2) // 3, o["h"], o["r"], o["avail"], o["tpv"],
                                  o["tpc"], o["pvp"], o["pcp"]), mirror_replay(x, o))
                continue
            c.report(key, "real Mirror, fresh at height 1 round 0, one %s message for round %d with votes %s from validators of powers %s "
                          "(distinct signer power %d, minority threshold %d) -> voting view height %d round %d, summary available=%d "
                          "totalPrevote=%d totalPrecommit=%d" % (
                              "prevote" if x["prevote"] else "precommit", x["round"], x["entries"], x["powers"],
                              distinct_power(x["powers"], x["entries"]), (sum(x["powers"]) + 2) // 3, o["h"], o["r"], o["avail"], o["tpv"], o["tpc"]),
                     mirror_replay(x, o))
        if mcorr_bad and not mmon_bad and not mon_bad:
            x = mbyid[mcorr_bad[0]]
            c.fail_obligation("correspondence mirror_predict (Model/C06Run.v) vs real Mirror",
                              "model and real mirror differ on scenario ids %s; the monitors hold on the implementation's observations" % mcorr_bad[:10],
                              mirror_replay(x, mobs[x["id"]]))

    marks.append(("mirror scenarios", time.time()))
    c.coverage["phase_seconds"] = {marks[i][0]: round(marks[i][1] - marks[i - 1][1], 1) for i in range(1, len(marks))}
    # ---- evidence
    st = {"equivocation": 0, "tie": 0, "minority_only_voters": 0, "overflow_guard_off": 0, "index_guard_exercised": 0,
          "step_panics": 0, "nil_target": 0}
    steps, pmodes, sizes = {}, {}, {}
    nontriv = set()
    for x in done:
        o = obs[x["id"]]
        pw = x["powers"]
        eq = equivocates(pw, x["pv"]) or equivocates(pw, x["pc"])
        st["equivocation"] += bool(eq)
        st["tie"] += bool(has_tie(pw, x["pv"]) or has_tie(pw, x["pc"]))
        tot = sum(pw)
        mn = (tot + 2) // 3
        st["minority_only_voters"] += bool(tot >= 1 and tot < 2 ** 64 and distinct_power(pw, x["pv"]) < mn and distinct_power(pw, x["pc"]) < mn
                                       and (x["pv"] or x["pc"]) and any(m for _, m in x["pv"] + x["pc"]))
        st["overflow_guard_off"] += tot >= 2 ** 64
        st["index_guard_exercised"] += any(m >> len(pw) for _, m in x["pv"] + x["pc"])
        st["step_panics"] += o["step"] is None
        st["nil_target"] += any(h == "-" for h, _ in x["pv"] + x["pc"])
        steps[STEP_NAMES.get(o["step"], "panic")] = steps.get(STEP_NAMES.get(o["step"], "panic"), 0) + 1
        pmodes[x["pmode"]] = pmodes.get(x["pmode"], 0) + 1
        sizes[len(pw)] = sizes.get(len(pw), 0) + 1
        if any(m for _, m in x["pv"] + x["pc"]) and pw:
            nontriv.add(case_line(x).split("|", 1)[1])
    c.samples = [{"case": case_line(x), "observed": {k: obs[x["id"]][k] for k in ("avail", "tpv", "tpc", "mpv", "mpc", "step")}}
                 for x in done[:2] + done[len(done) // 2:len(done) // 2 + 2] + done[-2:]]
    c.coverage.update({
        "evaluations": evaluated,
        "distinct_nontrivial": len(nontriv),
        "rule": "one evaluation = one (powers, prevote map, precommit map) triple run through the real SetAvailablePower/SetVotePowers/"
                "SetPrevotePowers/SetPrecommitPowers, GetStepFromVoteSummary and newVoteDistribution (x2 kinds) and through the Coq model; "
                "non-trivial = at least one validator and one signature; distinct by input text",
        "traces_validated_against_impl": evaluated + mevaluated,
        "correspondence_disagreements": len(corr_bad),
        "monitor_failures_on_impl": len(mon_bad),
        "input_distribution": {"cases": len(done), "classes": st, "equivocation_ratio": round(st["equivocation"] / max(1, len(done)), 3),
                               "power_modes": pmodes, "validator_counts": sizes, "steps_observed": steps},
        "mirror_scenarios": {"run": len(mcases), "evaluated": mevaluated, "correspondence_disagreements": len(mcorr_bad),
                             "monitor_failures": len(mmon_bad),
                             "round_moved": sum(1 for o in mobs.values() if o["r"] != 0),
                             "sub_minority_messages": sum(1 for x in mcases if x["id"] in mobs and distinct_power(x["powers"], x["entries"]) < (sum(x["powers"]) + 2) // 3),
                             "equivocating_messages": sum(1 for x in mcases if equivocates(x["powers"], x["entries"])),
                             "kinds": {k: sum(1 for x in mcases if ("pv" if x["prevote"] else "pc") + str(x["round"]) == k) for k in ("pv0", "pv1", "pc0", "pc1")},
                             "histories": len(histories), "history_steps": len(hsteps),
                             "note": "histories = 2..6 messages (prevotes/precommits, rounds 0/1, equivocating) all signed by one sub-minority set; "
                                     "after every message the voting view is judged by c06_sum_mon (summary = recomputation from the view's proofs) "
                                     "and c06_round_mon (round must stay 0); single-message scenarios are also compared with mirror_predict"},
        "generated_definitions": ["Gen/Step.v get_step <- tsi/step.go GetStepFromVoteSummary", "Gen/Math.v byz_majority/byz_minority <- tmconsensus/math.go"],
    })
    if st["equivocation"] * 4 < len(done) and not c.replay:
        c.notes.append("equivocation ratio below 25%")
    # ---- 7. whole histories on the real mirror (validator set and total power change at every height, round changes,
    # restarts): after every delivered message the summaries of the voting and committing views must be the recomputation
    # from those views' own signatures and powers (Monitors/MirrorM.v c06_obs_ok); the mirror model is compared too.
    if not c.replay or "batch_seed" in json.load(open(c.replay)):
        import mirrorlib
        mirrorlib.mirror_check(c, "C06", ["c06"], "C06 summaries along mirror histories", quick=(30, 40), thorough=(400, 50),
                               extra=[], prove=False, templates=[8, 10])
        # and under concurrent callers with overlapping proofs (partly refused requests): whatever entered a view is counted
        mirrorlib.mirror_concurrent(c, ["c06"], "C06 summaries under concurrent callers")
    c.finish()
