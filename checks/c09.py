"""C09 - No configuration, message or schedule can crash or wedge the engine (DESIGN 4, C09).

Non-kernel parts.  The check is a list of sub-checks (SUBCHECKS) sharing one translate / prove / harness build;
the kernel / state-machine panic-freedom sub-checks are appended to that list by their owner."""
import json
import os
import re
import subprocess
import vcheck

META = {
    "engine": "coq+translator",
    "technique": "Coq proofs over (a) the four feedback-mapper tables and result enumerations regenerated from "
                 "feedbackmapper.go/handler.go/feedback.go by the translator, (b) a fold of the option table extracted "
                 "(go/ast) from opts.go/engine.go/mirror.go; differential run of the generated model vs the real code "
                 "(every witness replayed in a subprocess: exit status + stderr)",
    "level": "Partial (non-kernel parts of C09): mappers total on every generated handler result and following the documented "
             "classes; constructors New/NewMirror never panic and report every rejected option for EVERY option list; "
             "Registry.Unmarshal total on every byte string. Kernel/state-machine panic freedom and liveness under slow "
             "drivers are separate sub-checks / named residue.",
    "note": "Trusted: Coq kernel, the translator and extractors (cross-checked by differential execution every run), "
            "the Go harness. Residue: deadlock / slow-driver liveness, typed-nil interface values passed as option values.",
    "design_ref": "DESIGN.md 4 (C09), design/C09.md",
}

GEN_MODULES = ["Gen/Mappers.v"]


def coq_str(s):
    return '"%s"%%string' % s


def coq_opt_str(s):
    return "None" if s is None else "(Some %s)" % coq_str(s)


class Ctx:
    """shared state of one run: translated?, proved?, harness binary"""
    def __init__(self):
        self.translated = False
        self.proved = False
        self.binary = None
        self.found_violation_for_broken = False


def pairs(out, name):
    m = re.search(name + r"\s*=\s*(.*?)\n\s*:", out, flags=re.S)
    if not m:
        return None
    return [(int(a), int(b)) for a, b in re.findall(r"\((\d+),\s*(\d+)\)", m.group(1))]


# ---------------------------------------------------------------------------------------------- (i) mappers
MAPPER_COLS = [("aav", "ph"), ("aav", "prevote"), ("aav", "precommit"), ("dd", "ph"), ("dd", "prevote"), ("dd", "precommit")]


def replay_mapper(c, ctx, mapper, method, v):
    """one witness against the real code, no recover: exit status + stderr are the observation"""
    p = subprocess.run([ctx.binary, "mapper-one", mapper, method, str(v)], stdout=subprocess.PIPE, stderr=subprocess.PIPE,
                       text=True, env=vcheck.goenv(), timeout=60)
    return {"cmd": "bin/h_c09 mapper-one %s %s %d" % (mapper, method, v), "exit_status": p.returncode,
            "stdout": p.stdout.strip(), "stderr_head": p.stderr.strip().splitlines()[:1]}


def sub_mappers(c, ctx):
    rc, out, err = c.run_bin(ctx.binary, ["mappers"])
    rows = []
    for line in out.splitlines():
        f = line.split()
        if len(f) == 9:
            rows.append((int(f[0]), None if f[1] == "-" else f[1], None if f[2] == "-" else f[2],
                         [None if x == "P" else x for x in f[3:]]))
    if rc != 0 or len(rows) != 256:
        c.fail_obligation("harness-run mappers", "rc=%s rows=%d %s" % (rc, len(rows), err[-500:]))
        return
    defined = [r for r in rows if r[1] or r[2]]
    c.coverage["mappers"] = {
        "evaluations": 256 * 6, "distinct_nontrivial": sum(1 for r in rows if r[1]) * 2 + sum(1 for r in rows if r[2]) * 4,
        "rule": "every uint8 value 0..255 returned by a stub FineGrainedConsensusHandler through the 3 methods of both shipped "
                "mappers under recover; non-trivial = value is a defined constant of the compiled enumeration (stringer name)",
        "defined_ph_results": sum(1 for r in rows if r[1]), "defined_vote_results": sum(1 for r in rows if r[2]),
        "panics_on_defined": sum(1 for r in defined for i, o in enumerate(r[3]) if o is None and (r[1] if i % 3 == 0 else r[2])),
    }
    c.samples += [{"mapper_row": {"value": r[0], "ph": r[1], "vote": r[2], "feedback": r[3]}} for r in rows[5:8]]
    if not ctx.translated:
        # no generated model: fall back to what the implementation alone shows (a panic on a defined value)
        for r in defined:
            for i, o in enumerate(r[3]):
                nm = r[1] if i % 3 == 0 else r[2]
                if nm and o is None:
                    m, meth = MAPPER_COLS[i]
                    c.report("mapper-%s-%s-%s" % (m, meth, nm), "real %s mapper panics on %s" % (m, nm),
                             {"sub": "mappers", "replay": replay_mapper(c, ctx, m, meth, r[0])})
        return
    body = """From Coq Require Import List NArith String Bool.
From GV Require Import Base.Ints Gen.Mappers Monitors.C09m Proofs.Mappers.
Import ListNotations. Local Open Scope N_scope.
Definition rows : list (N * (option string * option string) * list (option string)) := [%s].
Definition oseq (a b : option string) : bool :=
  match a, b with Some x, Some y => String.eqb x y | None, None => true | _, _ => false end.
Definition name_of (v : N) (l : list (N * string)) : option string :=
  match find (fun p => N.eqb (fst p) v) l with Some p => Some (snd p) | None => None end.
Definition model_row (v : N) : list (option string) :=
  [model_obs (aav_map_ph v); model_obs (aav_map_vote v); model_obs (aav_map_vote v);
   model_obs (dd_map_ph v); model_obs (dd_map_vote v); model_obs (dd_map_vote v)].
Fixpoint diff (v : N) (i : N) (a b : list (option string)) : list (N * N) :=
  match a, b with
  | x :: a', y :: b' => (if oseq x y then [] else [(v, i)]) ++ diff v (i + 1) a' b'
  | [], [] => [] | _, _ => [(v, 99)] end.
Definition corr_bad := Eval vm_compute in flat_map (fun r => let '(v, _, obs) := r in diff v 0 (model_row v) obs) rows.
Definition enum_bad := Eval vm_compute in flat_map (fun r => let '(v, (pn, vn), _) := r in
  (if oseq pn (name_of v names_HandleProposedHeaderResult) then [] else [(v, 0)]) ++
  (if oseq vn (name_of v names_HandleVoteProofsResult) then [] else [(v, 1)])) rows.
Definition mon_row (pn vn : option string) (obs : list (option string)) : list bool :=
  match obs with
  | [a; b; c; d; e; f] =>
    [match pn with Some n => ph_mon AAV n a | None => true end;
     match vn with Some n => vote_mon AAV n b | None => true end;
     match vn with Some n => vote_mon AAV n c | None => true end;
     match pn with Some n => ph_mon DD n d | None => true end;
     match vn with Some n => vote_mon DD n e | None => true end;
     match vn with Some n => vote_mon DD n f | None => true end]
  | _ => [false] end.
Fixpoint falses (v i : N) (l : list bool) : list (N * N) :=
  match l with [] => [] | b :: t => (if b then [] else [(v, i)]) ++ falses v (i + 1) t end.
Definition mon_bad := Eval vm_compute in flat_map (fun r => let '(v, (pn, vn), obs) := r in falses v 0 (mon_row pn vn obs)) rows.
Definition model_mon_bad := Eval vm_compute in flat_map (fun r => let '(v, _, _) := r in
  falses v 0 (mon_row (name_of v names_HandleProposedHeaderResult) (name_of v names_HandleVoteProofsResult) (model_row v))) rows.
Print corr_bad. Print enum_bad. Print mon_bad. Print model_mon_bad.
""" % ";\n".join("(%d, (%s, %s), [%s])" % (v, coq_opt_str(pn), coq_opt_str(vn), "; ".join(coq_opt_str(o) for o in obs))
                 for v, pn, vn, obs in rows)
    # Proofs.Mappers may not build when an obligation broke; the evaluation only needs its definitions
    ok, cout = c.coq_eval("c09_mappers", body)
    if not ok and "Proofs.Mappers" in cout or (not ok and not ctx.proved):
        body2 = body.replace("Monitors.C09m Proofs.Mappers.", "Monitors.C09m.\n" + MODEL_OBS_DEF)
        ok, cout = c.coq_eval("c09_mappers", body2)
    if not ok:
        c.fail_obligation("cases-eval mappers", cout[-1500:])
        return
    corr_bad, enum_bad = pairs(cout, "corr_bad") or [], pairs(cout, "enum_bad") or []
    mon_bad, model_mon_bad = pairs(cout, "mon_bad") or [], pairs(cout, "model_mon_bad") or []
    byv = {r[0]: r for r in rows}
    for v, i in mon_bad[:4]:
        m, meth = MAPPER_COLS[i]
        nm = byv[v][1] if i % 3 == 0 else byv[v][2]
        obs = byv[v][3][i]
        what = ("real %s mapper %s(%s) " % (m, meth, nm)) + ("panics" if obs is None else "returns %s, not the documented class" % obs)
        c.report("mapper-%s-%s-%s" % (m, meth, nm), what,
                 {"sub": "mappers", "inputs": {"mapper": m, "method": meth, "value": v, "name": nm}, "observed": obs,
                  "replay": replay_mapper(c, ctx, m, meth, v)})
        ctx.found_violation_for_broken = True
    c.coverage["mappers"].update({"correspondence_disagreements": len(corr_bad), "enumeration_disagreements": len(enum_bad),
                                  "monitor_failures_on_impl": len(mon_bad), "traces_validated_against_impl": 256 * 6})
    if corr_bad and not mon_bad:
        c.fail_obligation("correspondence Gen/Mappers.v vs tm/tmconsensus/feedbackmapper.go",
                          "generated tables and real mappers differ at (value, column) %s" % corr_bad[:8], {"inputs": corr_bad[:8]})
    if enum_bad and not mon_bad:
        c.fail_obligation("correspondence generated enumerations vs compiled stringer names",
                          "differ at (value, 0=ph/1=vote) %s" % enum_bad[:8], {"inputs": enum_bad[:8]})
    ctx.model_mon_bad_mappers = model_mon_bad


MODEL_OBS_DEF = """Definition fb_name (fb : N) : string :=
  match find (fun p => N.eqb (fst p) fb) names_Feedback with Some p => snd p | None => "?"%string end.
Definition model_obs (r : res N) : option string :=
  match r with Ok fb => Some (fb_name fb) | Panic _ => None end.
"""

SUBCHECKS = [sub_mappers]


def main(argv):
    c = vcheck.Check("C09", argv)
    ctx = Ctx()
    c.trusted += [
        "translator /verif/translate (Go subset -> Gallina; 'opaque' callee results as parameters) for feedbackmapper.go, "
        "handler.go, feedback.go; structure extractors translate/c09_*.go; all cross-checked on every run by differential execution",
        "Go harness /verif/harness/c09 and the Cases/*.v evaluations inside coqc (vm_compute)",
    ]
    c.assumes += ["a FineGrainedConsensusHandler returns only declared constants of its result enumeration (the mirror's return "
                  "statements; shown for the kernel model by the kernel sub-checks)"]
    c.grep_gate()
    if c.replay:
        try:
            ctx.replay_obj = json.load(open(c.replay))
        except Exception:
            ctx.replay_obj = None
    # 1. regenerate the models from the source, 2. re-check the theorems against them
    tok, tlog = c.translate(only=GEN_MODULES)
    ctx.translated = tok
    if not tok:
        c.obligations.append("translate " + ",".join(GEN_MODULES))
        c.broken = {"file": "translate", "log": tlog[-800:]}
    else:
        ctx.proved = c.prove("C09")
    # 3. harness for the real code
    ctx.binary, blog = c.go_build("c09")
    if ctx.binary is None:
        c.fail_obligation("harness-build", blog[-1500:])
        c.finish()
    # 4. sub-checks: run the real code, evaluate model + monitors inside coqc, report violations with concrete inputs
    for sc in SUBCHECKS:
        sc(c, ctx)
    # 5. an obligation broke but no sub-check found a failing input on the implementation
    if not ctx.proved and not any(v[3] for v in c.violations) and not c.known_seen:
        b = getattr(c, "broken", {"file": "?", "log": ""})
        c.fail_obligation("Properties/C09.v (%s)" % b["file"], b["log"],
                          {"model_monitor_failures": {"mappers": getattr(ctx, "model_mon_bad_mappers", None)}})
    tot_eval = sum(v.get("evaluations", 0) for v in c.coverage.values() if isinstance(v, dict))
    tot_nt = sum(v.get("distinct_nontrivial", 0) for v in c.coverage.values() if isinstance(v, dict))
    tot_tr = sum(v.get("traces_validated_against_impl", 0) for v in c.coverage.values() if isinstance(v, dict))
    c.coverage.update({"evaluations": tot_eval, "distinct_nontrivial": tot_nt, "traces_validated_against_impl": tot_tr})
    c.finish()
