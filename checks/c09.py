"""C09 - No configuration, message or schedule can crash or wedge the engine (DESIGN 4, C09).

Non-kernel parts.  The check is a list of sub-checks (SUBCHECKS) sharing one translate / prove / harness build;
the kernel / state-machine panic-freedom sub-checks are appended to that list by their owner."""
import json
import os
import re
import subprocess
import vcheck

META = {
    "engine": "coq+translator",
    "technique": "Coq proofs over (a) the four feedback-mapper tables and result enumerations regenerated from "
                 "feedbackmapper.go/handler.go/feedback.go by the translator, (b) a fold of the option table extracted "
                 "(go/ast) from opts.go/engine.go/mirror.go; differential run of the generated model vs the real code "
                 "(every witness replayed in a subprocess: exit status + stderr)",
    "level": "P/partial. A wedge without a crash is observed, not proved: the mirror harness times every HandleProposedHeader call and a call that "
             "returns only when its 5 s context expires is reported (mirror-handler-does-not-return). "
             "Proved: the feedback mappers are total on every generated handler result and follow the documented classes; "
             "constructors New/NewMirror never panic and report every rejected option for EVERY option list; Registry.Unmarshal is "
             "total on every byte string; KERNEL: on the mirror-kernel model (Model/Mirror.v, tied to the real mirror by per-message "
             "correspondence) no proposed header, prevote or precommit message - any height, round, key id, signature, commit proof - "
             "makes the kernel panic in any state reached by any history of messages and replayed headers, provided no accepted header "
             "announces a next validator set of total power 0 (C09_kernel_messages_never_panic_partial; without that proviso the "
             "statement is refuted by a witness: ByzantineMajority(0)); a replayed header panics exactly when its commit proof is for a "
             "round the mirror has left (known finding, witness replayed on the code on every run). FULL CLOSURE (Properties/C09KernelX.v): the same "
             "over histories with crashes after every store write, restarts, round entrances of the state machine (any key), reads of "
             "both view managers and the local validator's own votes and proposed headers - every operation returns or panics at one "
             "of seven NAMED sites exactly under a stated decidable guard (replay for an earlier round; entrance into an orphaned / "
             "unknown round or below the initial height; local vote without keys / for a nil key; empty local action; the model's fuel "
             "site), start-up never fails, reads and entrances leave the kernel state unchanged (C09X_mstep_total_partial and "
             "companions; side conditions: admissible peer operations, a well-formed own proposed header - shown necessary). "
             "Monitored, not proved: the real "
             "mirror under generated histories with replays, a stalling / racing state machine and gossip reader, and under batches of "
             "overlapping messages from CONCURRENT callers some of which give up while the kernel works on their request (process death "
             "or a kernel that stops answering = violation); entrance of a slow state machine into an orphaned round panics (known finding). State-machine panics are "
             "C08's findings; deadlock / slow-driver liveness is named residue.",
    "note": "Trusted: Coq kernel, the translator and extractors (cross-checked by differential execution every run), "
            "the Go harness. Residue: deadlock / slow-driver liveness, typed-nil interface values passed as option values.",
    "design_ref": "DESIGN.md 4 (C09), design/C09.md",
}

GEN_MODULES = ["Gen/Mappers.v", "Gen/Options.v", "Gen/RegistryC09.v"]


def coq_str(s):
    return '"%s"%%string' % s


def coq_opt_str(s):
    return "None" if s is None else "(Some %s)" % coq_str(s)


class Ctx:
    """shared state of one run: translated?, proved?, harness binary"""
    def __init__(self):
        self.translated = False
        self.proved = False
        self.binary = None
        self.found_violation_for_broken = False


def pairs(out, name):
    m = re.search(name + r"\s*=\s*(.*?)\n\s*:", out, flags=re.S)
    if not m:
        return None
    return [(int(a), int(b)) for a, b in re.findall(r"\((\d+),\s*(\d+)\)", m.group(1))]


# ---------------------------------------------------------------------------------------------- (i) mappers
MAPPER_COLS = [("aav", "ph"), ("aav", "prevote"), ("aav", "precommit"), ("dd", "ph"), ("dd", "prevote"), ("dd", "precommit")]


def replay_mapper(c, ctx, mapper, method, v):
    """one witness against the real code, no recover: exit status + stderr are the observation"""
    p = subprocess.run([ctx.binary, "mapper-one", mapper, method, str(v)], stdout=subprocess.PIPE, stderr=subprocess.PIPE,
                       text=True, env=vcheck.goenv(), timeout=60)
    return {"cmd": "bin/h_c09 mapper-one %s %s %d" % (mapper, method, v), "exit_status": p.returncode,
            "stdout": p.stdout.strip(), "stderr_head": p.stderr.strip().splitlines()[:1]}


def sub_mappers(c, ctx):
    rc, out, err = c.run_bin(ctx.binary, ["mappers"])
    rows = []
    for line in out.splitlines():
        f = line.split()
        if len(f) == 9:
            rows.append((int(f[0]), None if f[1] == "-" else f[1], None if f[2] == "-" else f[2],
                         [None if x == "P" else x for x in f[3:]]))
    if rc != 0 or len(rows) != 256:
        c.fail_obligation("harness-run mappers", "rc=%s rows=%d %s" % (rc, len(rows), err[-500:]))
        return
    defined = [r for r in rows if r[1] or r[2]]
    c.coverage["mappers"] = {
        "evaluations": 256 * 6, "distinct_nontrivial": sum(1 for r in rows if r[1]) * 2 + sum(1 for r in rows if r[2]) * 4,
        "rule": "every uint8 value 0..255 returned by a stub FineGrainedConsensusHandler through the 3 methods of both shipped "
                "mappers under recover; non-trivial = value is a defined constant of the compiled enumeration (stringer name)",
        "defined_ph_results": sum(1 for r in rows if r[1]), "defined_vote_results": sum(1 for r in rows if r[2]),
        "panics_on_defined": sum(1 for r in defined for i, o in enumerate(r[3]) if o is None and (r[1] if i % 3 == 0 else r[2])),
    }
    c.samples += [{"mapper_row": {"value": r[0], "ph": r[1], "vote": r[2], "feedback": r[3]}} for r in rows[5:8]]
    if not ctx.translated:
        # no generated model: fall back to what the implementation alone shows (a panic on a defined value)
        for r in defined:
            for i, o in enumerate(r[3]):
                nm = r[1] if i % 3 == 0 else r[2]
                if nm and o is None:
                    m, meth = MAPPER_COLS[i]
                    c.report("mapper-%s-%s-%s" % (m, meth, nm), "real %s mapper panics on %s" % (m, nm),
                             {"sub": "mappers", "replay": replay_mapper(c, ctx, m, meth, r[0])})
        return
    body = """From Coq Require Import List NArith String Bool.
From GV Require Import Base.Ints Gen.Mappers Monitors.C09m Proofs.Mappers.
Import ListNotations. Local Open Scope N_scope.
Definition rows : list (N * (option string * option string) * list (option string)) := [%s].
Definition oseq (a b : option string) : bool :=
  match a, b with Some x, Some y => String.eqb x y | None, None => true | _, _ => false end.
Definition name_of (v : N) (l : list (N * string)) : option string :=
  match find (fun p => N.eqb (fst p) v) l with Some p => Some (snd p) | None => None end.
Definition model_row (v : N) : list (option string) :=
  [model_obs (aav_map_ph v); model_obs (aav_map_vote v); model_obs (aav_map_vote v);
   model_obs (dd_map_ph v); model_obs (dd_map_vote v); model_obs (dd_map_vote v)].
Fixpoint diff (v : N) (i : N) (a b : list (option string)) : list (N * N) :=
  match a, b with
  | x :: a', y :: b' => (if oseq x y then [] else [(v, i)]) ++ diff v (i + 1) a' b'
  | [], [] => [] | _, _ => [(v, 99)] end.
Definition corr_bad := Eval vm_compute in flat_map (fun r => let '(v, _, obs) := r in diff v 0 (model_row v) obs) rows.
Definition enum_bad := Eval vm_compute in flat_map (fun r => let '(v, (pn, vn), _) := r in
  (if oseq pn (name_of v names_HandleProposedHeaderResult) then [] else [(v, 0)]) ++
  (if oseq vn (name_of v names_HandleVoteProofsResult) then [] else [(v, 1)])) rows.
Definition mon_row (pn vn : option string) (obs : list (option string)) : list bool :=
  match obs with
  | [a; b; c; d; e; f] =>
    [match pn with Some n => ph_mon AAV n a | None => true end;
     match vn with Some n => vote_mon AAV n b | None => true end;
     match vn with Some n => vote_mon AAV n c | None => true end;
     match pn with Some n => ph_mon DD n d | None => true end;
     match vn with Some n => vote_mon DD n e | None => true end;
     match vn with Some n => vote_mon DD n f | None => true end]
  | _ => [false] end.
Fixpoint falses (v i : N) (l : list bool) : list (N * N) :=
  match l with [] => [] | b :: t => (if b then [] else [(v, i)]) ++ falses v (i + 1) t end.
Definition mon_bad := Eval vm_compute in flat_map (fun r => let '(v, (pn, vn), obs) := r in falses v 0 (mon_row pn vn obs)) rows.
Definition model_mon_bad := Eval vm_compute in flat_map (fun r => let '(v, _, _) := r in
  falses v 0 (mon_row (name_of v names_HandleProposedHeaderResult) (name_of v names_HandleVoteProofsResult) (model_row v))) rows.
Print corr_bad. Print enum_bad. Print mon_bad. Print model_mon_bad.
""" % ";\n".join("(%d, (%s, %s), [%s])" % (v, coq_opt_str(pn), coq_opt_str(vn), "; ".join(coq_opt_str(o) for o in obs))
                 for v, pn, vn, obs in rows)
    # Proofs.Mappers may not build when an obligation broke; the evaluation only needs its definitions
    ok, cout = c.coq_eval("c09_mappers", body)
    if not ok and "Proofs.Mappers" in cout or (not ok and not ctx.proved):
        body2 = body.replace("Monitors.C09m Proofs.Mappers.", "Monitors.C09m.\n" + MODEL_OBS_DEF)
        ok, cout = c.coq_eval("c09_mappers", body2)
    if not ok:
        c.fail_obligation("cases-eval mappers", cout[-1500:])
        return
    corr_bad, enum_bad = pairs(cout, "corr_bad") or [], pairs(cout, "enum_bad") or []
    mon_bad, model_mon_bad = pairs(cout, "mon_bad") or [], pairs(cout, "model_mon_bad") or []
    byv = {r[0]: r for r in rows}
    for v, i in mon_bad[:4]:
        m, meth = MAPPER_COLS[i]
        nm = byv[v][1] if i % 3 == 0 else byv[v][2]
        obs = byv[v][3][i]
        what = ("real %s mapper %s(%s) " % (m, meth, nm)) + ("panics" if obs is None else "returns %s, not the documented class" % obs)
        c.report("mapper-%s-%s-%s" % (m, meth, nm), what,
                 {"sub": "mappers", "inputs": {"mapper": m, "method": meth, "value": v, "name": nm}, "observed": obs,
                  "replay": replay_mapper(c, ctx, m, meth, v)})
        ctx.found_violation_for_broken = True
    c.coverage["mappers"].update({"correspondence_disagreements": len(corr_bad), "enumeration_disagreements": len(enum_bad),
                                  "monitor_failures_on_impl": len(mon_bad), "traces_validated_against_impl": 256 * 6})
    if corr_bad and not mon_bad:
        c.fail_obligation("correspondence Gen/Mappers.v vs tm/tmconsensus/feedbackmapper.go",
                          "generated tables and real mappers differ at (value, column) %s" % corr_bad[:8], {"inputs": corr_bad[:8]})
    if enum_bad and not mon_bad:
        c.fail_obligation("correspondence generated enumerations vs compiled stringer names",
                          "differ at (value, 0=ph/1=vote) %s" % enum_bad[:8], {"inputs": enum_bad[:8]})
    ctx.model_mon_bad_mappers = model_mon_bad



# ---------------------------------------------------------------------------------------------- (ii) options
VAL = {"n": "VNil", "s": "VSet", "b": "VBad", "e": "VEmpty"}


def parse_option_table():
    """names / can_err flags of the extracted option table (Gen/Options.v)"""
    txt = open(os.path.join(vcheck.COQ, "Gen", "Options.v")).read()
    return [(m.group(1), m.group(2) == "true", m.group(3) == "true")
            for m in re.finditer(r'mk_opt "(\w+)" \[.*?\] (true|false) (true|false)', txt)]


def gen_option_cases(c, table):
    rng = c.rng
    names = [t[0] for t in table]
    canerr = [t[0] for t in table if t[1]]
    cases = []

    def val_ok(n, v):
        # WithTimeoutStrategy(ctx, nil) wraps the nil strategy in a non-nil timer (see design/C09.md, open observation):
        # not generated; "e" only means something for the genesis
        if n == "WithTimeoutStrategy" and v == "n":
            return "s"
        if v == "e" and n != "WithGenesis":
            return "s"
        return v

    def shuffled(l):
        l = list(l)
        for i in range(len(l) - 1, 0, -1):
            j = rng.below(i + 1)
            l[i], l[j] = l[j], l[i]
        return l

    def add(kind, ctor, ci, opts):
        cases.append({"id": len(cases), "kind": kind, "ctor": ctor, "chain_init": ci, "opts": [(n, val_ok(n, v)) for n, v in opts]})

    full = [(n, "s") for n in names]
    for ctor in ("N", "M"):
        for ci in (0, 1):
            add("full", ctor, ci, shuffled(full))
            add("empty", ctor, ci, [])
        for n in names:
            add("minus-one", ctor, rng.below(2), shuffled([o for o in full if o[0] != n]))
            add("one-nil", ctor, rng.below(2), shuffled([(m, "n" if m == n else "s") for m, _ in full]))
        for n in canerr:
            base = shuffled([o for o in full if o[0] != n])
            for pos in (0, len(base) // 2, len(base)):
                add("one-bad", ctor, rng.below(2), base[:pos] + [(n, "b")] + base[pos:])
            add("one-bad-missing-others", ctor, 0, [(n, "b")] + shuffled(full)[:5])
        add("all-bad", ctor, 0, shuffled([o for o in full if o[0] not in canerr]) + [(n, "b") for n in canerr])
        add("bad-then-good", ctor, 0, [(n, "b") for n in canerr] + shuffled(full))
        for ci in (0, 1):
            add("empty-genesis", ctor, ci, shuffled([(m, "e" if m == "WithGenesis" else "s") for m, _ in full]))
        add("signer-without-action-store", ctor, 1, shuffled([o for o in full if o[0] != "WithActionStore"]))
        add("nil-signer-without-action-store", ctor, 1, shuffled([(m, "n" if m == "WithSigner" else "s") for m, _ in full if m != "WithActionStore"]))
    n_random = 100 if c.tier == "quick" else 4000
    for _ in range(n_random):
        ctor = "N" if rng.chance(1, 2) else "M"
        keep = rng.choice([3, 6, 8, 9, 10])      # out of 10
        opts = []
        for n in names:
            if rng.below(10) < keep:
                r = rng.below(20)
                v = "s" if r < 14 else "n" if r < 18 else "b" if r < 19 else "e"
                opts.append((n, v))
                if rng.chance(1, 12):             # the same option twice (the later value wins)
                    opts.append((n, rng.choice(["s", "n", "b"])))
        add("random", ctor, rng.below(2), shuffled(opts))
    for _ in range(40 if c.tier == "quick" else 400):
        opts = [(rng.choice(names), rng.choice(["s", "s", "n", "b"])) for _ in range(rng.below(4))]
        add("tiny", "N" if rng.chance(1, 2) else "M", rng.below(2), opts)
    return cases


def case_line(cs):
    spec = ",".join("%s=%s" % (n, v) for n, v in cs["opts"]) or "-"
    return "%d %s %d %s" % (cs["id"], cs["ctor"], cs["chain_init"], spec)


def run_option_cases(c, ctx, cases):
    """runs the harness; a process crash (background goroutine panic) is attributed to the case in progress"""
    obs, crashes = {}, {}
    todo = list(cases)
    restarts = 0
    while todo and restarts < 60:
        p = subprocess.run([ctx.binary, "options"], input="\n".join(case_line(x) for x in todo) + "\n",
                           stdout=subprocess.PIPE, stderr=subprocess.PIPE, text=True, env=vcheck.goenv(), timeout=1200)
        begun = None
        for line in p.stdout.splitlines():
            f = line.split(" ", 2)
            if f[0] == "B":
                begun = int(f[1])
            elif len(f) >= 2 and f[0].isdigit():
                obs[int(f[0])] = (f[1], f[2] if len(f) > 2 else "")
        if p.returncode == 0:
            break
        restarts += 1
        if begun is None or begun in obs:
            c.fail_obligation("harness-run options", "harness died (rc=%s) outside a case: %s" % (p.returncode, p.stderr[-400:]))
            break
        head = [l for l in p.stderr.splitlines() if l.strip()][:2]
        crashes[begun] = {"exit_status": p.returncode, "stderr_head": head}
        obs[begun] = ("C", " ".join(head)[:160])
        ids = [x["id"] for x in todo]
        todo = todo[ids.index(begun) + 1:]
    return obs, crashes


def proj_obs(o):
    """harness line -> (code, names): 0 panic/crash, 1 error, 2 running+serving, 3 running but wedged"""
    k, rest = o
    if k in ("P", "C"):
        return 0, []
    if k == "E":
        return 1, [x for x in rest.split(",") if x.startswith("With")]
    if k == "R":
        return (2 if rest.startswith("Feedback") and "+" not in rest else 3), []
    return 9, []


def coq_case(cs, o, idx):
    """option names are written as indexes into the generated option table (string literals are slow to parse)"""
    code, names = o
    return "(%d, (%s, %s), [%s], (%d, [%s]))" % (
        cs["id"], "true" if cs["ctor"] == "N" else "false", "true" if cs["chain_init"] else "false",
        "; ".join("(%d, %s)" % (idx[n], VAL[v]) for n, v in cs["opts"]), code, "; ".join(str(idx.get(n, 999)) for n in names))


OPTIONS_EVAL = """From Coq Require Import List NArith String Bool.
From GV Require Import Model.OptTypes Model.Options Gen.Options Monitors.C09m.
Import ListNotations.
Definition nm (i : nat) : string := nth i (map o_name option_table) "?"%%string.
Definition cases : list (nat * (bool * bool) * list (string * argval) * (nat * list string)) :=
  map (fun r : nat * (bool * bool) * list (nat * argval) * (nat * list nat) =>
         let '(id, b, opts, (code, names)) := r in
         (id, b, map (fun p => (nm (fst p), snd p)) opts, (code, map nm names))) [%s].
Fixpoint dedup (l : list string) : list string :=
  match l with [] => [] | x :: t => x :: filter (fun y => negb (String.eqb x y)) (dedup t) end.
Definition ctor_of (isnew : bool) := if isnew then ctor_New else ctor_NewMirror.
Definition model (isnew ci : bool) (opts : list (string * argval)) : nat * list string :=
  let o := obs_of (run_ctor (ctor_of isnew) option_table ci opts) in (fst o, dedup (snd o)).
Definition obs_eqb (a b : nat * list string) : bool :=
  Nat.eqb (fst a) (fst b) && (if list_eq_dec string_dec (snd a) (snd b) then true else false).
Definition corr_bad := Eval vm_compute in flat_map (fun r => let '(id, (isnew, ci), opts, obs) := r in
  if obs_eqb (model isnew ci opts) obs then [] else [(id, fst (model isnew ci opts))]) cases.
Definition mon_bad := Eval vm_compute in flat_map (fun r => let '(id, (isnew, ci), opts, obs) := r in
  if ctor_mon_for (ctor_of isnew) (negb isnew) ci option_table opts obs then [] else [(id, 0)]) cases.
Definition model_mon_bad := Eval vm_compute in flat_map (fun r => let '(id, (isnew, ci), opts, _) := r in
  if ctor_mon_for (ctor_of isnew) (negb isnew) ci option_table opts (model isnew ci opts) then [] else [(id, 0)]) cases.
Definition nontrivial := Eval vm_compute in List.length (filter (fun r => let '(_, (isnew, ci), opts, _) := r in
  negb (Nat.eqb (fst (model isnew ci opts)) 1) || negb (is_nil_list (rejected_opts option_table opts))) cases).
Print corr_bad. Print mon_bad. Print model_mon_bad. Print nontrivial.
"""


def missing_for_key(cs, table, o):
    """a stable key for a monitor failure: what the caller was entitled to and did not get"""
    code, names = o
    ctor = "New" if cs["ctor"] == "N" else "NewMirror"
    if code == 0:
        return "ctor-%s-panic" % ctor
    if code == 3:
        return "ctor-%s-wedged" % ctor
    canerr = set(t[0] for t in table if t[1])
    rejected = [n for n, v in cs["opts"] if v == "b" and n in canerr]
    lost = [n for n in rejected if n not in names]
    if lost:
        return "ctor-%s-unreported-rejected-%s" % (ctor, lost[0])
    eff = {}
    for n, v in cs["opts"]:
        if not (v == "b" and n in canerr):
            eff[n] = v
    req = [t[0] for t in table if t[2]]
    lost = [n for n in req if eff.get(n, "n") == "n" and n not in names]
    if cs["ctor"] == "M":
        lost = [n for n in lost if n in ("WithCommittedHeaderStore", "WithMirrorStore", "WithRoundStore", "WithValidatorStore",
                                         "WithSignatureScheme", "WithHashScheme", "WithCommonMessageSignatureProofScheme",
                                         "WithGenesis", "WithWatchdog")]
    if lost:
        return "ctor-%s-unreported-%s" % (ctor, lost[0])
    return "ctor-%s-other" % ctor


def sub_options(c, ctx):
    stale = not ctx.translated
    if stale and not os.path.exists(os.path.join(vcheck.COQ, "Gen", "Options.v")):
        c.fail_obligation("options: no extracted option table", getattr(c, "broken", {}).get("log", ""))
        return
    # when the extractor rejected the current source the table of the previous run is used for option NAMES only:
    # the real constructors are still driven, and a panic / crash / wedge is a violation without any model
    table = parse_option_table()
    if len(table) < 5:
        c.fail_obligation("options: option table not parsed", "found %d options" % len(table))
        return
    cases = gen_option_cases(c, table)
    ro = getattr(ctx, "replay_obj", None)
    if ro and ro.get("sub") == "options" and ro.get("case"):
        rc = dict(ro["case"])
        rc["id"] = len(cases)
        rc["opts"] = [tuple(x) for x in rc["opts"]]
        cases.append(rc)
    obs, crashes = run_option_cases(c, ctx, cases)
    unknown = [(i, o) for i, o in obs.items() if o[0] == "U"]
    if unknown:
        c.fail_obligation("options: harness does not know option", "option %s exists in opts.go but harness/c09/options.go cannot build it" % unknown[0][1][1])
    done = [x for x in cases if x["id"] in obs and obs[x["id"]][0] != "U"]
    pobs = {x["id"]: proj_obs(obs[x["id"]]) for x in done}
    if stale:
        seen = set()
        for x in done:
            code = pobs[x["id"]][0]
            key = "ctor-%s-%s" % ("New" if x["ctor"] == "N" else "NewMirror", "panic" if code == 0 else "wedged")
            if code in (0, 3) and key not in seen:
                seen.add(key)
                c.report(key, "real tmengine.%s: %s for options [%s] chain_init=%d" % (
                    "New" if x["ctor"] == "N" else "NewMirror", "PANIC/CRASH " + obs[x["id"]][1][:120] if code == 0 else "does not serve",
                    case_line(x).split(" ", 3)[3], x["chain_init"]),
                    {"sub": "options", "case": {k: x[k] for k in ("kind", "ctor", "chain_init", "opts")},
                     "observed": list(obs[x["id"]]), "crash": crashes.get(x["id"]),
                     "how": "echo '%s' | bin/h_c09 options" % case_line(x)})
        c.coverage["options"] = {"evaluations": len(done), "traces_validated_against_impl": len(done),
                                 "note": "extractor failed on the current source: implementation-only panic search"}
        return
    corr_bad, mon_bad, model_mon_bad, nontriv = [], [], [], 0
    idx = {t[0]: i for i, t in enumerate(table)}
    shard = 400
    for si in range(0, len(done), shard):
        sh = done[si:si + shard]
        ok, cout = c.coq_eval("c09_options_%d" % (si // shard), OPTIONS_EVAL % ";\n".join(coq_case(x, pobs[x["id"]], idx) for x in sh))
        if not ok:
            c.fail_obligation("cases-eval options", cout[-1500:])
            return
        corr_bad += pairs(cout, "corr_bad") or []
        mon_bad += [a for a, _ in (pairs(cout, "mon_bad") or [])]
        model_mon_bad += [a for a, _ in (pairs(cout, "model_mon_bad") or [])]
        m = re.search(r"nontrivial\s*=\s*(\d+)", cout)
        nontriv += int(m.group(1)) if m else 0
    byid = {x["id"]: x for x in cases}
    kinds = {}
    for x in done:
        kinds[x["kind"]] = kinds.get(x["kind"], 0) + 1
    codes = {}
    for i, o in pobs.items():
        codes[o[0]] = codes.get(o[0], 0) + 1
    c.coverage["options"] = {
        "evaluations": len(done), "distinct_nontrivial": len(set(case_line(x).split(" ", 1)[1] for x in done)),
        "cases_running_or_rejecting": nontriv,
        "rule": "option lists for tmengine.New (N) and tmengine.NewMirror (M): complete sets in random order, minus one, one nil, "
                "one rejected value at three positions, empty genesis, signer/action-store, random subsets with duplicates and "
                "nil/rejected values, tiny lists; on an initialised and an uninitialised chain; after a successful construction "
                "one vote message is sent through AcceptAllValidFeedbackMapper (liveness probe) and the instance is shut down",
        "case_kinds": kinds, "observed_outcomes(0=panic,1=error,2=running,3=wedged)": codes,
        "process_crashes": len(crashes), "traces_validated_against_impl": len(done),
        "correspondence_disagreements": len(corr_bad), "monitor_failures_on_impl": len(mon_bad),
    }
    c.samples += [{"option_case": case_line(byid[i]), "observed": list(obs[i])} for i in [0, 1, len(cases) // 2]]
    reported = set()
    for i in mon_bad:
        cs = byid[i]
        key = missing_for_key(cs, table, pobs[i])
        if key in reported:
            continue
        reported.add(key)
        what = "real tmengine.%s: %s for options [%s] chain_init=%d" % (
            "New" if cs["ctor"] == "N" else "NewMirror",
            {0: "PANIC/CRASH " + obs[i][1][:120], 1: "error names only [%s]" % obs[i][1], 2: "returned a running instance",
             3: "instance does not serve: " + obs[i][1]}.get(pobs[i][0], "?"), case_line(cs).split(" ", 3)[3], cs["chain_init"])
        c.report(key, what, {"sub": "options", "case": {k: cs[k] for k in ("kind", "ctor", "chain_init", "opts")},
                             "observed": list(obs[i]), "crash": crashes.get(i),
                             "how": "echo '%s' | bin/h_c09 options" % case_line(cs)})
        ctx.found_violation_for_broken = True
        if len(reported) >= 6:
            break
    bad_corr_only = [(i, m) for i, m in corr_bad if i not in mon_bad]
    if bad_corr_only:
        i, m = bad_corr_only[0]
        c.fail_obligation("correspondence Model/Options.v+Gen/Options.v vs tmengine.New/NewMirror",
                          "model outcome %d, real outcome %s on: %s (%d cases differ)" % (m, list(obs[i]), case_line(byid[i]), len(bad_corr_only)),
                          {"sub": "options", "case": {k: byid[i][k] for k in ("kind", "ctor", "chain_init", "opts")},
                           "how": "echo '%s' | bin/h_c09 options" % case_line(byid[i])})
    ctx.model_mon_bad_options = [case_line(byid[i]) for i in model_mon_bad[:3]]



# ---------------------------------------------------------------------------------------------- (iii) registry
REGISTRY_EVAL = """From Coq Require Import List NArith ZArith String Bool.
From GV Require Import Base.Ints Model.Registry Gen.RegistryC09.
Import ListNotations. Local Open Scope N_scope.
Definition known : list (list N) := [[101;100;50;53;53;49;57]; [99;48;57;116;121;112;101;56]].
Definition cases : list (N * list N * (N * N)) := [%s].
Definition model (b : list N) := uobs (unmarshal unmarshal_len_guard registry_prefix_size known b).
Definition corr_bad := Eval vm_compute in flat_map (fun r => let '(id, b, (k, n)) := r in
  let m := model b in if N.eqb (fst m) k && N.eqb (snd m) n then [] else [(id, fst m)]) cases.
Definition model_panics := Eval vm_compute in flat_map (fun r => let '(id, b, _) := r in
  if N.eqb (fst (model b)) 0 then [(id, 0)] else []) cases.
Print corr_bad. Print model_panics.
"""


def gen_registry_inputs(c):
    rng = c.rng
    prefixes = [b"ed25519\x00", b"c09type8", b"ed25519x", b"\x00" * 8, b"ed2551\x00\x00", b"unknown\x00", b"\x00ed25519"]
    out = [b""]
    for p in prefixes:
        for k in range(0, 9):
            out.append(p[:k])
        for extra in (0, 1, 31, 32, 33, 64):
            out.append(p + bytes(rng.below(256) for _ in range(extra)))
    for _ in range(100 if c.tier == "quick" else 5000):
        n = rng.below(48)
        if rng.chance(1, 2):
            b = rng.choice(prefixes)[:n] + bytes(rng.below(256) for _ in range(max(0, n - 8)))
        else:
            b = bytes(rng.below(256) if rng.chance(3, 4) else 0 for _ in range(n))
        out.append(b)
    seen, uniq = set(), []
    for b in out:
        if b not in seen:
            seen.add(b)
            uniq.append(b)
    return uniq


def sub_registry(c, ctx):
    inputs = gen_registry_inputs(c)
    ro = getattr(ctx, "replay_obj", None)
    if ro and ro.get("sub") == "registry" and "input_hex" in ro:
        inputs.append(bytes.fromhex(ro["input_hex"]))
    rc, out, err = c.run_bin(ctx.binary, ["registry"], stdin="\n".join(b.hex() or "-" for b in inputs) + "\n")
    lines = out.splitlines()
    if rc != 0 or len(lines) != len(inputs):
        c.fail_obligation("harness-run registry", "rc=%s lines=%d/%d %s" % (rc, len(lines), len(inputs), err[-400:]))
        return
    obs = []
    for l in lines:
        f = l.split()
        obs.append((0, 0) if f[0] == "P" else (1, 0) if f[0] == "E" else (2, int(f[1])))
    c.coverage["registry"] = {
        "evaluations": len(inputs), "distinct_nontrivial": sum(1 for o in obs if o[0] == 2) + sum(1 for b in inputs if len(b) < 8),
        "rule": "byte strings of length 0..72: every proper prefix of 7 type prefixes (registered, full width, unknown, zero, shifted), "
                "registered prefixes + 0/1/31/32/33/64 key bytes, random strings; non-trivial = shorter than the prefix or delegated",
        "lengths_below_prefix": sum(1 for b in inputs if len(b) < 8), "delegated": sum(1 for o in obs if o[0] == 2),
        "errors": sum(1 for o in obs if o[0] == 1), "panics": sum(1 for o in obs if o[0] == 0),
        "traces_validated_against_impl": len(inputs),
    }
    c.samples += [{"registry_input_hex": inputs[i].hex(), "observed": obs[i]} for i in (1, 12, len(inputs) // 2)]
    # monitor on the implementation: Unmarshal returns a key or an error for every byte string, never panics
    panics = [i for i, o in enumerate(obs) if o[0] == 0]
    for i in panics[:1]:
        b = inputs[i]
        p = subprocess.run([ctx.binary, "registry-one", b.hex() or "-"], stdout=subprocess.PIPE, stderr=subprocess.PIPE, text=True,
                           env=vcheck.goenv(), timeout=60)
        c.report("registry-unmarshal-panic-len-%s" % ("lt8" if len(b) < 8 else "ge8"),
                 "real Registry.Unmarshal panics on the %d-byte input %s" % (len(b), b.hex() or "(empty)"),
                 {"sub": "registry", "input_hex": b.hex(), "how": "bin/h_c09 registry-one %s" % (b.hex() or "-"),
                  "replay": {"exit_status": p.returncode, "stderr_head": p.stderr.strip().splitlines()[:1]}})
        ctx.found_violation_for_broken = True
    if not ctx.translated:
        return
    ok, cout = c.coq_eval("c09_registry", REGISTRY_EVAL % ";\n".join(
        "(%d, [%s], (%d, %d))" % (i, ";".join(str(x) for x in b), obs[i][0], obs[i][1]) for i, b in enumerate(inputs)))
    if not ok:
        c.fail_obligation("cases-eval registry", cout[-1500:])
        return
    corr_bad = pairs(cout, "corr_bad") or []
    c.coverage["registry"]["correspondence_disagreements"] = len(corr_bad)
    ctx.model_mon_bad_registry = [inputs[i].hex() for i, _ in (pairs(cout, "model_panics") or [])[:3]]
    if corr_bad and not panics:
        i, m = corr_bad[0]
        c.fail_obligation("correspondence Model/Registry.v+Gen/RegistryC09.v vs gcrypto.Registry.Unmarshal",
                          "model outcome %d, real %s on input %s (%d differ)" % (m, obs[i], inputs[i].hex(), len(corr_bad)),
                          {"sub": "registry", "input_hex": inputs[i].hex()})


MODEL_OBS_DEF = """Definition fb_name (fb : N) : string :=
  match find (fun p => N.eqb (fst p) fb) names_Feedback with Some p => snd p | None => "?"%string end.
Definition model_obs (r : res N) : option string :=
  match r with Ok fb => Some (fb_name fb) | Panic _ => None end.
"""

from c09_kernel import sub_kernel

SUBCHECKS = [sub_mappers, sub_options, sub_registry, sub_kernel]


def main(argv):
    c = vcheck.Check("C09", argv)
    ctx = Ctx()
    c.trusted += [
        "translator /verif/translate (Go subset -> Gallina; 'opaque' callee results as parameters) for feedbackmapper.go, "
        "handler.go, feedback.go; structure extractors translate/c09_*.go; all cross-checked on every run by differential execution",
        "Go harness /verif/harness/c09 and the Cases/*.v evaluations inside coqc (vm_compute)",
    ]
    c.assumes += ["a FineGrainedConsensusHandler returns only declared constants of its result enumeration (the mirror's return "
                  "statements; shown for the kernel model by the kernel sub-checks)"]
    c.grep_gate()
    if c.replay:
        try:
            ctx.replay_obj = json.load(open(c.replay))
        except Exception:
            ctx.replay_obj = None
    # 1. regenerate the models from the source, 2. re-check the theorems against them
    tok, tlog = c.translate(only=GEN_MODULES)
    ctx.translated = tok
    if not tok:
        c.obligations.append("translate " + ",".join(GEN_MODULES))
        c.broken = {"file": "translate", "log": tlog[-800:]}
    else:
        ctx.proved = c.prove("C09")
        # kernel part: totality of the mirror-kernel model for peer messages (Proofs/MirrorTotal.v)
        ctx.proved = c.prove("C09Kernel") and ctx.proved
        # ... and over the full closure: crashes, restarts, entrances, reads, local actions (Proofs/MirrorTotalX/M/K.v)
        ctx.proved = c.prove("C09KernelX") and ctx.proved
    # 3. harness for the real code
    ctx.binary, blog = c.go_build("c09")
    if ctx.binary is None:
        c.fail_obligation("harness-build", blog[-1500:])
        c.finish()
    # 4. sub-checks: run the real code, evaluate model + monitors inside coqc, report violations with concrete inputs
    import time as _t
    c.coverage["stage_seconds"] = {"translate+prove+build": round(_t.time() - c.t0, 1)}
    from concurrent.futures import ThreadPoolExecutor

    def timed(sc):
        t1 = _t.time()
        sc(c, ctx)
        c.coverage["stage_seconds"][sc.__name__] = round(_t.time() - t1, 1)
    # the sub-checks are independent (own harness sub-command, own Cases/*.v file); run them side by side
    with ThreadPoolExecutor(max_workers=4) as ex:
        for fut in [ex.submit(timed, sc) for sc in SUBCHECKS]:
            fut.result()
    # 4b. start-up of the state machine on populated stores: a restarted node must enter the height / round its stores
    # prescribe (monitor c10_sm_resume) - entering any other round makes the mirror kernel panic on the round entrance
    # (view not found), i.e. a restart at the wrong moment would crash the engine for good. Model-walked histories with
    # Stop/Start events and the scripted restart histories, on the real tmstate.StateMachine.
    if not c.replay:
        import sm_common as S
        t1 = _t.time()
        tok_sm, binary_sm = S.prepare(c)
        if binary_sm is not None:
            keep = dict(c.coverage)
            n_sm, steps_sm = (24, 40) if c.tier == "quick" else (200, 60)
            S.walked(c, "C09", binary_sm, "c09sm", n_sm, steps_sm, ["c10_sm_resume"], lambda name, evs, fl: name)
            wk = {k: c.coverage[k] for k in ("evaluations", "traces", "event_distribution") if k in c.coverage}
            S.run_scenarios(c, binary_sm, "c09sm", ["c10_sm_resume"], lambda name, evs, fl: name)
            sc = c.coverage.get("scripted_histories")
            for k in list(c.coverage):
                if k not in keep:
                    del c.coverage[k]
            c.coverage.update(keep)
            c.coverage["state_machine_restarts"] = {"walked": wk, "scripted": sc}
        c.coverage["stage_seconds"]["state_machine_restarts"] = round(_t.time() - t1, 1)
    # 5. an obligation broke but no sub-check found a failing input on the implementation
    if not ctx.proved and not any(v[3] for v in c.violations):
        b = getattr(c, "broken", {"file": "?", "log": ""})
        c.fail_obligation("Properties/C09.v (%s)" % b["file"], b["log"],
                          {"model_monitor_failures": {"mappers": getattr(ctx, "model_mon_bad_mappers", None),
                                                      "options": getattr(ctx, "model_mon_bad_options", None),
                                                      "registry": getattr(ctx, "model_mon_bad_registry", None)}})
    tot_eval = sum(v.get("evaluations", 0) for v in c.coverage.values() if isinstance(v, dict))
    tot_nt = sum(v.get("distinct_nontrivial", 0) for v in c.coverage.values() if isinstance(v, dict))
    tot_tr = sum(v.get("traces_validated_against_impl", 0) for v in c.coverage.values() if isinstance(v, dict))
    c.coverage.update({"evaluations": tot_eval, "distinct_nontrivial": tot_nt, "traces_validated_against_impl": tot_tr})
    c.finish()
