"""C15 - Block hashes bind all header fields; sign bytes are domain separated (DESIGN 4, C15)."""
import copy
import hashlib
import json
import re
import vcheck

META = {
    "engine": "coq+correspondence",
    "technique": "Coq proofs (injectivity of a concatenation of self-delimiting fields, hex/decimal rendering, sorted "
                 "commit-proof entries) over an executable Gallina model of the exact byte strings hashed/signed by "
                 "SimpleHashScheme/SimpleSignatureScheme; differential correspondence on every run: BLAKE2b-256 of the "
                 "model's byte string vs the real Block()/PubKeys()/VotePowers() output, sign bytes byte for byte; "
                 "pair monitors (equivalent headers/targets <=> equal outputs) evaluated in coqc on the real outputs",
    "level": "Full for the modelled schemes: ser_header ignores the Hash field and validator lists, is invariant under map "
             "order / signature order, and is injective up to header equivalence (all fields except Hash; commit-proof "
             "entries as a finite map of signature multisets; validator sets only through their two hashes); equal block "
             "hashes imply equivalence or an explicit BLAKE2b collision; prevote/precommit/proposal sign bytes are injective "
             "over (kind,height,round,hash incl. nil) / the signed proposal fields and pairwise disjoint across kinds. "
             "All for arbitrary byte strings (bytes < 256) and arbitrary N heights/rounds. Not expressible in the pure model and therefore only "
             "observed by the harness: the returned byte slices are kept and re-read after later calls (a result that shares memory with "
             "a reused buffer changes under the caller).",
    "note": "Trusted: Coq kernel; the hand-written model is tied to the Go code only by the differential run (generated "
            "headers/targets, hash compared through python hashlib.blake2b(digest_size=32)); BLAKE2b itself is an "
            "uninterpreted Section variable (binding is stated modulo an explicit collision). The validator lists are not "
            "hashed by Block() (only their two hashes): stated as a theorem, the gap is C07's subject. The proposal "
            "signature covers Height, Round, PrevBlockHash, PrevAppStateHash, DataID and the proposal annotations only.",
    "design_ref": "DESIGN.md 4 (C15), design/C15.md",
}

HDR_FIELDS = ["pbh", "height", "round", "pkh", "proofs", "vs", "nvs", "dataid", "pash", "user", "driver"]


# ----------------------------------------------------------------------------- generation
def rbytes(rng, n):
    return bytes(rng.below(256) for _ in range(n))


def hx(b):
    return None if b is None else b.hex()


def rfield(rng, allow_none=True):
    k = rng.below(12)
    if k == 0 and allow_none:
        return None
    if k == 1:
        return ""
    n = rng.choice([1, 2, 8, 20, 32, 32, 32, 32, 33, 48])
    return rbytes(rng, n).hex()


def rheight(rng):
    k = rng.below(8)
    if k == 0:
        return rng.choice([0, 1, 9, 10, 11, 99, 100, 101, 2**32 - 1, 2**32, 2**63, 2**64 - 1])
    bits = rng.below(65)
    return (rng.next() >> (64 - bits)) if bits else 0


def rround(rng):
    k = rng.below(6)
    if k == 0:
        return rng.choice([0, 1, 9, 10, 11, 2**31, 2**32 - 1])
    bits = rng.below(33)
    return (rng.next() >> (64 - bits)) if bits else 0


def rsig(rng):
    kid = rbytes(rng, rng.choice([0, 1, 2, 2, 2, 4])).hex()
    sg = rbytes(rng, rng.choice([0, 1, 2, 32, 64, 64])).hex()
    return [kid, sg]


def rproofs(rng):
    if rng.below(10) == 0:
        return None
    n = rng.choice([0, 1, 2, 2, 3, 3, 4])
    keys = []
    while len(keys) < n:
        k = rng.below(10)
        if k <= 1:
            key = ""
        elif k == 2 and keys and keys[-1] != "":
            key = keys[-1].encode().hex()          # raw key = the TEXT of another key's hex rendering
        elif k == 3:
            key = b"<nil>".hex()                   # raw key that spells the nil marker
        elif k == 4:
            key = rbytes(rng, rng.choice([1, 2, 3])).hex()
        else:
            key = rbytes(rng, 32).hex()
        if key not in keys:
            keys.append(key)
    out = []
    for key in keys:
        if rng.below(12) == 0:
            sigs = None
        else:
            sigs = [rsig(rng) for _ in range(rng.choice([0, 1, 1, 2, 3, 4]))]
            if sigs and rng.below(5) == 0:
                sigs.append(list(sigs[0]))         # duplicate signature (multiset)
        out.append([key, sigs])
    return out


def rheader(rng):
    return {
        "hash": rfield(rng), "pbh": rfield(rng), "height": str(rheight(rng)), "round": rround(rng),
        "pkh": rfield(rng, False), "proofs": rproofs(rng),
        "vs": [rfield(rng), rfield(rng)], "nvs": [rfield(rng), rfield(rng)],
        "dataid": rfield(rng), "pash": rfield(rng),
        "user": rfield(rng) if rng.below(2) else None, "driver": rfield(rng) if rng.below(2) else None,
        "vs_vals": [rbytes(rng, 4).hex() for _ in range(rng.below(3))],
        "nvs_vals": [rbytes(rng, 4).hex() for _ in range(rng.below(3))],
    }


def flip(hexs, rng):
    """change one byte (or make non-empty)"""
    b = bytearray(bytes.fromhex(hexs or ""))
    if not b:
        return "00"
    i = rng.below(len(b))
    b[i] ^= 1 << rng.below(8)
    return bytes(b).hex()


def header_variants(h, rng):
    """(name, header) list: near-copies of h; which of them are equivalent is decided by the Coq monitor."""
    out = []

    def var(name, f):
        g = copy.deepcopy(h)
        r = f(g)
        if r is not False:
            out.append((name, g))

    var("same", lambda g: None)
    var("hashfield", lambda g: g.update(hash=flip(g["hash"], rng)))
    var("validators-only", lambda g: g.update(vs_vals=g["vs_vals"] + ["0a0b0c0d"], nvs_vals=[]))

    def nil_empty(g):
        for f in ("hash", "pbh", "dataid", "pash"):
            if g[f] is None:
                g[f] = ""
            elif g[f] == "":
                g[f] = None
        for f in ("vs", "nvs"):
            g[f] = [("" if x is None else (None if x == "" else x)) for x in g[f]]
        if g["proofs"] is None:
            g["proofs"] = []
        elif g["proofs"] == []:
            g["proofs"] = None
        else:
            for e in g["proofs"]:
                e[1] = [] if e[1] is None else (None if e[1] == [] else e[1])
    var("nil-vs-empty", nil_empty)

    def perm(g):
        if not g["proofs"]:
            return False
        g["proofs"].reverse()
        for e in g["proofs"]:
            if e[1]:
                e[1].reverse()
    var("map-order", perm)

    for f in ("pbh", "dataid", "pash"):
        var("flip-" + f, lambda g, f=f: g.update({f: flip(g[f], rng)}))
    var("flip-pkh", lambda g: g.update(pkh=flip(g["pkh"], rng)))
    var("height+1", lambda g: g.update(height=str((int(g["height"]) + 1) % 2**64)))
    var("round+1", lambda g: g.update(round=(g["round"] + 1) % 2**32))
    var("height<->round", lambda g: False if int(g["height"]) >= 2**32 or int(g["height"]) == g["round"]
        else g.update(height=str(g["round"]), round=int(g["height"])))
    for f in ("vs", "nvs"):
        for i in (0, 1):
            var("flip-%s%d" % (f, i), lambda g, f=f, i=i: g[f].__setitem__(i, flip(g[f][i], rng)))

        def shift(g, f=f):
            a, b = g[f][0] or "", g[f][1] or ""
            if len(a) >= 2:
                g[f] = [a[:-2], a[-2:] + b]
            elif len(b) >= 2:
                g[f] = [a + b[:2], b[2:]]
            else:
                return False
        var("shift-" + f, shift)
    var("swap-valsets", lambda g: False if g["vs"] == g["nvs"] else g.update(vs=g["nvs"], nvs=g["vs"]))

    def shift_data(g):
        a, b = g["dataid"] or "", g["pash"] or ""
        if len(a) < 2:
            return False
        g["dataid"], g["pash"] = a[:-2], a[-2:] + b
    var("shift-dataid-pash", shift_data)
    for f in ("user", "driver"):
        var("ann-%s-toggle" % f, lambda g, f=f: g.update({f: ("" if g[f] is None else None)}))
        var("ann-%s-flip" % f, lambda g, f=f: g.update({f: flip(g[f], rng)}))
    var("ann-swap", lambda g: False if g["user"] == g["driver"] else g.update(user=g["driver"], driver=g["user"]))

    # previous-commit proof entries
    def with_sig(fn):
        def f(g):
            ents = [e for e in (g["proofs"] or []) if e[1]]
            if not ents:
                return False
            return fn(g, rng.choice(ents))
        return f
    var("sig-flip", with_sig(lambda g, e: e[1][rng.below(len(e[1]))].__setitem__(1, flip(e[1][0][1], rng))))
    var("keyid-flip", with_sig(lambda g, e: e[1][rng.below(len(e[1]))].__setitem__(0, flip(e[1][0][0], rng))))
    var("sig-drop", with_sig(lambda g, e: e[1].pop()))
    var("sig-dup", with_sig(lambda g, e: e[1].append(list(e[1][0]))))

    def keyid_shift(g, e):
        s = e[1][0]
        if len(s[1]) < 2:
            return False
        s[0], s[1] = s[0] + s[1][:2], s[1][2:]
    var("keyid-sig-shift", with_sig(keyid_shift))

    def sig_move(g, e):
        others = [x for x in g["proofs"] if x is not e]
        if not others:
            return False
        o = rng.choice(others)
        o[1] = (o[1] or []) + [e[1].pop()]
    var("sig-move-entry", with_sig(sig_move))

    def sig_add(g):
        if not g["proofs"]:
            return False
        e = rng.choice(g["proofs"])
        e[1] = (e[1] or []) + [rsig(rng)]
    var("sig-add", sig_add)

    def entry_add(g):
        key = rbytes(rng, 32).hex()
        g["proofs"] = (g["proofs"] or []) + [[key, [] if rng.below(2) else [rsig(rng)]]]
    var("entry-add", entry_add)

    def entry_drop(g):
        if not g["proofs"]:
            return False
        g["proofs"].pop(rng.below(len(g["proofs"])))
    var("entry-drop", entry_drop)

    def key_change(g):
        if not g["proofs"]:
            return False
        e = rng.choice(g["proofs"])
        nk = flip(e[0], rng) if e[0] else rbytes(rng, 32).hex()
        if nk in [x[0] for x in g["proofs"]]:
            return False
        e[0] = nk
    var("key-change", key_change)

    def key_nil(g):
        if not g["proofs"] or "" in [x[0] for x in g["proofs"]]:
            return False
        rng.choice(g["proofs"])[0] = ""
    var("key-to-nil", key_nil)

    def key_swap(g):
        p = g["proofs"] or []
        if len(p) < 2 or p[0][1] == p[1][1]:
            return False
        p[0][1], p[1][1] = p[1][1], p[0][1]
    var("entries-swap-sigs", key_swap)
    return out


def sign_group(rng):
    """near-identical sign targets of all three kinds"""
    h = rheight(rng)
    r = rround(rng)
    bh = rbytes(rng, rng.choice([1, 2, 32, 32, 32, 33])).hex()
    hdr = rheader(rng)
    hdr["height"] = str(h)
    out = []

    def vote(name, kind, hh, rr, b):
        out.append((name, {"op": kind, "h": str(hh % 2**64), "r": rr % 2**32, "bh": b}))
    for kind in ("prevote", "precommit"):
        vote(kind, kind, h, r, bh)
        vote(kind + "-again", kind, h, r, bh)
        vote(kind + "-nil", kind, h, r, None if rng.below(2) else "")
        vote(kind + "-h+1", kind, h + 1, r, bh)
        vote(kind + "-r+1", kind, h, r + 1, bh)
        vote(kind + "-flip", kind, h, r, flip(bh, rng))
        vote(kind + "-longer", kind, h, r, bh + "00")
        vote(kind + "-nil-h+1", kind, h + 1, r, None)
        if h < 2**32 and h != r:
            vote(kind + "-h<->r", kind, r, h, bh)
        # digit boundary: (h=1, r=11..) vs (h=11, r=1..)
        vote(kind + "-digits-a", kind, 1, 11, bh)
        vote(kind + "-digits-b", kind, 11, 1, bh)
        # a block hash that spells a label: must stay inside the hex field
        vote(kind + "-label-hash", kind, h, r, ("\nRound=%d\n" % r).encode().hex())
    pu = rfield(rng) if rng.below(2) else None
    pd = rfield(rng) if rng.below(2) else None

    def prop(name, f):
        g = copy.deepcopy(hdr)
        c = {"op": "proposal", "hdr": g, "r": r, "user": pu, "driver": pd}
        if f(g, c) is not False:
            out.append((name, c))
    prop("proposal", lambda g, c: None)
    prop("proposal-unsigned-fields", lambda g, c: g.update(hash=flip(g["hash"], rng), vs=g["nvs"], nvs=g["vs"],
                                                            proofs=None, user=flip(g["user"], rng), round=g["round"] ^ 1))
    prop("proposal-h+1", lambda g, c: g.update(height=str((h + 1) % 2**64)))
    prop("proposal-r+1", lambda g, c: c.update(r=(r + 1) % 2**32))
    for f in ("pbh", "pash", "dataid"):
        prop("proposal-flip-" + f, lambda g, c, f=f: g.update({f: flip(g[f], rng)}))
        prop("proposal-nilempty-" + f, lambda g, c, f=f: g.update({f: None}) if g[f] == "" else (g.update({f: ""}) if g[f] is None else False))

    def shiftp(g, c):
        a, b = g["pbh"] or "", g["pash"] or ""
        if len(a) < 2:
            return False
        g["pbh"], g["pash"] = a[:-2], a[-2:] + b
    prop("proposal-shift-pbh-pash", shiftp)
    for f in ("user", "driver"):
        prop("proposal-ann-%s-toggle" % f, lambda g, c, f=f: c.update({f: ("" if c[f] is None else None)}))
        prop("proposal-ann-%s-flip" % f, lambda g, c, f=f: c.update({f: flip(c[f], rng)}))
    prop("proposal-ann-swap", lambda g, c: False if c["user"] == c["driver"] else c.update(user=c["driver"], driver=c["user"]))
    return out


def list_groups(rng):
    """pubkeys / votepowers near-copies"""
    out = []
    keys = [rbytes(rng, rng.choice([1, 32, 32, 48])).hex() for _ in range(rng.choice([1, 1, 2, 3, 5]))]
    pk = [("pubkeys", keys), ("pubkeys-again", list(keys)), ("pubkeys-rev", list(reversed(keys))),
          ("pubkeys-drop", keys[:-1]), ("pubkeys-add", keys + [rbytes(rng, 32).hex()]),
          ("pubkeys-flip", [flip(keys[0], rng)] + keys[1:]), ("pubkeys-merge", [keys[0] + "".join(keys[1:2])] + keys[2:]),
          ("pubkeys-empty", [])]
    pows = [rheight(rng) for _ in range(rng.choice([1, 1, 2, 3, 5]))]
    vp = [("votepowers", pows), ("votepowers-again", list(pows)), ("votepowers-rev", list(reversed(pows))),
          ("votepowers-drop", pows[:-1]), ("votepowers-add", pows + [rheight(rng)]),
          ("votepowers-inc", [(pows[0] + 1) % 2**64] + pows[1:]),
          ("votepowers-digits-a", [1, 11]), ("votepowers-digits-b", [11, 1]), ("votepowers-digits-c", [111]),
          ("votepowers-empty", [])]
    return ([(n, {"op": "pubkeys", "keys": k}) for n, k in pk],
            [(n, {"op": "votepowers", "pows": [str(p) for p in v]}) for n, v in vp])


def generate(c, n_hdr_groups, n_sign_groups, n_list_groups):
    cases = []

    def add(group, items):
        for name, cs in items:
            cs = dict(cs)
            cs["id"] = len(cases)
            cs["g"] = group
            cs["variant"] = name
            cases.append(cs)
    g = 0
    firsts = []
    for _ in range(n_hdr_groups):
        h = rheader(c.rng)
        vs = header_variants(h, c.rng)
        add(g, [(n, {"op": "block", "hdr": x}) for n, x in vs])
        firsts.append(h)
        g += 1
    add(g, [("cross-%d" % i, {"op": "block", "hdr": x}) for i, x in enumerate(firsts[:40])])
    g += 1
    for _ in range(n_sign_groups):
        add(g, sign_group(c.rng))
        g += 1
    for _ in range(n_list_groups):
        pk, vp = list_groups(c.rng)
        add(g, pk)
        g += 1
        add(g, vp)
        g += 1
    return cases


# ----------------------------------------------------------------------------- Gallina rendering
def gl_bytes(hexs):
    """byte string as a Gallina term: 7 bytes per primitive-int literal (literal elaboration is the bottleneck of coqc)"""
    b = bytes.fromhex(hexs or "")
    if not b:
        return "[]"
    ints = [int.from_bytes(b[i:i + 7].ljust(7, b"\0"), "big") for i in range(0, len(b), 7)]
    return "(ub %d%%uint63 [%s]%%uint63)" % (len(b), ";".join(map(str, ints)))


def gl_opt(hexs):
    return "None" if hexs is None else "(Some %s)" % gl_bytes(hexs)


def gl_header(h):
    proofs = ";".join("(%s,[%s])" % (gl_bytes(k), ";".join("Build_sparse_sig %s %s" % (gl_bytes(a), gl_bytes(b)) for a, b in (s or [])))
                      for k, s in (h["proofs"] or []))

    def vs(v, vals):
        return "(Build_valset [%s] %s %s)" % (";".join("(%s,%d)" % (gl_bytes(k), i + 1) for i, k in enumerate(vals or [])),
                                              gl_bytes(v[0]), gl_bytes(v[1]))
    return "(Build_header %s %s %s (Build_commit_proof %d %s [%s]) %s %s %s %s (Build_annotations %s %s))" % (
        gl_bytes(h["hash"]), gl_bytes(h["pbh"]), h["height"], h["round"], gl_bytes(h["pkh"]), proofs,
        vs(h["vs"], h.get("vs_vals")), vs(h["nvs"], h.get("nvs_vals")), gl_bytes(h["dataid"]), gl_bytes(h["pash"]),
        gl_opt(h["user"]), gl_opt(h["driver"]))


def gl_target(cs):
    if cs["op"] in ("prevote", "precommit"):
        return "(SignVote %s (Build_vote_target %s %d %s))" % (cs["op"].capitalize(), cs["h"], cs["r"], gl_bytes(cs["bh"]))
    return "(SignProposal %s %d (Build_annotations %s %s))" % (gl_header(cs["hdr"]), cs["r"], gl_opt(cs["user"]), gl_opt(cs["driver"]))


def gl_out(o):
    """observed output -> Gallina list N ([] when the call failed)"""
    return gl_bytes(o) if o is not None else "[]"


def gl_out_opt(o):
    return gl_opt(o)


COQ_HEAD = """From Coq Require Import List NArith ZArith Bool Uint63.
From GV Require Import Base.Ints Model.TextFmt Model.HashScheme Model.SignBytes Monitors.C15m.
Import ListNotations. Local Open Scope N_scope.
(* input plumbing: a byte string is given as its length and 7-byte big-endian chunks in primitive ints *)
Definition i2n (x : int) : N := Z.to_N (Uint63.to_Z x).
Definition b7 (x : int) : list N := map (fun k => i2n ((x >> k) land 255)%uint63) [48;40;32;24;16;8;0]%uint63.
Definition ub (len : int) (l : list int) : list N := firstn (N.to_nat (i2n len)) (flat_map b7 l).
Arguments ub len%uint63_scope l%uint63_scope.
Definition bad_pairs {A B} (mon : A -> B -> A -> B -> bool) (l : list (N * N * A * B)) : list (N * N) :=
  flat_map (fun a => let '(ia, ga, ha, xa) := a in
    flat_map (fun b => let '(ib, gb, hb, xb) := b in
      if ga =? gb then (if mon ha xa hb xb then [] else [(ia, ib)]) else []) l) l.
Definition r2o (r : res (list N)) : option (list N) := match r with Ok s => Some s | Panic _ => None end.
(* output plumbing: model byte strings are printed as (length, 7-byte chunks in primitive ints); length 2^20 = the model panicked *)
Definition n2i (n : N) : int := Uint63.of_Z (Z.of_N n).
Fixpoint pack7 (l : list N) (acc : int) (k : nat) : list int :=
  match l with
  | [] => match k with O => [] | _ => [acc] end
  | b :: l' => let acc' := ((acc << 8) lor n2i b)%uint63 in
               match k with 6%nat => acc' :: pack7 l' 0%uint63 0 | _ => pack7 l' acc' (S k) end
  end.
Definition packl (l : list N) : N * list int := (N.of_nat (length l), pack7 l 0%uint63 0).
Definition packo (o : option (list N)) : N * list int := match o with Some s => packl s | None => (1048576, []) end.
"""


def unpack(length, ints):
    """inverse of packl in COQ_HEAD; length 2^20 = the model panicked"""
    if length == 1048576:
        return None
    out = b""
    for k, v in enumerate(ints):
        n = min(7, length - 7 * k)
        out += v.to_bytes(7, "big")[7 - n:]
    assert len(out) == length, (length, len(out))
    return out


def grab_packed(out, name):
    m = re.search(r"\b" + name + r"\s*=\s*(.*?)\n\s*:", out, flags=re.S)
    if not m:
        return None
    res = []
    for i, ln, body in re.findall(r"\(\s*(\d+)\s*,\s*\(\s*(\d+)\s*,\s*\[([^\]]*)\]\s*\)\s*\)", m.group(1)):
        res.append((int(i), unpack(int(ln), [int(x) for x in re.findall(r"\d+", body.replace("%uint63", ""))])))
    return res


def grab_pairs(out, name):
    m = re.search(r"\b" + name + r"\s*=\s*(.*?)\n\s*:", out, flags=re.S)
    if not m:
        return None
    return [(int(a), int(b)) for a, b in re.findall(r"\(\s*(\d+)\s*,\s*(\d+)\s*\)", m.group(1))]


def evaluate(c, binary, cases, tag):
    """Run the real code and the model on the cases. Returns dict with impl outputs, model outputs, bad pairs."""
    stdin = "\n".join(json.dumps({k: v for k, v in cs.items() if k not in ("g", "variant") and not k.startswith("_")})
                      for cs in cases) + "\n"
    rc, out, err = c.run_bin(binary, stdin=stdin)
    impl = {}
    for line in out.splitlines():
        i, r = line.split(" ", 1)
        impl[int(i)] = r
    alias = []
    for i in list(impl):
        if "~" in impl[i]:   # "<result>~<id>": the bytes returned for case <id> changed when case i was computed
            alias.append((int(impl[i].split("~")[1].split("/")[0]), i))
            impl[i] = re.sub(r"~\d+", "", impl[i])
    res = {"impl": impl, "harness_err": err[-500:] if (rc != 0 or len(impl) != len(cases)) else "", "unstable": [], "alias": alias,
           "model": {}, "bad": {}, "model_bad": {}, "equiv_pairs": 0, "coq_log": ""}
    obs = {}
    for cs in cases:
        r = impl.get(cs["id"], "?")
        if "/" in r:
            res["unstable"].append(cs["id"])
            r = r.split("/")[0]
        obs[cs["id"]] = r[:-1] if r.endswith(".") else None
    res["obs"] = obs
    blocks = [cs for cs in cases if cs["op"] == "block"]
    signs = [cs for cs in cases if cs["op"] in ("prevote", "precommit", "proposal")]
    pks = [cs for cs in cases if cs["op"] == "pubkeys"]
    vps = [cs for cs in cases if cs["op"] == "votepowers"]
    body = COQ_HEAD
    body += "Definition blocks : list (N * N * header * list N) := [%s].\n" % ";\n".join(
        "(%d,%d,%s,%s)" % (cs["id"], cs["g"], gl_header(cs["hdr"]), gl_out(obs[cs["id"]])) for cs in blocks)
    body += "Definition signs : list (N * N * sign_target * list N) := [%s].\n" % ";\n".join(
        "(%d,%d,%s,%s)" % (cs["id"], cs["g"], gl_target(cs), gl_out(obs[cs["id"]])) for cs in signs)
    body += "Definition pks : list (N * N * list (list N) * option (list N)) := [%s].\n" % ";\n".join(
        "(%d,%d,[%s],%s)" % (cs["id"], cs["g"], ";".join(gl_bytes(k) for k in cs["keys"]), gl_out_opt(obs[cs["id"]])) for cs in pks)
    body += "Definition vps : list (N * N * list N * option (list N)) := [%s].\n" % ";\n".join(
        "(%d,%d,[%s],%s)" % (cs["id"], cs["g"], ";".join(cs["pows"]), gl_out_opt(obs[cs["id"]])) for cs in vps)
    body += """
Definition m_blocks := Eval vm_compute in map (fun c => let '(i,_,h,_) := c in (i, packl (ser_header h))) blocks.
Definition m_signs := Eval vm_compute in map (fun c => let '(i,_,t,_) := c in (i, packl (sign_bytes t))) signs.
Definition m_pks := Eval vm_compute in map (fun c => let '(i,_,k,_) := c in (i, packo (r2o (ser_pubkeys k)))) pks.
Definition m_vps := Eval vm_compute in map (fun c => let '(i,_,p,_) := c in (i, packo (r2o (ser_votepowers p)))) vps.
Definition bad_blocks := Eval vm_compute in bad_pairs c15_block_pair_mon blocks.
Definition bad_signs := Eval vm_compute in bad_pairs c15_sign_pair_mon signs.
Definition bad_pks := Eval vm_compute in bad_pairs c15_pubkeys_pair_mon pks.
Definition bad_vps := Eval vm_compute in bad_pairs c15_votepowers_pair_mon vps.
(* the same monitors on the MODEL's outputs with the identity as (collision-free) hash *)
Definition mbad_blocks := Eval vm_compute in bad_pairs c15_block_pair_mon (map (fun c => let '(i,g,h,_) := c in (i,g,h,ser_header h)) blocks).
Definition mbad_signs := Eval vm_compute in bad_pairs c15_sign_pair_mon (map (fun c => let '(i,g,t,_) := c in (i,g,t,sign_bytes t)) signs).
Definition mbad_pks := Eval vm_compute in bad_pairs c15_pubkeys_pair_mon (map (fun c => let '(i,g,k,_) := c in (i,g,k,r2o (ser_pubkeys k))) pks).
Definition mbad_vps := Eval vm_compute in bad_pairs c15_votepowers_pair_mon (map (fun c => let '(i,g,p,_) := c in (i,g,p,r2o (ser_votepowers p))) vps).
Definition equiv_pairs := Eval vm_compute in
  (N.of_nat (length (bad_pairs (fun a _ b _ => negb (hdr_equivb a b)) blocks)),
   N.of_nat (length (bad_pairs (fun a _ b _ => negb (sign_target_eqb a b)) signs))).
Print m_blocks. Print m_signs. Print m_pks. Print m_vps.
Print bad_blocks. Print bad_signs. Print bad_pks. Print bad_vps.
Print mbad_blocks. Print mbad_signs. Print mbad_pks. Print mbad_vps.
Print equiv_pairs.
"""
    ok, cout = c.coq_eval("c15_cases_%s" % tag, body)
    if not ok:
        res["coq_log"] = cout[-2000:]
        return res
    for name in ("m_blocks", "m_signs", "m_pks", "m_vps"):
        for i, b in grab_packed(cout, name) or []:
            res["model"][i] = b
    for name in ("bad_blocks", "bad_signs", "bad_pks", "bad_vps"):
        res["bad"][name] = grab_pairs(cout, name) or []
        res["model_bad"][name] = grab_pairs(cout, "m" + name) or []
    ep = grab_pairs(cout, "equiv_pairs")
    res["equiv_pairs"] = ep[0] if ep else (0, 0)
    if not isinstance(res["equiv_pairs"], tuple):
        res["equiv_pairs"] = (0, 0)
    return res


def diff_fields(a, b):
    """which consensus fields differ between two header dicts (proofs compared as map of multisets)"""
    def norm(h, f):
        if f in ("user", "driver"):
            return h[f]
        if f == "proofs":
            return sorted((k, sorted(map(tuple, s or []))) for k, s in (h[f] or []))
        if f in ("vs", "nvs"):
            return [x or "" for x in h[f]]
        if f in ("height", "round"):
            return int(h[f])
        return h[f] or ""
    return [f for f in HDR_FIELDS if norm(a, f) != norm(b, f)]


def main(argv):
    c = vcheck.Check("C15", argv)
    c.trusted += [
        "hand-written model coq/Model/{TextFmt,HashScheme,SignBytes}.v, tied to the Go code by differential correspondence "
        "on every run (harness/c15 drives the real SimpleHashScheme / SimpleSignatureScheme via tmconsensus.*SignBytes)",
        "python hashlib.blake2b(digest_size=32) used to hash the model's byte string for the comparison with Block()",
        "Go fmt verbs %x/%d, sort.Strings and bytes.Buffer behave as documented (validated by the correspondence)",
    ]
    c.assumes += ["BLAKE2b-256 is an uninterpreted function H: binding is proved modulo an explicit H-collision",
                  "bytes are < 256 (wf_* guards); heights/rounds arbitrary N",
                  "Go map keys are unique (NoDup guard on the association list)"]
    c.grep_gate()
    proved = c.prove("C15")
    mok, mlog = c.coq_make(["Monitors/C15m.vo", "Model/SignBytes.vo"])
    if not mok:
        c.fail_obligation("model-build", mlog[-1500:])
        c.finish()

    binary, blog = c.go_build("c15")
    if binary is None:
        c.fail_obligation("harness-build", blog[-1500:])
        c.finish()

    if c.replay:
        rp = json.load(open(c.replay))
        cases = rp.get("cases", [])
        for i, cs in enumerate(cases):
            cs["id"] = i
            cs.setdefault("g", 0)
            cs.setdefault("variant", "replay")
    elif c.tier == "quick":
        cases = generate(c, 14, 6, 4)
    else:
        cases = generate(c, 120, 40, 30)

    byid = {cs["id"]: cs for cs in cases}
    shards, cur = [], []
    # shard on group boundaries
    for cs in cases:
        if len(cur) >= 700 and cs["g"] != cur[-1]["g"]:
            shards.append(cur)
            cur = []
        cur.append(cs)
    if cur:
        shards.append(cur)

    corr_bad, unstable, bad, model_bad, alias = [], [], [], [], []
    equiv_b = equiv_s = 0
    n_eval = 0
    for si, sh in enumerate(shards):
        r = evaluate(c, binary, sh, str(si))
        if r["harness_err"]:
            c.fail_obligation("harness-run", r["harness_err"])
        if r["coq_log"]:
            c.fail_obligation("cases-eval", r["coq_log"])
            continue
        unstable += r["unstable"]
        alias += r.get("alias", [])
        equiv_b += r["equiv_pairs"][0]
        equiv_s += r["equiv_pairs"][1]
        for cs in sh:
            i = cs["id"]
            n_eval += 1
            cs["_obs"] = r["obs"][i]
            cs["_raw"] = r["impl"].get(i)
            m = r["model"].get(i, "missing")
            o = r["obs"][i]
            if cs["op"] in ("block", "pubkeys", "votepowers"):
                want = None if m is None else (hashlib.blake2b(m, digest_size=32).hexdigest() if m != "missing" else "missing")
            else:
                want = m.hex() if isinstance(m, bytes) else m
            if want != o:
                corr_bad.append((i, want, o))
        for name in r["bad"]:
            bad += [(name, a, b) for a, b in r["bad"][name] if a < b]
            model_bad += [(name, a, b) for a, b in r["model_bad"][name] if a < b]

    def strip(cs):
        return {k: v for k, v in cs.items() if k != "id" and not k.startswith("_")}

    # ---- verdict (DESIGN 2.5)
    seen_keys = set()
    for i in unstable[:3]:
        c.report("block-nondeterministic", "real Block() returned different hashes for the same header (map iteration order)",
                 {"cases": [strip(byid[i])], "observed": [byid[i].get("_raw")]})
    for a, b in alias[:1]:
        ca, cb = byid[a], byid[b]
        c.report("returned-bytes-alias:%s" % ca["op"], "the bytes the real code returned for one target (%s, %s) CHANGED when a later call (%s, %s) was made: "
                 "the result shares memory with a reused buffer, so what a caller holds as the sign bytes / hash of one target becomes "
                 "the content of another (domain separation and injectivity are lost for a caller that keeps the result)"
                 % (ca["op"], ca["variant"], cb["op"], cb["variant"]),
                 {"cases": [strip(ca), strip(cb)], "how": "both cases, in this order, through bin/h_c15; the harness keeps the returned slices and re-reads them"})
    for name, a, b in bad:
        ca, cb = byid[a], byid[b]
        if name == "bad_blocks":
            d = diff_fields(ca["hdr"], cb["hdr"])
            if d:
                key = "block-hash-ignores:" + "+".join(d)
                what = "real Block() gives EQUAL hashes for two headers that differ in %s (variants %s / %s)" % (
                    ",".join(d), ca["variant"], cb["variant"])
            else:
                key = "block-hash-unstable:" + cb["variant"]
                what = "real Block() gives DIFFERENT hashes for two equivalent headers (variants %s / %s)" % (ca["variant"], cb["variant"])
        elif name == "bad_signs":
            key = "sign-bytes:%s-vs-%s" % (ca["op"], cb["op"])
            same = ca.get("_obs") == cb.get("_obs")
            what = "real sign bytes of two targets (%s / %s) are %s although the targets are %s" % (
                ca["variant"], cb["variant"], "EQUAL" if same else "DIFFERENT", "different" if same else "the same")
        else:
            key = "%s:%s-vs-%s" % (ca["op"], ca["variant"], cb["variant"])
            what = "real %s hash does not separate / identify the two lists" % ca["op"]
        if key in seen_keys:
            continue
        seen_keys.add(key)
        if len(seen_keys) > 4 and key not in c.known:
            continue
        c.report(key, what, {"cases": [strip(ca), strip(cb)], "variants": [ca["variant"], cb["variant"]],
                             "observed_real_outputs": [ca.get("_obs"), cb.get("_obs")],
                             "how": "./check C15 --replay <this file>  (both cases are run through the real code; "
                                    "the pair monitor c15_*_pair_mon is evaluated on the two real outputs)"})
    found = bool(bad or unstable or alias)
    if corr_bad and not found:
        i, want, o = corr_bad[0]
        c.fail_obligation("correspondence model vs simplehashscheme.go/simplesignaturescheme.go",
                          "model and real code differ on %d of %d cases; first: case %d (%s/%s) model-derived=%s real=%s" % (
                              len(corr_bad), n_eval, i, byid[i]["op"], byid[i]["variant"], want, o),
                          {"cases": [strip(byid[j]) for j, _, _ in corr_bad[:3]]})
    if model_bad and not found:
        name, a, b = model_bad[0]
        c.fail_obligation("model violates its own monitor (%s)" % name, "cases %d/%d" % (a, b),
                          {"cases": [strip(byid[a]), strip(byid[b])]})
    if not proved and not found:
        bk = getattr(c, "broken", {"file": "?", "log": ""})
        c.fail_obligation("Properties/C15.v (%s)" % bk["file"], bk["log"], {"searched_cases": n_eval})

    ops = {}
    for cs in cases:
        ops[cs["op"]] = ops.get(cs["op"], 0) + 1
    hdrs = [cs["hdr"] for cs in cases if cs["op"] == "block"]
    c.samples = [{"variant": cs["variant"], "case": strip(cs)} for cs in cases[:2] + cases[-2:]]
    c.coverage.update({
        "evaluations": n_eval,
        "distinct_nontrivial": len(set(json.dumps(strip(cs), sort_keys=True) for cs in cases
                                       if not (cs["op"] == "block" and not cs["hdr"]["proofs"]))),
        "rule": "groups of near-identical inputs (one base + ~35 single-field variants: byte flips, nil/empty, field-boundary "
                "shifts, map/signature order, commit-proof signature add/drop/dup/move, key changes incl. nil and keys that spell "
                "another key's hex text); every ordered pair inside a group is judged by the Coq pair monitor on the REAL outputs; "
                "every case is compared with the model (BLAKE2b-256 of the model bytes / sign bytes byte for byte); "
                "non-trivial = block cases with a non-empty commit proof, and all sign/list cases",
        "traces_validated_against_impl": n_eval,
        "ops": ops,
        "headers_with_multi_entry_proof": sum(1 for h in hdrs if h["proofs"] and len(h["proofs"]) > 1),
        "headers_with_nil_block_key": sum(1 for h in hdrs if h["proofs"] and any(k == "" for k, _ in h["proofs"])),
        "headers_with_annotations(nil/empty/nonempty)": [sum(1 for h in hdrs if h["user"] is None), sum(1 for h in hdrs if h["user"] == ""),
                                                         sum(1 for h in hdrs if h["user"])],
        "equivalent_ordered_pairs_judged(block,sign)": [equiv_b, equiv_s],
        "correspondence_disagreements": len(corr_bad),
        "monitor_failures_on_impl": len(bad) + len(unstable),
        "monitor_failures_on_model": len(model_bad),
    })
    c.finish()
