"""C17 - Gossip broadcasts everything the node knows and nothing else (DESIGN 4, C17)."""
import json
import os
import re
import vcheck

META = {
    "engine": "coq+correspondence",
    "technique": "Coq proof by induction over all update sequences on an executable model of the ChattyStrategy kernel "
                 "(step : gstate -> update -> gstate * list bcast); differential correspondence: generated update "
                 "sequences through the REAL strategy (recording ConsensusBroadcaster, real SimpleCommonMessageSignatureProof "
                 "with real ed25519 vote signatures) vs the model evaluated by vm_compute in coqc, exact send sequence per "
                 "update compared; soundness/completeness monitors evaluated on the implementation's sends",
    "level": "Full: for every sequence of NetworkViewUpdates whose first update carries a voting view and whose vote maps each "
             "reference one validator set, every proposed header and every (kind,height,round,key hash,block hash,signer,signature) "
             "of the Committing/Voting/NextRound views and every precommit of the NilVotedRound view has been broadcast at or "
             "before the step that received it (complete); for ALL sequences every broadcast item occurs in the update being "
             "processed (sound); a peer merging all broadcasts knows exactly the union of the views (peer_can_reconstruct). "
             "Two defects of the pinned tree were repaired by fix: commits (diff by count; first-update nil-voted round).",
    "note": "Trusted: Coq kernel; the hand-written model (tied on every run by exact per-step correspondence with the real code on "
            "generated sequences); Go channel semantics (single kernel goroutine, blocking sends); context cancellation and "
            "aliasing of view maps by the engine after sending are outside the model. No axioms.",
    "design_ref": "DESIGN.md 4 (C17), design/C17.md",
}

NVALS = 8
BIG = 4611686018427387904  # stands for anything the harness could not name (corrupt value)


# ----------------------------------------------------------------------------- generation
class Gen:
    """Generates update sequences by walking a small mirror-like world and then perturbing it."""

    def __init__(self, rng):
        self.rng = rng
        self.stats = {}

    def note(self, k):
        self.stats[k] = self.stats.get(k, 0) + 1

    def fresh_view(self, h, r):
        return {"h": h, "r": r, "phs": [], "pv": {}, "pc": {}, "kh": {}}

    def clone(self, v):
        return {"h": v["h"], "r": v["r"], "phs": list(v["phs"]),
                "pv": {t: set(s) for t, s in v["pv"].items()},
                "pc": {t: set(s) for t, s in v["pc"].items()},
                "kh": dict(v["kh"])}

    def mutate_view(self, v, st):
        """One change inside a view of unchanged height/round. Returns the kind of change."""
        rng = self.rng
        k = rng.below(100)
        which = "pv" if rng.chance(1, 2) else "pc"
        m = v[which]
        targets = [0] + st["hashes"]
        if k < 30:      # a new signer for some target (growth)
            t = rng.choice(targets)
            voted = set().union(*m.values()) if m else set()
            free = [s for s in range(NVALS) if s not in voted]
            if free:
                m.setdefault(t, set()).add(rng.choice(free))
                return "grow-" + which
            return "none"
        if k < 45:      # equivocation: a validator that voted for A also votes for B (union count unchanged)
            voted = sorted(set().union(*m.values())) if m else []
            if voted:
                s = rng.choice(voted)
                others = [t for t in targets if s not in m.get(t, set())]
                if others:
                    m.setdefault(rng.choice(others), set()).add(s)
                    return "equivocate-" + which
            return "none"
        if k < 57:      # equal-size different signer set: replace one signer (not monotone)
            ts = [t for t in m if m[t]]
            if ts:
                t = rng.choice(ts)
                voted = set().union(*m.values())
                free = [s for s in range(NVALS) if s not in voted]
                if free:
                    m[t].remove(rng.choice(sorted(m[t])))
                    m[t].add(rng.choice(free))
                    return "swap-signer-" + which
            return "none"
        if k < 64:      # move a vote to another target (same union, same count)
            ts = [t for t in m if m[t]]
            if ts:
                t = rng.choice(ts)
                s = rng.choice(sorted(m[t]))
                t2 = rng.choice(targets)
                if t2 != t:
                    m[t].remove(s)
                    if not m[t]:
                        del m[t]
                    m.setdefault(t2, set()).add(s)
                    return "move-vote-" + which
            return "none"
        if k < 80:      # a new proposed header
            st["next_ph"] += 1
            v["phs"].append(st["next_ph"])
            if rng.chance(2, 3):
                st["next_hash"] += 1
                st["hashes"].append(st["next_hash"])
            return "new-header"
        if k < 88:      # proposed header replaced at equal count
            if v["phs"]:
                i = rng.below(len(v["phs"]))
                if rng.chance(1, 2):
                    # the SAME block proposed again by someone else (same header and block hash, another signature)
                    v["phs"][i] = v["phs"][i] + 1000000
                    return "replace-header-by-twin"
                st["next_ph"] += 1
                v["phs"][i] = st["next_ph"]
                return "replace-header"
            return "none"
        if k < 92:      # header removed + another added elsewhere / reorder
            if len(v["phs"]) >= 2:
                v["phs"].reverse()
                return "reorder-headers"
            return "none"
        if k < 96:      # drop a vote (shrinking view)
            ts = [t for t in m if m[t]]
            if ts:
                t = rng.choice(ts)
                m[t].remove(rng.choice(sorted(m[t])))
                if not m[t]:
                    del m[t]
                return "drop-vote-" + which
            return "none"
        return "same"

    def case(self, malformed):
        rng = self.rng
        st = {"next_ph": 0, "next_hash": 0, "hashes": []}
        st["next_hash"] += 1
        st["hashes"].append(1)
        h = 1 + rng.below(3)
        r = rng.below(2)
        views = {"c": None, "v": self.fresh_view(h, r), "n": self.fresh_view(h, r + 1)}
        if rng.chance(1, 2):
            views["c"] = self.fresh_view(h - 1, 0) if h > 1 else None
        for _ in range(rng.below(4)):
            self.mutate_view(views["v"], st)
        updates = []
        n = 2 + rng.below(7)
        pending_nil = None
        if rng.chance(1, 10):     # the round nil-committed before the strategy's first receive
            pending_nil = self.clone(views["v"])
            for s in range(NVALS - rng.below(3)):
                pending_nil["pc"].setdefault(0, set()).add(s)
            views["v"] = views["n"]
            views["n"] = self.fresh_view(views["v"]["h"], views["v"]["r"] + 1)
            self.note("first-update-nil-voted")
        for i in range(n):
            u = {"c": None, "v": None, "n": None, "nil": None}
            if i == 0:
                u["v"] = self.clone(views["v"])
                if views["c"] is not None and rng.chance(3, 4):
                    u["c"] = self.clone(views["c"])
                if rng.chance(3, 4):
                    u["n"] = self.clone(views["n"])
                if pending_nil is not None:
                    u["nil"] = pending_nil
                updates.append(u)
                continue
            k = rng.below(100)
            if k < 10:        # round advances after a nil commit
                nilv = self.clone(views["v"])
                for s in range(NVALS - rng.below(3)):
                    if not any(s in ss for ss in nilv["pc"].values()):
                        nilv["pc"].setdefault(0, set()).add(s)
                u["nil"] = nilv
                views["v"] = views["n"]
                views["n"] = self.fresh_view(views["v"]["h"], views["v"]["r"] + 1)
                u["v"] = self.clone(views["v"])
                u["n"] = self.clone(views["n"])
                self.note("op:nil-voted-round")
                if views["c"] is not None and rng.chance(1, 3):
                    # a slow reader: the committing view changed as well before this update was taken
                    for _try in range(6):
                        if self.mutate_view(views["c"], st) != "none":
                            break
                    u["c"] = self.clone(views["c"])
                    self.note("op:nil-voted-round+committing")
            elif k < 20:      # height advances: voting becomes committing
                if views["v"]["r"] > 0 and rng.chance(1, 3):
                    # a slow reader: the previous round was nil-committed and the height decided before it read again
                    nilv = self.fresh_view(views["v"]["h"], views["v"]["r"] - 1)
                    for s in range(NVALS - rng.below(3)):
                        nilv["pc"].setdefault(0, set()).add(s)
                    u["nil"] = nilv
                    self.note("op:height-switch+nil-voted-round")
                views["c"] = views["v"]
                hh = views["v"]["h"] + 1
                views["v"] = self.fresh_view(hh, 0)
                views["n"] = self.fresh_view(hh, 1)
                u["c"] = self.clone(views["c"])
                u["v"] = self.clone(views["v"])
                if rng.chance(1, 2):
                    u["n"] = self.clone(views["n"])
                self.note("op:height-switch")
            elif k < 24:      # jump to an unrelated round (catch-up)
                views["v"] = self.fresh_view(views["v"]["h"], views["v"]["r"] + 2 + rng.below(3))
                views["n"] = self.fresh_view(views["v"]["h"], views["v"]["r"] + 1)
                u["v"] = self.clone(views["v"])
                u["n"] = self.clone(views["n"])
                self.note("op:round-jump")
            else:             # changes within the current views
                slots = [s for s in ("c", "v", "v", "v", "n") if views[s] is not None]
                touched = set()
                for _ in range(1 + rng.below(3)):
                    s = rng.choice(slots)
                    what = "none"
                    for _try in range(6):
                        what = self.mutate_view(views[s], st)
                        if what != "none":
                            break
                    self.note("op:" + what)
                    touched.add(s)
                for s in touched:
                    u[s] = self.clone(views[s])
                if rng.chance(1, 8):   # resend an untouched view too
                    s = rng.choice(slots)
                    u[s] = self.clone(views[s])
            updates.append(u)
        if malformed:
            k = rng.below(3)
            if k == 0:        # first update without a voting view
                updates[0]["v"] = None
                self.note("malformed:first-voting-nil")
            else:             # one proof over a different validator set (public-key hash)
                cands = [(i, s, w) for i, u in enumerate(updates) for s in ("c", "v", "n", "nil") if u[s] is not None
                         for w in ("pv", "pc") if len(u[s][w]) >= (2 if k == 1 else 1)]
                if cands:
                    i, s, w = rng.choice(cands)
                    t = rng.choice(sorted(updates[i][s][w]))
                    updates[i][s]["kh"][(w, t)] = 1 + rng.below(2)
                    self.note("malformed:key-hash-%s" % ("mixed" if len(updates[i][s][w]) >= 2 else "single"))
        return updates


def finalize_case(updates):
    """Assign signature tokens; produce the JSON form (lists sorted by target / signer)."""
    tokens = {}

    def tok(kind, h, r, t, s):
        key = (kind, h, r, t, s)
        if key not in tokens:
            tokens[key] = len(tokens) + 1
        return tokens[key]

    def jview(v):
        if v is None:
            return None
        out = {"h": v["h"], "r": v["r"], "phs": list(v["phs"])}
        for w in ("pv", "pc"):
            out[w] = [[t, v.get("kh", {}).get((w, t), 0), [[s, tok(w, v["h"], v["r"], t, s)] for s in sorted(v[w][t])]]
                      for t in sorted(v[w])]
        return out
    return [{k: jview(u[k]) for k in ("c", "v", "n", "nil")} for u in updates]


# ----------------------------------------------------------------------------- Coq terms
def coq_sparse(sigs):
    return "[" + ";".join("(%d,%d)" % (s, t) for s, t in sigs) + "]"


def coq_view(v):
    if v is None:
        return "None"
    def pm(ps):
        return "[" + ";".join("(%d, mkProof %d %s)" % (t, kh, coq_sparse(sigs)) for t, kh, sigs in ps) + "]"
    return "(Some (mkView %d %d [%s] %s %s))" % (v["h"], v["r"], ";".join(str(x) for x in v["phs"]), pm(v["pv"]), pm(v["pc"]))


def coq_update(u):
    return "(mkUpdate %s %s %s %s)" % (coq_view(u["c"]), coq_view(u["v"]), coq_view(u["n"]), coq_view(u["nil"]))


def num(x):
    return x if isinstance(x, int) else BIG


def coq_event(e):
    if e[0] == "PH":
        return "BHeader %d" % num(e[1])
    kind = "Prevote" if e[0] == "PV" else "Precommit"
    body = "[" + ";".join("(%d,%s)" % (num(t), coq_sparse([(num(s), num(k)) for s, k in sigs])) for t, sigs in e[4]) + "]"
    return "BVotes %s %d %d %d %s" % (kind, num(e[1]), num(e[2]), num(e[3]), body)


def coq_outs(steps, n):
    steps = list(steps) + [[]] * (n - len(steps))
    return "[" + ";".join("[" + ";".join(coq_event(e) for e in st) + "]" for st in steps) + "]"


STATUS = {"ok": 0, "stopped": 1, "panic": 2, "timeout": 3, "bad-input": 4}

PREAMBLE = """From Coq Require Import List NArith Bool.
From GV Require Import Model.GossipData Model.Gossip Monitors.C17m.
Import ListNotations. Local Open Scope N_scope.
Definition tcase := (N * (list update * (N * list (list bcast))))%type.
Definition corr (c : tcase) : bool :=
  let '(_, (us, (st, outs))) := c in
  let '(s, mo) := run_all us in N.eqb (status_code s) st && outs_eqb mo outs.
Definition is_snd_bad (c : tcase) : bool := let '(_, (us, (_, outs))) := c in negb (c17_sound_mon us outs).
Definition is_cmp_bad (c : tcase) : bool := let '(_, (us, (_, outs))) := c in negb (c17_complete_mon us outs).
Definition is_model_bad (c : tcase) : bool :=
  let '(_, (us, _)) := c in negb (c17_mon us (snd (run_all us))).
Definition wf_case (c : tcase) : bool := let '(_, (us, _)) := c in wf_seq us.
"""


def explain(updates, steps):
    """Python mirror of the monitors, used only to describe a failure (never for the verdict)."""
    def view_votes(kind, v):
        w = "pv" if kind == "PV" else "pc"
        return [(kind, v["h"], v["r"], kh, t, s, k) for t, kh, sigs in v[w] for s, k in sigs]
    sent_h, sent_v, seen_h, seen_v = set(), set(), set(), set()
    for i, u in enumerate(updates):
        uh, uv = [], []
        for slot in ("c", "v", "n"):
            if u[slot] is not None:
                uh += u[slot]["phs"]
                uv += view_votes("PV", u[slot]) + view_votes("PC", u[slot])
        if u["nil"] is not None:
            uv += view_votes("PC", u["nil"])
        seen_h |= set(uh)
        seen_v |= set(uv)
        for e in (steps[i] if i < len(steps) else []):
            if e[0] == "PH":
                sent_h.add(e[1])
                if e[1] not in seen_h:
                    return {"step": i, "extra_header": e[1]}
            else:
                for t, sigs in e[4]:
                    for s, k in sigs:
                        x = (e[0], e[1], e[2], e[3], t, s, k)
                        sent_v.add(x)
                        if x not in seen_v:
                            return {"step": i, "extra_vote": list(x)}
        for x in uh:
            if x not in sent_h:
                return {"step": i, "missing_header": x}
        for x in uv:
            if x not in sent_v:
                return {"step": i, "missing_vote": {"kind": x[0], "height": x[1], "round": x[2], "key_hash": x[3],
                                                    "block_hash": x[4], "signer": x[5], "signature": x[6]}}
    return None


def classify(updates, ex):
    """Stable key of the failing input class."""
    if ex is None:
        return "unexplained"
    if "extra_header" in ex or "extra_vote" in ex:
        return "broadcast-not-in-any-view"
    i = ex["step"]
    u = updates[i]
    if "missing_header" in ex:
        return ("first-update-" if i == 0 else "") + "header-not-broadcast"
    mv = ex["missing_vote"]
    w = "pv" if mv["kind"] == "PV" else "pc"

    def has(v):
        return v is not None and v["h"] == mv["height"] and v["r"] == mv["round"] and any(
            t == mv["block_hash"] and [mv["signer"], mv["signature"]] in [list(x) for x in sigs] for t, _, sigs in v[w])
    in_std = any(has(u[s]) for s in ("c", "v", "n"))
    if not in_std and has(u["nil"]):
        return ("first-update-" if i == 0 else "") + "nil-voted-round-precommits-not-broadcast"
    return ("first-update-" if i == 0 else "same-round-") + ("prevote" if w == "pv" else "precommit") + "-not-broadcast"


def main(argv):
    c = vcheck.Check("C17", argv)
    c.trusted += [
        "hand-written model coq/Model/Gossip.v of tm/tmgossip/chattystrategy.go + AsSparse of tm/tmconsensus/prevote.go, precommit.go; "
        "tied on every run by exact per-update comparison of the send sequence with the real strategy",
        "Go harness /verif/harness/c17 (recording broadcaster on unbuffered channels, barrier update; real ed25519 signatures, "
        "signature bytes named by tokens one-to-one) and the Cases evaluation inside coqc (vm_compute)",
        "Go channel semantics: one kernel goroutine, blocking sends in program order",
    ]
    c.assumes += [
        "context cancellation (engine shutdown) is not an input of the model",
        "the engine does not mutate a view's slices/maps after handing the update over (the strategy keeps shallow copies)",
        "completeness is claimed for sequences whose first update carries a voting view and whose vote maps each use one public-key hash "
        "(otherwise the real kernel panics / returns; both behaviours are modelled and compared)",
    ]
    c.grep_gate()

    # ---- cases
    n_cases = 400 if c.tier == "quick" else 8000
    gen = Gen(c.rng)
    cases = []
    if c.replay:
        rp = json.load(open(c.replay))
        cases = [rp["updates"]] if "updates" in rp else [x for x in rp.get("cases", [])]
    else:
        for i in range(n_cases):
            cases.append(finalize_case(gen.case(malformed=(i % 8 == 7))))

    import time
    timings = {}
    t0 = time.time()
    # ---- theorems
    proved = c.prove("C17")
    timings["prove_s"] = round(time.time() - t0, 1)
    t0 = time.time()

    # ---- real code
    binary, blog = c.go_build("c17")
    if binary is None:
        c.fail_obligation("harness-build", blog[-1500:])
        c.finish()
    rc, out, err = c.run_bin(binary, stdin=json.dumps({"cases": [{"updates": u} for u in cases]}))
    results = None
    try:
        results = json.loads(out)["results"]
    except Exception:
        pass
    if results is None or len(results) != len(cases):
        # the harness died: find the case that kills it by isolating each case in a child process
        rc, out, err2 = c.run_bin(binary, args=["-isolate"], stdin=json.dumps({"cases": [{"updates": u} for u in cases]}))
        try:
            results = json.loads(out)["results"]
        except Exception:
            c.fail_obligation("harness-run", "harness produced no results: %s" % (err + err2)[-800:])
            c.finish()

    timings["harness_s"] = round(time.time() - t0, 1)
    t0 = time.time()
    # ---- model + monitors inside coqc
    corr_bad, snd_bad, cmp_bad, model_bad, wf_count = [], [], [], [], 0
    shard_size = 100
    eval_ok = True

    def eval_shard(si):
        terms = []
        for ci in range(si, min(si + shard_size, len(cases))):
            us, r = cases[ci], results[ci]
            terms.append("(%d, ([%s], (%d, %s)))" % (ci, ";".join(coq_update(u) for u in us), STATUS.get(r["status"], 5),
                                                       coq_outs(r["steps"], len(us))))
        body = PREAMBLE + "Definition cases : list tcase := [\n%s].\n" % ";\n".join(terms) + """
Definition corr_bad := Eval vm_compute in map fst (filter (fun c => negb (corr c)) cases).
Definition snd_bad := Eval vm_compute in map fst (filter is_snd_bad cases).
Definition cmp_bad := Eval vm_compute in map fst (filter is_cmp_bad cases).
Definition model_bad := Eval vm_compute in map fst (filter is_model_bad cases).
Definition wf_count := Eval vm_compute in N.of_nat (length (filter wf_case cases)).
Print corr_bad. Print snd_bad. Print cmp_bad. Print model_bad. Print wf_count.
"""
        return c.coq_eval("c17_cases_%d" % (si // shard_size), body)

    from concurrent.futures import ThreadPoolExecutor
    with ThreadPoolExecutor(max_workers=8) as ex:
        shard_results = list(ex.map(eval_shard, range(0, len(cases), shard_size)))
    for ok, cout in shard_results:
        if not ok:
            c.fail_obligation("cases-eval", cout[-1500:])
            eval_ok = False
            break

        def grab(name):
            m = re.search(r"\b" + name + r"\s*=\s*(\[.*?\]|\d+)\s*:", cout, flags=re.S)
            return [int(x) for x in re.findall(r"\d+", m.group(1))] if m else []
        corr_bad += grab("corr_bad")
        snd_bad += grab("snd_bad")
        cmp_bad += grab("cmp_bad")
        model_bad += grab("model_bad")
        wf_count += (grab("wf_count") or [0])[0]

    timings["coq_eval_s"] = round(time.time() - t0, 1)
    # ---- verdict
    def run_real(us):
        rc_, out_, _ = c.run_bin(binary, stdin=json.dumps({"cases": [{"updates": us}]}))
        try:
            return json.loads(out_)["results"][0]
        except Exception:
            return None

    def coq_confirms(us, r, sound_side):
        body = PREAMBLE + "Definition cs : tcase := (0, ([%s], (%d, %s))).\n" % (
            ";".join(coq_update(u) for u in us), STATUS.get(r["status"], 5), coq_outs(r["steps"], len(us)))
        body += "Definition bad := Eval vm_compute in %s cs.\nPrint bad.\n" % ("is_snd_bad" if sound_side else "is_cmp_bad")
        ok, cout = c.coq_eval("c17_shrunk", body)
        return ok and re.search(r"bad\s*=\s*true", cout) is not None

    def shrink(us, r, key, sound_side):
        """Drop updates while the same failure class is still observed on the REAL code
        (guided by the Python mirror, confirmed at the end by the Coq monitor)."""
        ex = explain(us, r["steps"])
        if ex is None:
            return us, r
        best, best_r = us[:ex["step"] + 1], None
        best_r = run_real(best)
        if best_r is None or classify(best, explain(best, best_r["steps"])) != key:
            return us, r
        i = len(best) - 2
        while i >= 0:
            cand = best[:i] + best[i + 1:]
            if cand and cand[0]["v"] is not None:
                rr = run_real(cand)
                if rr is not None and classify(cand, explain(cand, rr["steps"])) == key:
                    best, best_r = cand, rr
            i -= 1
        if len(best) < len(us) and coq_confirms(best, best_r, sound_side):
            return best, best_r
        return us, r

    reported = set()
    for ci in sorted(set(snd_bad) | set(cmp_bad)):
        ex = explain(cases[ci], results[ci]["steps"])
        key = classify(cases[ci], ex)
        if results[ci]["status"] in ("stopped", "panic", "timeout") and ci in cmp_bad and ci not in snd_bad:
            key = "strategy-%s-on-well-formed-input" % results[ci]["status"]
        if key in reported:
            continue
        reported.add(key)
        us, r = cases[ci], results[ci]
        if not c.replay and not key.startswith("strategy-"):
            us, r = shrink(us, r, key, ci in snd_bad)
            ex = explain(us, r["steps"])
        c.report(key, "real ChattyStrategy violates C17 (%s): %s" % (
            "sent something not in any view" if ci in snd_bad else "view content never broadcast", json.dumps(ex)),
            {"updates": us, "observed": r, "first_discrepancy": ex, "shrunk_from_updates": len(cases[ci]),
             "monitor": "c17_sound_mon" if ci in snd_bad else "c17_complete_mon",
             "how": "./check C17 --replay <this file>   (or: echo '{\"cases\":[{\"updates\":...}]}' | bin/h_c17)"})
    impl_violation = bool(snd_bad or cmp_bad)
    if corr_bad and not impl_violation:
        ci = corr_bad[0]
        c.fail_obligation("correspondence Model/Gossip.v vs tm/tmgossip/chattystrategy.go",
                          "model and real strategy send different sequences on %d cases (first: case %d)" % (len(corr_bad), ci),
                          {"updates": cases[ci], "observed": results[ci]})
    if model_bad and not impl_violation:
        ci = model_bad[0]
        c.fail_obligation("model_satisfies_monitor", "monitor false on the model's own output", {"updates": cases[ci]})
    if not proved and not impl_violation:
        b = getattr(c, "broken", {"file": "?", "log": ""})
        c.fail_obligation("Properties/C17.v (%s)" % b["file"], b["log"], {"searched_cases": len(cases)})

    # ---- evidence
    def nontrivial(us, r):
        return sum(len(s) for s in r["steps"]) > 0
    distinct = set(json.dumps(u, sort_keys=True) for u, r in zip(cases, results) if nontrivial(u, r))
    n_updates = sum(len(u) for u in cases)
    n_sends = sum(len(s) for r in results for s in r["steps"])
    status_hist = {}
    for r in results:
        status_hist[r["status"]] = status_hist.get(r["status"], 0) + 1
    c.samples = [{"updates": cases[i], "observed": results[i]} for i in range(min(2, len(cases)))]
    c.coverage.update({
        "evaluations": len(cases),
        "distinct_nontrivial": len(distinct),
        "rule": "non-trivial = the real strategy sent at least one value; each case compared (a) step by step, exact send sequence and "
                "final status, with Model/Gossip.v run_all inside coqc, (b) with the soundness and completeness monitors",
        "traces_validated_against_impl": len(cases) if eval_ok else 0,
        "updates_total": n_updates,
        "sends_total": n_sends,
        "well_formed_cases": wf_count,
        "status_histogram": status_hist,
        "input_distribution": dict(sorted(gen.stats.items())),
        "timings": timings,
        "correspondence_disagreements": len(corr_bad),
        "monitor_failures_on_impl": len(set(snd_bad) | set(cmp_bad)),
    })
    c.finish()
