"""C18 - Byzantine thresholds exact for every total power (DESIGN 4, C18)."""
import re
import vcheck

META = {
    "engine": "coq+translator",
    "technique": "Coq proof (lia over N with explicit mod 2^64) on a model regenerated from math.go by the translator; "
                 "differential run of generated vs real function",
    "level": "Full: for every n in [1,2^64) the generated Gallina image of ByzantineMajority/Minority returns the least "
             "threshold without wrap-around; quorum-overlap and minority corollaries, also in weighted form. The model is "
             "regenerated from tm/tmconsensus/math.go on every run and run against the real functions on a boundary-biased sweep. "
             "Callers (partial): the mirror kernel's quorum decisions are compared step by step with the kernel model, which decides "
             "with the generated thresholds of the recomputed total power and >= comparisons, on histories with validator-set changes.",
    "note": "Trusted: Coq kernel, the translator (cross-checked by differential execution every run), Go uint64 semantics = "
            "arithmetic mod 2^64. No axioms (Print Assumptions: closed under the global context).",
    "design_ref": "DESIGN.md 4 (C18)",
}


def boundary_values(rng, count):
    vals = set()
    anchors = [0, 1, 2, 3, 4, 5, 6, 7, 8, 9, 10, 11, 12, 100, 2**8, 2**16, 2**31, 2**32, 2**33, 2**53, 2**62,
               2**63, 2**64 // 3, 2 * (2**64 // 3), 2**64 - 1]
    for a in anchors:
        for d in range(-7, 8):
            v = a + d
            if 0 <= v < 2**64:
                vals.add(v)
    while len(vals) < count:
        k = rng.below(65)
        v = rng.next() >> (64 - k) if k else 0
        vals.add(v)
    return sorted(vals)


def py_spec_ok(n, mj, mn):
    if n == 0:
        return True
    if mj is None or mn is None:
        return False
    return 3 * mj > 2 * n and 3 * (mj - 1) <= 2 * n and 3 * mn >= n and (mn == 0 or 3 * (mn - 1) < n) and mj < 2**64 and mn < 2**64


def main(argv):
    c = vcheck.Check("C18", argv)
    c.trusted += [
        "translator /verif/translate (Go subset -> Gallina) for tm/tmconsensus/math.go, cross-checked on every run by "
        "executing generated vs real functions",
        "Go harness /verif/harness/c18 and the cases.v evaluation inside coqc (vm_compute)",
    ]
    c.assumes += ["uint64 arithmetic of Go wraps modulo 2^64 (modelled explicitly by wrap64)"]
    c.grep_gate()
    n_cases = 3000 if c.tier == "quick" else 40000
    vals = boundary_values(c.rng, n_cases)
    if c.replay:
        import json
        vals = [int(x) for x in json.load(open(c.replay)).get("inputs", [])] or vals

    # 1. regenerate the model from the source, 2. re-check the theorems against it
    tok, tlog = c.translate(only=["Gen/Math.v"])
    proved = False
    if not tok:
        c.obligations.append("translate Gen/Math.v")
        c.broken = {"file": "translate", "log": tlog[-800:]}
    else:
        proved = c.prove("C18")

    # 3. run the real code
    binary, blog = c.go_build("c18")
    if binary is None:
        c.fail_obligation("harness-build", blog[-1500:])
        c.finish()
    rc, out, err = c.run_bin(binary, stdin="\n".join(str(v) for v in vals) + "\n")
    obs = []
    for line in out.splitlines():
        n, a, b = line.split()
        obs.append((int(n), None if a == "P" else int(a), None if b == "P" else int(b)))
    if len(obs) != len(vals):
        c.fail_obligation("harness-run", "harness returned %d of %d results: %s" % (len(obs), len(vals), err[-500:]))

    # 4. monitor on implementation outputs + correspondence with the generated model (inside Coq)
    impl_bad = [o for o in obs if not py_spec_ok(*o)]
    corr_bad, mon_bad, model_bad = [], [], []
    if tok:
        def opt(x):
            return "None" if x is None else "(Some %d)" % x
        shards = [obs[i:i + 4000] for i in range(0, len(obs), 4000)]
        for si, sh in enumerate(shards):
            body = """From Coq Require Import List NArith String.
From GV Require Import Base.Ints Gen.Math Monitors.C18m.
Import ListNotations. Local Open Scope N_scope.
Definition cases : list (N * (option N * option N)) := [%s].
Definition o2r (o : option N) (r : res N) : bool :=
  match o, r with Some a, Ok b => N.eqb a b | None, Panic _ => true | _, _ => false end.
Definition corr (c : N * (option N * option N)) : bool :=
  let '(n, (a, b)) := c in o2r a (byz_majority n) && o2r b (byz_minority n).
Definition mon (c : N * (option N * option N)) : bool := let '(n, (a, b)) := c in c18_mon n a b.
Definition r2o (r : res N) : option N := match r with Ok a => Some a | Panic _ => None end.
Definition modelmon (c : N * (option N * option N)) : bool :=
  let '(n, _) := c in c18_mon n (r2o (byz_majority n)) (r2o (byz_minority n)).
Definition corr_bad := Eval vm_compute in firstn 5 (map fst (filter (fun c => negb (corr c)) cases)).
Definition mon_bad := Eval vm_compute in firstn 5 (map fst (filter (fun c => negb (mon c)) cases)).
Definition model_bad := Eval vm_compute in firstn 5 (map fst (filter (fun c => negb (modelmon c)) cases)).
Print corr_bad. Print mon_bad. Print model_bad.
""" % ";\n".join("(%d, (%s, %s))" % (n, opt(a), opt(b)) for n, a, b in sh)
            ok, cout = c.coq_eval("c18_cases_%d" % si, body)
            if not ok:
                c.fail_obligation("cases-eval", cout[-1500:])
                break
            def grab(name):
                m = re.search(name + r"\s*=\s*\[(.*?)\]", cout, flags=re.S)
                return [int(x) for x in re.findall(r"\d+", m.group(1))] if m else None
            corr_bad += grab("corr_bad") or []
            mon_bad += grab("mon_bad") or []
            model_bad += grab("model_bad") or []

    # 5. verdict
    for n in sorted(set(mon_bad) | set(o[0] for o in impl_bad))[:3]:
        o = [x for x in obs if x[0] == n][0]
        c.report("threshold-n=%d" % n,
                 "real ByzantineMajority/Minority(%d) = %s/%s is not the least threshold" % (n, o[1], o[2]),
                 {"inputs": [n], "observed": {"n": n, "majority": o[1], "minority": o[2]},
                  "how": "echo %d | bin/h_c18" % n})
    if corr_bad and not (mon_bad or impl_bad):
        c.fail_obligation("correspondence Gen/Math.v vs tm/tmconsensus/math.go",
                          "generated model and real function differ on n in %s" % corr_bad, {"inputs": corr_bad})
    if not proved and not (mon_bad or impl_bad):
        # an obligation broke but the implementation satisfied the monitor on everything explored
        b = getattr(c, "broken", {"file": "?", "log": ""})
        c.fail_obligation("Properties/C18.v (%s)" % b["file"], b["log"],
                          {"model_counterexamples": model_bad, "searched_inputs": len(obs)})

    # 6. the CALLERS: every quorum decision of the mirror kernel reads the thresholds of the total power of the view's own
    # validator set and compares with >= (the contract stated in math.go). Mirror histories with validator-set changes
    # (other keys, the same keys with other powers, unchanged sets), judged step by step against the kernel model - whose
    # decisions are the generated byz_majority / byz_minority of the recomputed total - and by the summary monitor c06
    # (available power = the sum of the view's own set)
    if not c.replay or "batch_seed" in __import__("json").load(open(c.replay)):
        import mirrorlib
        mirrorlib.mirror_check(c, "C18", ["c06"], "C18 thresholds at the kernel's quorum decisions", quick=(20, 40),
                               thorough=(200, 50), extra=[], prove=False)
        mc = c.coverage.pop("mirror_histories", {})
        c.coverage["kernel_quorum_decisions"] = {k: mc[k] for k in ("cases", "evaluations", "correspondence_disagreements", "monitor_failures_on_impl") if k in mc}

    nontriv = len(set(o[0] for o in obs if o[0] != 0))
    c.samples = [{"n": o[0], "majority": o[1], "minority": o[2]} for o in obs[:3] + obs[len(obs) // 2:len(obs) // 2 + 3] + obs[-3:]]
    c.coverage.update({
        "evaluations": len(obs),
        "distinct_nontrivial": nontriv,
        "rule": "boundary-biased n (anchors 0..12, 2^k, 2^64/3, 2*2^64/3, 2^64-1, each +-7, plus random bit-lengths); "
                "non-trivial = n > 0; each compared (a) with the generated Gallina function inside coqc and (b) with the least-threshold monitor",
        "traces_validated_against_impl": len(obs),
        "correspondence_disagreements": len(corr_bad),
        "monitor_failures_on_impl": len(set(mon_bad) | set(o[0] for o in impl_bad)),
    })
    c.finish()
