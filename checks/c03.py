"""C03 - Correct nodes never finalize different blocks at the same height (DESIGN 4, C03)."""
import concurrent.futures
import json
import os
import re
import vcheck

META = {
    "engine": "coq+correspondence",
    "technique": "Coq proof (quorum intersection from the C18 thresholds + lock invariant by induction on rounds) on an "
                 "abstract vote-set model of the network whose commit threshold is the Gallina image of math.go regenerated "
                 "on every run and whose finalize guard is proved equal to the commit decision ladders extracted from statemachine.go / kernel.go "
                 "(Gen/Commit.v, regenerated on every run); the dynamic tie is a run of 4-7 REAL engines on a harness-owned in-memory network "
                 "(delays, reordering, duplication, held messages, partitions, an equivocating Byzantine validator, a scripted "
                 "split-brain attempt) whose finalize streams, header stores and signed votes are judged inside coqc by the "
                 "agreement monitor, the hypothesis checkers (A1-A3) and the model's commit rule",
    "level": "Partial. Vote-set level: agreement, one block per round, lock invariant, finalize-needs-quorum and contiguous finalization "
             "are proved for ALL validator sets, power distributions, vote histories, delivery schedules, Byzantine injections (< 1/3 power) "
             "and restart points of the abstract node model, under named hypotheses A1 (C02), A2/A3 (lock-respecting strategy), "
             "authenticity (C05), common validator set (C07) that are proved satisfiable and are evaluated on every real run. MIRROR "
             "level (Properties/C03Mirror.v, mechanised composition with the mirror-kernel model and its invariants C01/C04/C07): two "
             "mirrors each reachable by ANY history of proposed headers, votes and replayed headers from the same genesis agree on the "
             "hash of every height both committed, and on the next validator set, by induction on the height - under A1-A3 and the "
             "Byzantine bound stated over the signatures in their commit certificates, and hash injectivity for next validator sets; "
             "same-round agreement needs only A1 and the bound; both hypotheses are shown necessary by witnesses (an equivocating "
             "majority makes two mirrors commit different headers). STATE-MACHINE composition (Properties/C03Compose.v): A1 is "
             "DISCHARGED from the round state machine model - if every vote in V under a correct key was emitted by that key's state "
             "machine in ONE history on one action store (any events, any restarts; unforgeability stated as the predicate "
             "V_from_machines), then A1 holds, so same-round agreement of two mirrors holds with no hypothesis on correct validators' "
             "votes left (C03_mirrors_agree_same_round_composed); the bridge is shown necessary per key and store "
             "(C03_A1_needs_one_store_refuted, C03_A1_from_signer_calls_refuted). A2/A3 remain hypotheses: in gordian they are "
             "obligations of the application's consensus strategy, which the engine does not enforce. CRASHES, RESTARTS, LOCAL ACTIONS "
             "(Properties/C03MirrorX.v): the agreement theorems are re-derived from the invariant bundle alone (chain, certificate, "
             "good headers) and that bundle is proved over histories with crashes after every store write and restarts "
             "(C03X_mirrors_agree_after_crashes, same-round version composed with the state machine: no hypothesis on correct "
             "validators' votes) and, under the side condition that the state machine's own proposed header is well formed (shown "
             "necessary: C03X_local_ph_condition_needed_refuted, two nodes committing different blocks), over histories with the "
             "local validator's own votes and proposals. Liveness is not claimed.",
    "note": "Trusted: Coq kernel; translator for math.go (cross-checked by C18); the Go harness (network scheduler, "
            "lock-respecting strategy, Byzantine signer) and the reconstruction of model traces from observed votes; Go "
            "scheduling/timers. No axioms (all Print Assumptions: closed under the global context).",
    "design_ref": "DESIGN.md 4 (C03), design/C03.md",
}

H0 = 1  # initial height of the fixture genesis


def search_plan(c):
    """Extra targeted runs made only when an obligation broke and the first batch found nothing (DESIGN 2.5)."""
    runs = []
    for i in range(4):
        runs.append(("search-split-%d" % i, ["-scenario", "split", "-n", "4", "-heights", "3", "-seed", str(c.rng.below(2**31) + 1),
                                             "-hold", str(300 + 200 * i), "-retries", "2", "-timeout", "25s"]))
    for i in range(3):
        runs.append(("search-equivocate-%d" % i, ["-scenario", "equivocate", "-n", "4", "-heights", "3",
                                                  "-seed", str(c.rng.below(2**31) + 1), "-retries", "2", "-timeout", "25s"]))
    return runs


def plan(c):
    """List of harness invocations: (name, args). Seeds derive from c.rng only."""
    def seed():
        return str(c.rng.below(2**31) + 1)
    runs = []
    common = ["-retries", "2", "-timeout", "25s" if c.tier == "quick" else "40s"]
    if c.tier == "quick":
        runs.append(("clean-4", ["-scenario", "clean", "-n", "4", "-heights", "4", "-seed", seed()]))
        runs.append(("split-4", ["-scenario", "split", "-n", "4", "-heights", "3", "-seed", seed()]))
        runs.append(("split-4b", ["-scenario", "split", "-n", "4", "-heights", "3", "-seed", seed(), "-hold", "700"]))
        runs.append(("equivocate-4", ["-scenario", "equivocate", "-n", "4", "-heights", "3", "-seed", seed()]))
        runs.append(("chaos-5", ["-scenario", "chaos", "-n", "5", "-heights", "3", "-seed", seed(), "-byzmode"]))
    else:
        for n in (4, 5, 6, 7):
            runs.append(("clean-%d" % n, ["-scenario", "clean", "-n", str(n), "-heights", "5", "-seed", seed()]))
        runs.append(("clean-w", ["-scenario", "clean", "-n", "5", "-heights", "4", "-seed", seed(), "-powers", "5,3,3,2,2"]))
        for i in range(8):
            runs.append(("split-%d" % i, ["-scenario", "split", "-n", "4", "-heights", "3", "-seed", seed(),
                                          "-hold", str(250 + 100 * i)]))
        for n in (4, 5, 6, 7):
            for i in range(4):
                runs.append(("equivocate-%d-%d" % (n, i), ["-scenario", "equivocate", "-n", str(n), "-heights", "4", "-seed", seed()]))
        runs.append(("equivocate-w", ["-scenario", "equivocate", "-n", "4", "-heights", "3", "-seed", seed(), "-powers", "3,3,3,4"]))
        for n in (4, 5, 6, 7):
            for i in range(6):
                runs.append(("chaos-%d-%d" % (n, i), ["-scenario", "chaos", "-n", str(n), "-heights", "4", "-seed", seed(), "-byzmode"]))
        for i in range(6):
            # integration-test timeouts: link delays force round changes (engine crashes are retried; partial runs are judged)
            runs.append(("chaos-tight-%d" % i, ["-scenario", "chaos", "-n", "4", "-heights", "4", "-seed", seed(), "-byzmode",
                                               "-proposal-ms", "250", "-prevote-delay-ms", "100", "-precommit-delay-ms", "100"]))
        for i in range(4):
            runs.append(("chaos-nobyz-%d" % i, ["-scenario", "chaos", "-n", "4", "-heights", "4", "-seed", seed()]))
    if c.tier != "quick":
        # two more repetitions of the whole thorough plan with fresh seeds
        base = list(runs)
        for rep in (1, 2):
            for name, args in base:
                a = list(args)
                a[a.index("-seed") + 1] = seed()
                runs.append(("%s.rep%d" % (name, rep), a))
    return [(name, args + common) for name, args in runs]


class Ids:
    """Injective renaming of block hashes to positive numbers ("" -> 0 = nil)."""
    def __init__(self):
        self.m = {"": 0}

    def get(self, hx):
        if hx not in self.m:
            self.m[hx] = len(self.m)
        return self.m[hx]


def coq_list(xs):
    return "[" + "; ".join(xs) + "]"


def coq_stream(s):
    return coq_list("(%d, %d)" % (h, b) for h, b in s)


def encode_run(idx, obs):
    """Build the Coq definitions for one harness run. Returns (text, info)."""
    ids = Ids()
    n = obs["n"]
    powers = obs["powers"]
    byz = obs.get("byz") or []
    correct = obs["correct"]
    byzmask = sum(1 << b for b in byz)
    streams = []   # per correct node: list of (h, id, round)
    for i in correct:
        streams.append([(int(e[0]), ids.get(e[1]), int(e[2])) for e in obs["streams"].get(str(i), [])])
    # heights every correct node has finalized (see below: only those are complete in the logs); agreement itself is
    # judged by the monitors on the FULL streams and stores before this cut (mon_streams / mon_all use obs directly)
    full_streams = streams
    h_complete = min([max([h for h, _, _ in st] or [0]) for st in streams] or [0])
    # agreement and contiguity on the FULL streams (every height any node finalized), decided here; the Coq judge below
    # repeats it on the complete heights together with the hypotheses and the model's explanation of each stream
    by_h = {}
    full_agree = True
    for st in full_streams:
        hs = [h for h, _, _ in st]
        if hs != list(range(hs[0], hs[0] + len(hs))) if hs else False:
            full_agree = False
        for h, b, _ in st:
            if by_h.setdefault(h, b) != b:
                full_agree = False
    streams = [[e for e in st if e[0] <= h_complete] for st in streams]
    stores = []
    certs = []     # signer masks of the commit certificates kept in the CommittedHeaderStores
    nocert = 0
    for i in correct:
        stores.append([(int(e[0]), ids.get(e[1])) for e in obs.get("stores", {}).get(str(i), []) if int(e[0]) <= h_complete])
        for e in obs.get("stores", {}).get(str(i), []):
            if int(e[0]) > h_complete:
                continue
            if len(e) >= 4 and e[3]:
                certs.append(sum(1 << int(x) for x in set(e[3])))
            else:
                nocert += 1
    votes = []     # (kind, h, r, id, signer) signed by the correct validators' strategies
    for i in correct:
        for d in obs.get("decisions", {}).get(str(i), []):
            if d[2] not in ("prevote", "precommit"):
                continue
            kind = "Prevote" if d[2] == "prevote" else "Precommit"
            votes.append((kind, int(d[0]), int(d[1]), ids.get(d[3]), i))
    # The harness reads the nodes' decision logs one after the other while the engines are still running: for a height
    # that not every correct node had finalized when its log was read, a vote of node j (read later) can rest on votes of
    # node i that were cast after i's log was read. Only heights every correct node has finalized are complete (a node
    # casts no vote for a height after finalizing it), so the hypotheses are evaluated on those.
    votes = sorted(set(v for v in votes if v[1] <= h_complete))
    # model traces: per node, for each finalization (h, b, r): deliver the precommits for (h, r, b) that correct
    # validators really signed plus one from every Byzantine index (arbitrary Byzantine votes are allowed by the
    # model), then Finalize r b, then Enter (h+1) if another finalization follows.
    traces = []
    for s in streams:
        ev = []
        for k, (h, b, r) in enumerate(s):
            for (kind, vh, vr, vb, sg) in votes:
                if kind == "Precommit" and vh == h and vr == r and vb == b:
                    ev.append("Deliver (mkVote Precommit %d %d %d %d)" % (h, r, b, sg))
            for bz in byz:
                ev.append("Deliver (mkVote Precommit %d %d %d %d)" % (h, r, b, bz))
            ev.append("Finalize %d %d" % (r, b))
            if k + 1 < len(s):
                ev.append("Enter %d" % s[k + 1][0])
        traces.append(ev)
    p = "r%d_" % idx
    t = []
    t.append("Definition %svals : N -> list N := fun _ => %s." % (p, coq_list(str(x) for x in powers)))
    t.append("Definition %sbyz : N -> N := fun _ => %d." % (p, byzmask))
    t.append("Definition %sV : list vote := %s." % (p, coq_list("mkVote %s %d %d %d %d" % v for v in votes)))
    t.append("Definition %sstreams : list stream := %s." % (p, coq_list(coq_stream([(h, b) for h, b, _ in s]) for s in streams)))
    t.append("Definition %sstores : list stream := %s." % (p, coq_list(coq_stream(s) for s in stores)))
    t.append("Definition %straces : list (list event) := %s." % (p, coq_list(coq_list(e) for e in traces)))
    t.append("Definition %scerts : list N := %s." % (p, coq_list(str(x) for x in sorted(set(certs)))))
    t.append("Definition %sout := Eval vm_compute in judge %svals %sbyz %sV %sstreams %sstores %scerts %straces." % (p, p, p, p, p, p, p, p))
    t.append("Print %sout." % p)
    info = {"ids": ids.m, "streams": streams, "stores": stores, "full_agree": full_agree, "h_complete": h_complete, "votes": len(votes), "certs": len(certs), "nocert": nocert,
            "rounds_gt0": sum(1 for s in streams for e in s if e[2] > 0)}
    return "\n".join(t) + "\n", info


PRELUDE = """From Coq Require Import List NArith Bool.
From GV Require Import Base.Ints Gen.Math Proofs.Thresholds Model.Network Monitors.C03m.
Import ListNotations. Local Open Scope N_scope.
Definition stream_eqb (a b : stream) : bool :=
  Nat.eqb (length a) (length b) &&
  forallb (fun p => (fst (fst p) =? fst (snd p)) && (snd (fst p) =? snd (snd p))) (combine a b).
Definition model_explains (vals : N -> list N) (obs : stream) (tr : list event) : bool :=
  match run vals (init_node %d) tr with Some n => stream_eqb (stream_of n) obs | None => false end.
(* certs: signer masks of the commit certificates found in the CommittedHeaderStores (each must be a quorum) *)
(* (monitor on finalize streams, monitor on streams+stores, valset, A1, A2, A3, model's monitor verdict on the
   model's own streams, per node: the model reproduces the observed stream from the votes really signed) *)
Definition judge vals byz V (streams stores : list stream) (certs : list N) (traces : list (list event)) :=
  (c03_mon %d streams, c03_mon %d (streams ++ stores), valset_okb (vals 0) (byz 0),
   a1b byz V, a2b vals byz V, a3b vals byz V,
   c03_mon %d (map (fun tr => match run vals (init_node %d) tr with Some n => stream_of n | None => [] end) traces),
   forallb (quorumb (vals 0)) certs,
   map (fun p => model_explains vals (fst p) (snd p)) (combine streams traces)).
""" % (H0, H0, H0, H0, H0)


def parse_out(cout, idx):
    m = re.search(r"r%d_out\s*=\s*(.*?)\n\s*:" % idx, cout, flags=re.S)
    if not m:
        return None
    toks = re.findall(r"true|false", m.group(1))
    vals = [x == "true" for x in toks]
    if len(vals) < 8:
        return None
    return {"mon_streams": vals[0], "mon_all": vals[1], "valset": vals[2], "a1": vals[3], "a2": vals[4], "a3": vals[5],
            "model_mon": vals[6], "certs": vals[7], "explained": vals[8:]}


def main(argv):
    c = vcheck.Check("C03", argv)
    c.trusted += [
        "translator /verif/translate for tm/tmconsensus/math.go (the model's quorum threshold is the generated byz_majority) and its "
        "decision_ladder extractor (translate/c03.go) for statemachine.go:handlePrecommitViewUpdate and "
        "kernel.go:checkVotingPrecommitViewShift (Gen/Commit.v; proved equal to the model's Finalize guard)",
        "Go harness /verif/harness/c03: in-memory network scheduler, lock-respecting ConsensusStrategy, Byzantine signer, "
        "driver recording FinalizeBlockRequests; reconstruction of model traces from the observed votes (checks/c03.py)",
        "Go runtime scheduling and timers (the real engines run concurrently; schedules are sampled, the theorem quantifies)",
    ]
    c.assumes += [
        "A1 one prevote/precommit per correct validator per (height, round) [C02] - evaluated on every run",
        "A2/A3 the consensus strategy is lock-respecting (the property's own premise) - evaluated on every run for the harness strategy",
        "authenticity: only signature-verified votes are counted [C05]; ideal signatures",
        "all correct nodes use the same validator set at a height [C07]; Byzantine power < ByzantineMinority(total)",
        "node guards (finalize only with a held precommit quorum, once per height; enter h+1 only after finalizing h) "
        "[C01/C08] - checked on every run by replaying the observed stream through the model (model_explains)",
    ]
    c.grep_gate()
    import time
    phases = {}
    t_ph = time.time()

    def mark(name):
        nonlocal t_ph
        phases[name] = round(time.time() - t_ph, 1)
        t_ph = time.time()

    # 1. regenerate the threshold functions, 2. re-check the theorems
    tok, tlog = c.translate(only=["Gen/Math.v", "Gen/Commit.v"])
    proved = False
    if not tok:
        c.obligations.append("translate Gen/Math.v Gen/Commit.v")
        c.broken = {"file": "translate", "log": tlog[-800:]}
    else:
        proved = c.prove("C03")
        # the composition with the mirror-kernel model (C01/C04/C07 invariants): two reachable mirrors agree on every
        # committed hash under A1-A3 and the Byzantine bound stated on the mirror's own vocabulary
        c.translate(only=["Gen/Kernel.v"])
        proved = c.prove("C03Mirror") and proved
        # A1 discharged from the round state machine model (C02's theorems over all histories incl. restarts): the
        # composed agreement theorems carry no hypothesis about correct validators' votes except unforgeability
        c.translate(only=["Gen/StepSM.v"])
        proved = c.prove("C03Compose") and proved
        # ... and the mirror-level agreement over the larger closures: crashes after every store write, restarts, round
        # entrances, reads and the local validator's own votes and proposed headers (Properties/C03MirrorX.v)
        proved = c.prove("C03MirrorX") and proved

    mark("translate+prove")
    # 3. real engines
    binary, blog = c.go_build("c03")
    mark("go_build")
    if binary is None:
        c.fail_obligation("harness-build", blog[-1500:])
        c.finish()
    runs = plan(c)
    if c.replay:
        rp = json.load(open(c.replay))
        if rp.get("args"):
            runs = [(rp.get("run", "replay"), rp["args"])]

    def one(job):
        name, args = job
        try:
            rc, out, err = c.run_bin(binary, args, timeout=120)
        except Exception as e:  # timeout
            return name, args, None, "harness did not return: %r" % (e,)
        try:
            obs = json.loads(out.strip().splitlines()[-1])
        except Exception:
            return name, args, None, "rc=%s no JSON on stdout; stderr tail: %s" % (rc, err[-600:])
        return name, args, obs, err[-300:]

    results, infos, verdicts, good = [], {}, {}, []
    dist = {"runs": 0, "by_scenario": {}, "finalizations": 0, "finalized_in_round_gt0": 0, "votes_signed": 0,
            "timed_out": 0, "engine_panics": 0, "engine_crashes": 0,
            "store_certificates_checked": 0, "store_entries_without_certificate": 0}
    state = {"impl_failure": False, "n_final": 0}

    def evaluate(batch, workers, tag):
        """Run a batch on the real engines, judge it inside coqc, report failures of the implementation."""
        base = len(results)
        with concurrent.futures.ThreadPoolExecutor(max_workers=workers) as ex:
            batch_results = list(ex.map(one, batch))
        results.extend(batch_results)
        mark("harness_runs" + tag)
        body = PRELUDE
        mine = []
        for k, (name, args, obs, err) in enumerate(batch_results):
            idx = base + k
            if obs is None:
                c.fail_obligation("harness-run " + name, err, {"run": name, "args": args})
                continue
            text, info = encode_run(idx, obs)
            body += "(* %s *)\n%s" % (name, text)
            infos[idx] = info
            mine.append(idx)
        good.extend(mine)
        if mine:
            ok, cout = c.coq_eval("c03_cases" + tag.replace("-", "_"), body)
            if not ok:
                c.fail_obligation("cases-eval", cout[-1500:])
            else:
                for idx in mine:
                    verdicts[idx] = parse_out(cout, idx)
        mark("coq_eval" + tag)
        dist["runs"] += len(batch_results)
        for idx in mine:
            name, args, obs, err = results[idx]
            info = infos[idx]
            v = verdicts.get(idx)
            sc = obs.get("scenario", "?")
            dist["by_scenario"][sc] = dist["by_scenario"].get(sc, 0) + 1
            dist["finalizations"] += sum(len(s) for s in info["streams"])
            dist["finalized_in_round_gt0"] += info["rounds_gt0"]
            dist["votes_signed"] += info["votes"]
            dist["timed_out"] += 1 if obs.get("timed_out") else 0
            dist["engine_panics"] += len(obs.get("panics") or [])
            dist["engine_crashes"] += 1 if obs.get("crashed") else 0
            dist["store_certificates_checked"] += info["certs"]
            dist["store_entries_without_certificate"] += info["nocert"]
            state["n_final"] += sum(len(s) for s in info["streams"])
            replay = {"run": name, "args": args, "how": "bin/h_c03 " + " ".join(args),
                      "streams": obs.get("streams"), "stores": obs.get("stores"), "decisions": obs.get("decisions"),
                      "block_ids": info["ids"], "stats": obs.get("stats"), "panics": obs.get("panics"),
                      "crash": obs.get("crash")}
            if v is None:
                if verdicts:
                    c.fail_obligation("cases-parse " + name, "no verdict parsed for run %d" % idx, replay)
                continue
            replay["verdict"] = v
            if not v["mon_streams"] or not info.get("full_agree", True):
                state["impl_failure"] = True
                c.report("disagreement-%s" % sc, "correct nodes' finalize streams differ at a height or are not contiguous "
                         "(scenario %s): %s" % (name, json.dumps(obs.get("streams"))[:400]), replay)
            elif not v["mon_all"]:
                state["impl_failure"] = True
                c.report("store-disagreement-%s" % sc, "committed-header stores disagree with the finalize streams "
                         "(scenario %s)" % name, replay)
            if not all(v["explained"]) and v["valset"]:
                state["impl_failure"] = True
                c.report("finalize-without-quorum-%s" % sc,
                         "a node finalized a block for which the precommits signed by correct validators plus the Byzantine "
                         "power are no quorum - the model's commit rule refuses the observed stream (scenario %s, nodes %s)"
                         % (name, [i for i, e in enumerate(v["explained"]) if not e]), replay)
            if not v["certs"] and v["valset"]:
                state["impl_failure"] = True
                c.report("store-certificate-without-quorum-%s" % sc,
                         "a CommittedHeaderStore holds a header whose stored commit certificate has less than a >2/3 quorum "
                         "of signers (scenario %s): %s" % (name, json.dumps(obs.get("stores"))[:300]), replay)
            for hyp in ("a1", "a2", "a3"):
                if not v[hyp]:
                    state["impl_failure"] = True
                    c.report("assumption-%s-%s" % (hyp.upper(), sc),
                             "hypothesis %s is false of the votes signed by the correct validators in a real run (scenario %s)"
                             % (hyp.upper(), name), replay)
            if not v["valset"]:
                c.fail_obligation("harness-valset " + name, "Byzantine power is not below the minority threshold in this run", replay)

    evaluate(runs, 4 if c.tier == "quick" else 3, "")
    if not proved and not state["impl_failure"] and not c.replay:
        # an obligation broke but the implementation satisfied every monitor so far: search harder (DESIGN 2.5)
        evaluate(search_plan(c), 2, "-search")
    if not proved and not state["impl_failure"]:
        b = getattr(c, "broken", {"file": "?", "log": ""})
        c.fail_obligation("Properties/C03.v (%s)" % b["file"], b["log"],
                          {"searched_runs": [r[0] for r in results], "finalizations_checked": state["n_final"]})

    nontriv = sum(1 for idx in good if sum(1 for s in infos[idx]["streams"] if len(s) >= 2) >= 2)
    for idx in good[:6]:
        name, args, obs, err = results[idx]
        c.samples.append({"run": name, "args": " ".join(args), "verdict": verdicts.get(idx),
                          "streams": {k: [[e[0], e[1][:12], e[2]] for e in s] for k, s in (obs.get("streams") or {}).items()},
                          "stats": obs.get("stats")})
    c.coverage.update({
        "evaluations": len(results),
        "distinct_nontrivial": nontriv,
        "rule": "each evaluation = one run of N real engines (scenarios clean / split / equivocate / chaos; seeds from VERIF_SEED); "
                "non-trivial = at least two correct nodes finalized at least two heights; judged inside coqc: c03_mon on finalize "
                "streams and on streams+stores, A1/A2/A3 on the votes the correct strategies signed, model_explains per node",
        "traces_validated_against_impl": sum(len(infos[i]["streams"]) for i in good),
        "distribution": dist,
        "phase_seconds": phases,
    })
    # composition hypotheses on the real mirror, along whole histories in which the validator set and its total power
    # change at every height and rounds fail: what is committed carries a >2/3 certificate of the set the chain prescribes
    # (Monitors/MirrorM.v c01_obs_ok) and every threshold is read from a summary recomputed from the view's own set
    # (c06_obs_ok). The engines of the scenarios above keep one validator set; this run covers the changing ones.
    # the run guard "finalize only with a held precommit quorum for exactly that block" on the real state machine: the
    # scripted histories of Model/SMScenarios.v (late headers in commit wait, stale views, restarts) judged by the Coq
    # monitor c08_finalize (every finalize request is for the most voted precommit block of the event's view, with quorum)
    if not c.replay:
        import sm_common as S
        tok_sm, binary_sm = S.prepare(c)
        if binary_sm is not None:
            keep = dict(c.coverage)
            # ... and "contiguous increasing heights under restarts": after a restart on the same stores the real state
            # machine resumes in the height / round the stores prescribe (c10_sm_resume: never re-enters a height whose
            # finalization is stored), on model-walked histories with Stop/Start events and on the scripted ones
            clauses_sm = ["c08_finalize", "c10_sm_resume", "c07_sm_considered_match"]
            n_sm, steps_sm = (24, 40) if c.tier == "quick" else (200, 60)
            S.walked(c, "C03", binary_sm, "c03sm", n_sm, steps_sm, clauses_sm, lambda name, evs, fl: None if S.catchup_valsets_empty(name, evs, fl) else name)
            wk = {k: c.coverage[k] for k in ("evaluations", "traces", "event_distribution") if k in c.coverage}
            S.run_scenarios(c, binary_sm, "c03sm", clauses_sm, lambda name, evs, fl: None if S.catchup_valsets_empty(name, evs, fl) else name)
            sc = c.coverage.get("scripted_histories")
            c.coverage.update(keep)
            c.coverage["state_machine_scripted_histories"] = sc
            c.coverage["state_machine_walked_histories"] = wk
    if not c.replay or "batch_seed" in json.load(open(c.replay)):
        import mirrorlib
        mirrorlib.mirror_check(c, "C03", ["c01", "c06"], "C03 composition hypotheses along mirror histories", quick=(24, 40),
                               thorough=(300, 50), extra=[], prove=False)
    c.finish()
