"""C16 - In-memory stores are linearizable and honour no-overwrite contracts (DESIGN 4, C16)."""
import json
import os
import re
import vcheck

META = {
    "engine": "coq+correspondence",
    "technique": "Coq proofs by induction over ALL operation sequences on an executable model of the seven tmmemstore stores "
                 "(refinement of each store to a history-based sequential specification); the model is tied to the Go code on "
                 "every run by differential execution (same generated op sequences through the real stores and through the "
                 "model under vm_compute), by monitors evaluated on the implementation's observations, by a go/ast structural "
                 "check that every exported store method holds the store mutex around every field access (Gen/StoreLocks.v), "
                 "and by a Wing-Gong linearizability search of recorded concurrent histories against the model.",
    "level": "Partial: the sequential specification of every store is proved at full strength for all op sequences "
             "(load-returns-latest-save, refusal conditions and error kinds, no state change on refusal, validator store exact "
             "under no hash collision). Linearizability under real concurrency rests on sync.(RW)Mutex: it is reduced to the "
             "sequential theorems by the structural lock check and supported (not proved) by concurrent histories. The action "
             "store's full no-double-action/key-change statement is refuted on four argument classes (known findings), and "
             "proved under exactly the guards excluding them. The model's keys are unbounded numbers; the correspondence run includes wide-key "
             "histories (heights equal mod 2^32, rounds equal mod 2^16) so that a store deriving its map key by packing or truncation disagrees.",
    "note": "Trusted: Coq kernel, Go's mutex semantics, the harness projection of Go values to model observations "
            "(payload identity re-checked with reflect.DeepEqual). No axioms.",
    "design_ref": "design/C16.md",
}

STORES = ["action", "round", "fin", "chs", "mirror", "sm", "val"]
TY = {"action": ("aop", "aout", "astep", "aout_eqb", "ainit"),
      "round": ("rop", "rout", "rstep", "rout_eqb", "rinit"),
      "fin": ("fop", "fout", "fstep", "fout_eqb", "finit"),
      "chs": ("cop", "cout", "cstep", "cout_eqb", "cinit"),
      "mirror": ("mop", "mout", "mstep", "mout_eqb", "minit"),
      "sm": ("sop", "sout", "sstep", "sout_eqb", "sinit"),
      "val": ("vop", "vout", "(vstep hk_%s hp_%s)", "vout_eqb", "vinit")}
MON = {"action": "a_mon_checked", "round": "r_mon", "fin": "f_mon", "chs": "c_mon", "mirror": "m_mon", "sm": "s_mon",
       "val": "(v_mon hk_%s hp_%s)"}
REPLAYED_BASE = 1000000


def hx(b):
    return bytes(b).hex() if len(b) else "."


def cb(b):
    return "[" + ";".join(str(x) for x in b) + "]"


def ckey(k):
    return "None" if k is None else "(Some %s)" % cb(k)


def hkey(k):
    return "-" if k is None else hx(k)


# key maps for the "wide keys" histories: heights that agree in their low 32 bits, rounds that agree in their low 16 bits
# (a store that derives its map key by packing or truncating height / round mixes such entries up); identity otherwise
WIDE_H = {0: 0, 1: 1, 2: 2**32 + 1, 3: 3 * 2**32 + 1, 4: 2**63 + 1}
WIDE_R = {0: 0, 1: 65536, 2: 2**31}
HM = lambda h: h
RM = lambda r: r
HASHES = [b"", b"\xaa", b"\xbb", b"\xcc\x01"]
KEYS = [b"\x01", b"\x02", b"\x03\x04", b""]


# ----------------------------------------------------------------------------- generators
# every generator returns a list of (harness line, coq op term, kind)

def gen_action(rng, n, profile):
    ops = []
    voted = set()
    tag = 1
    for _ in range(n):
        free = profile == "free"
        h = rng.below(4) if free else 1 + rng.below(3)
        r = rng.below(2)
        kd = KEYS[(h + r) % 2]
        h, r = HM(h), RM(r)
        k = rng.choice(KEYS) if free else kd
        if free and rng.chance(1, 10):
            k = None
        x = rng.below(10)
        if x < 2:
            bh = rng.choice(HASHES)
            ops.append(("PH %d %d %s %s %d" % (h, r, hx(bh), hkey(k), tag),
                        "ASavePH (mkph %d %d %s %s %d)" % (h, r, cb(bh), ckey(k), tag), "save-proposal"))
            tag += 1
        elif x < 8:
            kindc, kindl = ("ASavePV", "PV") if rng.chance(1, 2) else ("ASavePC", "PC")
            if not free and (h, r) in voted and rng.chance(1, 4):
                k = KEYS[(h + r + 1) % 2]
            voted.add((h, r))
            bh = rng.choice(HASHES)
            sig = bytes([1 + rng.below(200), rng.below(256)])
            if free and rng.chance(1, 5):
                sig = b""
            ops.append(("%s %s %d %d %s %s" % (kindl, hkey(k), h, r, hx(bh), hx(sig)),
                        "%s %s %d %d %s %s" % (kindc, ckey(k), h, r, cb(bh), cb(sig)), "save-vote"))
        else:
            ops.append(("LD %d %d" % (h, r), "ALoad %d %d" % (h, r), "load"))
    return ops


def gen_ssc(rng, tagbox):
    pkh = rng.choice([b"", b"\x10", b"\x11"])
    if rng.chance(1, 5):
        return "%s N -" % hx(pkh), "(%s, None)" % cb(pkh)
    hs = [h for h in HASHES if rng.chance(1, 2)]
    ents = []
    for h in hs:
        tagbox[0] += 1
        ents.append((h, tagbox[0]))
    line = "%s M %s" % (hx(pkh), ",".join("%s:%d" % (hx(h), t) for h, t in ents) if ents else "-")
    coq = "(%s, Some [%s])" % (cb(pkh), "; ".join("(%s, %d)" % (cb(h), t) for h, t in ents))
    return line, coq


def gen_round(rng, n, profile):
    ops = []
    tag = 1
    rtag = REPLAYED_BASE + 1
    tagbox = [10]
    for _ in range(n):
        h = HM(1 + rng.below(2))
        r = RM(rng.below(2))
        x = rng.below(10)
        if x < 3:
            k = rng.choice(KEYS)
            if profile == "free" and rng.chance(1, 8):
                k = None
            bh = rng.choice(HASHES)
            ops.append(("PH %d %d %s %s %d" % (h, r, hx(bh), hkey(k), tag),
                        "RSavePH (mkph %d %d %s %s %d)" % (h, r, cb(bh), ckey(k), tag), "save-proposal"))
            tag += 1
        elif x < 4:
            bh = rng.choice(HASHES)
            ops.append(("RH %d %s %d" % (h, hx(bh), rtag), "RSaveReplayed %d %s %d" % (h, cb(bh), rtag), "save-replayed"))
            rtag += 1
        elif x < 7:
            line, coq = gen_ssc(rng, tagbox)
            if rng.chance(1, 2):
                ops.append(("PV %d %d %s" % (h, r, line), "RSetPV %d %d %s" % (h, r, coq), "set-proofs"))
            else:
                ops.append(("PC %d %d %s" % (h, r, line), "RSetPC %d %d %s" % (h, r, coq), "set-proofs"))
        else:
            ops.append(("LD %d %d" % (h, r), "RLoad %d %d" % (h, r), "load"))
    return ops


def gen_fin(rng, n, profile):
    ops = []
    for _ in range(n):
        h = HM(rng.below(5))
        if rng.chance(1, 2):
            r, bh, vs, ah = RM(rng.below(3)), rng.choice(HASHES), rng.below(10), rng.choice(HASHES)
            ops.append(("SV %d %d %s %d %s" % (h, r, hx(bh), vs, hx(ah)),
                        "FSave %d %d %s %d %s" % (h, r, cb(bh), vs, cb(ah)), "save"))
        else:
            ops.append(("LD %d" % h, "FLoad %d" % h, "load"))
    return ops


def gen_chs(rng, n, profile):
    ops = []
    tag = 1
    for _ in range(n):
        h = HM(rng.below(5))
        if rng.chance(1, 2):
            ops.append(("SV %d %d" % (h, tag), "CSave %d %d" % (h, tag), "save"))
            tag += 1
        else:
            ops.append(("LD %d" % h, "CLoad %d" % h, "load"))
    return ops


def gen_mirror(rng, n, profile):
    ops = []
    for _ in range(n):
        if rng.chance(1, 2):
            vh = 0 if rng.chance(1, 5) else 1 + rng.below(2**rng.below(64))
            v = (vh, rng.below(4), rng.below(5), rng.below(4))
            ops.append(("ST %d %d %d %d" % v, "MSet %d %d %d %d" % v, "save"))
        else:
            ops.append(("GT", "MGet", "load"))
    return ops


def gen_sm(rng, n, profile):
    ops = []
    for _ in range(n):
        if rng.chance(1, 2):
            h = 0 if rng.chance(1, 5) else 1 + rng.below(2**rng.below(64))
            v = (h, rng.below(2**32))
            ops.append(("ST %d %d" % v, "SSet %d %d" % v, "save"))
        else:
            ops.append(("GT", "SGet", "load"))
    return ops


def keylist_line(ks):
    return ",".join(hx(k) for k in ks) if ks else "-"


def powlist_line(ps):
    return ",".join(str(p) for p in ps) if ps else "-"


def make_pools(rng):
    vk = [b"\x01", b"\x02", b"\x03", b"\x04\x05", b"\x06"]
    kl, pl = [[]], [[]]
    for _ in range(14):
        kl.append([rng.choice(vk) for _ in range(1 + rng.below(5))])
        pl.append([rng.choice([0, 1, 2, 3, 13, 2**64 - 1]) for _ in range(1 + rng.below(5))])
    return kl, pl


def gen_val(rng, n, profile, pools, tables):
    kl, pl = pools
    ktab, ptab = tables
    khashes = [v for v in ktab.values() if isinstance(v, bytes)] + [b"\x00", b"\x09\x09"]
    phashes = [v for v in ptab.values() if isinstance(v, bytes)] + [b"\x00", b"\x09"]
    ops = []
    nsaved = 0
    mine_k, mine_p = [], []   # hashes of what this trace saved: loads prefer them
    for _ in range(n):
        x = rng.below(12)
        if x < 3:
            ks = rng.choice(kl)
            if not ks and rng.chance(2, 3):
                ks = kl[1]
            if isinstance(ktab.get(tuple(ks)), bytes):
                mine_k.append(ktab[tuple(ks)])
            ops.append(("SK " + keylist_line(ks), "VSaveKeys [%s]" % "; ".join(cb(k) for k in ks), "save"))
            nsaved += 1
        elif x < 6:
            ps = rng.choice(pl)
            if not ps and rng.chance(2, 3):
                ps = pl[1]
            if isinstance(ptab.get(tuple(ps)), bytes):
                mine_p.append(ptab[tuple(ps)])
            ops.append(("SP " + powlist_line(ps), "VSavePows [%s]" % "; ".join(str(p) for p in ps), "save"))
        elif x < 8:
            h = rng.choice(mine_k) if mine_k and rng.chance(2, 3) else rng.choice(khashes)
            ops.append(("LK " + hx(h), "VLoadKeys " + cb(h), "load"))
        elif x < 9:
            h = rng.choice(mine_p) if mine_p and rng.chance(2, 3) else rng.choice(phashes)
            ops.append(("LP " + hx(h), "VLoadPows " + cb(h), "load"))
        elif x < 11 or profile == "conc":
            a = rng.choice(mine_k) if mine_k and rng.chance(3, 4) else rng.choice(khashes)
            b = rng.choice(mine_p) if mine_p and rng.chance(3, 4) else rng.choice(phashes)
            ops.append(("LV %s %s" % (hx(a), hx(b)), "VLoadVals %s %s" % (cb(a), cb(b)), "load"))
        else:
            i = rng.below(nsaved + 1)
            ops.append(("MU %d" % i, "VMutateSavedKeys %d" % i, "caller-mutates-saved-slice"))
    return ops


GEN = {"action": gen_action, "round": gen_round, "fin": gen_fin, "chs": gen_chs, "mirror": gen_mirror, "sm": gen_sm}

# Witnesses of the recorded findings (the Coq ..._refuted theorems use the same sequences); run first on every tier.
CORPUS = [
    {"name": "finding-empty-signature", "store": "action", "ops": [
        ("PV 01 1 0 aa .", "ASavePV (Some [1]) 1 0 [170] []", "save-vote"),
        ("PV 01 1 0 bb 07", "ASavePV (Some [1]) 1 0 [187] [7]", "save-vote"),
        ("LD 1 0", "ALoad 1 0", "load")]},
    {"name": "finding-height0-proposal", "store": "action", "ops": [
        ("PH 0 0 aa 01 1", "ASavePH (mkph 0 0 [170] (Some [1]) 1)", "save-proposal"),
        ("PH 0 0 bb 01 2", "ASavePH (mkph 0 0 [187] (Some [1]) 2)", "save-proposal"),
        ("LD 0 0", "ALoad 0 0", "load")]},
    {"name": "finding-proposal-key", "store": "action", "ops": [
        ("PH 1 0 aa 01 1", "ASavePH (mkph 1 0 [170] (Some [1]) 1)", "save-proposal"),
        ("PV 02 1 0 aa 07", "ASavePV (Some [2]) 1 0 [170] [7]", "save-vote"),
        ("LD 1 0", "ALoad 1 0", "load")]},
    {"name": "finding-nil-key", "store": "action", "ops": [
        ("PV - 1 0 aa 07", "ASavePV None 1 0 [170] [7]", "save-vote"),
        ("PC 02 1 0 aa 08", "ASavePC (Some [2]) 1 0 [170] [8]", "save-vote"),
        ("LD 1 0", "ALoad 1 0", "load")]},
]

CLASS_KEYS = {2: ("action-nil-pubkey-not-recorded", "a nil PubKey is stored as 'no key': a later vote with any key is accepted "
                  "(or the call panics instead of returning PubKeyChangedError)"),
              3: ("action-height0-proposal-not-recorded", "a second proposal for height 0 is accepted and replaces the first"),
              4: ("action-empty-signature-not-recorded", "after a vote saved with an empty signature a second vote of the same "
                  "kind for the same height/round is accepted and replaces the first"),
              5: ("action-proposal-key-not-recorded", "a proposal does not record/check the signing key: a proposal and a vote of "
                  "the same height/round with different keys are both accepted")}


def race_search(c, rng, pools, tables):
    import subprocess
    c.sync_gosum()
    rb = os.path.join(vcheck.BIN, "h_c16_race")
    rc, out = vcheck.run(["go", "build", "-race", "-tags", vcheck.GUARD_TAG, "-o", rb, "./c16"], cwd=vcheck.HARNESS,
                         env=vcheck.goenv(), timeout=1500)
    c.checker_cmds.append("cd harness && go build -race -tags verif -o ../bin/h_c16_race ./c16")
    if rc != 0:
        c.notes.append("race-detector build failed: " + out[-300:])
        return []
    found = []
    for st in STORES:
        lines, allops = [], []
        for rep in range(6):
            sch = "weak" if rep % 2 else "simple"
            lines.append("C %s %s" % (st, sch))
            for g in range(16):
                ops = gen_val(rng, 6, "conc", pools, tables[sch]) if st == "val" else GEN[st](rng, 6, "guarded")
                for o in ops:
                    lines.append("%d %s" % (g, o[0]))
                    allops.append("%d %s" % (g, o[0]))
            lines.append("E")
        p = subprocess.run([rb], input="\n".join(lines) + "\n", stdout=subprocess.PIPE, stderr=subprocess.PIPE, text=True,
                           timeout=600, env=dict(vcheck.goenv(), GORACE="halt_on_error=0"))
        if "DATA RACE" in p.stderr or (p.returncode != 0 and "fatal error" in p.stderr):
            fn = re.findall(r"tmmemstore\.\(\*(\w+)\)\.(\w+)\(\)", p.stderr)
            where = "%s.%s" % fn[0] if fn else st
            kind = "data race" if "DATA RACE" in p.stderr else "runtime fatal error"
            found.append(("race-%s" % where,
                          "%s inside the real %s store under concurrent use (%s): not a linearizable object on this schedule"
                          % (kind, st, ", ".join(sorted(set("%s.%s" % f for f in fn))[:4])),
                          {"store": st, "harness_input": lines, "stderr": p.stderr[:3000],
                           "how": "bin/h_c16_race < (harness_input lines)   # built with go build -race"}))
    return found


def parse_blocks(out):
    blocks, cur = [], None
    for line in out.splitlines():
        if line in ("T", "C"):
            cur = []
        elif line == "E":
            blocks.append(cur)
            cur = None
        elif line.startswith("H "):
            blocks.append(line)
        elif cur is not None:
            cur.append(line)
    return blocks


def main(argv):
    c = vcheck.Check("C16", argv)
    c.trusted += [
        "Go harness harness/c16 (projection of Go values to model observations; payload identity re-checked by reflect.DeepEqual) "
        "and the Cases/*.v evaluation inside coqc (vm_compute)",
        "translate/c16.go structure extractor (go/ast) producing Gen/StoreLocks.v",
        "sync.Mutex / sync.RWMutex give mutual exclusion and happens-before (Go memory model)",
    ]
    c.assumes += [
        "one store method = one atomic step: justified by the structural lock check (every exported method of every store "
        "type takes s.mu before touching a mutable field and releases it by defer), not by a proof about the Go runtime",
        "PubKey.Equal is byte equality on one concrete key type (gcrypto.Ed25519PubKey in the harness)",
        "callers do not mutate maps/slices nested inside saved headers and proofs (repo-wide immutability convention); the "
        "top-level []PubKey passed to SavePubKeys IS covered (caller-mutation op)",
    ]
    c.grep_gate()
    quick = c.tier == "quick"

    # ---- 1/2: structural extraction + theorems
    tok, tlog = c.translate(only=["Gen/StoreLocks.v"])
    proved = False
    if not tok:
        c.obligations.append("translate Gen/StoreLocks.v")
        c.broken = {"file": "translate", "log": tlog[-1500:]}
    else:
        proved = c.prove("C16")

    if proved and not quick:
        cmd = ["timeout", "900", "coqchk", "-silent", "-o", "-Q", ".", "GV", "GV.Properties.C16"]
        rc, out = vcheck.run(cmd, cwd=vcheck.COQ, timeout=1000)
        c.checker_cmds.append("cd coq && " + " ".join(cmd))
        if rc != 0 or "Axioms: <none>" not in out:
            c.fail_obligation("coqchk GV.Properties.C16", out[-1500:])
        else:
            c.notes.append("coqchk -o GV.Properties.C16: Axioms: <none>; no type-in-type, unsafe fixpoints or assumed positivity")

    # ---- 3: harness
    binary, blog = c.go_build("c16")
    if binary is None:
        c.fail_obligation("harness-build", blog[-1500:])
        c.finish()

    rng = c.rng
    pools = make_pools(rng)
    # hash tables of both schemes for the pooled lists, from the real HashScheme implementations
    q = []
    for sch in ("simple", "weak"):
        for ks in pools[0]:
            q.append("H %s K %s" % (sch, keylist_line(ks)))
        for ps in pools[1]:
            q.append("H %s P %s" % (sch, powlist_line(ps)))
    rc, out, err = c.run_bin(binary, stdin="\n".join(q) + "\n")
    hl = [l for l in out.splitlines() if l.startswith("H ")]
    if len(hl) != len(q):
        c.fail_obligation("harness-run", "hash query returned %d of %d lines: %s" % (len(hl), len(q), err[-400:]))
        c.finish()
    tables, coq_tabs, i = {}, [], 0

    def hres(line):
        if line == "H panic":
            return "HPanic", None
        if line == "H err":
            return "HErr", None
        term = line[len("H ok "):]
        return "(HOk %s)" % term, bytes(int(x) for x in re.findall(r"\d+", term))

    for sch in ("simple", "weak"):
        kt, pt, kc, pc = {}, {}, [], []
        for ks in pools[0]:
            t, b = hres(hl[i]); i += 1
            kt[tuple(ks)] = b if b is not None else t
            kc.append("([%s], %s)" % ("; ".join(cb(k) for k in ks), t))
        for ps in pools[1]:
            t, b = hres(hl[i]); i += 1
            pt[tuple(ps)] = b if b is not None else t
            pc.append("([%s], %s)" % ("; ".join(str(p) for p in ps), t))
        tables[sch] = (kt, pt)
        coq_tabs.append("Definition hk_tab_%s : list (list bytes * hres) := [%s].\n"
                        "Definition hp_tab_%s : list (list N * hres) := [%s].\n"
                        "Definition hk_%s (ks : list bytes) : hres := match find (fun e => list_eqb bytes_eqb (fst e) ks) hk_tab_%s with Some e => snd e | None => HPanic end.\n"
                        "Definition hp_%s (ps : list N) : hres := match find (fun e => list_eqb N.eqb (fst e) ps) hp_tab_%s with Some e => snd e | None => HPanic end.\n"
                        % (sch, ";\n ".join(kc), sch, ";\n ".join(pc), sch, sch, sch, sch))

    # ---- cases
    cases = []
    if c.replay:
        rp = json.load(open(c.replay))
        for cs in rp.get("cases", []):
            cs["ops"] = [tuple(o) for o in cs["ops"]]
            cases.append(cs)
    if not cases:
        for w in CORPUS:
            cases.append({"name": w["name"], "store": w["store"], "scheme": "simple", "mode": "seq", "profile": "corpus", "ops": w["ops"]})
        n_seq = 60 if quick else 1000
        n_conc = 40 if quick else 500
        for st in STORES:
            for j in range(n_seq):
                profile = "free" if j % 3 == 2 else "guarded"
                sch = "weak" if j % 2 else "simple"
                n = 6 + rng.below(30)
                if st == "val":
                    ops = gen_val(rng, n, profile, pools, tables[sch])
                else:
                    ops = GEN[st](rng, n, profile)
                cases.append({"name": "%s-seq-%d" % (st, j), "store": st, "scheme": sch, "mode": "seq", "profile": profile, "ops": ops})
            if st in ("action", "round", "fin", "chs"):
                global HM, RM
                wrng = vcheck.SplitMix64(c.seed ^ (0xC16E0 + STORES.index(st)))
                HM, RM = (lambda h: WIDE_H.get(h, h)), (lambda r: WIDE_R.get(r, r))
                for j in range(12 if quick else 200):
                    ops = GEN[st](wrng, 10 + wrng.below(26), "free" if j % 3 == 2 else "guarded")
                    cases.append({"name": "%s-wide-%d" % (st, j), "store": st, "scheme": "simple", "mode": "seq", "profile": "wide-keys", "ops": ops})
                HM, RM = (lambda h: h), (lambda r: r)
            for j in range(n_conc):
                sch = "weak" if j % 2 else "simple"
                n = 8 + rng.below(3)
                # half of the histories: one call per goroutine (8-10 goroutines); the rest: two calls each
                g = n if j % 4 < 2 else (n + 1) // 2
                if st == "val":
                    ops = gen_val(rng, n, "conc", pools, tables[sch])
                else:
                    ops = GEN[st](rng, n, "guarded" if j % 2 else "free")
                cases.append({"name": "%s-conc-%d" % (st, j), "store": st, "scheme": sch, "mode": "conc", "profile": "conc",
                              "goroutines": g, "ops": ops})

    # ---- run the real stores
    lines = []
    for cs in cases:
        if cs["mode"] == "seq":
            lines.append("T %s %s" % (cs["store"], cs["scheme"]))
            lines += [o[0] for o in cs["ops"]]
        else:
            lines.append("C %s %s" % (cs["store"], cs["scheme"]))
            lines += ["%d %s" % (i % cs.get("goroutines", len(cs["ops"])), o[0]) for i, o in enumerate(cs["ops"])]
        lines.append("E")
    rc, out, err = c.run_bin(binary, stdin="\n".join(lines) + "\n")
    blocks = parse_blocks(out)
    if rc != 0 or len(blocks) != len(cases):
        # the process died (e.g. "fatal error: concurrent map writes"): the case after the last complete block is the replay
        bad = cases[min(len(blocks), len(cases) - 1)]
        c.report("harness-crash-%s" % bad["store"],
                 "the real %s store crashed the process while running case %s (exit %s): %s" % (bad["store"], bad["name"], rc, err.strip().splitlines()[0] if err.strip() else ""),
                 {"cases": [bad], "stderr": err[-1500:], "how": "./check C16 --replay <this file>"})
        cases = cases[:len(blocks)]
    deep_bad = []
    for cs, bl in zip(cases, blocks):
        if cs["mode"] == "seq":
            cs["obs"] = []
            for k, l in enumerate(bl):
                d, term = l.split(" ", 1)
                cs["obs"].append(term)
                if d != "1":
                    deep_bad.append((cs, k))
        else:
            cs["hist"] = []
            for l in bl:
                g, i, inv, ret, d, term = l.split(" ", 5)
                cs["hist"].append((int(g) + int(i) * cs.get("goroutines", len(cs["ops"])), int(inv), int(ret), term))
                if d != "1":
                    deep_bad.append((cs, int(g)))
            cs["hist"].sort(key=lambda e: e[2])   # try the return order first: under a mutex it is almost always a witness
    for cs, k in deep_bad[:3]:
        c.report("payload-%s" % cs["store"],
                 "a load of the real %s store returned a Go value that is not deeply equal to the value saved under the same tag "
                 "(case %s, op %d)" % (cs["store"], cs["name"], k), {"cases": [cs], "op_index": k, "how": "./check C16 --replay <this file>"})

    # ---- 4: model + monitors on the same cases, inside coqc
    seq = [cs for cs in cases if cs["mode"] == "seq"]
    conc = [cs for cs in cases if cs["mode"] == "conc"]
    shard_n = 100
    results = {}
    eval_failed = None
    shards = [("s", seq[i:i + shard_n]) for i in range(0, len(seq), shard_n)] + \
             [("c", conc[i:i + shard_n]) for i in range(0, len(conc), shard_n)]
    for si, (kind, sh) in enumerate(shards):
        body = ["From Coq Require Import List NArith Bool.",
                "From GV Require Import Base.Ints Model.Stores Model.StoresEq Monitors.C16m.",
                "Import ListNotations. Local Open Scope N_scope."] + coq_tabs
        defs = []
        for ci, cs in enumerate(sh):
            op_t, out_t, step, eqb, init = TY[cs["store"]]
            mon = MON[cs["store"]]
            if cs["store"] == "val":
                step = step % (cs["scheme"], cs["scheme"])
                mon = mon % (cs["scheme"], cs["scheme"])
            if kind == "s":
                tr = ";\n  ".join("(%s, %s)" % (o[1], ob) for o, ob in zip(cs["ops"], cs["obs"]))
                body.append("Definition t%d : list (%s * %s) := [%s]." % (ci, op_t, out_t, tr))
                defs.append("(match first_diff %s %s 0 %s t%d with None => 0 | Some (i, _) => i + 1 end, %s t%d)" % (step, eqb, init, ci, mon, ci))
            else:
                hs = ";\n  ".join("(%s, %s, %d, %d)" % (cs["ops"][g][1], term, inv, ret) for g, inv, ret, term in cs["hist"])
                body.append("Definition t%d : list (@ev %s %s) := [%s]." % (ci, op_t, out_t, hs))
                defs.append("((if linearizable %s %s %s t%d then 0 else 1), 0)" % (step, eqb, init, ci))
        body.append("Definition res := Eval vm_compute in [%s]." % ";\n ".join(defs))
        body.append("Print res.")
        ok, cout = c.coq_eval("c16_cases_%d" % si, "\n".join(body) + "\n", timeout=400)
        if not ok:
            eval_failed = cout[-2500:]
            break
        m = re.search(r"res\s*=\s*\[(.*?)\]\s*:", cout, flags=re.S)
        pairs = re.findall(r"\(\s*(\d+)\s*,\s*(\d+)\s*\)", m.group(1)) if m else []
        if len(pairs) != len(sh):
            eval_failed = "could not parse %d results from: %s" % (len(sh), cout[-1500:])
            break
        for cs, (a, b) in zip(sh, pairs):
            cs["diff"], cs["mon"] = int(a), int(b)
    if eval_failed:
        c.fail_obligation("cases-eval", eval_failed)

    # ---- 5: verdict
    mon_bad = [cs for cs in seq if cs.get("mon", 0) != 0]
    corr_bad = [cs for cs in seq if cs.get("diff", 0) != 0]
    lin_bad = [cs for cs in conc if cs.get("diff", 0) != 0]
    reported = 0
    for cs in mon_bad:
        idx, cls = cs["mon"] // 100, cs["mon"] % 100
        if cls in CLASS_KEYS:
            key, what = CLASS_KEYS[cls]
        else:
            key = "%s-spec-op%d" % (cs["store"], idx)
            what = "the real %s store's answer to op %d (%s -> %s) is not what the sequential contract requires" % (
                cs["store"], idx, cs["ops"][idx][0], cs["obs"][idx])
            if reported >= 3:
                continue
            reported += 1
        c.report(key, what + " [case %s, op %d: %s -> %s]" % (cs["name"], idx, cs["ops"][idx][0], cs["obs"][idx]),
                 {"cases": [{k: v for k, v in cs.items()}], "op_index": idx, "class": cls,
                  "how": "./check C16 --replay <this file>   (or feed the op lines to bin/h_c16)"})
    for cs in lin_bad[:3]:
        c.report("linearizability-%s" % cs["store"],
                 "recorded concurrent history of the real %s store has no linearization consistent with the model (case %s)" % (cs["store"], cs["name"]),
                 {"cases": [cs], "how": "./check C16 --replay <this file>"})
    unexplained = [cs for cs in corr_bad if cs.get("mon", 0) == 0]
    if unexplained and not c.violations:
        cs = unexplained[0]
        c.fail_obligation("correspondence Model/Stores.v vs tmmemstore (%s)" % cs["store"],
                          "model and real store differ at op %d of case %s (%s -> %s); the monitor accepts the implementation's trace"
                          % (cs["diff"] - 1, cs["name"], cs["ops"][cs["diff"] - 1][0], cs["obs"][cs["diff"] - 1]),
                          {"cases": [cs], "op_index": cs["diff"] - 1})
    # Failing-input search for a broken lock discipline (and always in the thorough tier): the same stores under
    # heavier concurrent load with the Go race detector; a reported data race inside tmmemstore is a concrete
    # schedule on which the store is not a linearizable object.
    races = []
    lock_broken = (not proved) and "StoreLocks" in getattr(c, "broken", {}).get("file", "")
    if (lock_broken or not quick) and not c.replay:
        races = race_search(c, rng, pools, tables)
        for key, what, rp in races[:3]:
            c.report(key, what, rp)
    if not proved and not c.violations:
        b = getattr(c, "broken", {"file": "?", "log": ""})
        c.fail_obligation("Properties/C16.v (%s)" % b["file"], b["log"], {"searched_cases": len(cases)})

    # ---- evidence
    nops = sum(len(cs["ops"]) for cs in cases)
    kinds, outs = {}, {}
    for cs in seq:
        for o, ob in zip(cs["ops"], cs.get("obs", [])):
            kinds[cs["store"] + ":" + o[2]] = kinds.get(cs["store"] + ":" + o[2], 0) + 1
            cl = re.match(r"\(?(\w+)(?: \((\w+))?", ob)
            name = cl.group(1) + ("/" + cl.group(2) if cl.group(2) and cl.group(1).endswith(("Err", "Fail")) else "")
            outs[name] = outs.get(name, 0) + 1
    distinct = len(set((cs["store"], cs["scheme"], tuple(o[0] for o in cs["ops"])) for cs in cases
                       if any(o[2] != "load" for o in cs["ops"])))
    c.samples = [{"case": cs["name"], "store": cs["store"], "ops": [o[0] for o in cs["ops"][:6]], "observed": cs.get("obs", [])[:6]}
                 for cs in (seq[:2] + seq[len(seq) // 2:len(seq) // 2 + 2] + seq[-2:])]
    c.coverage.update({
        "evaluations": nops,
        "cases": len(cases),
        "distinct_nontrivial": distinct,
        "rule": "per store: random op sequences of 6-35 ops over small key pools (heights 0-4, rounds 0-1, 4 hashes incl. empty, "
                "4 keys incl. empty and nil, empty signatures) in a 'guarded' and a 'free' profile, validator store under the real "
                "SimpleHashScheme and a colliding/failing scheme; plus the four finding witnesses; non-trivial = contains a save",
        "traces_validated_against_impl": len([cs for cs in seq if cs.get("diff", 1) == 0]),
        "concurrent_histories_linearized": len([cs for cs in conc if cs.get("diff", 1) == 0]),
        "concurrent_histories": len(conc),
        "op_kind_distribution": kinds,
        "outcome_distribution": outs,
        "correspondence_disagreements": len(corr_bad),
        "monitor_failures_on_impl": len(mon_bad),
        "payload_deep_equal_failures": len(deep_bad),
    })
    c.finish()
