"""C02 - The local validator never signs two proposals or votes in one round."""
import vcheck
import sm_common as S

META = {
    "engine": "coq+translator+correspondence",
    "technique": "Coq theorems over the executable model of tmstate.StateMachine with the real in-memory action store semantics; "
                 "correspondence with the REAL state machine (recording signer wrapper, recording action store, restarts on the same stores); "
                 "boolean monitors on the implementation's observations",
    "level": "P/partial. Proved over ALL event histories from the initial state, restarts on the same stores included "
             "(inductive invariant, Properties/C02Inv.v): at most one prevote and at most one precommit per (height, round) is ever "
             "EMITTED (C02_one_emission_ever); every emitted vote was signed and saved in the same event, the action store holding none "
             "of that kind for the round before and exactly that target after (C02_emitted_was_signed_and_saved); the action store only "
             "grows. Per step (Properties/C02.v): signatures/saves refer to the current round and are made only for the strategy's answer. "
             "Refuted and reproduced on the code (known finding restart-resigns-then-halts): across a restart the SIGNER is invoked a "
             "second time for the same height/round before the action store refuses. Properties/C02Once.v: within one lifetime the signer "
             "is invoked at most once per kind per (height, round) (no-wrap guard on the height/round counters), at most once per kind "
             "between two round entrances (no guard); proposals: an emitted proposed header is fresh (signed and saved first, none recorded) "
             "or the re-sent recorded one, all proposals ever emitted for one (height, round) carry the same block data.",
    "note": "Trusted: Coq kernel, harness/sm, the ed25519 signer and memstores are the real ones. Crash between save and emit is modelled as "
            "a restart event after a completed event only.",
    "design_ref": "DESIGN.md 4 (C08/C02), design/C08.md",
}

CLAUSES = ["c02_save_before_emit", "c02_one_signature_per_lifetime", "c02_one_signature_ever", "c02_one_emission_ever", "c08_targets"]


def classify(name, evs, fl):
    if name == "c02_one_signature_ever" and any(e[0] == 2 for e in evs) and fl.get("c02_one_signature_per_lifetime"):
        return "restart-resigns-then-halts"
    return name


def main(argv):
    c = vcheck.Check("C02", argv)
    c.trusted += ["Go harness /verif/harness/sm and the evaluation of the model / monitors inside coqc (vm_compute)"]
    c.assumes += ["a restart happens between events (after the kernel became quiet), on the same three stores"]
    c.grep_gate()
    tok, binary = S.prepare(c)
    proved = tok and c.prove("C02") and c.prove("C02Inv") and c.prove("C02Once")
    if binary is None:
        c.finish()
    n, steps = (48, 40) if c.tier == "quick" else (400, 60)
    S.walked(c, "C02", binary, "c02", n, steps, CLAUSES, classify)
    S.run_scenarios(c, binary, "c02", CLAUSES, classify)
    S.run_witnesses(c, binary, "C02")
    if not proved and not c.violations:
        b = getattr(c, "broken", {"file": "?", "log": ""})
        c.fail_obligation("Properties/C02.v (%s)" % b["file"], b["log"])
    c.finish()
