"""C09, kernel part: no peer message / sequential history crashes the real mirror kernel.
Runs harness/mirror (the real mirror, real signatures) and reports a process death (kernel goroutine
panic) or a model-side Panic as a violation with the message history that led to it."""
import re
import mirrorlib


def sub_kernel(c, ctx):
    binary, blog = c.go_build("mirror")
    if binary is None:
        c.fail_obligation("harness-build(mirror)", blog[-1500:])
        return
    ncases, nops = (40, 30) if c.tier == "quick" else (600, 40)
    cases, stats, crashes = mirrorlib.run_harness(c, binary, c.seed + 909, ncases // 2, nops)
    # second half: replayed headers and the harness acting as state machine and gossip reader (slow, stalled, racing)
    cases2, stats2, crashes2 = mirrorlib.run_harness(c, binary, c.seed + 1909, ncases - ncases // 2, nops + 10,
                                                     extra=["-replay", "-consumers"], base=100000)
    cases += cases2
    crashes += crashes2
    # third part: the two inputs recorded as known findings are generated as well (a replayed header committed in a
    # round the mirror has left; a slow state machine entering such a round). Each kills the kernel, so one case per
    # process; any OTHER crash in these runs is an unlisted violation like everywhere else.
    nh = 12 if c.tier == "quick" else 120
    cases3, stats3, crashes3 = mirrorlib.run_harness(c, binary, c.seed + 2909, nh, nops + 10,
                                                     extra=["-replay", "-consumers", "-hazards"], base=200000, batch=1)
    cases += cases3
    crashes += crashes3
    for key, val in stats3.items():
        stats[key] = stats.get(key, 0) + val
    for key, val in stats2.items():
        stats[key] = stats.get(key, 0) + val
    if stats.get("handler_slower_than_4s", 0) > 0:
        # a wedge without a crash: HandleProposedHeader returned only when its 5 s context expired (busy loop on a peer message;
        # the libp2p validator's context has no such deadline)
        c.report("mirror-handler-does-not-return", "the real mirror's HandleProposedHeader kept running until the caller's context expired "
                 "(%d proposed headers took more than 4 s each; unchanged tree: milliseconds)" % stats["handler_slower_than_4s"],
                 {"how": "bin/h_mirror -seed %d -cases %d -ops %d  (and -seed %d ... -replay -consumers); the slow calls are printed on stderr as "
                         "'SLOW HandleProposedHeader height=.. round=..'" % (c.seed + 909, ncases // 2, nops, c.seed + 1909),
                  "slow_calls": stats["handler_slower_than_4s"]})
    n_steps = sum(len(k["steps"]) for k in cases)
    seen_keys = set()
    for cr in crashes:
        m = re.search(r"panic: (.*)", cr["stderr"])
        first = m.group(1)[:160] if m else "process exited %s" % cr["rc"]
        site = re.search(r"(kernel\.go|kstate\.go|mirror\.go|simplecommonmessagesignatureproof\.go|sparsesignaturecollection\.go):(\d+)", cr["stderr"])
        key = "mirror-crash-" + (re.sub(r"[^A-Za-z]+", "-", first)[:60])   # digits dropped: heights and rounds vary
        if key in seen_keys:
            continue
        seen_keys.add(key)
        k = [x for x in cases if x["idx"] == cr["case"]]
        steps = [{"op": op, "impl_result": res} for op, res, _ in (k[0]["steps"] if k else [])]
        c.report(key, "the real mirror crashed: %s (%s)" % (first, site.group(0) if site else "?"),
                 {"batch_seed": cr["batch_seed"], "stderr": cr["stderr"][-1200:], "delivered_before_crash": steps[-8:],
                  "note": "the crashing message is the one generated right after the last delivered step",
                  "how": "bin/h_mirror -seed %d -cases 5 -ops %d %s" % (cr["batch_seed"], nops + (10 if cr.get("args") else 0), cr.get("args", ""))})
    # model-side panics (Panic site reachable in the model on a generated history)
    usable = [k for k in cases if k["steps"] and k["init"]]
    results = {}
    if ctx.translated:
        okm, mlog = c.coq_make(["Model/MirrorObs.vo"])
        if okm:
            # c11sm: what the state machine is handed; it terminates the process on a view that is not newer and panics on
            # a jump-ahead that is not ahead, so a stream the monitor rejects is an engine crash in waiting
            results, elog = mirrorlib.eval_cases(c, "c09_kernel", usable, extra_import=mirrorlib.MON_IMPORT,
                                                 per_case_exprs={"c11sm": mirrorlib.MON_EXPRS["c11sm"]})
            results = results or {}
            for k in usable:
                r = results.get(k["idx"])
                if r and mirrorlib.mon_failed(r["mon"].get("c11sm", "None")):
                    c.report("state-machine-would-terminate", "the real mirror handed the state machine a view stream it terminates or panics on "
                             "(monitor c11sm: %s)" % r["mon"]["c11sm"][:40],
                             {"batch_seed": k["batch_seed"], "batch_case": k["batch_idx"], "steps": [{"op": op[:300]} for op, _, _ in k["steps"][:60]]})
                    break
    mp = [(k, r["corr"]) for k in usable for r in [results.get(k["idx"])] if r and r["corr"] and "MPanic" in r["corr"]]
    for k, corr in mp[:2]:
        c.report("mirror-model-panic", "the mirror model reaches a Panic site on a generated history: %s" % corr[:200],
                 {"batch_seed": k["batch_seed"], "batch_case": k["batch_idx"], "steps": [{"op": op} for op, _, _ in k["steps"][:40]]})
    c.coverage["kernel"] = {
        "evaluations": n_steps, "distinct_nontrivial": len(set((op, res) for k in cases for op, res, _ in k["steps"])),
        "traces_validated_against_impl": len(usable), "harness_crashes": len(crashes), "model_panics": len(mp),
        "rule": "message histories from harness/mirror delivered to the real mirror; one evaluation = one delivered message; a "
                "process death or a model Panic is a violation", "input_distribution": stats,
    }
    # concurrent callers of Handle* (overlapping vote messages, contexts cancelled while the kernel works on the request):
    # the kernel must neither die nor stop answering
    mirrorlib.mirror_concurrent(c, ["c05", "c06"], "C09 kernel under concurrent callers")
    c.samples.append({"kernel_case_first_ops": [op[:300] for op, _, _ in (usable[0]["steps"][:2] if usable else [])]})
