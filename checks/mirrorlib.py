"""Shared driver for the mirror-kernel properties (C01, C04, C05, C07, ...):
runs harness/mirror against the real mirror and evaluates Model/Mirror.v on the same histories."""
import os
import re
import vcheck

PRELUDE = """From Coq Require Import List NArith String.
From GV Require Import Base.Ints Base.Tr Gen.Math Gen.Kernel Model.Mirror Model.MirrorMgr Model.MirrorObs %s.
Import ListNotations. Local Open Scope N_scope.
"""


def parse_cases(text):
    cases = []
    cur = None
    stats = {}
    for line in text.splitlines():
        if line.startswith("CASE "):
            _, idx, seed = line.split()
            cur = {"idx": int(idx), "seed": int(seed), "steps": [], "init": None, "panic": None, "bdefs": []}
        elif line.startswith("INIT "):
            _, h, vs = line.split(" ", 2)
            cur["init"] = (int(h), vs)
        elif line.startswith("STEP "):
            op, res, obs = line[5:].split(" @@ ")
            cur["steps"].append((op, int(res), obs))
        elif line.startswith("ATTEMPT "):
            cur["attempt"] = line[len("ATTEMPT "):]   # the local action handed to the kernel last (printed before delivery)
        elif line.startswith("CSTEP "):
            cur.setdefault("cobs", []).append(line.split(" @@ ", 1)[1])
        elif line.startswith("HUNG "):
            cur["hung"] = line[5:]
        elif line.startswith("BDEF "):
            _, n, b = line.split(" ", 2)
            cur["bdefs"].append((n, b))
        elif line.startswith("RESTART-FAILED "):
            cur["restart_failed"] = line[len("RESTART-FAILED "):]
            cur["failed_op"] = cur["restart_failed"].split(" @@ ")[0]
        elif line.startswith("HARNESS-PANIC"):
            cur["panic"] = line
        elif line.startswith("END"):
            if cur is not None:
                cases.append(cur)
            cur = None
        elif line.startswith("STAT "):
            _, k, v = line.split()
            stats[k] = stats.get(k, 0) + int(v)
    if cur is not None:  # process died mid-case
        cur["panic"] = cur.get("panic") or "harness process died mid-case"
        cases.append(cur)
    return cases, stats


def case_defs(c):
    """Gallina text defining case_<idx>; identical observations are defined once."""
    out = []
    for n, b in c["bdefs"]:
        out.append("Definition %s : list N := %s." % (n, b))
    names = {}
    steps = []
    for (op, res, obs) in c["steps"]:
        if obs not in names:
            names[obs] = "ob%d_%d" % (c["idx"], len(names))
            out.append("Definition %s : tr := %s." % (names[obs], obs))
        if op.startswith(("(MEnter", "MSMRead", "MGRead", "(MAct")):
            # consumer operations of Model/MirrorMgr.v (entrances with or without a key, reads, local actions)
            mop = op
        else:
            mop = "(MK %s)" % (op if op.startswith(("(XCrash", "XRestart", "(XOp")) else "(XOp %s)" % op)
        steps.append("(%s, %d, %s)" % (mop, res, names[obs]))
    out.append("Definition case_%d := (ms_init %d %s, [%s])." % (c["idx"], c["init"][0], c["init"][1], ";\n".join(steps)))
    return "\n".join(out) + "\n"


def run_harness(c, binary, seed, ncases, nops, extra=(), batch=5, workers=6, base=0):
    """Runs the harness in several processes (a kernel panic kills only its own batch).
    Returns (cases renumbered globally, summed stats, crash list)."""
    from concurrent.futures import ThreadPoolExecutor
    nb = (ncases + batch - 1) // batch

    def work(b):
        sd = (seed * 1000003 + b * 7919 + 1) & 0xFFFFFFFFFFFF
        rc, out, err = c.run_bin(binary, ["-seed", str(sd), "-cases", str(min(batch, ncases - b * batch)), "-ops", str(nops)] + list(extra), timeout=1200)
        cs, st = parse_cases(out)
        return b, sd, rc, cs, st, err

    cases, stats, crashes = [], {}, []
    with ThreadPoolExecutor(max_workers=workers) as ex:
        for b, sd, rc, cs, st, err in ex.map(work, range(nb)):
            for k, v in st.items():
                stats[k] = stats.get(k, 0) + v
            for c_ in cs:
                old = c_["idx"]
                c_["idx"] = base + len(cases)
                c_["batch_seed"] = sd
                c_["args"] = " ".join(extra)
                c_["batch_idx"] = old
                # interned names carry the per-process case index: make them globally unique
                ren = {n: "g%d_%s" % (c_["idx"], n) for n, _ in c_["bdefs"]}
                pat = re.compile(r"\bb%d_\d+\b" % old)
                sub = lambda t: pat.sub(lambda m: ren.get(m.group(0), m.group(0)), t)
                c_["bdefs"] = [(ren[n], b_) for n, b_ in c_["bdefs"]]
                c_["steps"] = [(sub(op), res, sub(obs)) for op, res, obs in c_["steps"]]
                if c_.get("attempt"):
                    c_["attempt"] = sub(c_["attempt"])
                if "cobs" in c_:
                    c_["cobs"] = [sub(o) for o in c_["cobs"]]
                c_["init"] = (c_["init"][0], sub(c_["init"][1])) if c_["init"] else None
                cases.append(c_)
            if rc != 0 or any(c_["panic"] for c_ in cs):
                crashes.append({"batch_seed": sd, "rc": rc, "stderr": err[-1500:], "args": " ".join(extra),
                                "case": cs[-1]["idx"] if cs else None})
    return cases, stats, crashes


def redos_of(case):
    """Gallina list of the kernel-step indices of crashed operations that are immediately offered again."""
    ks = [op for op, _, _ in case["steps"] if not op.startswith(("(MEnter", "MSMRead", "MGRead", "(MAct"))]
    idx = []
    for i in range(len(ks) - 1):
        m = re.match(r"\(XCrash \d+ (.*)\)$", ks[i], flags=re.S)
        if m and m.group(1) == ks[i + 1]:
            idx.append(i)
    return "[" + "; ".join("%d%%nat" % i for i in idx) + "]"


def eval_cases(c, name, cases, extra_import="", extra_defs="", per_case_exprs=None, shard=6, workers=6):
    """Evaluate run_case (correspondence) and optional per-case monitor expressions (over the
    OBSERVED data) inside coqc.  Returns (dict idx -> {"corr": None|str, "mon": {name: str}}, errlog)."""
    from concurrent.futures import ThreadPoolExecutor
    per_case_exprs = per_case_exprs or {}
    shards = [cases[i:i + shard] for i in range(0, len(cases), shard)]

    def work(arg):
        si, sh = arg
        body = PRELUDE % extra_import + extra_defs + "\n"
        for c_ in sh:
            body += case_defs(c_)
            body += "Definition corr_%d := Eval vm_compute in run_case 0 (fst case_%d) (snd case_%d).\n" % (c_["idx"], c_["idx"], c_["idx"])
            body += "Print corr_%d.\n" % c_["idx"]
            for mname, expr in per_case_exprs.items():
                body += "Definition mon_%s_%d := Eval vm_compute in (%s).\nPrint mon_%s_%d.\n" % (
                    mname, c_["idx"], expr.replace("@CASE@", "case_%d" % c_["idx"]).replace("@REDOS@", redos_of(c_)), mname, c_["idx"])
        return sh, c.coq_eval("%s_%d" % (name, si), body, timeout=1200)

    results = {}
    with ThreadPoolExecutor(max_workers=workers) as ex:
        for sh, (ok, out) in ex.map(work, list(enumerate(shards))):
            if not ok:
                return None, out
            for c_ in sh:
                m = re.search(r"corr_%d\s*=\s*(.*?)\n\s*:\s*option mismatch" % c_["idx"], out, flags=re.S)
                corr = m.group(1).strip() if m else "PARSE-ERROR"
                r = {"corr": None if corr == "None" else corr, "mon": {}}
                for mname in per_case_exprs:
                    mm = re.search(r"mon_%s_%d\s*=\s*(.*?)\n\s*:" % (mname, c_["idx"]), out, flags=re.S)
                    r["mon"][mname] = mm.group(1).strip() if mm else "PARSE-ERROR"
                results[c_["idx"]] = r
    return results, ""


# ---------- diffing a model observation against the implementation's ----------
def parse_tr(text, bdefs):
    """Parse a tr term (as printed by the harness or by Coq) into nested python lists."""
    names = dict(bdefs)
    toks = re.findall(r"TL|TN|TB|\[|\]|;|\d+|[A-Za-z_][A-Za-z_0-9]*", text)
    pos = [0]

    def peek():
        return toks[pos[0]] if pos[0] < len(toks) else None

    def take():
        t = toks[pos[0]]
        pos[0] += 1
        return t

    def plist(item):
        assert take() == "["
        out = []
        while peek() != "]":
            if peek() == ";":
                take()
                continue
            out.append(item())
        take()
        return out

    def num():
        return int(take())

    def term():
        t = take()
        if t == "TN":
            return ("N", num())
        if t == "TB":
            if peek() == "[":
                return ("B", bytes(plist(num)).hex())
            n = take()
            return ("B", bytes(int(x) for x in re.findall(r"\d+", names.get(n, ""))).hex())
        if t == "TL":
            return ("L", plist(term))
        raise ValueError("bad token %r" % t)

    return term()


def diff_tr(a, b, path="obs"):
    if a[0] != b[0]:
        return ["%s: kind %s vs %s" % (path, a, b)]
    if a[0] != "L":
        return [] if a[1] == b[1] else ["%s: model=%s impl=%s" % (path, a[1], b[1])]
    out = []
    if len(a[1]) != len(b[1]):
        out.append("%s: length model=%d impl=%d\n   model=%s\n   impl=%s" % (path, len(a[1]), len(b[1]), a[1], b[1]))
        return out
    for i, (x, y) in enumerate(zip(a[1], b[1])):
        out += diff_tr(x, y, "%s[%d]" % (path, i))
    return out


def explain_mismatch(case, corr_text):
    """corr_text is Coq's printing of `Some (MM step res obs)` / `Some (MPanic step site)`."""
    m = re.match(r"Some\s*\(MM\s+(\d+)\s+(\d+)\s*(.*)\)\s*$", corr_text, flags=re.S)
    if not m:
        return corr_text[:400]
    step, res, obs = int(m.group(1)), int(m.group(2)), m.group(3)
    op, ires, iobs = case["steps"][step]
    lines = ["step %d: model result %d, implementation result %d" % (step, res, ires), "op: " + op[:300]]
    try:
        lines += diff_tr(parse_tr(obs, case["bdefs"]), parse_tr(iobs, case["bdefs"]))[:12]
    except Exception as e:  # noqa
        lines.append("diff failed: %r" % e)
    return "\n".join(lines)


def shrink_case(c, case, fails, max_rounds=40):
    """Greedy shrinking: drop trailing steps after the first failing one is handled by the caller;
    here we just cut the case at the failing step."""
    return case


# ---------------------------------------------------------------- shared check body
MON_IMPORT = "Monitors.MirrorM"
MON_EXPRS = {
    # name -> Gallina expression over @CASE@ returning option nat (index of the first bad step) or bool
    "c05": "first_bad c05_obs_ok 0 (obs_of (snd @CASE@))",
    "noop": "noop_trace_bad 0 (ms_k (fst @CASE@)) (observe_m (fst @CASE@) IONone) (ksteps (snd @CASE@))",
    "c04": "c04_trace_ok (k_init_h (ms_k (fst @CASE@))) None (obs_of (snd @CASE@))",
    "c07": "first_bad (c07_obs_ok (k_init_h (ms_k (fst @CASE@))) (let v := k_init_vs (ms_k (fst @CASE@)) in TL [TB (vs_pkh v); TB (vs_vph v); TL (map TN (vs_keys v)); TL (map TN (vs_pows v))])) 0 (obs_of (snd @CASE@))",
    "c10obs": "restart_obs_bad c10_restart_obs_ok 2 0 (ms_k (fst @CASE@)) (ksteps (snd @CASE@))",
    "c10obs_shifted": "restart_obs_bad c10_restart_obs_ok 1 0 (ms_k (fst @CASE@)) (ksteps (snd @CASE@))",
    "c10conv": "conv_trace_bad @REDOS@ 2 0 (ms_k (fst @CASE@)) (ksteps (snd @CASE@))",
    "c10ahead": "conv_trace_bad @REDOS@ 1 0 (ms_k (fst @CASE@)) (ksteps (snd @CASE@))",
    "c06": "first_bad c06_obs_ok 0 (obs_of (snd @CASE@))",
    "c11sm": "c11_sm_bad 0 None (obs_of (snd @CASE@))",
    "c11g": "c11_g_bad 0 [] (obs_of (snd @CASE@))",
    "c11cur": "c11_cur_bad 0 [] None (obs_of (snd @CASE@))",
    "c11nil": "c11_nil_bad 0 (fst @CASE@) false (snd @CASE@)",
    "c01": "first_bad (c01_obs_ok (collect_vals [(k_init_h (ms_k (fst @CASE@)), (vs_keys (k_init_vs (ms_k (fst @CASE@))), vs_pows (k_init_vs (ms_k (fst @CASE@)))))] (obs_of (snd @CASE@)))) 0 (obs_of (snd @CASE@))",
}


def mon_failed(val):
    return val not in ("None", "true")


def mirror_check(c, prop_file, monitors, what, quick=(40, 30), thorough=(600, 40), extra=(), prove=True, templates=()):
    """Common body of the mirror-kernel checks. monitors: names from MON_EXPRS that decide this property."""
    c.trusted += [
        "translator /verif/translate for kState.FindView and the result enumerations (Gen/Kernel.v), thresholds (Gen/Math.v)",
        "hand-written model coq/Model/Mirror.v of mirror.go + tmi/kernel.go + tmi/kstate.go (sequential delivery), tied to "
        "the code by differential correspondence on every run: harness/mirror drives the REAL tmmirror.Mirror (verif-tagged "
        "re-export) with real ed25519 keys, SimpleHashScheme, SimpleSignatureScheme, tmmemstore stores",
        "ideal-signature convention (DESIGN 3): a signature is identified with (signer, kind, height, round, hash); "
        "sign-bytes injectivity is C15's theorem, EUF-CMA of ed25519 is assumed",
    ]
    c.assumes += ["inputs are delivered sequentially (one Handle* call at a time); concurrent callers are outside this model",
                  "hash collisions among generated headers / validator sets do not occur (vs_ok / hd_ok flags set by construction)"]
    if prove:
        c.grep_gate()
    ncases, nops = quick if c.tier == "quick" else thorough
    tok, tlog = c.translate(only=["Gen/Kernel.v", "Gen/Math.v"])
    proved = False
    if not tok:
        c.obligations.append("translate Gen/Kernel.v")
        c.broken = {"file": "translate", "log": tlog[-800:]}
    elif prove:
        proved = True
        for pf in ([prop_file] if isinstance(prop_file, str) else prop_file):
            proved = c.prove(pf) and proved
    else:
        proved = True  # the caller re-checks its own Properties file
    binary, blog = c.go_build("mirror")
    if binary is None:
        c.fail_obligation("harness-build", blog[-1500:])
        c.finish()
    if c.replay:
        import json
        rp = json.load(open(c.replay))
        seeds = [(rp.get("batch_seed"), rp.get("batch_cases", 5), rp.get("ops", nops))]
    cases, stats, crashes = run_harness(c, binary, c.seed, ncases, nops, extra=["-replay"] + list(extra))
    # histories built around one interleaving template of the harness (a sequence random choice rarely lines up, e.g. 8 =
    # commit by a bare quorum next to a nil precommit, then next-height proposals whose commit proof backfills the
    # committing view; 9 = a fork attempt by a Byzantine majority): a batch per template in which it starts every 3rd step
    for t in templates:
        nt = 10 if c.tier == "quick" else 60
        cs2, st2, cr2 = run_harness(c, binary, c.seed + 7919 * (t + 1), nt, nops,
                                    extra=["-replay", "-template", str(t)] + list(extra), base=len(cases))
        cases += cs2
        crashes += cr2
        for k, v in st2.items():
            stats[k] = stats.get(k, 0) + v
        stats["template_%d_cases" % t] = len(cs2)
    for cr in crashes[:2]:
        # the real mirror died (kernel panic) or the harness gave up: that batch's histories are incomplete, so the
        # correspondence is not established for them; C09's kernel part reports the panic itself with its history
        m = re.search(r"panic: (.*)", cr["stderr"])
        died = [k for k in cases if k["idx"] == cr["case"]]
        hist = {}
        if died and died[0].get("panic"):
            # the history up to the death, and the local action that was being delivered if there was one
            hist = {"steps_before_the_death": [{"op": op[:600], "impl_result": res} for op, res, _ in died[0]["steps"][-8:]],
                    "bdefs": dict(died[0]["bdefs"][:200])}
            if died[0].get("attempt") and (not died[0]["steps"] or died[0]["steps"][-1][0] != died[0]["attempt"]):
                hist["local_action_being_delivered"] = died[0]["attempt"]
        rp = {"batch_seed": cr["batch_seed"], "how": "bin/h_mirror -seed %d -cases 5 -ops %d %s" % (cr["batch_seed"], nops, cr.get("args") or " ".join(["-replay"] + list(extra)))}
        rp.update(hist)
        c.fail_obligation("harness-run: the real mirror died during a generated history",
                          (m.group(1) if m else "exit %s" % cr["rc"])[:300] + "\n" + cr["stderr"][-1200:], rp)
    for k in cases:
        if k.get("restart_failed"):
            c.report("restart-failed", "the real mirror did not come up again after a crash: %s" % k["restart_failed"].split(" @@ ")[-1][:200],
                     {"batch_seed": k["batch_seed"], "batch_case": k["batch_idx"],
                      "crashed_operation": k.get("failed_op", "")[:1500],
                      "steps_before": [{"op": op[:600], "impl_result": res} for op, res, _ in k["steps"][-6:]],
                      "how": "bin/h_mirror -replay -crashes -seed %d -cases %d -ops 40" % (k["batch_seed"], k["batch_idx"] + 1)})
    model_ok = tok
    if tok:
        okm, mlog = c.coq_make(["Model/MirrorObs.vo", "Monitors/MirrorM.vo"])
        model_ok = okm
        if not okm:
            c.fail_obligation("model-build", mlog[-1500:])
    usable = [k for k in cases if k["steps"] and k["init"]]
    results = {}
    if model_ok and usable:
        exprs = {m: MON_EXPRS[m] for m in monitors}
        results, elog = eval_cases(c, c.pid.lower() + "_cases", usable, extra_import=MON_IMPORT, per_case_exprs=exprs)
        if results is None:
            c.fail_obligation("cases-eval", elog[-2000:])
            results = {}
    n_steps = sum(len(k["steps"]) for k in usable)
    corr_bad, mon_bad = [], []
    for k in usable:
        r = results.get(k["idx"])
        if not r:
            continue
        for m in monitors:
            if mon_failed(r["mon"].get(m, "None")):
                mon_bad.append((k, m, r["mon"][m]))
        if r["corr"] is not None:
            corr_bad.append((k, r["corr"]))
    per_mon = {}
    for x in mon_bad:
        per_mon.setdefault(x[1], []).append(x)
    for k, m, val in [x for m_ in monitors for x in per_mon.get(m_, [])[:2]]:
        mm = re.search(r"Some\s+(\d+)", val)
        step = int(mm.group(1)) if mm else None
        upto = (step + 1) if step is not None else len(k["steps"])
        c.report("mirror-%s-monitor" % m,
                 "%s: monitor %s fails on the implementation's observations (case seed %d, step %s)" % (what, m, k["seed"], step),
                 {"batch_seed": k["batch_seed"], "batch_case": k["batch_idx"], "ops": len(k["steps"]), "failing_step": step, "monitor": m,
                  "monitor_value": val, "steps": [{"op": op, "impl_result": res} for op, res, _ in k["steps"][:upto]],
                  "impl_observation_at_failure": k["steps"][upto - 1][2] if k["steps"] else None,
                  "how": "bin/h_mirror -seed %d -cases %d -ops %d %s (case %d)" % (k["batch_seed"], k["batch_idx"] + 1, nops, k.get("args") or " ".join(["-replay"] + list(extra)), k["batch_idx"])})
    concrete = any(v[3] for v in c.violations)  # a violation with a failing input (known findings excluded)
    if corr_bad and not concrete:
        k, corr = corr_bad[0]
        c.fail_obligation("correspondence Model/Mirror.v vs real mirror",
                          explain_mismatch(k, corr)[:3000],
                          {"batch_seed": k["batch_seed"], "batch_case": k["batch_idx"], "disagreeing_cases": len(corr_bad),
                           "steps": [{"op": op, "impl_result": res} for op, res, _ in k["steps"]][:60]})
    if not proved and not concrete:
        b = getattr(c, "broken", {"file": "?", "log": ""})
        c.fail_obligation("Properties/%s.v (%s)" % (prop_file if isinstance(prop_file, str) else "+".join(prop_file), b["file"]), b["log"],
                          {"searched_cases": len(usable), "searched_steps": n_steps})
    distinct = len(set((op, res) for k in usable for op, res, _ in k["steps"]))
    if prove:
        c.samples = [{"case_seed": k["seed"], "first_steps": [{"op": op[:400], "result": res} for op, res, _ in k["steps"][:2]]} for k in usable[:3]]
    cov = c.coverage if prove else c.coverage.setdefault("mirror_histories", {})
    cov.update({
        "evaluations": n_steps,
        "distinct_nontrivial": distinct,
        "rule": "histories generated by harness/mirror from one seed (honest progress, nil/next-round/future/old votes, equivocation, "
                "junk / wrong-key / wrong-kind / wrong-round / out-of-range / wrong-length key ids, forged validator lists, bad hashes, "
                "wrong predecessor, tampered commit proofs, duplicates, validator-set change every height); one evaluation = one "
                "delivered message; distinct_nontrivial = distinct (message, result) pairs",
        "traces_validated_against_impl": len(usable),
        "cases": len(cases), "harness_crashes": len(crashes),
        "correspondence_disagreements": len(corr_bad),
        "monitor_failures_on_impl": len(mon_bad),
        "input_distribution": stats,
    })
    return cases, crashes, results


# ---------------------------------------------------------------- concurrent callers
CONC_MONITORS = {
    # evaluated on the observation list of a case (no model run: the interleaving of concurrent callers has no
    # sequential counterpart to compare with; the monitors are statements about every observation / about the streams)
    "c05": "first_bad c05_obs_ok 0 @OBS@",
    "c06": "first_bad c06_obs_ok 0 @OBS@",
    "c04": "c04_trace_ok @INITH@ None @OBS@",
    "c11g": "c11_g_bad 0 [] @OBS@",
    "c11sm": "c11_sm_bad 0 None @OBS@",
    "c11cur": "c11_cur_bad 0 [] None @OBS@",
}


def mirror_concurrent(c, monitors, what, quick=(30, 10), thorough=(150, 12)):
    """Batches of overlapping vote messages delivered by CONCURRENT callers of the real mirror, some of which give up
    (context cancelled) while the kernel works on their request; after every batch the kernel must still answer, and the
    Coq monitors judge the observations (views, stores, what the consumers received). Reports concrete violations only."""
    binary, blog = c.go_build("mirror")
    if binary is None:
        c.fail_obligation("harness-build", blog[-1500:])
        return
    ncases, nops = quick if c.tier == "quick" else thorough
    cases, stats, crashes = run_harness(c, binary, c.seed + 77, ncases, nops, extra=["-consumers", "-concurrent"], batch=3, base=300000)
    for cr in [x for x in crashes if x["rc"] != 3][:2]:   # exit status 3 = the harness gave up on a hung kernel (reported below)
        m = re.search(r"panic: (.*)", cr["stderr"])
        c.report("concurrent-crash", "%s: the real mirror died under concurrent callers: %s" % (what, (m.group(1) if m else "exit %s" % cr["rc"])[:200]),
                 {"batch_seed": cr["batch_seed"], "stderr": cr["stderr"][-1200:],
                  "how": "bin/h_mirror -seed %d -cases 3 -ops %d -consumers -concurrent" % (cr["batch_seed"], nops)})
    for k in cases:
        if k.get("hung"):
            c.report("concurrent-hang", "%s: %s" % (what, k["hung"][:300]),
                     {"batch_seed": k["batch_seed"], "batch_case": k["batch_idx"],
                      "how": "bin/h_mirror -seed %d -cases %d -ops %d -consumers -concurrent" % (k["batch_seed"], k["batch_idx"] + 1, nops)})
    usable = [k for k in cases if k.get("cobs") and k["init"]]
    okm, mlog = c.coq_make(["Model/MirrorObs.vo", "Monitors/MirrorM.vo"])
    bad = []
    if okm and usable:
        from concurrent.futures import ThreadPoolExecutor
        shard = 3
        shards = [usable[i:i + shard] for i in range(0, len(usable), shard)]

        def work(a):
            si, sh = a
            body = PRELUDE % MON_IMPORT
            for k in sh:
                for n, b in k["bdefs"]:
                    body += "Definition %s : list N := %s.\n" % (n, b)
                names = {}
                for o in k["cobs"]:
                    if o not in names:
                        names[o] = "cob%d_%d" % (k["idx"], len(names))
                        body += "Definition %s : tr := %s.\n" % (names[o], o)
                body += "Definition cobs_%d : list tr := [%s].\n" % (k["idx"], "; ".join(names[o] for o in k["cobs"]))
                for m in monitors:
                    e = CONC_MONITORS[m].replace("@OBS@", "cobs_%d" % k["idx"]).replace("@INITH@", str(k["init"][0]))
                    body += "Definition cm_%s_%d := Eval vm_compute in %s.\nPrint cm_%s_%d.\n" % (m, k["idx"], e, m, k["idx"])
            return sh, c.coq_eval("%s_conc_%d" % (c.pid.lower(), si), body)
        with ThreadPoolExecutor(max_workers=6) as ex:
            for sh, (ok, out) in ex.map(work, enumerate(shards)):
                if not ok:
                    c.fail_obligation("cases-eval (concurrent)", out[-1500:])
                    continue
                for k in sh:
                    for m in monitors:
                        mm = re.search(r"cm_%s_%d\s*=\s*(.*?)\n\s*:" % (m, k["idx"]), out, flags=re.S)
                        val = mm.group(1).strip() if mm else "?"
                        if mon_failed(val):
                            bad.append((k, m, val))
    seen = set()
    for k, m, val in bad:
        if m in seen:
            continue
        seen.add(m)
        c.report("concurrent-%s-monitor" % m, "%s: monitor %s fails on the real mirror's observations after concurrent callers (case seed %d): %s" % (what, m, k["seed"], val[:60]),
                 {"batch_seed": k["batch_seed"], "batch_case": k["batch_idx"], "monitor": m, "monitor_value": val,
                  "observations": len(k["cobs"]),
                  "how": "bin/h_mirror -seed %d -cases %d -ops %d -consumers -concurrent" % (k["batch_seed"], k["batch_idx"] + 1, nops)})
    c.coverage["concurrent_callers"] = {"cases": len(cases), "observations": sum(len(k.get("cobs", [])) for k in cases),
                                        "batches": stats.get("concurrent_batches", 0), "calls": stats.get("concurrent_calls", 0),
                                        "monitor_failures": len(bad), "hung": sum(1 for k in cases if k.get("hung")),
                                        "crashes": len(crashes), "monitors": list(monitors)}
