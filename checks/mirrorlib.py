"""Shared driver for the mirror-kernel properties (C01, C04, C05, C07, ...):
runs harness/mirror against the real mirror and evaluates Model/Mirror.v on the same histories."""
import os
import re
import vcheck

PRELUDE = """From Coq Require Import List NArith String.
From GV Require Import Base.Ints Gen.Math Gen.Kernel Model.Mirror Model.MirrorObs %s.
Import ListNotations. Local Open Scope N_scope.
"""


def parse_cases(text):
    cases = []
    cur = None
    stats = {}
    for line in text.splitlines():
        if line.startswith("CASE "):
            _, idx, seed = line.split()
            cur = {"idx": int(idx), "seed": int(seed), "steps": [], "init": None, "panic": None, "bdefs": []}
        elif line.startswith("INIT "):
            _, h, vs = line.split(" ", 2)
            cur["init"] = (int(h), vs)
        elif line.startswith("STEP "):
            op, res, obs = line[5:].split(" @@ ")
            cur["steps"].append((op, int(res), obs))
        elif line.startswith("BDEF "):
            _, n, b = line.split(" ", 2)
            cur["bdefs"].append((n, b))
        elif line.startswith("HARNESS-PANIC"):
            cur["panic"] = line
        elif line.startswith("END"):
            if cur is not None:
                cases.append(cur)
            cur = None
        elif line.startswith("STAT "):
            _, k, v = line.split()
            stats[k] = stats.get(k, 0) + int(v)
    if cur is not None:  # process died mid-case
        cur["panic"] = cur.get("panic") or "harness process died mid-case"
        cases.append(cur)
    return cases, stats


def case_defs(c):
    """Gallina text defining case_<idx>; identical observations are defined once."""
    out = []
    for n, b in c["bdefs"]:
        out.append("Definition %s : list N := %s." % (n, b))
    names = {}
    steps = []
    for (op, res, obs) in c["steps"]:
        if obs not in names:
            names[obs] = "o%d_%d" % (c["idx"], len(names))
            out.append("Definition %s : tr := %s." % (names[obs], obs))
        steps.append("(%s, %d, %s)" % (op, res, names[obs]))
    out.append("Definition case_%d := (init_state %d %s, [%s])." % (c["idx"], c["init"][0], c["init"][1], ";\n".join(steps)))
    return "\n".join(out) + "\n"


def run_harness(c, binary, seed, ncases, nops, extra=()):
    rc, out, err = c.run_bin(binary, ["-seed", str(seed), "-cases", str(ncases), "-ops", str(nops)] + list(extra), timeout=1200)
    cases, stats = parse_cases(out)
    return rc, cases, stats, err


def eval_cases(c, name, cases, extra_import="", extra_defs="", per_case_exprs=None, shard=6, workers=6):
    """Evaluate run_case (correspondence) and optional per-case monitor expressions (over the
    OBSERVED data) inside coqc.  Returns (dict idx -> {"corr": None|str, "mon": {name: str}}, errlog)."""
    from concurrent.futures import ThreadPoolExecutor
    per_case_exprs = per_case_exprs or {}
    shards = [cases[i:i + shard] for i in range(0, len(cases), shard)]

    def work(arg):
        si, sh = arg
        body = PRELUDE % extra_import + extra_defs + "\n"
        for c_ in sh:
            body += case_defs(c_)
            body += "Definition corr_%d := Eval vm_compute in run_case 0 (fst case_%d) (snd case_%d).\n" % (c_["idx"], c_["idx"], c_["idx"])
            body += "Print corr_%d.\n" % c_["idx"]
            for mname, expr in per_case_exprs.items():
                body += "Definition mon_%s_%d := Eval vm_compute in (%s).\nPrint mon_%s_%d.\n" % (
                    mname, c_["idx"], expr.replace("@CASE@", "case_%d" % c_["idx"]), mname, c_["idx"])
        return sh, c.coq_eval("%s_%d" % (name, si), body, timeout=1200)

    results = {}
    with ThreadPoolExecutor(max_workers=workers) as ex:
        for sh, (ok, out) in ex.map(work, list(enumerate(shards))):
            if not ok:
                return None, out
            for c_ in sh:
                m = re.search(r"corr_%d\s*=\s*(.*?)\n\s*:\s*option mismatch" % c_["idx"], out, flags=re.S)
                corr = m.group(1).strip() if m else "PARSE-ERROR"
                r = {"corr": None if corr == "None" else corr, "mon": {}}
                for mname in per_case_exprs:
                    mm = re.search(r"mon_%s_%d\s*=\s*(.*?)\n\s*:" % (mname, c_["idx"]), out, flags=re.S)
                    r["mon"][mname] = mm.group(1).strip() if mm else "PARSE-ERROR"
                results[c_["idx"]] = r
    return results, ""


# ---------- diffing a model observation against the implementation's ----------
def parse_tr(text, bdefs):
    """Parse a tr term (as printed by the harness or by Coq) into nested python lists."""
    names = dict(bdefs)
    toks = re.findall(r"TL|TN|TB|\[|\]|;|\d+|[A-Za-z_][A-Za-z_0-9]*", text)
    pos = [0]

    def peek():
        return toks[pos[0]] if pos[0] < len(toks) else None

    def take():
        t = toks[pos[0]]
        pos[0] += 1
        return t

    def plist(item):
        assert take() == "["
        out = []
        while peek() != "]":
            if peek() == ";":
                take()
                continue
            out.append(item())
        take()
        return out

    def num():
        return int(take())

    def term():
        t = take()
        if t == "TN":
            return ("N", num())
        if t == "TB":
            if peek() == "[":
                return ("B", bytes(plist(num)).hex())
            n = take()
            return ("B", bytes(int(x) for x in re.findall(r"\d+", names.get(n, ""))).hex())
        if t == "TL":
            return ("L", plist(term))
        raise ValueError("bad token %r" % t)

    return term()


def diff_tr(a, b, path="obs"):
    if a[0] != b[0]:
        return ["%s: kind %s vs %s" % (path, a, b)]
    if a[0] != "L":
        return [] if a[1] == b[1] else ["%s: model=%s impl=%s" % (path, a[1], b[1])]
    out = []
    if len(a[1]) != len(b[1]):
        out.append("%s: length model=%d impl=%d\n   model=%s\n   impl=%s" % (path, len(a[1]), len(b[1]), a[1], b[1]))
        return out
    for i, (x, y) in enumerate(zip(a[1], b[1])):
        out += diff_tr(x, y, "%s[%d]" % (path, i))
    return out


def explain_mismatch(case, corr_text):
    """corr_text is Coq's printing of `Some (MM step res obs)` / `Some (MPanic step site)`."""
    m = re.match(r"Some\s*\(MM\s+(\d+)\s+(\d+)\s*(.*)\)\s*$", corr_text, flags=re.S)
    if not m:
        return corr_text[:400]
    step, res, obs = int(m.group(1)), int(m.group(2)), m.group(3)
    op, ires, iobs = case["steps"][step]
    lines = ["step %d: model result %d, implementation result %d" % (step, res, ires), "op: " + op[:300]]
    try:
        lines += diff_tr(parse_tr(obs, case["bdefs"]), parse_tr(iobs, case["bdefs"]))[:12]
    except Exception as e:  # noqa
        lines.append("diff failed: %r" % e)
    return "\n".join(lines)


def shrink_case(c, case, fails, max_rounds=40):
    """Greedy shrinking: drop trailing steps after the first failing one is handled by the caller;
    here we just cut the case at the failing step."""
    return case
