"""C12 (a) - timer discipline of the round state machine: module for checks/c12.py.

`subchecks(c)` runs the state-machine half of C12 on an existing vcheck.Check `c`:
theorems of Properties/C12sm.v, correspondence of the model with the real state machine observed
through a recording RoundTimer, and the monitor c12_one_timer on the implementation's observations."""
import sm_common as S

CLAUSES = ["c12_one_timer"]


def classify(name, evs, fl):
    return name


def subchecks(c):
    c.trusted += ["Go harness /verif/harness/sm (recording RoundTimer) and the model / monitor evaluation inside coqc"]
    tok, binary = S.prepare(c)
    proved = tok and c.prove("C12sm") and c.prove("C12smInv")
    if binary is None:
        return False
    n, steps = (40, 40) if c.tier == "quick" else (300, 60)
    S.walked(c, c.pid, binary, "c12sm", n, steps, CLAUSES, classify, stale=True)
    S.run_scenarios(c, binary, "c12sm", CLAUSES, classify)
    if not proved and not c.violations:
        b = getattr(c, "broken", {"file": "?", "log": ""})
        c.fail_obligation("Properties/C12sm.v (%s)" % b["file"], b["log"])
    return proved
