"""C12 - Exactly one step timer, armed iff waiting, and re-arming never fails (DESIGN 4, C12).

The check is a list of sub-check functions run in order on one shared context (SUBCHECKS).
Part (b) - the production round timer tmstate.StandardRoundTimer - is implemented here;
part (a) - the state machine's timer discipline - is appended to SUBCHECKS by its own functions.
"""
import json
import os
import re
import subprocess
import vcheck

META = {
    "engine": "coq+correspondence",
    "technique": "structure extractor (roundtimer.go background -> Gallina program data) + fine-grained nondeterministic "
                 "transition system interpreted from that data; theorems for every schedule by kernel-checked exhaustive "
                 "exploration of the finite product with the monitor automaton (closedness certificate, vm_compute); "
                 "differential run of caller scripts (real timer vs set of all model outcomes) and GOMAXPROCS 1..16 stress "
                 "of the real timer judged by the Coq monitors; the timeout strategy (timeoutstrategy.go) is translated to Gallina with "
                 "int64 wrap-around on every run, theorems by lia, generated vs real methods on boundary-biased inputs",
    "level": "Durations (Properties/C12Timeouts.v, Gen/Timeouts.v regenerated from tm/tmengine/timeoutstrategy.go): each LinearTimeoutStrategy "
             "method is exactly field-or-default base + Duration(round) * increment in int64 arithmetic and cannot panic; with the default fields, "
             "for EVERY uint32 round, the four durations are the exact positive linear functions (no wrap); any configuration whose largest duration "
             "fits int64 is positive and strictly increasing in the round (the guard is shown necessary). Part (b), full on the model: for EVERY interleaving of start/cancel/observe/fire/ctx-cancel with every statement of "
             "the timer goroutine as extracted from roundtimer.go - no panic when each start follows a returned cancel or an "
             "observed elapse, the request is always answered, a timer fires at most once, and no elapse after cancel returned. "
             "Part (a): on the round state machine model (Model/StateMachine.v, tied to the real tmstate.StateMachine by per-event "
             "correspondence) proved over ALL event histories by an inductive invariant (Properties/C12smInv.v): a timer is never "
             "started while another is outstanding; an outstanding timer belongs to the current round and to the step of its kind; "
             "the machine's belief about its timer equals the timer actually outstanding; leaving the step or round cancels it. The "
             "converse (in a timed step => a timer is armed) is refuted by a witness replayed on the code (stale step after a "
             "committed-header response, same root cause as C08's known finding w1). "
             "Monitored on the real state machine: after every event in which the model cancels an outstanding timer the harness closes "
             "that cancelled timer's channel (a timer firing concurrently with its cancellation): no reaction is allowed.",
    "note": "Partial: Go's select choice, channel close visibility, sync.Mutex and time.Timer semantics are trusted (modelled); "
            "the cancel function is one atomic step (close bracketed by Lock/Unlock); the caller is single threaded; the stress "
            "run samples real schedules, the theorems cover all model schedules. Repo fix f318c13 (cancel checked first in the "
            "start and fire cases, under a mutex shared with cancel). No axioms.",
    "design_ref": "DESIGN.md 4 (C12), design/C12.md",
}

PROCS = [1, 2, 4, 8, 16]
OBS = ["OStartRet", "OStartNil", "OCancelRet", "OElapsed", "OElapsedOther", "OSeen", "OPanic"]
SOP = {"S": "SStartLong", "s": "SStartShort", "C": "SCancel", "W": "SWait", "P": "SPoll", "X": "SCtx"}
SOUT = {"RoOk": "ok", "RoNil": "nil", "RoE": "E", "RoT": "T", "RoOpen": "open", "RoClosed": "closed", "RoNone": "none",
        "RoPanic": "panic", "RoExit": "exit", "RoStuck": "stuck", "RoLimit": "LIMIT"}

COQ_HDR = ("From Coq Require Import List Bool.\n"
           "From GV Require Import Model.TimerVocab Monitors.C12m Model.Timer Gen.Timer.\n"
           "Import ListNotations.\n")
MON_HDR = ("From Coq Require Import List Bool.\nFrom GV Require Import Monitors.C12m.\nImport ListNotations.\n")


# ----------------------------------------------------------------------------- helpers
def parse_nested(txt):
    """Parse a printed Coq list term like [[RoOk; RoExit]; [RoOk]] into nested python lists of identifiers."""
    toks = re.findall(r"\[|\]|;|[A-Za-z_][A-Za-z0-9_]*|\d+", txt)
    pos = 0

    def term():
        nonlocal pos
        if toks[pos] == "[":
            pos += 1
            out = []
            while toks[pos] != "]":
                if toks[pos] == ";":
                    pos += 1
                    continue
                out.append(term())
            pos += 1
            return out
        t = toks[pos]
        pos += 1
        return t
    return term()


def grab_def(out, name):
    m = re.search(r"(?:^|\n)\s*" + name + r"\s*=\s*(.*?)\n\s*:\s", out, flags=re.S)
    return parse_nested(m.group(1)) if m else None


def round_trace(key):
    """One stress round observation -> the trace of obs it stands for (see design/C12.md)."""
    f = dict(re.findall(r"(\w+)=(-?\d+)", key))
    e0, c, e1, e2, late = int(f["e0"]), int(f["c"]), int(f["e1"]), int(f["e2"]), int(f["late"])
    tr = ["OStartRet"]
    if e0:
        tr += ["OElapsed", "OSeen"]
    if c:
        if e1 and not e0:
            tr.append("OElapsed")      # closed while cancel was running: concurrent, allowed
        tr.append("OCancelRet")
    elif e1 and not e0:
        tr.append("OElapsed")
    if e2 == 1 and not e1:
        tr.append("OElapsed")          # closed only after cancel had returned
    if late:
        tr.append("OElapsedOther")     # closed after the next timer had been handed out
    return tr


def script_trace(ops, outs):
    """Caller script + implementation outcomes -> obs trace.  The moment of an elapse is only known to lie between
    the last time the channel was seen open (or the start) and the first time it was seen closed: it is placed at the
    EARLIEST such point (benefit of the doubt), so only `cancel returned, seen open, later seen closed` is judged late."""
    tr, known, open_idx = [], False, 0
    for op, o in zip(ops, outs):
        if o == "panic":
            tr.append("OPanic")
            break
        if op in "Ss":
            if o == "ok":
                tr.append("OStartRet")
                known, open_idx = False, len(tr)
            else:
                tr.append("OStartNil")
        elif op == "C":
            tr.append("OCancelRet")
        elif op in "WP":
            if o in ("E", "closed") and not known:
                tr.insert(open_idx, "OElapsed")
                tr.append("OSeen")
                known = True
            elif o == "open":
                open_idx = len(tr)
    if len(outs) > len(ops) and outs[len(ops)] == "panic":
        tr.append("OPanic")
    return tr


def coq_monitor(c, name, traces):
    """Evaluate the three Coq monitors on each trace (inside coqc). Returns list of (no_panic, once, cancel_final)."""
    res = []
    for si in range(0, len(traces), 1500):
        sh = traces[si:si + 1500]
        body = MON_HDR + "Definition traces : list (list obs) := [%s].\n" % ";\n".join("[" + "; ".join(t) + "]" for t in sh)
        body += ("Definition verdicts := Eval vm_compute in map (fun t => [c12_no_panic t; c12_fires_once t; c12_cancel_final t]) traces.\n"
                 "Print verdicts.\n")
        ok, out = c.coq_eval("%s_%d" % (name, si), body)
        v = grab_def(out, "verdicts") if ok else None
        if v is None or len(v) != len(sh):
            c.fail_obligation("monitor-eval " + name, out[-1200:])
            return None
        res += [tuple(x == "true" for x in r) for r in v]
    return res


def report_once(c, X, key, what, rp):
    """One report per key (the first concrete input is the replay)."""
    if key in X.setdefault("reported", set()):
        return
    X["reported"].add(key)
    c.report(key, what, rp)


def describe(v):
    bad = []
    if not v[0]:
        bad.append("panic")
    if not v[1]:
        bad.append("fired-more-than-once-or-superseded-timer-fired")
    if not v[2]:
        bad.append("elapsed-after-cancel-returned")
    return "+".join(bad)


# ----------------------------------------------------------------------------- sub-checks (part b)
def sub_extract_and_prove(c, X):
    """(1) regenerate Gen/Timer.v from roundtimer.go, (2) rebuild the theorems against it."""
    tok, tlog = c.translate(only=["Gen/Timer.v"])
    X["translated"] = tok
    X["proved"] = False
    if not tok:
        c.obligations.append("translate Gen/Timer.v")
        X["broken"] = {"file": "translate/c12_timer.go: roundtimer.go no longer matches the closed vocabulary", "log": tlog[-800:]}
        return
    gen = open(os.path.join(vcheck.COQ, "Gen", "Timer.v")).read()
    X["program"] = gen[gen.find("Definition timer_prog"):].strip()
    m = re.search(r'timer_prog_src : string := "([^"]+)"', gen)
    X["src"] = m.group(1) if m else "?"
    X["proved"] = c.prove("C12")
    if not X["proved"]:
        X["broken"] = dict(getattr(c, "broken", {"file": "?", "log": ""}))
        # the model files themselves must be there for the evaluation steps
        c.coq_make(["Model/Timer.vo", "Gen/Timer.vo", "Monitors/C12m.vo"])
    X["model_ok"] = os.path.exists(os.path.join(vcheck.COQ, "Model", "Timer.vo")) and \
        os.path.exists(os.path.join(vcheck.COQ, "Gen", "Timer.vo"))


def sub_build_harness(c, X):
    binary, blog = c.go_build("c12")
    X["bin"] = binary
    if binary is None:
        c.fail_obligation("harness-build", blog[-1500:])


def gen_scripts(rng, n_good, n_bad):
    rounds = ["S C", "s W", "s W C", "S P C", "s W P", "S C C", "s C", "s C P", "s P C", "S P P C", "s W C C", "s P W", "S C P", "s C P P", "S C P P"]
    good, seen = [], set()
    fixed = ["S C S C", "s W P C S P C", "S C", "s W", "S C S C S C S C"]
    for f in fixed:
        good.append(f)
        seen.add(f)
    tries = 0
    while len(good) < n_good and tries < n_good * 50:
        tries += 1
        k = 1 + rng.below(4)
        s = " ".join(rng.choice(rounds) for _ in range(k))
        if s not in seen:
            seen.add(s)
            good.append(s)
    # malformed / undisciplined stream: starts without cancel, operations without a timer, context cancellation
    bad_pool = ["S S", "S P S", "s S", "C", "P", "C S C", "S C S S", "s W S C", "X S", "S X C", "S C X S", "X", "S X",
                "s P S", "S C S P S", "s W s W S S", "X C P", "S S S"]
    bad = []
    for b in bad_pool:
        if len(bad) < n_bad:
            bad.append(b)
    return good, bad


def run_script_proc(c, X, lines):
    """Run scripts in ONE harness process. Returns (list of outcome lists per finished line, died, stderr)."""
    rc, out, err = c.run_bin(X["bin"], ["script"], stdin="\n".join(lines) + "\n", timeout=600)
    res = {}
    for ln in out.splitlines():
        if " => " in ln:
            a, b = ln.split(" => ")
            res[a.strip()] = b.split()
    return res, rc, err


def sub_scripts(c, X):
    """Deterministic trace comparison: caller scripts on the real timer vs the set of ALL outcomes of the model."""
    if X.get("bin") is None:
        return
    quick = c.tier == "quick"
    good, bad = gen_scripts(c.rng, 70 if quick else 400, 12 if quick else 18)
    if c.replay:
        rp = json.load(open(c.replay))
        if rp.get("script"):
            good = [rp["script"]] + good[:5]
    scripts = good + bad
    X["scripts"] = scripts
    model = None
    if X.get("model_ok"):
        body = COQ_HDR + "Definition scripts : list (list sop) := [%s].\n" % ";\n".join(
            "[" + "; ".join(SOP[o] for o in s.split()) + "]" for s in scripts)
        body += "Definition outs := Eval vm_compute in map (script_outcomes timer_prog) scripts.\nPrint outs.\n"
        ok, out = c.coq_eval("c12_scripts", body)
        model = grab_def(out, "outs") if ok else None
        if model is None or len(model) != len(scripts):
            c.fail_obligation("script-eval", out[-1200:])
            model = None
    msets = None
    if model is not None:
        msets = [[[SOUT[o] for o in vec] for vec in ms] for ms in model]
    # scripts the model says may panic run alone (a panic kills the process); without a model every bad script runs alone
    alone = set()
    for i, s in enumerate(scripts):
        if msets is not None:
            if any("panic" in v for v in msets[i]):
                alone.add(s)
        elif s in bad:
            alone.add(s)
    batch = [s for s in scripts if s not in alone]
    impl = {}
    res, rc, err = run_script_proc(c, X, batch)
    impl.update(res)
    died_in_batch = None
    if rc != 0:
        # find the script that killed the process: the first one without a result line
        for s in batch:
            if s not in res:
                died_in_batch = s
                break
        rest = [s for s in batch if s not in res and s != died_in_batch]
        alone.add(died_in_batch)
        if rest:
            res2, rc2, _ = run_script_proc(c, X, rest)
            impl.update(res2)
            for s in rest:
                if s not in res2:
                    alone.add(s)
    reps = 3 if quick else 10
    impl_multi = {}
    budget = 16 if quick else 200          # process launches for scripts that must run alone
    skipped_alone = 0
    for s in sorted(alone, key=lambda z: (len(z), z)):
        if budget < reps:
            skipped_alone += 1
            continue
        budget -= reps
        outs = []
        for _ in range(reps):
            res, rc, err = run_script_proc(c, X, [s])
            if s in res:
                outs.append(res[s])
            else:
                # died: outcomes unknown beyond the fact of the panic; the harness prints nothing for a dead script
                outs.append(["panic"] if "panic:" in err or rc == 2 else ["died rc=%d" % rc])
        impl_multi[s] = outs
    # compare
    n_cmp = n_single = 0
    mismatches = []
    for i, s in enumerate(scripts):
        observed = impl_multi.get(s) or ([impl[s]] if s in impl else [])
        for ob in observed:
            n_cmp += 1
            if msets is None:
                continue
            ms = msets[i]
            if len(ms) == 1:
                n_single += 1
            if ob == ["panic"]:
                okk = any("panic" in v for v in ms)
            else:
                okk = ob in ms
            if not okk:
                mismatches.append((s, ob, ms))
    X["script_mismatches"] = mismatches
    # monitor on implementation observations of the disciplined scripts
    traces, owners = [], []
    for s in good:
        observed = impl_multi.get(s) or ([impl[s]] if s in impl else [])
        for ob in observed:
            traces.append(script_trace(s.split(), ob))
            owners.append((s, ob))
    verdicts = coq_monitor(c, "c12_script_mon", traces) if traces else []
    nbad = 0
    seen_keys = set()
    for (s, ob), v in zip(owners, verdicts or []):
        if not all(v):
            nbad += 1
            if describe(v) not in seen_keys:
                seen_keys.add(describe(v))
                c.report("script:" + describe(v),
                         "real StandardRoundTimer violates C12 on the disciplined caller script `%s`: outcomes %s (%s)" % (s, " ".join(ob), describe(v)),
                         {"script": s, "observed": ob, "model_outcomes": msets[scripts.index(s)] if msets else None,
                          "how": "echo '%s' | bin/h_c12 script   (ops: S start 1h timer, s start 30us timer, C cancel, W wait elapse, P poll elapsed, X cancel ctx)" % s})
    if mismatches and not nbad:
        s, ob, ms = mismatches[0]
        X["pending_corr"] = ("correspondence scripts: Model/Timer.v vs roundtimer.go",
                             "script `%s`: implementation outcomes %s not among the model's %s" % (s, ob, ms),
                             {"script": s, "observed": ob, "model_outcomes": ms,
                              "how": "echo '%s' | bin/h_c12 script" % s})
    c.coverage.update({
        "scripts": len(scripts), "scripts_disciplined": len(good), "scripts_malformed": len(bad),
        "script_runs_compared": n_cmp, "script_runs_with_schedule_independent_model_outcome": n_single,
        "script_mismatches": len(mismatches), "script_monitor_failures": nbad,
        "scripts_run_in_own_process(model says may panic)": len(alone) - skipped_alone,
        "scripts_skipped(launch budget)": skipped_alone,
    })
    for s in (good[:2] + bad[:2]):
        i = scripts.index(s)
        c.samples.append({"script": s, "impl": impl_multi.get(s) or impl.get(s), "model_outcomes": msets[i] if msets else None})


def sub_stress(c, X):
    """Stress correspondence: many cancel/start/fire rounds on the real timer under GOMAXPROCS 1..16; the Coq monitors
    judge every distinct round observation and a contiguous prefix; process death = panic."""
    if X.get("bin") is None:
        return
    per = 20000 if c.tier == "quick" else 200000
    seed = c.rng.next() % (2**31)
    if c.replay:
        rp = json.load(open(c.replay))
        if rp.get("stress"):
            seed, per = rp["stress"]["seed"], rp["stress"]["rounds"]
    env = vcheck.goenv()
    procs = {}
    for p in PROCS:
        procs[p] = subprocess.Popen([X["bin"], "stress", "-procs", str(p), "-rounds", str(per), "-seed", str(seed)],
                                    stdout=subprocess.PIPE, stderr=subprocess.PIPE, text=True, env=env)
    results, deaths = {}, {}
    for p, pr in procs.items():
        try:
            out, err = pr.communicate(timeout=1500)
        except subprocess.TimeoutExpired:
            pr.kill()
            out, err = pr.communicate()
            err += "\n(harness timeout)"
        m = re.search(r"^result (.*)$", out, flags=re.M)
        prog = re.findall(r"^progress (\d+)$", out, flags=re.M)
        if pr.returncode != 0 or not m:
            deaths[p] = {"rc": pr.returncode, "stderr": err[:1500], "last_progress": int(prog[-1]) if prog else -1}
        else:
            results[p] = json.loads(m.group(1))
    total_rounds = sum(sum(r["hist"].values()) for r in results.values())
    # --- process death: the panic the property forbids.  Shrink to a short run.
    for p, d in sorted(deaths.items())[:1]:
        small = None
        for attempt in range(30):
            n = 40
            s2 = seed + attempt
            rc, out, err = c.run_bin(X["bin"], ["stress", "-procs", str(p), "-rounds", str(n), "-seed", str(s2)], timeout=120)
            if rc != 0:
                small = {"procs": p, "rounds": n, "seed": s2, "stderr": err[:1200]}
                break
        msg = re.search(r"panic: (.*)", d["stderr"])
        what = msg.group(1) if msg else "process died rc=%s" % d["rc"]
        key = "timer-panic:" + re.sub(r"[^A-Za-z]+", "-", what)[:60]
        report_once(c, X, key, "real StandardRoundTimer: process died during disciplined cancel/start/fire rounds (GOMAXPROCS=%d): %s" % (p, what),
                 {"stress": small or {"procs": p, "rounds": per, "seed": seed}, "first_failure": d,
                  "ops": "each round: <Step>Timer(...) ; optional wait/poll ; cancel() ; immediately the next <Step>Timer(...)",
                  "how": "bin/h_c12 stress -procs %d -rounds %d -seed %d" % ((small or {}).get("procs", p), (small or {}).get("rounds", per), (small or {}).get("seed", seed))})
    # --- monitors on the observations
    keys = sorted(set(k for r in results.values() for k in r["hist"]))
    traces = [round_trace(k) for k in keys]
    prefixes = []
    for p, r in sorted(results.items()):
        tr = []
        for k in r["prefix"]:
            if k:
                tr += round_trace(k)
        prefixes.append(tr)
    verdicts = coq_monitor(c, "c12_stress_mon", traces + prefixes) if (traces or prefixes) else []
    nfail = 0
    if verdicts:
        for k, v in zip(keys, verdicts[:len(keys)]):
            if not all(v):
                nfail += 1
                where = {p: r["hist"][k] for p, r in results.items() if k in r["hist"]}
                report_once(c, X, "stress:" + describe(v),
                         "real StandardRoundTimer: round observation `%s` (%s) seen %s times per GOMAXPROCS" % (k, describe(v), where),
                         {"stress": {"procs": sorted(where)[0], "rounds": per, "seed": seed}, "round_observation": k,
                          "trace": round_trace(k), "counts": where,
                          "legend": "e0/e1/e2 = elapsed channel closed? before cancel / right after cancel returned / after the next timer was handed out; c = cancelled; late = closed even later",
                          "how": "bin/h_c12 stress -procs %d -rounds %d -seed %d   (look for the observation in the result histogram)" % (sorted(where)[0], per, seed)})
        for tr, v in zip(prefixes, verdicts[len(keys):]):
            if not all(v) and not nfail:
                nfail += 1
                report_once(c, X, "stress-prefix:" + describe(v), "monitor false on the first rounds of a stress run", {"trace": tr})
    for p, r in sorted(results.items()):
        for k, n in r["hist"].items():
            if k.startswith("k0 ") and ("e0=1" in k or "e1=1" in k or "e2=1" in k or "late=1" in k):
                report_once(c, X, "stress:one-hour-timer-elapsed", "a 1h timer reported elapsed within milliseconds: %s x%d" % (k, n),
                         {"stress": {"procs": p, "rounds": per, "seed": seed}, "round_observation": k})
            if " w2 " in k:
                report_once(c, X, "stress:timer-never-elapsed", "a <=200us timer did not elapse within 10s: %s x%d" % (k, n),
                         {"stress": {"procs": p, "rounds": per, "seed": seed}, "round_observation": k})
        if r["nil_start"] >= 0:
            report_once(c, X, "stress:nil-timer-without-ctx-cancel", "a *Timer call returned nil although the context is live (round %d)" % r["nil_start"],
                     {"stress": {"procs": p, "rounds": per, "seed": seed}})
        if not r["alive"]:
            report_once(c, X, "stress:timer-dead-after-stress", "after the rounds a 0s timer was not served/fired within 10s (GOMAXPROCS=%d)" % p,
                     {"stress": {"procs": p, "rounds": per, "seed": seed}})
        if not r["exited"]:
            report_once(c, X, "stress:goroutine-did-not-exit", "background goroutine did not exit within 10s of context cancellation (GOMAXPROCS=%d)" % p,
                     {"stress": {"procs": p, "rounds": per, "seed": seed}})
    hist_all = {}
    for r in results.values():
        for k, n in r["hist"].items():
            hist_all[k] = hist_all.get(k, 0) + n
    racy = sum(n for k, n in hist_all.items() if "e0=0" in k and "e1=1" in k)
    X["stress_found"] = bool(deaths) or nfail > 0
    c.coverage.update({
        "stress_rounds_total": total_rounds, "stress_rounds_per_gomaxprocs": per, "stress_gomaxprocs": PROCS, "stress_seed": seed,
        "stress_process_deaths": len(deaths), "stress_distinct_round_observations": len(keys),
        "stress_round_observation_histogram": hist_all,
        "stress_rounds_where_elapse_raced_cancel(e0=0,e1=1)": racy,
        "stress_monitor_failures": nfail,
    })
    c.samples.append({"stress_round_observations": keys[:4], "as_traces": traces[:4]})


def sub_verdict_b(c, X):
    """Verdict protocol for part (b): broken obligations with no failing implementation input found so far."""
    found = any(v[3] for v in c.violations) or bool(c.known_seen)
    cex = {}
    if not X.get("proved") and X.get("model_ok") and X.get("translated"):
        # search the model for a schedule that violates each statement (shortest, breadth first)
        body = COQ_HDR + (
            "Definition cex_panic := Eval vm_compute in find_bad timer_prog true safe_panic.\n"
            "Definition cex_served := Eval vm_compute in find_bad timer_prog true (served timer_prog).\n"
            "Definition cex_once := Eval vm_compute in find_bad timer_prog false safe_once.\n"
            "Definition cex_cancel := Eval vm_compute in find_bad timer_prog false safe_cancel.\n"
            "Print cex_panic. Print cex_served. Print cex_once. Print cex_cancel.\n")
        ok, out = c.coq_eval("c12_cex", body)
        if ok:
            for nm in ("cex_panic", "cex_served", "cex_once", "cex_cancel"):
                m = re.search(nm + r"\s*=\s*(.*?)\n\s*:\s", out, flags=re.S)
                if m and "Some" in m.group(1):
                    cex[nm] = re.sub(r"\s+", " ", m.group(1)).strip()
    X["model_counterexamples"] = cex
    if not X.get("proved") and not found:
        b = X.get("broken", {"file": "?", "log": ""})
        c.fail_obligation("Properties/C12.v (%s)" % b.get("file"), b.get("log", ""),
                          {"model_counterexample_schedules": cex, "extracted_program": X.get("program"),
                           "searched": {"stress_rounds": c.coverage.get("stress_rounds_total"), "script_runs": c.coverage.get("script_runs_compared")},
                           "note": "labels: LStart/LCancel/LObserve caller, LFire timer expiry, LCtx context cancel, LBg k = the goroutine takes its k-th enabled step"})
    if X.get("pending_corr") and not found:
        name, log, rp = X["pending_corr"]
        c.fail_obligation(name, log, rp)
    c.coverage["model_counterexample_schedules"] = cex


def sub_state_machine(c, X):
    """part (a): the state machine's timer discipline (one timer, of the kind of the step it waits in), on the
    round state machine model tied to the real tmstate.StateMachine (checks/c12_sm.py, Properties/C12sm.v)"""
    import c12_sm
    c12_sm.subchecks(c)


def sub_timeouts(c, X):
    """The durations the timer is armed with: tm/tmengine/timeoutstrategy.go is regenerated as Gen/Timeouts.v (int64 wrap-around),
    Properties/C12Timeouts.v is rebuilt against it, and the generated functions are run against the real methods."""
    tok, tlog = c.translate(only=["Gen/Timeouts.v"])
    if not tok:
        c.obligations.append("translate Gen/Timeouts.v")
        c.fail_obligation("translate Gen/Timeouts.v (timeoutstrategy.go left the translated subset)", tlog[-800:])
        return
    proved = c.prove("C12Timeouts")
    binary, blog = c.go_build("c12to")
    if binary is None:
        c.fail_obligation("harness-build-timeouts", blog[-1500:])
        return
    rng = vcheck.SplitMix64(c.seed ^ 0xC12707)
    I63 = (1 << 63) - 1
    edge_f = [0, 1, -1, 2, 500_000_000, 5_000_000_000, 2_000_000_000, 1 << 31, (1 << 31) - 1, (1 << 32), (1 << 32) + 1, 1 << 33,
              I63, -I63 - 1, I63 // 2, (I63 // 4294967295), (I63 // 4294967295) + 1, 1 << 62, -(1 << 62), 1_000_000, 999_999_999]
    edge_r = [0, 1, 2, 3, 7, 1000, 65535, 65536, (1 << 31) - 1, 1 << 31, (1 << 32) - 2, (1 << 32) - 1]
    cases = [[0] * 8 + [r] for r in edge_r]
    n = 600 if c.tier == "quick" else 20000
    while len(cases) < n:
        f = []
        for _ in range(8):
            k = rng.below(10)
            if k < 3:
                f.append(0)
            elif k < 7:
                f.append(rng.choice(edge_f))
            elif k < 9:
                f.append(rng.below(20_000_000_000))
            else:
                f.append(rng.below(1 << 64) - (1 << 63))
        r = rng.choice(edge_r) if rng.chance(1, 2) else rng.below(1 << 32)
        cases.append(f + [r])
    rc, out, err = c.run_bin(binary, stdin="\n".join(" ".join(str(x) for x in cs) for cs in cases) + "\n")
    lines = [ln for ln in out.split("\n") if ln.strip()]
    if rc != 0 or len(lines) != len(cases) or any(ln.startswith("X") for ln in lines):
        c.fail_obligation("harness-run-timeouts", "rc=%d, %d of %d lines; stderr %s" % (rc, len(lines), len(cases), err[-500:]))
        return
    obs = [[int(x) for x in ln.split()] for ln in lines]

    def z(x):
        return "(%d)" % x
    body = ("From Coq Require Import List NArith ZArith String Bool.\nFrom GV Require Import Base.Ints Base.SInts Gen.Timeouts.\n"
            "Import ListNotations. Local Open Scope Z_scope.\n"
            "Definition zeqb4 (a : res Z * res Z * res Z * res Z) (b : Z * Z * Z * Z) : bool :=\n"
            "  match a, b with (Ok p, Ok q, Ok u, Ok v), (p', q', u', v') => Z.eqb p p' && Z.eqb q q' && Z.eqb u u' && Z.eqb v v' | _, _ => false end.\n"
            "Definition run1 (c : lts * N) := (proposal_timeout (fst c) (snd c), prevote_delay_timeout (fst c) (snd c), "
            "precommit_delay_timeout (fst c) (snd c), commit_wait_timeout (fst c) (snd c)).\n"
            "Definition cases : list ((lts * N) * (Z * Z * Z * Z)) := [\n%s\n].\n"
            "Fixpoint number {A} (i : N) (l : list A) : list (N * A) := match l with [] => [] | x :: t => (i, x) :: number (i + 1)%%N t end.\n"
            "Definition mismatches := Eval vm_compute in map (fun e => (fst e, run1 (fst (snd e)))) "
            "(filter (fun e => negb (zeqb4 (run1 (fst (snd e))) (snd (snd e)))) (number 0%%N cases)).\n"
            "Definition nonpositive := Eval vm_compute in List.length (filter (fun e => match proposal_timeout (fst (fst e)) (snd (fst e)) with Ok d => d <=? 0 | _ => true end) cases).\n"
            "Print mismatches. Print nonpositive.\n"
            % ";\n".join("((mk_lts %s, %d%%N), (%s, %s, %s, %s))" % (" ".join(z(x) for x in cs[:8]), cs[8], z(o[0]), z(o[1]), z(o[2]), z(o[3]))
                          for cs, o in zip(cases, obs)))
    ok, cout = c.coq_eval("c12_timeouts_cases", body)
    if not ok:
        c.fail_obligation("cases-eval-timeouts", cout[-2000:])
        return
    m = re.search(r"mismatches\s*=\s*(.*?)\n\s*:\s*list", cout, flags=re.S)
    if not m:
        c.fail_obligation("cases-eval-timeouts-parse", cout[-1500:])
        return
    bad = [int(i) for i in re.findall(r"\((\d+)%N,", m.group(1))]
    # the property side (what the type's documentation promises and the state machine relies on): with the default fields every
    # duration is positive and grows linearly with the round.  The exact default constants are pinned by the theorem
    # C12_default_timeouts_exact only (a retuned default breaks that proof obligation, it is not reported as a failing input).
    spec_bad = None
    dflt = {cs[8]: o for cs, o in zip(cases, obs) if all(x == 0 for x in cs[:8])}
    if 0 in dflt and 1 in dflt:
        d0, d1 = dflt[0], dflt[1]
        for ci, (cs, o) in enumerate(zip(cases, obs)):
            if all(x == 0 for x in cs[:8]):
                want = [d0[k] + cs[8] * (d1[k] - d0[k]) for k in range(4)]
                if o != want or min(o) <= 0 or min(d1[k] - d0[k] for k in range(4)) <= 0:
                    spec_bad = (ci, want)
                    break
    if spec_bad:
        ci, want = spec_bad
        c.report("timeouts-default-not-linear", "LinearTimeoutStrategy with default fields, round %d: the real methods return %s ns; "
                 "positive durations growing linearly from rounds 0 and 1 would give %s ns (the step timer is armed with a non-positive or "
                 "non-linear duration)" % (cases[ci][8], obs[ci], want),
                 {"timeouts_case": cases[ci], "observed": obs[ci], "expected": want, "how": "echo '%s' | bin/h_c12to" % " ".join(str(x) for x in cases[ci])})
    elif bad:
        ci = bad[0]
        c.fail_obligation("correspondence Gen/Timeouts.v vs tm/tmengine/timeoutstrategy.go", "generated and real functions differ on %d of %d "
                          "inputs; first: fields %s round %d: real %s" % (len(bad), len(cases), cases[ci][:8], cases[ci][8], obs[ci]),
                          {"timeouts_case": cases[ci], "observed": obs[ci]})
    elif not proved:
        b = getattr(c, "broken", {"file": "?", "log": ""})
        c.fail_obligation("Properties/C12Timeouts.v (%s)" % b["file"], b["log"], {"searched_cases": len(cases)})
    mnp = re.search(r"nonpositive\s*=\s*(\d+)", cout)
    c.coverage.update({"timeout_cases": len(cases), "timeout_cases_with_default_fields": sum(1 for cs in cases if all(x == 0 for x in cs[:8])),
                       "timeout_cases_nonpositive_result": int(mnp.group(1)) if mnp else None,
                       "timeout_correspondence_disagreements": len(bad)})


SUBCHECKS = [sub_extract_and_prove, sub_build_harness, sub_scripts, sub_stress, sub_verdict_b, sub_timeouts, sub_state_machine]


def main(argv):
    c = vcheck.Check("C12", argv)
    c.trusted += [
        "structure extractor /verif/translate/c12_timer.go (closed vocabulary; fails loudly on any other statement), cross-checked "
        "on every run by script and stress correspondence with the real timer",
        "Model/Timer.v: interpretation of the vocabulary = semantics of Go select / unbuffered channels / close / sync.Mutex / "
        "sync.Once / time.Timer Stop-drain-Reset (Go >= 1.23 and earlier)",
        "Go harness /verif/harness/c12 (verif hook tm/tmengine/verif_timer.go) and the Cases evaluation inside coqc (vm_compute)",
    ]
    c.assumes += [
        "the cancel function is one atomic step needing the mutex free (close bracketed by Lock/Unlock; mover argument)",
        "one caller goroutine (the state machine) issues start/cancel/observe; stale cancel functions only close channels nobody selects on",
        "Go select picks among ready cases arbitrarily; a closed channel is ready forever; time.Timer fires at most once per Reset",
    ]
    c.grep_gate()
    X = {}
    for f in SUBCHECKS:
        f(c, X)
    nontriv = c.coverage.get("stress_rounds_total", 0) + c.coverage.get("script_runs_compared", 0)
    c.coverage.update({
        "evaluations": nontriv,
        "distinct_nontrivial": c.coverage.get("stress_distinct_round_observations", 0) + c.coverage.get("scripts", 0),
        "traces_validated_against_impl": c.coverage.get("script_runs_compared", 0) + len(PROCS),
        "rule": "scripts: random concatenations of disciplined rounds over {S,s,C,W,P} plus a malformed stream (start without cancel, "
                "ops without a timer, ctx cancel); each compared with the set of all model outcomes computed in coqc. stress: per "
                "GOMAXPROCS in 1,2,4,8,16 one timer, rounds of 5 kinds (1h timer+cancel, short timer racing cancel, wait for elapse, "
                "concurrent double cancel, cancel timed at the expiry), every start immediately after the previous cancel/elapse; "
                "distinct = distinct round observations + distinct scripts",
        "extracted_program_src": X.get("src"),
    })
    if X.get("program"):
        c.samples.append({"extracted_program": X["program"]})
    c.finish()
