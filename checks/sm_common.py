"""Shared machinery of the round-state-machine checks (C08, C02, C12a).

Pipeline (every run, from the repo's current working tree):
  1. translator regenerates Gen/Math.v and Gen/StepSM.v (GetStepFromVoteSummary, thresholds);
  2. coqc evaluates the Gallina walker (Model/SMWalk.v) on choice streams drawn from c.rng:
     event sequences + the model's projected outputs;
  3. harness/sm drives the REAL tmstate.StateMachine through the same events (a panic kills the
     harness process; the panic site is read from stderr and the harness restarted at the next trace);
  4. coqc again: model outputs vs implementation outputs compared, and the boolean monitors of
     Monitors/SMm.v evaluated on the IMPLEMENTATION's observations (vm_compute).
"""
import ast
import os
import re
import subprocess

import vcheck

PANIC_SITES = [
    (r"GetStepFromVoteSummary must not return", 1, "beginRoundLive: StepAwaitingPrevotes"),
    (r"BUG: unhandled initial step", 2, "beginRoundLive: initial step PrevoteDelay/PrecommitDelay"),
    (r"BUG: expected to be on step commit wait", 3, "handleHeightCommitted outside commit wait"),
    (r"received view update with empty VRV", 4, "handleViewUpdate: empty view"),
    (r"TODO: handle view update for step", 5, "handleViewUpdate: invalid step"),
    (r"application did not set validators", 6, "handleFinalization: no validators"),
    (r"driver sent height/round", 7, "handleFinalization: height/round differ"),
    (r"BUG: unhandled timer elapse", 8, "handleTimerElapsed: step"),
    (r"attempted to jump ahead to height", 9, "handleJumpAhead: height"),
    (r"attempted to jump ahead to round", 10, "handleJumpAhead: round"),
    (r"error when calling ConsensusStrategy.EnterRound", 11, "advance: EnterRound error"),
    (r"Byzantine(Majority|Minority): n must be positive", 12, "threshold of zero power"),
    (r"requires len\(candidateKeys\) > 0", 16, "recordProposedHeader: previous validator set empty"),
    (r"TODO: handle blocked send", 17, "blocked send to the consensus manager"),
]

SITE_TEXT = {n: t for _, n, t in PANIC_SITES}
SITE_TEXT.update({13: "nil CancelTimer call", 14: "nil VRV dereference", 15: "nil signer in recordProposedHeader"})


def panic_site(stderr):
    m = re.search(r"^panic: (.*)$", stderr, flags=re.M)
    if not m:
        return None
    msg = m.group(1)
    for rx, n, _ in PANIC_SITES:
        if re.search(rx, msg):
            return n
    if "nil pointer dereference" in msg or "nil pointer dereference" in stderr:
        if "recordProposedHeader" in stderr:
            return 15
        return 13
    return 99


def coq_list(xs):
    return "[" + "; ".join(str(x) for x in xs) + "]"


def coq_ll(xss):
    return "[" + "; ".join(coq_list(x) for x in xss) + "]"


def parse_coq_value(txt, name):
    """Parse `name = <nested lists / tuples of numbers>` printed by coqc into python."""
    m = re.search(r"\b" + re.escape(name) + r"\s*=\s*(.*?)\n\s*:\s", txt, flags=re.S)
    if not m:
        return None
    body = m.group(1).replace(";", ",").replace("%N", "")
    body = re.sub(r"\s+", " ", body)
    return ast.literal_eval(body)


def gen_cases(c, n_traces, steps):
    cases = []
    for i in range(n_traces):
        signer = 0 if c.rng.below(8) == 0 else 1
        choices = [c.rng.below(1 << 30) for _ in range(4 * steps)]
        cases.append((signer, choices))
    return cases


HEADER = """From Coq Require Import List NArith String Bool.
From GV Require Import Base.Ints Gen.Math Gen.StepSM Model.StateMachine Model.SMWire Model.SMWalk.
Import ListNotations. Local Open Scope N_scope.
"""


def model_walk(c, cases, tag):
    """coqc run A: events + model outputs per trace. Returns list of traces:
    [ (encoded_event, (sm_items, cm_items)) ... ] or None on failure (log in c.last_walk_log)."""
    out = []
    shard = 40
    for si in range(0, len(cases), shard):
        sh = cases[si:si + shard]
        body = HEADER + "Definition cases : list (bool * list N) := [\n%s].\n" % ";\n".join(
            "(%s, %s)" % ("true" if sg else "false", coq_list(cs)) for sg, cs in sh)
        body += "Definition rep := Eval vm_compute in map (fun c => trace_report (fst c) (snd c)) cases.\nPrint rep.\n"
        ok, txt = c.coq_eval("%s_walk_%d" % (tag, si // shard), body)
        if not ok:
            c.last_walk_log = txt[-2000:]
            return None
        val = parse_coq_value(txt, "rep")
        if val is None:
            c.last_walk_log = "cannot parse walker output: " + txt[-1500:]
            return None
        out += val
    return out


def parse_items(s):
    s = s.strip()
    if not s:
        return []
    return [[int(x) for x in it.split()] for it in s.split(";")]


def run_harness(c, binary, cases, traces):
    """Runs the real state machine on every trace. Returns per trace a list of (sm_items, cm_items);
    the event at which the harness died carries ([[20, site]], []) (or [[23]] when it blocked)."""
    lines = []
    for i, tr in enumerate(traces):
        lines.append("0 %d %d" % (i, cases[i][0]))
        for ev, _ in tr:
            lines.append(" ".join(str(x) for x in ev))
    # index of the first input line of each trace
    results = [None] * len(traces)
    start = 0
    restarts = 0
    stderr_tail = ""
    while start < len(traces):
        inp = []
        for i in range(start, len(traces)):
            inp.append("0 %d %d" % (i, cases[i][0]))
            for ev, _ in traces[i]:
                inp.append(" ".join(str(x) for x in ev))
        rc, out, err = c.run_bin(binary, stdin="\n".join(inp) + "\n", timeout=600)
        cur = None
        for line in out.splitlines():
            if line.startswith("T "):
                cur = int(line.split()[1])
                results[cur] = []
            elif line.startswith("O "):
                a, _, b = line[2:].partition("|")
                results[cur].append((parse_items(a), parse_items(b)))
        if rc == 0:
            break
        # the harness died inside trace `cur` at event len(results[cur])
        restarts += 1
        stderr_tail = err[-3000:]
        if cur is None:
            c.fail_obligation("harness-run", "harness died before the first trace: " + err[-800:])
            return results, restarts
        site = panic_site(err)
        if site == 99:
            c.notes.append("unrecognised panic in trace %d: %s" % (cur, err[:1200]))
        blocked = results[cur] and results[cur][-1][0] and results[cur][-1][0][-1] == [23]
        if blocked:
            pass
        elif site is not None:
            # the deferred close(kernelDone) of a panicking kernel may have been reported as HALT
            # just before the process died: then that (last printed) event is the panicking one
            if results[cur] and [21] in results[cur][-1][0]:
                results[cur] = results[cur][:-1]
            results[cur].append(([[20, site]], []))
        else:
            results[cur].append(([[98]], []))
            c.notes.append("harness died without a recognised panic in trace %d: %s" % (cur, err[-400:]))
        start = cur + 1
    c.coverage["harness_restarts_after_panic"] = restarts
    for i in range(len(results)):
        if results[i] is None:
            results[i] = []
    return results, restarts


def first_diff(trace, impl):
    """index of the first event whose outputs differ (None = equal up to the end of the model trace
    or up to a panic on both sides)."""
    for k, (ev, mo) in enumerate(trace):
        if k >= len(impl):
            return k
        mo = (list(map(list, mo[0])), list(map(list, mo[1])))
        io = (impl[k][0], impl[k][1])
        if mo != io:
            return k
        if mo[0] and mo[0][0][0] == 20:
            return None
    return None


EVENT_NAMES = {1: "Start", 2: "Stop", 3: "RoundEntranceResponse(view)", 4: "RoundEntranceResponse(committed header)",
               5: "ViewUpdate", 6: "JumpAhead", 7: "EmptyViewUpdate", 8: "TimerElapsed", 9: "StrategyAnswer",
               10: "Proposal", 11: "FinalizationResponse", 12: "HeightCommitted", 13: "BlockDataArrival", 14: "ArmEnterRoundError"}
OUT_NAMES = {1: "RoundEntrance", 2: "EnterRound", 3: "ConsiderProposedBlocks", 4: "ChooseProposedBlock", 5: "DecidePrecommit",
             6: "Sign(prevote)", 7: "Sign(precommit)", 8: "Sign(proposal)", 9: "SavePrevote", 10: "SavePrecommit", 11: "SaveProposedHeader",
             12: "Emit(prevote)", 13: "Emit(precommit)", 14: "Emit(proposal)", 15: "FinalizeBlockRequest", 16: "TimerStart",
             17: "TimerCancel", 18: "SetStateMachineHeightRound", 19: "SaveFinalization", 20: "PANIC", 21: "HALT",
             22: "undeliverable", 23: "BLOCKED"}


def render(trace, impl, upto=None):
    rows = []
    for k, (ev, mo) in enumerate(trace):
        if upto is not None and k > upto:
            break
        io = impl[k] if k < len(impl) else None
        rows.append({
            "event": "%s %s" % (EVENT_NAMES.get(ev[0], "?"), list(ev[1:])),
            "impl": None if io is None else [["%s" % OUT_NAMES.get(x[0], "?")] + x[1:] for x in io[0] + io[1]],
            "model": [["%s" % OUT_NAMES.get(x[0], "?")] + list(x[1:]) for x in list(mo[0]) + list(mo[1])],
        })
    return rows


def harness_input(signer, trace, upto=None):
    lines = ["0 0 %d" % signer]
    for k, (ev, _) in enumerate(trace):
        if upto is not None and k > upto:
            break
        lines.append(" ".join(str(x) for x in ev))
    return "\n".join(lines) + "\n"


def prepare(c):
    """translator + harness build. Returns (translate_ok, binary or None)."""
    tok, tlog = c.translate(only=["Gen/Math.v", "Gen/StepSM.v"])
    if not tok:
        c.obligations.append("translate Gen/StepSM.v")
        c.broken = {"file": "translate", "log": tlog[-800:]}
    binary, blog = c.go_build("sm")
    if binary is None:
        c.fail_obligation("harness-build", blog[-1500:])
    return tok, binary


def correspondence(c, tag, n_traces, steps):
    """Returns dict(cases, traces, impl, diffs) or None if the model could not be evaluated."""
    ok, out = c.coq_make(["Model/SMWalk.vo", "Monitors/SMm.vo"])
    if not ok:
        c.fail_obligation("model-build", out[-1500:])
        return None
    cases = gen_cases(c, n_traces, steps)
    traces = model_walk(c, cases, tag)
    if traces is None:
        c.fail_obligation("model-walk", getattr(c, "last_walk_log", ""))
        return None
    return {"cases": cases, "traces": traces}
