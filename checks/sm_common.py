"""Shared machinery of the round-state-machine checks (C08, C02, C12a).

Pipeline (every run, from the repo's current working tree):
  1. translator regenerates Gen/Math.v and Gen/StepSM.v (GetStepFromVoteSummary, thresholds);
  2. coqc evaluates the Gallina walker (Model/SMWalk.v) on choice streams drawn from c.rng:
     event sequences + the model's projected outputs;
  3. harness/sm drives the REAL tmstate.StateMachine through the same events (a panic kills the
     harness process; the panic site is read from stderr and the harness restarted at the next trace);
  4. coqc again: model outputs vs implementation outputs compared, and the boolean monitors of
     Monitors/SMm.v evaluated on the IMPLEMENTATION's observations (vm_compute).
"""
import ast
import json
import os
import re
import subprocess

import vcheck

PANIC_SITES = [
    (r"GetStepFromVoteSummary must not return", 1, "beginRoundLive: StepAwaitingPrevotes"),
    (r"BUG: unhandled initial step", 2, "beginRoundLive: initial step PrevoteDelay/PrecommitDelay"),
    (r"BUG: expected to be on step commit wait", 3, "handleHeightCommitted outside commit wait"),
    (r"received view update with empty VRV", 4, "handleViewUpdate: empty view"),
    (r"TODO: handle view update for step", 5, "handleViewUpdate: invalid step"),
    (r"application did not set validators", 6, "handleFinalization: no validators"),
    (r"driver sent height/round", 7, "handleFinalization: height/round differ"),
    (r"BUG: unhandled timer elapse", 8, "handleTimerElapsed: step"),
    (r"attempted to jump ahead to height", 9, "handleJumpAhead: height"),
    (r"attempted to jump ahead to round", 10, "handleJumpAhead: round"),
    (r"error when calling ConsensusStrategy.EnterRound", 11, "advance: EnterRound error"),
    (r"Byzantine(Majority|Minority): n must be positive", 12, "threshold of zero power"),
    (r"requires len\(candidateKeys\) > 0", 16, "recordProposedHeader: previous validator set empty"),
    (r"TODO: handle blocked send", 17, "blocked send to the consensus manager"),
]

SITE_TEXT = {n: t for _, n, t in PANIC_SITES}
SITE_TEXT.update({13: "nil CancelTimer call", 14: "nil VRV dereference", 15: "nil signer in recordProposedHeader"})


def panic_site(stderr):
    m = re.search(r"^panic: (.*)$", stderr, flags=re.M)
    if not m:
        return None
    msg = m.group(1)
    for rx, n, _ in PANIC_SITES:
        if re.search(rx, msg):
            return n
    if "nil pointer dereference" in msg or "nil pointer dereference" in stderr:
        if "recordProposedHeader" in stderr:
            return 15
        return 13
    return 99


def coq_list(xs):
    return "[" + "; ".join(str(x) for x in xs) + "]"


def coq_ll(xss):
    return "[" + "; ".join(coq_list(x) for x in xss) + "]"


def parse_coq_value(txt, name):
    """Parse `name = <nested lists / tuples of numbers>` printed by coqc into python."""
    m = re.search(r"\b" + re.escape(name) + r"\s*=\s*(.*?)\n\s*:\s", txt, flags=re.S)
    if not m:
        return None
    body = m.group(1).replace(";", ",").replace("%N", "")
    body = re.sub(r"\s+", " ", body)
    return ast.literal_eval(body)


def gen_cases(c, n_traces, steps):
    cases = []
    for i in range(n_traces):
        signer = 0 if c.rng.below(8) == 0 else 1
        choices = [c.rng.below(1 << 30) for _ in range(4 * steps)]
        cases.append((signer, choices))
    return cases


HEADER = """From Coq Require Import List NArith String Bool.
From GV Require Import Base.Ints Gen.Math Gen.StepSM Model.StateMachine Model.SMWire Model.SMWalk.
Import ListNotations. Local Open Scope N_scope.
"""


def model_walk(c, cases, tag):
    """coqc run A: events + model outputs per trace. Returns list of traces:
    [ (encoded_event, (sm_items, cm_items)) ... ] or None on failure (log in c.last_walk_log)."""
    out = []
    shard = 40
    for si in range(0, len(cases), shard):
        sh = cases[si:si + shard]
        body = HEADER + "Definition cases : list (bool * list N) := [\n%s].\n" % ";\n".join(
            "(%s, %s)" % ("true" if sg else "false", coq_list(cs)) for sg, cs in sh)
        body += "Definition rep := Eval vm_compute in map (fun c => trace_report (fst c) (snd c)) cases.\nPrint rep.\n"
        ok, txt = c.coq_eval("%s_walk_%d" % (tag, si // shard), body)
        if not ok:
            c.last_walk_log = txt[-2000:]
            return None
        val = parse_coq_value(txt, "rep")
        if val is None:
            c.last_walk_log = "cannot parse walker output: " + txt[-1500:]
            return None
        out += val
    return out


def parse_items(s):
    s = s.strip()
    if not s:
        return []
    return [[int(x) for x in it.split()] for it in s.split(";")]


def run_harness(c, binary, cases, traces, patient=False):
    """Runs the real state machine on every trace. Returns per trace a list of (sm_items, cm_items);
    the event at which the harness died carries ([[20, site]], []) (or [[23]] when it blocked)."""
    lines = []
    for i, tr in enumerate(traces):
        lines.append("0 %d %d" % (i, cases[i][0]))
        for ev, _ in tr:
            lines.append(" ".join(str(x) for x in ev))
    # index of the first input line of each trace
    results = [None] * len(traces)
    c.sm_cut = {}          # index (in this call) -> number of events compared, for histories that ended in a shutdown panic
    start = 0
    restarts = 0
    stderr_tail = ""
    while start < len(traces):
        inp = []
        for i in range(start, len(traces)):
            inp.append("0 %d %d" % (i, cases[i][0]))
            for ev, _ in traces[i]:
                inp.append(" ".join(str(x) for x in ev))
        # patient: the re-run of a suspect history waits much longer for a dying process / a busy kernel (a loaded
        # machine must not turn into a disagreement; a deterministic defect fails however long the harness waits)
        rc, out, err = c.run_bin(binary, stdin="\n".join(inp) + "\n", timeout=1800 if patient else 600,
                                 env={"VERIF_SM_PATIENT": "1"} if patient else None)
        cur = None
        for line in out.splitlines():
            if line.startswith("T "):
                cur = int(line.split()[1])
                results[cur] = []
            elif line.startswith("O "):
                a, _, b = line[2:].partition("|")
                results[cur].append((parse_items(a), parse_items(b)))
        if rc == 0:
            break
        # the harness died inside trace `cur` at event len(results[cur])
        restarts += 1
        stderr_tail = err[-3000:]
        if cur is None:
            c.fail_obligation("harness-run", "harness died before the first trace: " + err[-800:])
            return results, restarts
        site = panic_site(err)
        if site == 99:
            c.notes.append("unrecognised panic in trace %d: %s" % (cur, err[:1200]))
        blocked = results[cur] and results[cur][-1][0] and results[cur][-1][0][-1] == [23]
        k_dead = len(results[cur])
        at_stop = k_dead >= len(traces[cur]) or traces[cur][k_dead][0][0] == 2
        if blocked:
            pass
        elif site in (9, 10) and at_stop:
            # SHUTDOWN manifestation of the known finding jump-ahead-after-round-advance-panics (C08, witness w7): the
            # view update that advanced the round (nil precommit quorum) also carried a jump-ahead; the kernel is blocked
            # in the round entrance of the advance, and when the context is cancelled (Stop event, or the harness
            # stopping the machine at the end of the history) the rest of handleViewUpdate still runs and panics in
            # handleJumpAhead. The process is gone (its in-memory stores too), so the history ends here: it is
            # compared up to and including the Stop (which shows nothing else), the rest is not run.
            if k_dead < len(traces[cur]):
                results[cur].append(([], []))
            c.sm_cut[cur] = len(results[cur])
            c.sm_shutdown_panics = getattr(c, "sm_shutdown_panics", 0) + 1
        elif site is not None:
            # the deferred close(kernelDone) of a panicking kernel may have been reported as HALT
            # just before the process died: then that (last printed) event is the panicking one
            if results[cur] and [21] in results[cur][-1][0]:
                results[cur] = results[cur][:-1]
            results[cur].append(([[20, site]], []))
        else:
            results[cur].append(([[98]], []))
            c.notes.append("harness died without a recognised panic in trace %d: %s" % (cur, err[-400:]))
        start = cur + 1
    c.coverage["harness_restarts_after_panic"] = restarts
    for i in range(len(results)):
        if results[i] is None:
            results[i] = []
    return results, restarts


def first_diff(trace, impl):
    """index of the first event whose outputs differ (None = equal up to the end of the model trace
    or up to a panic on both sides)."""
    for k, (ev, mo) in enumerate(trace):
        if k >= len(impl):
            return k
        mo = (list(map(list, mo[0])), list(map(list, mo[1])))
        io = (impl[k][0], impl[k][1])
        if mo != io:
            return k
        if mo[0] and mo[0][0][0] == 20:
            return None
    return None


EVENT_NAMES = {1: "Start", 2: "Stop", 3: "RoundEntranceResponse(view)", 4: "RoundEntranceResponse(committed header)",
               5: "ViewUpdate", 6: "JumpAhead", 7: "EmptyViewUpdate", 8: "TimerElapsed", 9: "StrategyAnswer",
               10: "Proposal", 11: "FinalizationResponse", 12: "HeightCommitted", 13: "BlockDataArrival", 14: "ArmEnterRoundError"}
OUT_NAMES = {1: "RoundEntrance", 2: "EnterRound", 3: "ConsiderProposedBlocks", 4: "ChooseProposedBlock", 5: "DecidePrecommit",
             6: "Sign(prevote)", 7: "Sign(precommit)", 8: "Sign(proposal)", 9: "SavePrevote", 10: "SavePrecommit", 11: "SaveProposedHeader",
             12: "Emit(prevote)", 13: "Emit(precommit)", 14: "Emit(proposal)", 15: "FinalizeBlockRequest", 16: "TimerStart",
             17: "TimerCancel", 18: "SetStateMachineHeightRound", 19: "SaveFinalization", 20: "PANIC", 21: "HALT",
             22: "undeliverable", 23: "BLOCKED"}


def render(trace, impl, upto=None):
    rows = []
    for k, (ev, mo) in enumerate(trace):
        if upto is not None and k > upto:
            break
        io = impl[k] if k < len(impl) else None
        rows.append({
            "event": "%s %s" % (EVENT_NAMES.get(ev[0], "?"), list(ev[1:])),
            "impl": None if io is None else [["%s" % OUT_NAMES.get(x[0], "?")] + x[1:] for x in io[0] + io[1]],
            "model": [["%s" % OUT_NAMES.get(x[0], "?")] + list(x[1:]) for x in list(mo[0]) + list(mo[1])],
        })
    return rows


def harness_input(signer, trace, upto=None):
    lines = ["0 0 %d" % signer]
    for k, (ev, _) in enumerate(trace):
        if upto is not None and k > upto:
            break
        lines.append(" ".join(str(x) for x in ev))
    return "\n".join(lines) + "\n"


def prepare(c):
    """translator + harness build. Returns (translate_ok, binary or None)."""
    tok, tlog = c.translate(only=["Gen/Math.v", "Gen/StepSM.v"])
    if not tok:
        c.obligations.append("translate Gen/StepSM.v")
        c.broken = {"file": "translate", "log": tlog[-800:]}
    binary, blog = c.go_build("sm")
    if binary is None:
        c.fail_obligation("harness-build", blog[-1500:])
    return tok, binary


def correspondence(c, tag, n_traces, steps):
    """Returns dict(cases, traces, impl, diffs) or None if the model could not be evaluated."""
    ok, out = c.coq_make(["Model/SMWalk.vo", "Monitors/SMm.vo"])
    if not ok:
        c.fail_obligation("model-build", out[-1500:])
        return None
    cases = gen_cases(c, n_traces, steps)
    traces = model_walk(c, cases, tag)
    if traces is None:
        c.fail_obligation("model-walk", getattr(c, "last_walk_log", ""))
        return None
    return {"cases": cases, "traces": traces}


# ---------------------------------------------------------------------------------------------
MONITORS = ["corr", "c12_one_timer", "c02_save_before_emit", "c02_one_signature_per_lifetime",
            "c02_one_signature_ever", "c02_one_emission_ever", "c08_targets", "c08_rounds", "c08_finalize", "c08_once_per_round",
            "sm_responsive", "c08_stale_view_inert", "c10_sm_resume", "c07_sm_valset", "c08_height_after_fin", "c07_sm_considered_match"]

EVAL_HEADER = """From Coq Require Import List NArith String Bool.
From GV Require Import Base.Ints Gen.Math Gen.StepSM Model.StateMachine Model.SMWire Model.SMWalk Model.SMScenarios Monitors.SMm.
Import ListNotations. Local Open Scope N_scope.
Fixpoint ll_eqb (a b : list (list N)) : bool :=
  match a, b with [], [] => true | x :: a', y :: b' => leqb x y && ll_eqb a' b' | _, _ => false end.
Fixpoint outs_eqb (a b : list (list (list N) * list (list N))) : bool :=
  match a, b with
  | [], [] => true
  | (x1, x2) :: a', (y1, y2) :: b' => ll_eqb x1 y1 && ll_eqb x2 y2 && outs_eqb a' b'
  | _, _ => false
  end.
Definition nbb (b : bool) : N := if b then 1 else 0.
Definition judge (es : list event) (sg : bool) (impl : list (list (list N) * list (list N))) : list N :=
  let model := map project (run_events (sm0 sg) es) in
  let t : list obs := combine (map enc_event es) (map (fun p => fst p ++ snd p) impl) in
  let tm : list obs := combine (map enc_event es) (map (fun p => fst p ++ snd p) model) in
  map nbb [outs_eqb model impl; c12_one_timer t; c02_save_before_emit t; c02_one_signature_per_lifetime t;
           c02_one_signature_ever t; c02_one_emission_ever t; c08_targets t; c08_rounds t; c08_finalize t; c08_once_per_round t; sm_responsive t; c08_stale_view_inert t; c10_sm_resume t; c07_sm_valset t; c08_height_after_fin t; c07_sm_considered_match t]
  ++ map nbb [c12_one_timer tm; c02_save_before_emit tm; c02_one_signature_per_lifetime tm;
              c02_one_signature_ever tm; c02_one_emission_ever tm; c08_targets tm; c08_rounds tm; c08_finalize tm; c08_once_per_round tm; sm_responsive tm; c08_stale_view_inert tm; c10_sm_resume tm; c07_sm_valset tm; c08_height_after_fin tm; c07_sm_considered_match tm].
"""


def coq_impl(impl):
    return "[" + "; ".join("(%s, %s)" % (coq_ll(a), coq_ll(b)) for a, b in impl) + "]"


def judge_walked(c, tag, cases, impls, events_of=None, cuts=None):
    """coqc run B: correspondence + monitors on the implementation's observations (and on the model's).
    Returns list of dicts name->bool (model monitor values under 'model:<name>').
    events_of(k, sg, cs): Gallina expression of the k-th history's events (default: the model walk)."""
    res = []
    shard = 40
    if events_of is None:
        events_of = lambda k, sg, cs: "(gen_trace %s %s)" % ("true" if sg else "false", coq_list(cs))
    if cuts:
        inner = events_of
        events_of = lambda k, sg, cs: ("(firstn %d%%nat %s)" % (cuts[k], inner(k, sg, cs))) if k in cuts else inner(k, sg, cs)
    for si in range(0, len(cases), shard):
        body = EVAL_HEADER + "Definition res := Eval vm_compute in [\n%s].\nPrint res.\n" % ";\n".join(
            "judge %s %s %s" % (events_of(si + k, sg, cs), "true" if sg else "false", coq_impl(impls[si + k]))
            for k, (sg, cs) in enumerate(cases[si:si + shard]))
        ok, txt = c.coq_eval("%s_judge_%d" % (tag, si // shard), body)
        val = parse_coq_value(txt, "res") if ok else None
        if val is None:
            c.fail_obligation("cases-eval", txt[-1500:])
            return None
        for row in val:
            d = {n: bool(row[i]) for i, n in enumerate(MONITORS)}
            for i, n in enumerate(MONITORS[1:]):
                d["model:" + n] = bool(row[len(MONITORS) + i])
            res.append(d)
    return res


def catchup_valsets_empty(name, evs, fl):
    """The known defect of the catch-up branch (finding catchup-leaves-validator-sets-empty, C08 / C07): after a round entrance
    answered with a committed header the state machine's validator-set bookkeeping stays empty.  True when a failure of one of the
    validator-set monitors on this history is that defect: the history contains a committed-header response and the MODEL's own run
    fails the monitor too."""
    return name in ("c07_sm_valset", "c07_sm_considered_match") and any(e[0] == 4 for e in evs) and fl.get("model:" + name) is False


WITNESS_KEYS = {
    1: ("C08", "finalize-after-catchup-view-without-quorum",
        "after a committed-header response a view of the new round makes the state machine ask the driver to finalize a block without a precommit quorum"),
    2: ("C08", "prevote-quorum-first-skips-precommit-decision",
        "a prevote quorum seen while awaiting the proposal moves to awaiting precommits without ever asking the strategy for its precommit"),
    3: ("C02", "restart-resigns-then-halts",
        "a restart in the same round invokes the signer a second time for the same height/round, then the action store refuses and the state machine halts"),
    4: ("C08", "enter-round-in-delay-step-panics", "entering a round whose view is already in prevote/precommit delay panics (beginRoundLive)"),
    5: ("C08", "height-committed-outside-commit-wait-panics", "a height-committed signal while not in commit wait panics"),
    6: ("C08", "catchup-commit-round-differs-panics", "replaying a block committed in another round than the state machine's panics when the driver echoes the request"),
    7: ("C08", "jump-ahead-after-round-advance-panics", "a view update carrying a nil precommit quorum and a jump-ahead panics"),
    8: ("C08", "catchup-leaves-validator-sets-empty", "catch-up from start-up leaves the validator-set bookkeeping empty; proposing two heights later panics"),
}


def run_witnesses(c, binary, pid):
    """Re-runs the recorded witnesses (Proofs/SMWitness.v) on the real code. Reports a KNOWN-FINDING for
    every witness of property `pid` that still shows its defect; a witness on which model and code
    disagree is a broken correspondence."""
    body = HEADER.replace("Model.SMWalk.", "Model.SMWalk Proofs.SMWitness.") + \
        "Definition rep := Eval vm_compute in witness_report.\nPrint rep.\n"
    ok, txt = c.coq_eval("sm_witness_%s" % pid.lower(), body)
    val = parse_coq_value(txt, "rep") if ok else None
    if val is None:
        c.fail_obligation("witness-eval", txt[-1500:])
        return
    ids = [w[0] for w in val]
    traces = [w[1] for w in val]
    cases = [(1, [])] * len(traces)
    impl, _ = run_harness(c, binary, cases, traces)
    seen = []
    for wid, tr, im in zip(ids, traces, impl):
        prop, key, text = WITNESS_KEYS[wid]
        d = first_diff(tr, im)
        if prop != pid:
            continue
        if d is not None:
            # the code no longer behaves like the model on this witness: the defect may be gone (fine) or the
            # model is stale; the walked correspondence decides the latter
            c.notes.append("witness %d (%s): implementation differs from the model at event %d" % (wid, key, d))
            continue
        seen.append(key)
        c.report(key, text, {"witness": wid, "how": "bin/h_sm < replay input", "harness_input": harness_input(1, tr),
                             "trace": render(tr, im)})
    c.coverage["witnesses_reproduced"] = seen


def run_scenarios(c, binary, tag, clauses, classify):
    """The scripted histories of Model/SMScenarios.v: model outputs computed in coqc, the same events run on the real
    state machine, outputs compared event by event, monitors evaluated on the implementation's observations."""
    okm, mlog = c.coq_make(["Model/SMScenarios.vo", "Monitors/SMm.vo"])
    if not okm:
        c.fail_obligation("model-build (scenarios)", mlog[-1500:])
        return
    body = HEADER.replace("Model.SMWalk.", "Model.SMWalk Model.SMScenarios.") + \
        "Definition rep := Eval vm_compute in scenario_report.\nPrint rep.\n"
    ok, txt = c.coq_eval("sm_scen_%s" % tag, body)
    traces = parse_coq_value(txt, "rep") if ok else None
    if traces is None:
        c.fail_obligation("scenario-eval", txt[-1500:])
        return
    cases = [(1, [])] * len(traces)
    impl, _ = run_harness(c, binary, cases, traces)
    flags = judge_walked(c, tag + "_scen", cases, impl, events_of=lambda k, sg, cs: "(nth %d scenarios [])" % k)
    if flags is None:
        return
    ev_of = lambda idx: (lambda k, sg, cs: "(nth %d scenarios [])" % idx[k])
    # same rule as for the walked histories: a scripted history that fails is run again (patiently) and counts only
    # if it fails every time
    pending = [i for i, fl in enumerate(flags)
               if not fl["corr"] or first_diff(traces[i], impl[i]) is not None
               or any(not fl[n] and fl.get("model:" + n, True) for n in clauses)]     # a failure the model predicts is no suspect
    rerun, passed = len(pending), 0
    for attempt in range(2):
        if not pending:
            break
        im2, _r = run_harness(c, binary, [cases[i] for i in pending], [traces[i] for i in pending], patient=True)
        fl2 = judge_walked(c, tag + "_scen_again", [cases[i] for i in pending], im2, events_of=ev_of(list(pending)))
        if fl2 is None:
            break
        still = []
        for k, i in enumerate(pending):
            if fl2[k]["corr"] and first_diff(traces[i], im2[k]) is None and all(fl2[k][n] for n in clauses):
                impl[i], flags[i] = im2[k], fl2[k]
                passed += 1
            else:
                still.append(i)
        pending = still
    bad = []
    for i, fl in enumerate(flags):
        d = first_diff(traces[i], impl[i])
        if not fl["corr"] or d is not None:
            bad.append((i, d))
        for name in clauses:
            if not fl[name]:
                key = classify(name, [e for e, _ in traces[i]], fl)
                if key is None:     # a failure this property's check leaves to the check that owns the finding
                    continue
                c.report(key, "monitor %s is false on the implementation's observations of scripted history %d (Model/SMScenarios.v)" % (name, i),
                         {"monitor": name, "scenario": i, "model_monitor_value": fl.get("model:" + name), "how": "bin/h_sm < replay input",
                          "harness_input": harness_input(1, traces[i]), "trace": render(traces[i], impl[i])})
    if bad and not any(v[3] for v in c.violations):
        i, d = bad[0]
        d = 0 if d is None else d
        c.fail_obligation("correspondence Model/StateMachine.v vs tm/tmengine/internal/tmstate/statemachine.go (scripted histories)",
                          "model and real state machine differ on scripted histories %s; first: scenario %d event %d" % ([b[0] for b in bad], i, d),
                          {"harness_input": harness_input(1, traces[i], d), "how": "bin/h_sm < replay input",
                           "trace": render(traces[i], impl[i], d)[-8:]})
    c.coverage["scripted_histories"] = {"run": len(traces), "events": sum(len(t) for t in traces), "disagreements": len(bad),
                                        "rerun_after_a_failure": rerun, "passed_on_rerun": passed}


def stale_elapse_run(c, binary, cases, traces):
    """C12: a cancelled step timer is never acted upon. Every history is run once more on the real state machine with a
    pseudo-event (harness command 30) after each event in which the MODEL cancels an outstanding timer: the channel of
    that cancelled timer is closed, as if the timer had fired concurrently with its cancellation and the kernel's select
    had taken the other branch. The model never believes in a timer that is not outstanding (Properties/C12smInv.v:
    C12sm_believed_timer_is_outstanding), so the real state machine must show no reaction at all - no output, no panic -
    and the rest of the history must go on as without the pseudo-event."""
    aug, idx = [], []
    for i, tr in enumerate(traces):
        a, n = [], 0
        for ev, mo in tr:
            a.append((ev, mo))
            if any(list(x)[0] == 17 and list(x)[-1] == 1 for x in mo[0]) and not any(list(x)[0] in (20, 21) for x in mo[0]):
                a.append(((30,), ((), ())))
                n += 1
        if n:
            aug.append(a)
            idx.append(i)
    if not aug:
        c.coverage["stale_elapse"] = {"histories": 0, "pseudo_events": 0}
        return
    sub = [cases[i] for i in idx]
    impl, _ = run_harness(c, binary, sub, aug)
    bad = []
    for k, tr in enumerate(aug):
        d = first_diff(tr, impl[k])
        if d is not None and tr[d][0][0] == 30 and not (d < len(impl[k]) and impl[k][d][0] == [[22]] and not impl[k][d][1]):
            bad.append((k, d))
    confirmed = []
    for k, d in bad[:6]:      # a loaded machine must not turn into an alarm: confirm patiently
        im2, _ = run_harness(c, binary, [sub[k]], [aug[k]], patient=True)
        d2 = first_diff(aug[k], im2[0])
        if d2 is not None and aug[k][d2][0][0] == 30 and not (d2 < len(im2[0]) and im2[0][d2][0] == [[22]] and not im2[0][d2][1]):
            confirmed.append((k, d2, im2[0]))
    for k, d, im in confirmed[:1]:
        rows = render(aug[k], im, d)
        for row, (ev, _) in zip(rows, aug[k]):
            if ev[0] == 30:
                row["event"] = "STALE ELAPSE of the timer cancelled by the previous event"
        c.report("stale-elapse-acted-upon",
                 "the real state machine reacts to the elapse of a step timer it had CANCELLED (the timer's channel is closed after "
                 "the cancel call, as when the timer fires concurrently with the cancellation): a cancelled timer is still listened to",
                 {"signer": sub[k][0], "how": "bin/h_sm < replay input (line '30' = stale elapse)",
                  "harness_input": harness_input(sub[k][0], aug[k], d), "trace": rows[-6:]})
    c.coverage["stale_elapse"] = {"histories": len(aug), "pseudo_events": sum(1 for tr in aug for ev, _ in tr if ev[0] == 30),
                                  "reactions_first_run": len(bad), "reactions_confirmed": len(confirmed)}


def walked(c, pid, binary, tag, n_traces, steps, clauses, classify, stale=False):
    """Full correspondence + monitor evaluation. `clauses`: monitor names that decide property `pid`;
    `classify(name, trace_events) -> key` gives the finding key of a failing clause."""
    r = correspondence(c, tag, n_traces, steps)
    if r is None:
        return
    cases, traces = r["cases"], r["traces"]
    # A Stop delivered while the round entrance of an advance is pending AND the view update that caused the advance also
    # carried a jump-ahead: on cancellation the real kernel still runs the rest of handleViewUpdate (handleJumpAhead) with
    # the cancelled context - it panics (known finding jump-ahead-after-round-advance-panics) or writes the jumped-to
    # round to its store while shutting down. The model's Stop does not run that suspended tail, so such a history is
    # compared up to that Stop only (the harness stops the machine itself at the end of every history).
    cuts = {}
    for i, tr in enumerate(traces):
        pend = False
        for k, (ev, mo) in enumerate(tr):
            if ev[0] in (3, 4, 1):
                pend = False
            elif ev[0] == 5 and tuple(ev[-2:]) != (0, 0) and any(list(x)[0] == 1 for x in mo[0]):
                pend = True
            elif ev[0] == 2 and pend:
                cuts[i] = k
                break
    for i, kk in cuts.items():
        traces[i] = traces[i][:kk]
    c.coverage["histories_cut_at_a_stop_with_a_suspended_jump_ahead"] = len(cuts)
    impl, restarts = run_harness(c, binary, cases, traces)
    for i, kk in c.sm_cut.items():
        cuts[i] = min(kk, cuts.get(i, kk))
    for i, kk in cuts.items():
        traces[i] = traces[i][:kk]
    if c.sm_cut:
        key7 = WITNESS_KEYS[7][1]
        c.coverage["histories_ended_by_a_shutdown_panic"] = len(c.sm_cut)
        if pid == "C08":
            i0 = sorted(c.sm_cut)[0]
            c.report(key7, WITNESS_KEYS[7][2] + " - here at shutdown: the context is cancelled while the round entrance of the advance is pending",
                     {"signer": cases[i0][0], "how": "bin/h_sm < replay input (the process dies while stopping)",
                      "harness_input": harness_input(cases[i0][0], traces[i0]), "trace": render(traces[i0], impl[i0])[-6:]})
    flags = judge_walked(c, tag, cases, impl, cuts=cuts)
    if flags is None:
        return
    if stale:
        stale_elapse_run(c, binary, cases, traces)
    # The harness drives a real multi-goroutine state machine: once in a few hundred histories (under load) an
    # observation is attributed to the wrong event. A history that disagrees with the model or fails a monitor is
    # therefore run again, up to three times (the last two with long waits); it counts only if it fails every time (a
    # deterministic defect does).
    suspects = [i for i, fl in enumerate(flags)
                if not fl["corr"] or first_diff(traces[i], impl[i]) is not None
                or any(not fl[n] and fl.get("model:" + n, True) for n in clauses)]    # a failure the model predicts is no suspect
    flaky = 0
    pending = suspects[:60]
    for attempt in range(3):
        if not pending:
            break
        im2, _r = run_harness(c, binary, [cases[i] for i in pending], [traces[i] for i in pending], patient=(attempt > 0))
        cuts2 = {k: cuts[i] for k, i in enumerate(pending) if i in cuts}
        fl2 = judge_walked(c, tag + "_again", [cases[i] for i in pending], im2, cuts=cuts2)
        if fl2 is None:
            break
        still = []
        for k, i in enumerate(pending):
            if fl2[k]["corr"] and first_diff(traces[i], im2[k]) is None and all(fl2[k][n] for n in clauses):
                impl[i], flags[i] = im2[k], fl2[k]
                flaky += 1
            else:
                still.append(i)
        pending = still
    c.coverage["histories_rerun_after_a_failure"] = len(suspects[:60])
    c.coverage["histories_that_passed_on_rerun"] = flaky
    n_events = sum(len(t) for t in traces)
    evc, outc = {}, {}
    for tr in traces:
        for ev, mo in tr:
            evc[EVENT_NAMES.get(ev[0], "?")] = evc.get(EVENT_NAMES.get(ev[0], "?"), 0) + 1
            for x in list(mo[0]) + list(mo[1]):
                outc[OUT_NAMES.get(x[0], "?")] = outc.get(OUT_NAMES.get(x[0], "?"), 0) + 1
    distinct = len(set(tuple(tuple(e) for e, _ in tr) for tr in traces if len(tr) > 2))
    bad_corr = []
    for i, fl in enumerate(flags):
        d = first_diff(traces[i], impl[i])
        if not fl["corr"] or d is not None:
            bad_corr.append((i, d))
        for name in clauses:
            if not fl[name]:
                evs = [e for e, _ in traces[i]]
                key = classify(name, evs, fl)
                if key is None:     # a failure this property's check leaves to the check that owns the finding
                    continue
                c.report(key, "monitor %s is false on the implementation's observations of a generated history" % name,
                         {"monitor": name, "model_monitor_value": fl.get("model:" + name), "signer": cases[i][0],
                          "how": "bin/h_sm < replay input", "harness_input": harness_input(cases[i][0], traces[i]),
                          "trace": render(traces[i], impl[i])})
    # only a violation with a concrete failing input (known findings excluded) stands in for the broken correspondence
    monitor_failed = any(v[3] for v in c.violations)
    if bad_corr and not monitor_failed:
        i, d = bad_corr[0]
        if os.environ.get("VERIF_DEBUG_DUMP"):
            json.dump({"case": cases[i], "trace": traces[i], "impl": impl[i], "flags": flags[i], "d": d}, open(os.environ["VERIF_DEBUG_DUMP"], "w"))
        d = (len(traces[i]) - 1) if d is None else d      # no positional difference: the whole history is the replay
        c.fail_obligation("correspondence Model/StateMachine.v vs tm/tmengine/internal/tmstate/statemachine.go",
                          "model and real state machine differ on %d of %d generated histories; first: trace %d event %d" % (len(bad_corr), len(traces), i, d),
                          {"signer": cases[i][0], "harness_input": harness_input(cases[i][0], traces[i], d),
                           "how": "bin/h_sm < replay input", "trace": render(traces[i], impl[i], d)[-8:]})
    c.samples += [{"events": [EVENT_NAMES.get(e[0], "?") for e, _ in tr][:14]} for tr in traces[:3]]
    c.coverage.update({
        "evaluations": n_events,
        "traces": len(traces),
        "distinct_nontrivial": distinct,
        "rule": "event histories produced by walking the Coq model (Model/SMWalk.v) with choices from SplitMix64(VERIF_SEED): mostly valid "
                "growth of votes/proposals plus stale versions, other rounds, empty updates, wrong finalization responses, strategy errors, "
                "restarts; non-trivial = more than 2 events; every event's outputs compared between the real state machine and the model",
        "traces_validated_against_impl": len(traces),
        "correspondence_disagreements": len(bad_corr),
        "event_distribution": evc,
        "output_distribution": outc,
        "monitor_failures_on_impl": sum(1 for fl in flags for n in clauses if not fl[n]),
    })
