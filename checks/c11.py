"""C11 - View consumers see strictly newer, growing views and end up current (mirror kernel + view managers)."""
import vcheck
import mirrorlib

META = {
    "engine": "coq+correspondence",
    "technique": "Coq proof over a model of the two view managers driven by the kernel model's events (state-machine stream: "
                 "views of the entered round with strictly increasing versions, from any state, for every interleaving of "
                 "kernel operations and reads) + differential correspondence with the real kernel acting as state machine "
                 "and gossip reader (reads withheld arbitrarily) + Coq stream monitors on what the real consumers received",
    "level": "P/partial. Proved: between two round entrances the state machine only receives views of the round it entered, "
             "with strictly increasing versions above the entrance answer; kernel events never move that bar. Monitored on "
             "every run against the real mirror (harness = state machine + gossip reader with random read timing, also "
             "across crashes/restarts): both streams strictly newer and growing per (height, round), and after reading until "
             "nothing is offered each consumer holds the mirror's latest version of the views it is entitled to. The gossip "
             "half of 'leaving votes are delivered' is refuted (known finding: a single nil-voted-round snapshot is "
             "overwritten by the next nil commit when the gossip reader is slow). Round-session changes and the lag manager "
             "are not modelled; real goroutine scheduling of the kernel select is trusted.",
    "note": "Trusted: Coq kernel; reads are decided by a 40 ms receive timeout after a kernel barrier; correspondence harness. "
            "No axioms.",
    "design_ref": "DESIGN.md 4 (C11)",
}


def main(argv):
    c = vcheck.Check("C11", argv)
    mirrorlib.mirror_check(c, ["C11", "C11Streams"], ["c11sm", "c11g", "c11cur", "c11nil"], "C11 view streams",
                           quick=(30, 40), thorough=(400, 50), extra=["-consumers", "-crashes"])
    # callers of Handle* running concurrently (overlapping messages, some giving up early): no model run - the Coq stream
    # monitors judge what the two consumers received and whether they end up current
    mirrorlib.mirror_concurrent(c, ["c11g", "c11sm", "c11cur", "c05"], "C11 view streams under concurrent callers")
    c.finish()
