"""C11 - View consumers see strictly newer, growing views and end up current (mirror kernel + view managers)."""
import vcheck
import mirrorlib

META = {
    "engine": "coq+correspondence",
    "technique": "Coq proof over a model of the two view managers driven by the kernel model's events (state-machine stream: "
                 "views of the entered round with strictly increasing versions, from any state, for every interleaving of "
                 "kernel operations and reads) + differential correspondence with the real kernel acting as state machine "
                 "and gossip reader (reads withheld arbitrarily) + Coq stream monitors on what the real consumers received",
    "level": "P/partial. Proved over ALL histories of kernel operations (proposed headers, votes, replayed headers), entrances and reads "
             "without restarts (Properties/C11.v, C11Streams.v): GOSSIP stream - two deliveries of one (height, round) in a slot have "
             "strictly increasing versions and growing proposals / signer sets, rounds never go back; STATE-MACHINE stream - within an "
             "entrance the delivered views start above the entrance answer with strictly increasing versions and growing content, "
             "jump-aheads are for a later round / height; CURRENCY - after an empty state-machine read the manager's last sent version "
             "is the kernel view's version; after an empty gossip read all three slots EQUAL the kernel's views; every change of a kernel "
             "view is a version bump marked to the managers in the same step (all full, all four operations). Two earlier refutations "
             "(a rejected replay leaving a header behind; an accepted replay not marking the view) reproduced on the real mirror and "
             "were repaired there. Refuted: nil-voted-round votes reach "
             "gossip (known finding: single slot); versions across a restart. Monitored on every run against the real mirror (harness "
             "= state machine + gossip reader with random read timing, also across crashes/restarts, and under CONCURRENT callers of "
             "Handle*): both streams strictly newer and growing, jump-aheads ordered, currency after quiescence. Round-session changes "
             "and the lag manager are not modelled; real goroutine scheduling of the kernel select is trusted.",
    "note": "Trusted: Coq kernel; reads are decided by a 40 ms receive timeout after a kernel barrier; correspondence harness. "
            "No axioms.",
    "design_ref": "DESIGN.md 4 (C11)",
}


def main(argv):
    c = vcheck.Check("C11", argv)
    mirrorlib.mirror_check(c, ["C11", "C11Streams"], ["c11sm", "c11g", "c11cur", "c11nil", "c05"], "C11 view streams",
                           quick=(30, 40), thorough=(400, 50), extra=["-consumers", "-crashes"], templates=[8, 10])
    # callers of Handle* running concurrently (overlapping messages, some giving up early): no model run - the Coq stream
    # monitors judge what the two consumers received and whether they end up current
    mirrorlib.mirror_concurrent(c, ["c11g", "c11sm", "c11cur", "c05"], "C11 view streams under concurrent callers")
    c.finish()
