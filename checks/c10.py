"""C10 - Restart on the same stores resumes without loss or regression (mirror kernel part)."""
import vcheck
import mirrorlib

META = {
    "engine": "coq+correspondence",
    "technique": "Coq proofs over the mirror-kernel model with an explicit store-write log (log = store delta for every operation, "
                 "crash states = write prefixes, start-up re-verifies every stored vote for ALL store contents) + differential "
                 "correspondence with the real mirror under injected crashes (write budgets) and restarts + Coq monitors",
    "level": "P/partial. Proved (Properties/C10.v, C10Resume.v): each operation's store effect is exactly the replay of its logged writes (so "
             "the crash model explores precisely the states a stop between two store writes can leave); a crash after the last write is "
             "a clean restart; START-UP NEVER FAILS: from the stores left by ANY prefix of the writes of ANY admissible operation in any "
             "state reached by operations, crashes and restarts, the model's NewKernel comes up (C10_startup_never_fails_any_cut_partial), "
             "and on ANY stores satisfying the store invariant it comes up in a state satisfying all kernel invariants "
             "(C10_restart_total_on_store_invariant); NO REGRESSION: committed headers are kept, heights never decrease, rounds only "
             "move by increments, and the restarted node is at most one height ahead of the uninterrupted run; the kernel invariants "
             "(and with them the theorems of C01/C04/C05/C07) hold again after every crash/restart at a clean cut. Guards: accepted "
             "headers announce a next validator set with positive power (and, in the model only, at least one key); the one crash point "
             "between the committed-header write and the position write is covered for start-up but histories are not continued from "
             "it. Refuted: the restarted node can be AHEAD of the uninterrupted run in rounds (known finding). A first version of the "
             "start-up theorem was REFUTED by a witness (an entry without signatures persisted by the future-vote path) that reproduced on "
             "the real mirror and was repaired there. Monitored on every run against the real mirror with a stop after every k-th "
             "store write: start-up succeeds, nothing regresses, persisted votes are reloaded, redelivery converges. State-machine half: "
             "the real tmstate.StateMachine is restarted on the same stores inside generated and scripted histories; a Coq monitor checks "
             "that it resumes in the round the stores prescribe and never emits a vote twice (the emission theorem is C02's); engine "
             "start-up (init-chain) is outside the models.",
    "note": "Trusted: Coq kernel; crash = the stores keep a prefix of the operation's write calls (each store method atomic); "
            "in-memory stores only; correspondence harness with write-budget store wrappers. No axioms.",
    "design_ref": "DESIGN.md 4 (C10)",
}


def main(argv):
    c = vcheck.Check("C10", argv)
    cases, crashes, results = mirrorlib.mirror_check(
        c, ["C10", "C10Resume"], ["c10obs", "c10conv", "c10obs_shifted", "c10ahead", "c04", "c05"], "C10 restart",
        quick=(40, 30), thorough=(500, 40), extra=["-crashes"])
    c.coverage["restart_failures"] = sum(1 for k in cases if k.get("restart_failed"))
    # the state-machine half: restarts of the real tmstate.StateMachine on the same stores (model walk with Stop/Start
    # events and the scripted restart histories of Model/SMScenarios.v): the round it resumes in is the one the stores
    # prescribe, and nothing is emitted twice across the restart
    import sm_common as S
    tok, binary = S.prepare(c)
    if binary is not None:
        clauses = ["c10_sm_resume", "c02_one_emission_ever"]
        n, steps = (32, 40) if c.tier == "quick" else (300, 60)
        cov_mirror = dict(c.coverage)
        S.walked(c, "C10", binary, "c10sm", n, steps, clauses, lambda name, evs, fl: name)
        S.run_scenarios(c, binary, "c10sm", clauses, lambda name, evs, fl: name)
        sm_cov = {k: c.coverage[k] for k in ("evaluations", "traces", "event_distribution", "scripted_histories") if k in c.coverage}
        c.coverage.update(cov_mirror)
        c.coverage["state_machine_restarts"] = sm_cov
    c.finish()
