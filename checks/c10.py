"""C10 - Restart on the same stores resumes without loss or regression (mirror kernel part)."""
import vcheck
import mirrorlib

META = {
    "engine": "coq+correspondence",
    "technique": "Coq proofs over the mirror-kernel model with an explicit store-write log (log = store delta for every operation, "
                 "crash states = write prefixes, start-up re-verifies every stored vote for ALL store contents) + differential "
                 "correspondence with the real mirror under injected crashes (write budgets) and restarts + Coq monitors",
    "level": "P/partial. Proved: each operation's store effect is exactly the replay of its logged writes (so the crash model "
             "explores precisely the states a stop between two store writes can leave), a crash after the last write is a clean "
             "restart, and for every store content a start-up that succeeds holds only votes that verify for the round they are "
             "filed under. Checked on every run against the real mirror with a crash after every k-th store write, restart, "
             "redelivery: start-up succeeds, position and chain never regress, persisted votes/proposals of the resumed rounds "
             "are present, redelivery converges. Partial: 'start-up never fails' and convergence are monitored, not proved; the "
             "full convergence statement is refuted (known finding: a restarted node can be AHEAD of the uninterrupted run "
             "because views created by a round change ignore votes stored earlier for that round). State-machine half: the real "
             "tmstate.StateMachine is restarted on the same stores inside generated and scripted histories; a Coq monitor checks that "
             "it resumes in the round the stores prescribe ((h+1, 0) after a stored finalization of h) and never emits a vote twice "
             "across the restart (the emission theorem is C02's); engine start-up (init-chain) is outside the models.",
    "note": "Trusted: Coq kernel; crash = the stores keep a prefix of the operation's write calls (each store method atomic); "
            "in-memory stores only; correspondence harness with write-budget store wrappers. No axioms.",
    "design_ref": "DESIGN.md 4 (C10)",
}


def main(argv):
    c = vcheck.Check("C10", argv)
    cases, crashes, results = mirrorlib.mirror_check(
        c, ["C10", "C10Resume"], ["c10obs", "c10conv", "c10obs_shifted", "c10ahead", "c04", "c05"], "C10 restart",
        quick=(40, 30), thorough=(500, 40), extra=["-crashes"])
    c.coverage["restart_failures"] = sum(1 for k in cases if k.get("restart_failed"))
    # the state-machine half: restarts of the real tmstate.StateMachine on the same stores (model walk with Stop/Start
    # events and the scripted restart histories of Model/SMScenarios.v): the round it resumes in is the one the stores
    # prescribe, and nothing is emitted twice across the restart
    import sm_common as S
    tok, binary = S.prepare(c)
    if binary is not None:
        clauses = ["c10_sm_resume", "c02_one_emission_ever"]
        n, steps = (32, 40) if c.tier == "quick" else (300, 60)
        cov_mirror = dict(c.coverage)
        S.walked(c, "C10", binary, "c10sm", n, steps, clauses, lambda name, evs, fl: name)
        S.run_scenarios(c, binary, "c10sm", clauses, lambda name, evs, fl: name)
        sm_cov = {k: c.coverage[k] for k in ("evaluations", "traces", "event_distribution", "scripted_histories") if k in c.coverage}
        c.coverage.update(cov_mirror)
        c.coverage["state_machine_restarts"] = sm_cov
    c.finish()
