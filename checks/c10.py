"""C10 - Restart on the same stores resumes without loss or regression (mirror kernel part)."""
import vcheck
import mirrorlib

META = {
    "engine": "coq+correspondence",
    "technique": "Coq proofs over the mirror-kernel model with an explicit store-write log (log = store delta for every operation, "
                 "crash states = write prefixes, start-up re-verifies every stored vote for ALL store contents) + differential "
                 "correspondence with the real mirror under injected crashes (write budgets) and restarts + Coq monitors",
    "level": "P/partial. Proved (Properties/C10.v, C10Resume.v), for every history of operations, clean restarts and crashes at EVERY point "
             "(any prefix of the store writes of any admissible operation, including the stop between the committed-header write and the "
             "position write of a commit): each operation's store effect is exactly the replay of its logged writes; START-UP NEVER FAILS "
             "(C10_startup_never_fails) and re-establishes all kernel invariants (C10_invariants_after_every_xstep: INV, tinv, the store "
             "invariant SI - so the theorems of C01/C04/C05/C07 extend to histories with crashes); on ANY stores satisfying SI start-up is "
             "total (C10_restart_total_on_store_invariant); after the header-write crash point the restart re-commits the same header "
             "(C10_restart_recommits_after_header_write); NO REGRESSION: committed headers are kept, heights never decrease, rounds only move "
             "by increments, the restarted node is at most one height ahead of the uninterrupted run (C10_no_regression, "
             "C10_crash_height_bound); PERSISTED VOTES ARE RELOADED for the voting and next-round views when the position is the same "
             "(C10_persisted_votes_reloaded_partial, with the view/round-store correspondence C10_view_store_correspondence as an invariant) "
             "- open: the committing view, and reload relative to the state before a crashed operation. Guards: accepted headers announce a "
             "next validator set with positive power (and, in the model only, at least one key). Refuted: the restarted node can be AHEAD "
             "of the uninterrupted run in rounds (known finding). A first version of the start-up theorem was REFUTED by a witness (an entry "
             "without signatures persisted by the future-vote path) that reproduced on the real mirror and was repaired there. Monitored on "
             "every run against the real mirror with a stop after every k-th store write: start-up succeeds, nothing regresses, persisted "
             "votes are reloaded, redelivery converges. State-machine half: the real tmstate.StateMachine is restarted on the same stores "
             "inside generated and scripted histories; a Coq monitor checks that it resumes in the round the stores prescribe and never "
             "emits a vote twice (the emission theorem is C02's); engine start-up (init-chain) is outside the models.",
    "note": "Trusted: Coq kernel; crash = the stores keep a prefix of the operation's write calls (each store method atomic); "
            "in-memory stores only; correspondence harness with write-budget store wrappers. No axioms.",
    "design_ref": "DESIGN.md 4 (C10)",
}


def main(argv):
    c = vcheck.Check("C10", argv)
    cases, crashes, results = mirrorlib.mirror_check(
        c, ["C10", "C10Resume"], ["c10obs", "c10conv", "c10obs_shifted", "c10ahead", "c04", "c05"], "C10 restart",
        quick=(40, 30), thorough=(500, 40), extra=["-crashes"], templates=[11])  # 11: a stop between the vote write and the position write of a round-skipping prevote message
    c.coverage["restart_failures"] = sum(1 for k in cases if k.get("restart_failed"))
    # the state-machine half: restarts of the real tmstate.StateMachine on the same stores (model walk with Stop/Start
    # events and the scripted restart histories of Model/SMScenarios.v): the round it resumes in is the one the stores
    # prescribe, and nothing is emitted twice across the restart
    import sm_common as S
    tok, binary = S.prepare(c)
    if binary is not None:
        clauses = ["c10_sm_resume", "c02_one_emission_ever"]
        n, steps = (32, 40) if c.tier == "quick" else (300, 60)
        cov_mirror = dict(c.coverage)
        S.walked(c, "C10", binary, "c10sm", n, steps, clauses, lambda name, evs, fl: name)
        S.run_scenarios(c, binary, "c10sm", clauses, lambda name, evs, fl: name)
        sm_cov = {k: c.coverage[k] for k in ("evaluations", "traces", "event_distribution", "scripted_histories") if k in c.coverage}
        c.coverage.update(cov_mirror)
        c.coverage["state_machine_restarts"] = sm_cov
    c.finish()
