"""C10 - Restart on the same stores resumes without loss or regression (mirror kernel part)."""
import vcheck
import mirrorlib

META = {
    "engine": "coq+correspondence",
    "technique": "Coq proofs over the mirror-kernel model with an explicit store-write log (log = store delta for every operation, "
                 "crash states = write prefixes, start-up re-verifies every stored vote for ALL store contents) + differential "
                 "correspondence with the real mirror under injected crashes (write budgets) and restarts + Coq monitors",
    "level": "P/partial. Proved: each operation's store effect is exactly the replay of its logged writes (so the crash model "
             "explores precisely the states a stop between two store writes can leave), a crash after the last write is a clean "
             "restart, and for every store content a start-up that succeeds holds only votes that verify for the round they are "
             "filed under. Checked on every run against the real mirror with a crash after every k-th store write, restart, "
             "redelivery: start-up succeeds, position and chain never regress, persisted votes/proposals of the resumed rounds "
             "are present, redelivery converges. Partial: 'start-up never fails' and convergence are monitored, not proved; the "
             "full convergence statement is refuted (known finding: a restarted node can be AHEAD of the uninterrupted run "
             "because views created by a round change ignore votes stored earlier for that round); the state-machine and "
             "engine start-up (finalization store, init-chain) are outside this model.",
    "note": "Trusted: Coq kernel; crash = the stores keep a prefix of the operation's write calls (each store method atomic); "
            "in-memory stores only; correspondence harness with write-budget store wrappers. No axioms.",
    "design_ref": "DESIGN.md 4 (C10)",
}


def main(argv):
    c = vcheck.Check("C10", argv)
    cases, crashes, results = mirrorlib.mirror_check(
        c, "C10", ["c10obs", "c10conv", "c10obs_shifted", "c10ahead", "c04", "c05"], "C10 restart",
        quick=(40, 30), thorough=(500, 40), extra=["-crashes"])
    for k in cases:
        if k.get("restart_failed"):
            c.report("restart-failed", "the real mirror did not come up again after a crash: %s" % k["restart_failed"].split(" @@ ")[-1][:200],
                     {"batch_seed": k["batch_seed"], "batch_case": k["batch_idx"],
                      "crashed_operation": k.get("failed_op", "")[:1500],
                      "steps_before": [{"op": op[:600], "impl_result": res} for op, res, _ in k["steps"][-6:]],
                      "how": "bin/h_mirror -crashes -seed %d -cases %d -ops 40" % (k["batch_seed"], k["batch_idx"] + 1)})
    c.coverage["restart_failures"] = sum(1 for k in cases if k.get("restart_failed"))
    c.finish()
