"""C19 - The transaction buffer's pending list always applies cleanly in order (DESIGN 4, C19)."""
import json
import os
import re
import vcheck

META = {
    "engine": "coq+correspondence",
    "technique": "Coq proofs (induction over request sequences, refinement to a (base, pending) specification machine) on a "
                 "hand-written executable model of gdriver/gtxbuf generic in state/transaction/apply/deleter; differential "
                 "correspondence of the model (vm_compute inside coqc) with the real workingState (through a verif hook, raw "
                 "state compared after every request) and with the real Buffer API (kernel goroutine); monitors evaluated on "
                 "the implementation's observations",
    "level": "Full for non-fatal apply errors: for every state/transaction type, every apply and deleter function and every "
             "sequence (hence every interleaving) of AddTx/Buffered/Rebase requests, the working state equals the in-order "
             "application of the pending list to the base; AddTx appends iff the transaction applies; Rebase keeps exactly the "
             "greedy in-order applicable subsequence of the not-applied pending transactions and returns the rest as invalidated; "
             "all results equal those of a specification machine without cached state. A rebase in which the user's apply returns "
             "a non-TxInvalidError error is documented as fatal to the buffer: theorems hold up to and including that response. "
             "Concurrency (monitored): callers racing on the real Buffer - incl. requests queued behind a kernel held inside an AddTx, and a "
             "rebase whose compaction is slow - must be explained by some serial order (search inside coqc).",
    "note": "Trusted: Coq kernel; the hand-written model is tied to the code by differential execution on every run (not by "
            "translation); Go channel/select semantics for 'the kernel goroutine serves one request at a time' (concurrent-caller "
            "runs are checked for explainability by a serial order as supporting evidence). The repo carries a fix: commit "
            "(invalidated entries dropped by position instead of by value); with the fix reverted the check reports a VIOLATION.",
    "design_ref": "DESIGN.md 4 (C19), design/C19.md",
}

KINDS = {"a": "A", "b": "Bf", "r": "R"}


# ----------------------------------------------------------------------------- generation
def gen_tx(rng, nacc, cap, allow_fatal):
    r = rng.below(100)
    if allow_fatal and r < 6:
        k = 4 if rng.chance(2, 3) else 6 + rng.below(3)
    elif r < 40:
        k = 0
    elif r < 65:
        k = 1
    elif r < 80:
        k = 2
    elif r < 92:
        k = 3
    else:
        k = 5
    a = rng.below(nacc + (1 if rng.chance(1, 12) else 0))
    b = rng.below(nacc + (1 if rng.chance(1, 12) else 0))
    v = rng.below(min(cap, 3) + 1)
    if k == 3:
        v = rng.below(cap + 1)
    if k not in (2,):
        b = 0
    if k == 5:
        a, v = 0, rng.below(2)
    return [k, a, b, v]


def gen_state(rng, nacc, cap):
    return [rng.below(cap + 1) for _ in range(nacc)]


def gen_case(rng, cid, nops_max, allow_fatal, conc=False):
    mode = 0 if rng.chance(6, 10) else (1 if rng.chance(5, 8) else 2)
    cap = rng.choice([2, 3, 5, 9])
    nacc = 1 + rng.below(3)
    base = gen_state(rng, nacc, cap)
    pool = [gen_tx(rng, nacc, cap, allow_fatal) for _ in range(2 + rng.below(4))]

    def tx():
        return list(rng.choice(pool)) if rng.chance(4, 5) else gen_tx(rng, nacc, cap, allow_fatal)

    def op(cur_base):
        r = rng.below(100)
        if r < 58:
            return {"k": "a", "t": tx()}
        if r < 68:
            return {"k": "b", "dst": [tx() for _ in range(rng.below(3))] if rng.chance(1, 3) else []}
        # rebase: new base near the old one (same shape mostly), applied drawn from the pool
        if rng.chance(1, 8):
            nb = gen_state(rng, 1 + rng.below(3), cap)
        else:
            nb = [max(0, min(cap, x + rng.below(5) - 2)) for x in cur_base[0]]
        cur_base[0] = nb
        ap = [tx() for _ in range(rng.below(3))] if rng.chance(1, 2) else []
        return {"k": "r", "base": nb, "applied": ap}

    cb = [base]
    n = 3 + rng.below(nops_max - 2)
    ops = [op(cb) for _ in range(n)]
    c = {"id": cid, "mode": mode, "cap": cap, "base": base, "ops": ops}
    if conc:
        nth = 2 + rng.below(2)
        c["ops"] = ops[:rng.below(4)]
        c["threads"] = [[op(cb) for _ in range(1 + rng.below(3))] for _ in range(nth)]
        if rng.chance(1, 2):
            # a pending list of some length, then readers racing with a rebase whose compaction is slow (the deleter's
            # predicate takes 300 us per transaction): a Buffered answer must still be the pending list before or after
            c["mode"] = rng.below(2)
            c["slow"] = 1000
            c["ops"] = [{"k": "a", "t": tx()} for _ in range(6 + rng.below(4))]
            reb = [o for o in (op(cb) for _ in range(12)) if o["k"] == "r"][:1] or [{"k": "r", "base": base, "applied": [tx()]}]
            # the rebase reports one of the first transactions added as applied: if it is pending it sits at the head of
            # the list, and the compaction that removes it moves every later entry
            reb[0]["applied"] = [list(c["ops"][rng.below(2)]["t"])]
            # thread 0: an AddTx inside whose validation the harness holds the kernel until the others have queued
            c["threads"] = [[{"k": "a", "t": tx()}], [{"k": "b", "dst": []}], reb, [{"k": "b", "dst": []}], [{"k": "b", "dst": []}]]
    return c


CORPUS = [
    # the value-duplicate family (DESIGN 8 #9): base 2, dec, dec, rebase to 1, then probe
    {"mode": 0, "cap": 9, "base": [2], "ops": [
        {"k": "a", "t": [0, 0, 0, 1]}, {"k": "a", "t": [0, 0, 0, 1]}, {"k": "r", "base": [1], "applied": []},
        {"k": "b", "dst": []}, {"k": "a", "t": [0, 0, 0, 1]}]},
    # invalid first, the same value valid later: dec, inc, dec on base 1 -> rebase to 0
    {"mode": 0, "cap": 9, "base": [1], "ops": [
        {"k": "a", "t": [0, 0, 0, 1]}, {"k": "a", "t": [1, 0, 0, 1]}, {"k": "a", "t": [0, 0, 0, 1]},
        {"k": "r", "base": [0], "applied": []}, {"k": "b", "dst": []}, {"k": "a", "t": [0, 0, 0, 1]}]},
    # applied removes every equal value; nonce chain broken by the rebase
    {"mode": 0, "cap": 9, "base": [0, 5], "ops": [
        {"k": "a", "t": [3, 0, 0, 0]}, {"k": "a", "t": [3, 0, 0, 1]}, {"k": "a", "t": [2, 1, 0, 2]}, {"k": "a", "t": [3, 0, 0, 4]},
        {"k": "r", "base": [1, 5], "applied": [[3, 0, 0, 0]]}, {"k": "b", "dst": [[5, 0, 0, 0]]},
        {"k": "r", "base": [0, 5], "applied": []}, {"k": "a", "t": [3, 0, 0, 0]}]},
    # fatal error in the middle of a rebase (documented as fatal to the buffer), then more requests
    {"mode": 0, "cap": 9, "base": [3], "ops": [
        {"k": "a", "t": [0, 0, 0, 1]}, {"k": "a", "t": [4, 0, 0, 0]}, {"k": "a", "t": [0, 0, 0, 5]}, {"k": "a", "t": [0, 0, 0, 1]},
        {"k": "r", "base": [1], "applied": []}, {"k": "b", "dst": []}, {"k": "a", "t": [0, 0, 0, 1]}]},
    # empty pending list: early return; applied non-empty but nothing pending
    {"mode": 1, "cap": 3, "base": [1, 1], "ops": [
        {"k": "r", "base": [2], "applied": [[0, 0, 0, 1]]}, {"k": "a", "t": [0, 1, 0, 1]}, {"k": "a", "t": [0, 0, 0, 1]},
        {"k": "r", "base": [2, 2], "applied": [[0, 0, 0, 3]]}, {"k": "b", "dst": []}]},
]


# ----------------------------------------------------------------------------- Coq emission
def ctx(t):
    if all(0 <= x < 10 for x in t):
        return "Xd %d" % (t[0] * 1000 + t[1] * 100 + t[2] * 10 + t[3])
    return "X %d %d %d %d" % tuple(t)


def ctxs(l):
    l = l or []
    if not l:
        return "[]"
    if all(0 <= x < 10 for t in l for x in t):
        return "(Ld [" + ";".join(str(t[0] * 1000 + t[1] * 100 + t[2] * 10 + t[3]) for t in l) + "])"
    return "[" + ";".join(ctx(t) for t in l) + "]"


def cst(s):
    s = s or []
    if s and len(s) < 40 and all(0 <= x < 10 for x in s):
        return "(Sd 1" + "".join(str(x) for x in s) + ")"
    return "[" + ";".join(str(x) for x in s) + "]"


def cop(o):
    if o["k"] == "a":
        return "A (%s)" % ctx(o["t"])
    if o["k"] == "b":
        return "Bf %s" % ctxs(o.get("dst"))
    return "R %s %s" % (cst(o["base"]), ctxs(o.get("applied")))


def cout(o, s):
    e = s["e"]
    if o["k"] == "a":
        return "oA %d %d" % (e[0], e[1])
    if o["k"] == "b":
        return "oB %s" % ctxs(s["l"])
    return "oR %d %d %s" % (e[0], e[1], ctxs(s["l"]))


def csnap(s):
    sn = s["s"]
    return "%s %s %s %s" % (cst(sn["b"]), "true" if sn["u"] else "false", cst(sn["c"]), ctxs(sn["t"]))


def ccase(c, d, a):
    ops = c["ops"]
    dsteps = d.get("steps") or []
    asteps = a.get("steps") or []
    same = len(dsteps) == len(asteps) and all(
        x["e"] == y["e"] and x["l"] == y["l"] and x["s"]["t"] == (y.get("p") or []) for x, y in zip(dsteps, asteps))
    if same:
        aobs = "None"
    else:
        aobs = "(Some [%s])" % ";".join("P (%s) %s" % (cout(o, s), ctxs(s.get("p"))) for o, s in zip(ops, asteps))
    return "C %d %d %d %s\n [%s]\n [%s]\n %s" % (
        c["id"], c["mode"], c["cap"], cst(c["base"]),
        ";".join(cop(o) for o in ops),
        ";".join("D (%s) %s" % (cout(o, s), csnap(s)) for o, s in zip(ops, dsteps)),
        aobs)


def cconc(c, r):
    ths = []
    for ops, steps in zip(c["threads"], r.get("threads") or []):
        ths.append("[" + ";".join("OX (%s) (%s)" % (cop(o), cout(o, s)) for o, s in zip(ops, steps)) + "]")
    return "CC %d %d %d %s [%s]\n [%s]\n %s" % (
        c["id"], c["mode"], c["cap"], cst(c["base"]), ";".join(cop(o) for o in c["ops"]),
        ";".join(ths), ctxs(r.get("final")))


HEADER = """From Coq Require Import List NArith Bool.
From GV Require Import Model.TxBuf Model.TxBufSpec Model.TxBufInst Monitors.C19m Monitors.C19eval.
Import ListNotations. Local Open Scope N_scope.
"""


def grab(out, name):
    m = re.search(r"\b" + name + r"\s*=\s*\[(.*?)\]", out, flags=re.S)
    return [int(x) for x in re.findall(r"\d+", m.group(1))] if m else None


class Runner:
    """Runs a batch of cases through the real code and through the model/monitors inside coqc."""

    def __init__(self, c, binary):
        self.c = c
        self.binary = binary
        self.n_eval = 0

    def harness(self, cases, conc):
        rc, out, err = self.c.run_bin(self.binary, stdin=json.dumps({"cases": cases, "conc": conc}), timeout=600)
        if rc != 0:
            return None, "harness exit %d: %s" % (rc, err[-800:])
        try:
            return json.loads(out), ""
        except Exception as e:  # noqa
            return None, "harness output unparsable: %s" % e

    NAMES = ["corr_direct", "corr_api", "mon_direct", "mon_api", "mon_model"]

    def evaluate(self, cases, res, tag, shard=120):
        """Returns dict name -> list of bad case ids, or None on coqc failure (log in self.log).
        Shards are evaluated by parallel coqc processes; one vm_compute per shard."""
        from concurrent.futures import ThreadPoolExecutor
        bad = {n: [] for n in self.NAMES}
        dmap = {d["id"]: d for d in res["direct"] or []}
        amap = {a["id"]: a for a in res["api"] or []}

        def one(si):
            sh = cases[si:si + shard]
            body = HEADER + "Definition cases : list icase := [\n%s].\n" % ";\n".join(
                ccase(c, dmap.get(c["id"], {}), amap.get(c["id"], {})) for c in sh)
            body += "Definition r_all := Eval vm_compute in (%s).\nPrint r_all.\n" % ", ".join(
                "bad_ids %s cases" % n for n in self.NAMES)
            return self.c.coq_eval("c19_%s_%d" % (tag, si // shard), body)

        with ThreadPoolExecutor(max_workers=8) as ex:
            results = list(ex.map(one, range(0, len(cases), shard)))
        self.n_eval += len(cases)
        for ok, out in results:
            if not ok:
                self.log = out[-1500:]
                return None
            m = re.search(r"r_all\s*=\s*\((.*?)\)\s*:", out, flags=re.S)
            groups = re.findall(r"\[([^\]]*)\]", m.group(1)) if m else []
            if len(groups) != len(self.NAMES):
                self.log = "cannot parse r_all in coqc output: %s" % out[-500:]
                return None
            for n, g in zip(self.NAMES, groups):
                bad[n] += [int(x) for x in re.findall(r"\d+", g)]
        return bad

    def evaluate_conc(self, conc, res, tag):
        rmap = {r["id"]: r for r in res["conc"] or []}
        body = HEADER + "Definition ccases : list ccase := [\n%s].\n" % ";\n".join(cconc(c, rmap.get(c["id"], {})) for c in conc)
        body += "Definition r_conc := Eval vm_compute in bad_cids ccases.\nPrint r_conc.\n"
        ok, out = self.c.coq_eval("c19_%s_conc" % tag, body)
        if not ok:
            self.log = out[-1500:]
            return None
        return grab(out, "r_conc")


def shrink(runner, case, pred_names, rounds=4):
    """Greedy shrinking: prefixes and single-request deletions, one harness + one coqc run per round."""
    cur = case
    for rnd in range(rounds):
        cands = []
        ops = cur["ops"]
        for n in range(1, len(ops)):
            cands.append(ops[:n])
        for i in range(len(ops)):
            cands.append(ops[:i] + ops[i + 1:])
        cands = [o for o in cands if o]
        if not cands:
            break
        batch = [dict(cur, id=i, ops=o) for i, o in enumerate(cands)]
        res, _ = runner.harness(batch, [])
        if res is None:
            break
        bad = runner.evaluate(batch, res, "shrink")
        if bad is None:
            break
        failing = set()
        for n in pred_names:
            failing |= set(bad[n])
        if not failing:
            break
        best = min(failing, key=lambda i: len(batch[i]["ops"]))
        cur = dict(cur, ops=batch[best]["ops"])
    return cur


def sig(case):
    return "".join(o["k"] for o in case["ops"])


def main(argv):
    c = vcheck.Check("C19", argv)
    c.trusted += [
        "hand-written model coq/Model/TxBuf.v of gdriver/gtxbuf/{workingstate,txbuffer,errors}.go, tied to the code on every run by "
        "differential execution: real workingState (verif hook, raw fields after each request) and real Buffer API vs the model "
        "evaluated with vm_compute inside coqc",
        "fixture semantics (apply/deleter) implemented twice: harness/c19/main.go and coq/Model/TxBufInst.v",
        "Go channel/select semantics: the kernel goroutine takes one request at a time (concurrent-caller serializability run is "
        "supporting evidence only)",
    ]
    c.assumes += [
        "the user's addTxFunc is a pure function of (state, tx) and returns a fresh state (documented requirement of gtxbuf.New)",
        "a non-TxInvalidError error during Rebase is fatal to the buffer (errors.go); theorems hold up to and including that response",
    ]
    c.grep_gate()
    quick = c.tier == "quick"
    n_cases = 900 if quick else 12000
    n_conc = 60 if quick else 600

    cases = []
    for i, cc in enumerate(CORPUS):
        cases.append(dict(cc, id=i))
    if c.replay:
        rp = json.load(open(c.replay))
        rc_cases = rp.get("cases") or []
        cases = [dict(cc, id=i) for i, cc in enumerate(rc_cases)] or cases
        n_cases, n_conc = len(cases), 0
    while len(cases) < n_cases:
        cid = len(cases)
        # 1 in 6 cases may contain fatal transactions (trap / unknown kind): the malformed stream
        cases.append(gen_case(c.rng, cid, 14, allow_fatal=(cid % 6 == 5)))
    conc = [gen_case(c.rng, 100000 + i, 6, allow_fatal=False, conc=True) for i in range(n_conc)]

    # 1./2. theorems (no generated part for C19: the tie is the correspondence below)
    proved = c.prove("C19")

    # 3. real code
    binary, blog = c.go_build("c19")
    if binary is None:
        c.fail_obligation("harness-build", blog[-1500:])
        c.finish()
    runner = Runner(c, binary)
    res, herr = runner.harness(cases, conc)
    if res is None:
        # the harness process died (a panic in the kernel goroutine cannot be recovered): bisect for the case
        pool, is_conc = (cases, False)
        r0, _ = runner.harness(cases, [])
        if r0 is not None:
            pool, is_conc = (conc, True)
        while len(pool) > 1:
            half = pool[:len(pool) // 2]
            rh, _ = runner.harness([] if is_conc else half, half if is_conc else [])
            pool = half if rh is None else pool[len(pool) // 2:]
        rh, herr1 = runner.harness([] if is_conc else pool, pool if is_conc else [])
        if pool and rh is None:
            c.report("crash:" + sig(pool[0]), "the real gtxbuf code crashed the process on this case: " + " ".join(herr1[-300:].split()),
                     {("conc" if is_conc else "cases"): pool, "stderr": herr1[-1500:]})
        else:
            c.fail_obligation("harness-run", herr)
        c.finish()
    for grp in ("direct", "api", "conc"):
        for r in res[grp] or []:
            if r.get("panic"):
                cs = [x for x in cases + conc if x["id"] == r["id"]][0]
                c.report("panic:" + sig(cs), "real gtxbuf code panicked (%s driver): %s" % (grp, r["panic"]),
                         {"cases": [cs], "observed": r})
    aliased = [(grp, r) for grp in ("direct", "api") for r in res[grp] or [] if r.get("alias")]
    if aliased:
        grp, r = aliased[0]
        cs = [x for x in cases if x["id"] == r["id"]][0]
        c.report("returned-list-aliases-pending", "a list returned by the real gtxbuf code (%s driver) did not stay the caller's own value (%s: step:changed "
                 "= it changed under a later request, step:leaked = overwriting it changed the pending list): the pending list escaped the "
                 "serializing goroutine, so it need not apply cleanly any more" % (grp, r["alias"]), {"cases": [cs], "observed": r, "aliased_cases": len(aliased)})
    c.coverage["returned_lists_checked_for_aliasing"] = sum(len(r.get("steps", [])) for grp in ("direct", "api") for r in res[grp] or [])

    # 4. model + monitors on the same cases inside coqc
    bad = runner.evaluate(cases, res, "cases")
    if bad is None:
        c.fail_obligation("cases-eval", runner.log)
        c.finish()
    conc_bad = runner.evaluate_conc(conc, res, "cases") if conc else []
    if conc_bad is None:
        c.fail_obligation("conc-eval", runner.log)
        conc_bad = []

    # 5. verdict
    by_id = {x["id"]: x for x in cases}
    mon_bad = sorted(set(bad["mon_direct"]) | set(bad["mon_api"]))
    corr_bad = sorted(set(bad["corr_direct"]) | set(bad["corr_api"]))
    reported = set()
    # prefer the documented by-value deleter (mode 0) as the replay, then the shortest case
    for n_rep, cid in enumerate(sorted(mon_bad, key=lambda i: (by_id[i]["mode"] != 0, len(by_id[i]["ops"])))[:2]):
        small = shrink(runner, by_id[cid], ["mon_direct", "mon_api"], rounds=4 if n_rep == 0 else 1)
        key = "pending-not-replayable:" + sig(small)
        if key in reported:
            continue
        reported.add(key)
        r1, _ = runner.harness([dict(small, id=0)], [])
        c.report(key,
                 "results of the real gtxbuf code cannot be replayed against the apply function: after these requests the pending "
                 "list / working state / returned invalidated set is not what in-order application gives",
                 {"cases": [dict(small, id=0)], "observed": r1, "original_case": by_id[cid],
                  "how": "./check C19 --replay <this file>   (or: echo '{\"cases\":[...],\"conc\":[]}' | bin/h_c19)"})
    if corr_bad and not mon_bad:
        cid = min(corr_bad, key=lambda i: len(by_id[i]["ops"]))
        small = shrink(runner, by_id[cid], ["corr_direct", "corr_api"])
        r1, _ = runner.harness([dict(small, id=0)], [])
        c.fail_obligation("correspondence Model/TxBuf.v vs gdriver/gtxbuf",
                          "model and real code disagree on %d cases (monitors hold on the implementation's observations)" % len(corr_bad),
                          {"cases": [dict(small, id=0)], "observed": r1})
    if bad["mon_model"]:
        c.fail_obligation("model-satisfies-monitor (evaluated)", "model trace violates its own monitor on cases %s" % bad["mon_model"][:5],
                          {"cases": [by_id[i] for i in bad["mon_model"][:2]]})
    # the kernel runs the same workingState code: concurrent failures are reported only when the
    # sequential monitors found nothing (otherwise they are the same defect seen again)
    for cid in ([] if mon_bad else (conc_bad or []))[:1]:
        cs = [x for x in conc if x["id"] == cid][0]
        ob = [r for r in res["conc"] if r["id"] == cid][0]
        c.report("concurrent-not-serializable:" + sig(cs) + "|" + "|".join("".join(o["k"] for o in th) for th in cs["threads"]),
                 "results of concurrent AddTx/Buffered/Rebase callers are not explained by any serial order",
                 {"conc": [cs], "observed": ob})
    if not proved and not c.violations:
        b = getattr(c, "broken", {"file": "?", "log": ""})
        c.fail_obligation("Properties/C19.v (%s)" % b["file"], b["log"], {"searched_cases": len(cases)})

    # evidence
    dmap = {d["id"]: d for d in res["direct"] or []}
    n_ops = {"a": 0, "b": 0, "r": 0}
    outcomes = {"add_ok": 0, "add_invalid": 0, "add_fatal": 0, "rebase_ok": 0, "rebase_fatal": 0,
                "rebase_with_invalidated": 0, "rebase_with_applied_removed": 0, "rebase_dup_in_pending": 0,
                "rebase_invalidated_value_also_kept": 0}
    nontriv = set()
    for cs in cases:
        d = dmap.get(cs["id"], {})
        prev_txs = []
        interesting = False
        for o, s in zip(cs["ops"], d.get("steps") or []):
            n_ops[o["k"]] += 1
            e = s["e"][0]
            if o["k"] == "a":
                outcomes["add_ok" if e == 0 else "add_invalid" if e == 1 else "add_fatal"] += 1
            elif o["k"] == "r":
                outcomes["rebase_ok" if e == 0 else "rebase_fatal"] += 1
                if s["l"]:
                    outcomes["rebase_with_invalidated"] += 1
                    interesting = True
                    if any(t in s["s"]["t"] for t in s["l"]):
                        outcomes["rebase_invalidated_value_also_kept"] += 1
                if len(set(map(tuple, prev_txs))) < len(prev_txs):
                    outcomes["rebase_dup_in_pending"] += 1
                if len(s["s"]["t"]) + len(s["l"]) < len(prev_txs):
                    outcomes["rebase_with_applied_removed"] += 1
            prev_txs = s["s"]["t"]
        if interesting:
            nontriv.add(json.dumps([cs["mode"], cs["cap"], cs["base"], cs["ops"]]))
    c.samples = [{"case": cases[i], "direct": dmap.get(cases[i]["id"])} for i in (0, len(cases) // 2)] + [
        {"theorems": "see coq/Properties/C19.v"}]
    c.coverage.update({
        "evaluations": len(cases) * 2 + len(conc),
        "distinct_nontrivial": len(nontriv),
        "rule": "corpus (%d) + structured random request sequences (3-14 requests; pool of 2-5 transaction values drawn with "
                "repetition so duplicates are common; 5 transaction kinds with order-dependent validity over 1-3 bounded accounts; "
                "rebases to nearby bases with applied lists drawn from the pool; 3 deleter modes) + a malformed stream (1 in 6 cases "
                "with fatal/unknown transactions, out-of-range accounts). non-trivial = distinct case with at least one rebase that "
                "invalidated something. Every case is run on the real workingState (hook) and on the real Buffer API; both traces are "
                "compared with the model and judged by the monitors inside coqc." % len(CORPUS),
        "traces_validated_against_impl": len(cases) * 2 + len(conc),
        "requests": n_ops,
        "outcomes": outcomes,
        "concurrent_cases": len(conc),
        "concurrent_not_serializable": len(conc_bad or []),
        "correspondence_disagreements": len(corr_bad),
        "monitor_failures_on_impl": len(mon_bad),
        "coq_case_evaluations": runner.n_eval,
    })
    c.finish()
