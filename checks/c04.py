"""C04 - A node's committed chain is immutable, gap-free and hash-linked (DESIGN 4, mirror kernel)."""
import vcheck
import mirrorlib

META = {
    "engine": "coq+correspondence",
    "technique": "Coq invariant proof (chain / position invariant preserved by every operation of the mirror-kernel model, "
                 "for all histories) + differential correspondence with the real mirror + Coq trace monitor on its observations",
    "level": "P/partial. Proved for all histories of the sequential model: committed-header store entries are never changed or "
             "removed, heights are contiguous from the initial height with prev-hash links (hchain), voting height = committing "
             "height + 1, stored position = view positions, heights never decrease and rounds only move by increments. Partial: "
             "restarts are covered by C10, concurrent delivery is outside the model; heights are assumed below 2^64-1.",
    "note": "Trusted: Coq kernel; correspondence harness; translator for FindView. No axioms.",
    "design_ref": "DESIGN.md 4 (C01/C04/C05/C07)",
}


def main(argv):
    c = vcheck.Check("C04", argv)
    # with stops after the k-th store write and restarts in between: the chain read back from the stores after a restart
    # is judged like any other observation (immutability and contiguity hold across restarts, not only within one run)
    mirrorlib.mirror_check(c, "C04", ["c04"], "C04 committed chain", extra=["-crashes"], templates=[9])
    c.finish()
