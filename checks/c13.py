"""C13 - Signature proofs merge as verified set union and round-trip (DESIGN 4, C13)."""
import json
import os
import re
import vcheck
import c13_cpf

META = {
    "engine": "coq+correspondence",
    "technique": "Coq proofs over an executable Gallina model of gcrypto/simplecommonmessagesignatureproof.go (key-id guards "
                 "regenerated from the source by the translator), of the BLS combination index and of the sigtree aggregation "
                 "tree; differential correspondence of the real Go code (real ed25519 / blst) against the model evaluated with "
                 "vm_compute in coqc, plus a Coq monitor of the set-union specification evaluated on the implementation's observations; "
                 "for BLS finalized proofs an executable model of Finalize / ValidateFinalizedProof (Model/BlsFinal.v, reusing the combination "
                 "index model), theorems over all key-set sizes and partitions, the real Finalize + ValidateFinalizedProof driven from real "
                 "partitions (harness/c13fin) against the model and an independent round-trip monitor (Monitors/C13BlsFinm.v); an executable model of tsi.CommitProofFinalizer + the receiver's "
                 "previous-commit-proof validation (Model/CommitFinalizer.v) with composition theorems, tied by driving the real finalizer "
                 "(verif hook) and the real ValidateFinalizedProof on generated commit proofs (harness/c13cpf, monitor Monitors/C13Cpfm.v)",
    "level": "Full for the simple scheme: MergeSparse = verified set union with exact flags and no panic (merge_sparse_spec, "
             "union, monotone, idempotent, order irrelevant), no bit without a valid signature as an invariant over all operation "
             "sequences (AddSignature, Merge, MergeSparse, Clone, Derive), sparse round-trip, ValidateFinalizedProof total for a "
             "non-empty trusted key list; generated key-id guards proved equal to their spec. Full for the BLS combination index "
             "(decode_encode, encode_lt_binom, decode_total_iff, decode_sound). Full for the simple scheme's finalized proofs (Proofs/SimpleFinalize.v): for ANY number of rest proofs, any "
             "key-set size up to 65536 and any signer sets, ValidateFinalizedProof(Finalize(main, rest)) returns exactly the per-block signer "
             "sets, with allSignaturesUnique = pairwise disjointness of those sets (double signers reported: "
             "C13_simple_finalize_validate_roundtrip, _reports_double_signers). Full for the commit-proof hand-over (Properties/C13Cpf.v, "
             "Model/CommitFinalizer.v): tsi.CommitProofFinalizer.Finalize never panics on a non-empty key list for any input and any Go map order "
             "(the nil-map assignment is unreachable), and composed with HandleProposedHeader's reconstruction + ValidateFinalizedProof it hands "
             "the receiver exactly the signer set of every block whenever the precommit proofs are well formed (C13_cpf_then_receive, also "
             "instantiated with the real sign bytes through C15's injectivity theorem; C13_cpf_model_satisfies_monitor: the model's observation is accepted "
             "by the monitor Monitors/C13Cpfm.cpf_mon on EVERY input); the receiver-side reconstruction is re-implemented in "
             "harness/c13cpf (inline code of HandleProposedHeader; the mirror harness exercises the original). Partial: the flags "
             "of full Merge are decided by the Coq monitor on the implementation and by correspondence, not by a general theorem; "
             "Full for the BLS aggregation tree (Model/BlsTree.v, all key-set sizes 1..65535): tree layout of New, invariant over all "
             "operation sequences (every bit < n and backed by a stored genuine aggregate; SigBits = real leaves covered by set nodes), "
             "Tree.AddSignature cascade = union with the node's real leaves, MergeSparse total for any input with exact flags and "
             "verified set union (monotone, idempotent, order irrelevant), AddSignature, no panic for any reachable state and input, "
             "clone/derive frame, node ids fit 2 bytes iff n <= 32768 (sparse round trip refuted for 32769 keys, replayed on the real "
             "code: known finding). Also full for the tree: Merge of two proofs over the same keys = exact union with exact flags "
             "(C13Bls_merge_spec), SparseIndices = the maximal set nodes, each once, a disjoint cover of the bit set "
             "(C13Bls_sparse_indices_maximal/_cover), positive sparse round trip for n <= 32768 with the same ids afterwards "
             "(C13Bls_sparse_roundtrip/_ids); reachable proofs are closed and their sparse form is canonical (a function of the bit set). "
             "model_satisfies_monitor is a theorem for all operation sequences over key sets of at most 32768 keys "
             "(C13Bls_model_satisfies_monitor; the guard is shown necessary). "
             "Full for BLS finalized proofs (Properties/C13BlsFinal.v): for every n <= 65535, every non-empty main signer set and every list "
             "of rest blocks of any sizes and order with distinct sign contents, pairwise disjoint blocks round-trip through Finalize + "
             "ValidateFinalizedProof to exactly their signer sets with allSignaturesUnique = true (list and bit-mask form); Finalize is "
             "independent of the order of the rest proofs, ValidateFinalizedProof of the Rest map order; ValidateFinalizedProof never panics "
             "on any finalized input when every sign content has a hash. REFUTED for double signers: whenever two blocks share a signer "
             "Finalize panics (proved for all n/partitions; witness replayed on the real code: known finding "
             "bls-finalize-double-signer-panic). Guards stated: main block non-empty. Not proved: Tree.FinalizedSig = aggregate of SigBits "
             "(checked by the harness against the blst sum on every case).",
    "note": "Trusted: Coq kernel, translator (cross-checked by the correspondence run), ideal-signature convention (DESIGN 3), "
            "bits-and-blooms/bitset, math/big.Binomial, blst, Go harnesses and generators. Clone independence is an aliasing "
            "property decided by the correspondence run and the monitor only. Two defects fixed in the repo worktree (simple "
            "MergeSparse key-id length, BLS finalized key-id range) and a third for the BLS tree (nil point dereference on undecodable "
            "signature bytes, repo 5d01a2e); reverting any makes the check exit 1 with a replay. BLS ideal aggregate signatures: "
            "aggregate unforgeability, no rogue keys, distinct keys. Fourth repo fix 11bfd7d: Finalize skipped nothing for a rest proof "
            "without signatures and produced an unverifiable finalized proof (k = 0 key id); reverting it makes the check exit 1.",
    "design_ref": "DESIGN.md 4 (C13)",
}

OPNAMES = ["new", "add", "merge", "msparse", "mfrom", "has", "sparse", "clone", "derive", "bits", "finval", "validate", "isvalid"]


# ----------------------------------------------------------------------------- Coq printing
def cl(xs):
    return "[" + ";".join(str(x) for x in xs) + "]"


def coq_sig(case, idx):
    s = case["sigs"][idx]
    if s[0] == 1:
        return "(Good %d %s %d)" % (s[1], cl(case["msgs"][s[2]]), s[3])
    return "(Junk %d)" % s[1]


def coq_ents(case, ents):
    return "[" + ";".join("(%s,%s)" % (cl(e["id"]), coq_sig(case, e["sig"])) for e in ents) + "]"


def coq_hashes(hs):
    return "[" + ";".join("(%s,%s)" % (cl(h["msg"]), cl(h["hash"])) for h in hs) + "]"


def coq_op(case, o):
    k = o["op"]
    if k == "new":
        return "ONew %d %s %s %s" % (o["r"], cl(o["msg"]), cl(o["keys"]), cl(o["hash"]))
    if k == "add":
        return "OAdd %d %s %d" % (o["r"], coq_sig(case, o["sig"]), o["key"])
    if k == "merge":
        return "OMerge %d %d" % (o["r"], o["o"])
    if k == "msparse":
        return "OMergeSparse %d %s %s" % (o["r"], cl(o["hash"]), coq_ents(case, o["ents"]))
    if k == "mfrom":
        return "OMergeFrom %d %d" % (o["r"], o["o"])
    if k == "has":
        return "OHas %d %s" % (o["r"], cl(o["id"]))
    if k == "sparse":
        return "OSparse %d" % o["r"]
    if k == "clone":
        return "OClone %d %d" % (o["r"], o["to"])
    if k == "derive":
        return "ODerive %d %d" % (o["r"], o["to"])
    if k == "bits":
        return "OBits %d" % o["r"]
    if k == "finval":
        return "OFinVal %d %s %s" % (o["r"], "[" + ";".join("%d%%nat" % x for x in o["rest"]) + "]", coq_hashes(o["hashes"]))
    if k == "validate":
        f = o["f"]
        rest = "[" + ";".join("(%s,%s)" % (cl(r["msg"]), coq_ents(case, r["sigs"])) for r in f["rest"]) + "]"
        return "OValidate (mk_fin %s %s %s %s %s) %s" % (cl(f["keys"]), cl(f["hash"]), cl(f["mainmsg"]),
                                                       coq_ents(case, f["mainsigs"]), rest, coq_hashes(o["hashes"]))
    if k == "isvalid":
        return "OIsValid %d %s" % (o["nkeys"], cl(o["id"]))
    raise ValueError(k)


def coq_case(case, obs):
    tbl = "[" + ";".join(coq_sig(case, i) for i in range(len(case["sigs"]))) + "]"
    ops = "[" + ";\n   ".join(coq_op(case, o) for o in case["ops"]) + "]"
    ob = "[" + ";".join(cl(x) for x in obs) + "]"
    return "(%s,\n  (%s,\n  %s))" % (tbl, ops, ob)


# ----------------------------------------------------------------------------- generator
class Gen:
    def __init__(self, rng):
        self.rng = rng

    def rbytes(self, lo, hi):
        return [self.rng.below(256) for _ in range(lo + self.rng.below(hi - lo + 1))]

    def be16(self, n):
        return [(n >> 8) & 255, n & 255]

    def sig(self, case, spec):
        key = tuple(spec)
        if key not in case["_sigidx"]:
            case["_sigidx"][key] = len(case["sigs"])
            case["sigs"].append(list(spec))
        return case["_sigidx"][key]

    def entry(self, case, reg, corrupt):
        """one sparse entry aimed at register `reg` = dict(msg=idx, keys=[...], hash=...)."""
        rng = self.rng
        K = reg["keys"]
        n = rng.below(len(K))
        m = reg["msg"]
        kind = "valid"
        if corrupt and rng.chance(1, 2):
            kind = rng.choice(["wrongsigner", "wrongmsg", "junk", "junk", "oor", "oor", "id1", "id0", "id3", "outsider"])
        case["_kinds"][kind] = case["_kinds"].get(kind, 0) + 1
        idb = self.be16(n)
        s = self.sig(case, (1, K[n], m, 0))
        if kind == "wrongsigner":
            s = self.sig(case, (1, K[(n + 1 + rng.below(max(1, len(K) - 1))) % len(K)] if len(K) > 1 else case["_outsider"], m, 0))
        elif kind == "wrongmsg":
            s = self.sig(case, (1, K[n], (m + 1) % len(case["msgs"]), 0))
        elif kind == "junk":
            s = self.sig(case, (2, rng.below(4000), 0, 0))
        elif kind == "oor":
            idb = self.be16(rng.choice([len(K), len(K) + 1, len(K) + rng.below(300), 65535, 256 + n]))
        elif kind == "id1":
            idb = [n & 255]
        elif kind == "id0":
            idb = []
        elif kind == "id3":
            idb = self.be16(n) + [rng.below(256)]
        elif kind == "outsider":
            s = self.sig(case, (1, case["_outsider"], m, 0))
        return {"id": idb, "sig": s}

    def case(self, focus=None):
        rng = self.rng
        r = rng.below(100)
        if r < 35:
            nk = 1 + rng.below(5)
        elif r < 75:
            nk = 3 + rng.below(14)
        else:
            nk = 17 + rng.below(24)
        base = rng.below(50)
        keys = [base + i for i in range(nk)]
        # a random order of key identities
        for i in range(nk - 1, 0, -1):
            j = rng.below(i + 1)
            keys[i], keys[j] = keys[j], keys[i]
        dup = False
        if nk >= 2 and rng.chance(1, 20):
            keys[rng.below(nk)] = keys[rng.below(nk)]
            dup = len(set(keys)) != len(keys)
        msgs = []
        while len(msgs) < 4:
            b = self.rbytes(1, 5)
            if b not in msgs:
                msgs.append(b)
        kh = self.rbytes(0, 4)
        kh2 = kh + [7]
        case = {"sigs": [], "msgs": msgs, "ops": [], "_sigidx": {}, "_kinds": {}, "_outsider": base + nk + 1, "_nk": nk, "_dup": dup}
        regs = {}

        def new(ri, m, ks, h):
            case["ops"].append({"op": "new", "r": ri, "msg": msgs[m], "keys": ks, "hash": h})
            if ks:
                regs[ri] = {"msg": m, "keys": ks, "hash": h}

        new(0, 0, keys, kh)
        new(1, 0, keys, kh)
        new(2, 1, keys, kh)
        new(3, 2, keys, kh)
        if rng.chance(1, 6):
            # a register over a different key list under the same hash, or a different hash
            if rng.chance(1, 2):
                new(4, 0, keys[: max(1, nk - 1)], kh)
            else:
                new(4, 0, keys, kh2)
        if rng.chance(1, 25):
            case["ops"].append({"op": "new", "r": 9, "msg": msgs[0], "keys": [], "hash": kh})
        nops = 8 + rng.below(14)
        corrupt_case = rng.chance(1, 2)
        for _ in range(nops):
            ri = rng.choice(sorted(regs))
            reg = regs[ri]
            K = reg["keys"]
            w = rng.below(100)
            if w < 14:
                kind = rng.below(10) if corrupt_case else 0
                k = K[rng.below(len(K))]
                if kind <= 5:
                    s = self.sig(case, (1, k, reg["msg"], 0))
                elif kind == 6:
                    s = self.sig(case, (1, k, (reg["msg"] + 1) % 4, 0))
                elif kind == 7:
                    s = self.sig(case, (2, rng.below(4000), 0, 0))
                elif kind == 8:
                    k = case["_outsider"]
                    s = self.sig(case, (1, k, reg["msg"], 0))
                else:
                    s = self.sig(case, (1, K[(K.index(k) + 1) % len(K)], reg["msg"], 0))
                case["ops"].append({"op": "add", "r": ri, "sig": s, "key": k})
            elif w < 40:
                ne = rng.choice([0, 1, 1, 2, 3, 4, 6, min(len(K), 12)])
                ents = [self.entry(case, reg, corrupt_case) for _ in range(ne)]
                h = reg["hash"] if not (corrupt_case and rng.chance(1, 12)) else kh2 if reg["hash"] != kh2 else kh
                case["ops"].append({"op": "msparse", "r": ri, "hash": h, "ents": ents})
                if rng.chance(1, 4):  # repetition: idempotence
                    case["ops"].append({"op": "msparse", "r": ri, "hash": h, "ents": ents})
            elif w < 50:
                case["ops"].append({"op": "merge", "r": ri, "o": rng.choice(sorted(regs))})
            elif w < 58:
                case["ops"].append({"op": "mfrom", "r": ri, "o": rng.choice(sorted(regs))})
            elif w < 66:
                k = rng.below(8)
                n = rng.below(len(K))
                idb = self.be16(n) if k < 4 else self.be16(len(K) + rng.below(3)) if k == 4 else [n & 255] if k == 5 else [] if k == 6 else self.be16(n) + [0]
                case["ops"].append({"op": "has", "r": ri, "id": idb})
            elif w < 74:
                case["ops"].append({"op": "sparse", "r": ri})
            elif w < 82:
                # clone / derive, mutate the copy, then look at the origin again
                to = 5 + rng.below(3)
                case["ops"].append({"op": rng.choice(["clone", "clone", "derive"]), "r": ri, "to": to})
                regs[to] = dict(reg)
                k = K[rng.below(len(K))]
                case["ops"].append({"op": "add", "r": to, "sig": self.sig(case, (1, k, reg["msg"], 0)), "key": k})
                ents = [self.entry(case, reg, False) for _ in range(1 + rng.below(3))]
                case["ops"].append({"op": "msparse", "r": to, "hash": reg["hash"], "ents": ents})
                case["ops"].append({"op": "bits", "r": ri})
                case["ops"].append({"op": "sparse", "r": ri})
            elif w < 86:
                case["ops"].append({"op": "bits", "r": ri})
            elif w < 92:
                self.finval(case, regs, kh)
            elif w < 98:
                self.validate(case, keys, kh, corrupt_case)
            else:
                k = rng.below(6)
                n = rng.below(nk + 2)
                idb = self.be16(n) if k < 3 else [n & 255] if k == 3 else [] if k == 4 else self.be16(n) + [1]
                case["ops"].append({"op": "isvalid", "nkeys": rng.choice([nk, nk, 1, 256, 300]), "id": idb})
        return case

    def hashes_for(self, case, msgs_b, drop=False):
        hs = []
        for i, m in enumerate(msgs_b):
            hs.append({"msg": m, "hash": [200 + i] + self.rbytes(0, 2)})
        if drop and hs and self.rng.chance(1, 3):
            hs.pop(self.rng.below(len(hs)))
        return hs

    def finval(self, case, regs, kh):
        rng = self.rng
        # main: register 0 or 1 (message 0); rest: registers with other messages, same keys and hash
        cand = [r for r in sorted(regs) if regs[r]["keys"] == regs[0]["keys"] and regs[r]["hash"] == regs[0]["hash"]]
        main = rng.choice([r for r in cand if regs[r]["msg"] == 0] or [0])
        rest = []
        seen = {regs[main]["msg"]}
        for r in cand:
            if regs[r]["msg"] not in seen and rng.chance(2, 3):
                rest.append(r)
                seen.add(regs[r]["msg"])
        blocks = [main] + rest
        case["ops"].append({"op": "finval", "r": main, "rest": rest,
                            "hashes": self.hashes_for(case, [case["msgs"][regs[b]["msg"]] for b in blocks])})

    def validate(self, case, keys, kh, corrupt):
        rng = self.rng
        nb = 1 + rng.below(3)
        blocks = []
        pool = list(range(len(keys)))
        double = rng.chance(1, 4)
        for b in range(nb):
            reg = {"msg": b, "keys": keys, "hash": kh}
            ents = []
            for _ in range(rng.below(min(len(keys), 6) + 1)):
                if pool and not double:
                    n = pool.pop(rng.below(len(pool)))
                else:
                    n = rng.below(len(keys))
                ents.append({"id": self.be16(n), "sig": self.sig(case, (1, keys[n], b, 0))})
            if corrupt and rng.chance(1, 4):
                ents.insert(rng.below(len(ents) + 1), self.entry(case, reg, True))
            blocks.append((case["msgs"][b], ents))
        fkeys = keys if not rng.chance(1, 30) else []
        f = {"keys": fkeys, "hash": kh, "mainmsg": blocks[0][0], "mainsigs": blocks[0][1],
             "rest": [{"msg": m, "sigs": e} for m, e in blocks[1:]]}
        case["ops"].append({"op": "validate", "f": f, "hashes": self.hashes_for(case, [m for m, _ in blocks], drop=corrupt)})


def strip(case):
    return {k: v for k, v in case.items() if not k.startswith("_")}


COQ_HEAD = """From Coq Require Import List NArith ZArith String Bool.
From GV Require Import Base.Ints Model.SimpleProofBase Model.SimpleProof Monitors.C13m.
Import ListNotations. Local Open Scope N_scope.
Definition cases : list (list sigv * (list op * list (list N))) := [
%s
].
Fixpoint lobs_eqb (a b : list (list N)) : bool :=
  match a, b with [], [] => true | x :: a', y :: b' => obs_eqb x y && lobs_eqb a' b' | _, _ => false end.
Fixpoint first_diff (a b : list (list N)) (i : N) : N :=
  match a, b with x :: a', y :: b' => if obs_eqb x y then first_diff a' b' (i + 1) else i | _, _ => i end.
Fixpoint number {A} (l : list A) (i : N) : list (N * A) := match l with [] => [] | x :: t => (i, x) :: number t (i + 1) end.
Definition corr_bad := Eval vm_compute in
  flat_map (fun c => let '(i, (tbl, (ops, obs))) := c in
              let m := run tbl ops in if lobs_eqb m obs then [] else [(i, first_diff m obs 0, nth (N.to_nat (first_diff m obs 0)) m [])]) (number cases 0).
Definition mon_bad := Eval vm_compute in
  flat_map (fun c => let '(i, (tbl, (ops, obs))) := c in
              match c13_mon tbl ops obs with None => [] | Some j => [(i, j)] end) (number cases 0).
Definition model_mon_bad := Eval vm_compute in
  flat_map (fun c => let '(i, (tbl, (ops, _))) := c in
              match c13_mon tbl ops (run tbl ops) with None => [] | Some j => [(i, j)] end) (number cases 0).
Print corr_bad. Print mon_bad. Print model_mon_bad.
"""


def parse_pairs(out, name):
    m = re.search(name + r"\s*=\s*(.*?)\n\s*:", out, flags=re.S)
    if not m:
        return None
    txt = m.group(1)
    if name == "corr_bad":
        res = []
        for mm in re.finditer(r"\((\d+),\s*(\d+),\s*\[([^\]]*)\]\)", txt):
            res.append((int(mm.group(1)), int(mm.group(2)), [int(x) for x in re.findall(r"\d+", mm.group(3))]))
        return res
    return [(int(a), int(b)) for a, b in re.findall(r"\((\d+),\s*(\d+)\)", txt)]


def run_simple(c, binary, cases):
    """returns (obs per case, corr_bad, mon_bad, model_mon_bad) with global case indices."""
    stdin = "\n".join(json.dumps(strip(cs)) for cs in cases) + "\n"
    rc, out, err = c.run_bin(binary, stdin=stdin)
    allobs, cur = [], None
    for line in out.splitlines():
        if line.startswith("C "):
            cur = []
            allobs.append(cur)
        elif cur is not None:
            cur.append([int(x) for x in line.split()])
    if rc != 0 or len(allobs) != len(cases):
        c.fail_obligation("harness-run", "harness rc=%d returned %d of %d cases: %s" % (rc, len(allobs), len(cases), err[-800:]))
        return allobs, [], [], []
    corr_bad, mon_bad, model_mon_bad = [], [], []
    shard = 150
    for si in range(0, len(cases), shard):
        body = COQ_HEAD % ";\n".join(coq_case(cs, ob) for cs, ob in zip(cases[si:si + shard], allobs[si:si + shard]))
        ok, cout = c.coq_eval("c13_cases_%d" % (si // shard), body)
        if not ok:
            c.fail_obligation("cases-eval", cout[-2000:])
            break
        a, b, d = parse_pairs(cout, "corr_bad"), parse_pairs(cout, "mon_bad"), parse_pairs(cout, "model_mon_bad")
        if a is None or b is None or d is None:
            c.fail_obligation("cases-eval-parse", cout[-2000:])
            break
        corr_bad += [(si + i, j, m) for i, j, m in a]
        mon_bad += [(si + i, j) for i, j in b]
        model_mon_bad += [(si + i, j) for i, j in d]
    return allobs, corr_bad, mon_bad, model_mon_bad


# ----------------------------------------------------------------------------- BLS combination index
BLS_HEAD = """From Coq Require Import List NArith ZArith String Bool.
From GV Require Import Base.Ints Model.CombIndex.
Import ListNotations. Local Open Scope N_scope.
Definition o2r (o : option N) (r : res N) : bool :=
  match o, r with Some a, Ok b => N.eqb a b | None, Panic _ => true | _, _ => false end.
Definition encs : list (N * ((Z * N) * option N)) := [%s].
Definition decs : list (N * ((Z * (Z * N)) * option N)) := [%s].
Definition enc_bad := Eval vm_compute in
  map fst (filter (fun c => let '(_, ((n, b), o)) := c in negb (o2r o (encode_mask n b))) encs).
Definition dec_bad := Eval vm_compute in
  map fst (filter (fun c => let '(_, ((n, (k, idx)), o)) := c in negb (o2r o (decode n k idx))) decs).
Print enc_bad. Print dec_bad.
"""


def py_rank(n, S):
    from math import comb
    k, prev, out = len(S), -1, 0
    for i in sorted(S):
        for j in range(prev + 1, i):
            out += comb(n - j - 1, k - 1)
        prev = i
        k -= 1
    return out


def run_bls(c):
    """combination index: real Go functions vs Model/CombIndex.v (in coqc) vs the combinatorial-number-system spec."""
    from math import comb
    rng = c.rng
    binary, blog = c.go_build("c13bls")
    if binary is None:
        c.fail_obligation("harness-build-bls", blog[-1500:])
        return {}
    n_each = 150 if c.tier == "quick" else 5000
    lines, meta = [], []
    for _ in range(n_each):
        n = 1 + rng.below(40) if rng.chance(3, 4) else 1 + rng.below(8)
        S = [i for i in range(n) if rng.chance(1 + rng.below(3), 4)]
        mask = sum(1 << i for i in S)
        stray = rng.chance(1, 25)
        if stray:
            mask |= 1 << (n + rng.below(3))
        lines.append("enc %d %d" % (n, mask))
        meta.append(("enc", n, S, mask, stray))
    for _ in range(n_each):
        n = 1 + rng.below(40) if rng.chance(3, 4) else 1 + rng.below(8)
        kind = rng.below(10)
        k = 1 + rng.below(n)
        idx = rng.below(comb(n, k))
        if kind == 0:
            k = 0
            idx = rng.below(5)
        elif kind == 1:
            k = n + 1 + rng.below(3)
        elif kind == 2:
            idx = comb(n, k) + rng.below(4)
        elif kind == 3:
            idx = rng.choice([0, comb(n, k) - 1])
        lines.append("dec %d %d %d" % (n, k, idx))
        meta.append(("dec", n, k, idx))
    for _ in range(60 if c.tier == "quick" else 600):
        n = 1 + rng.below(12)
        kind = rng.below(8)
        k = 1 + rng.below(n)
        idx = rng.below(comb(n, k))
        if kind == 0:
            k = 0
        elif kind == 1:
            idx = comb(n, k) + rng.choice([0, 0, 1, rng.below(300)])   # boundary: exactly C(n,k)
        elif kind == 2:
            k = n + 1
        elif kind == 4:
            idx = comb(n, k) - 1
        idb = [k >> 8, k & 255] + (list(idx.to_bytes((idx.bit_length() + 7) // 8, "big")) if idx else [])
        if kind == 3:
            idb = idb[:rng.below(2)]
        lines.append("vfp %d %s" % (n, ",".join(str(x) for x in idb) or "-"))
        meta.append(("vfp", n, idb))
    rc, out, err = c.run_bin(binary, stdin="\n".join(lines) + "\n")
    res = out.split("\n")[:len(lines)]
    if rc != 0 or len(res) != len(lines):
        c.fail_obligation("harness-run-bls", "rc=%d, %d of %d results: %s" % (rc, len(res), len(lines), err[-500:]))
        return {}
    encs, decs, spec_bad, vfp_panics = [], [], [], []
    for i, (m, r) in enumerate(zip(meta, res)):
        o = "None" if r == "P" else "(Some %s)" % r
        if m[0] == "enc":
            encs.append("(%d, ((%d%%Z, %d), %s))" % (i, m[1], m[3], o))
            if not m[4]:
                want = py_rank(m[1], m[2])
                if r == "P" or int(r) != want or not (want < comb(m[1], len(m[2]))):
                    spec_bad.append((i, lines[i], r, want))
        elif m[0] == "dec":
            decs.append("(%d, ((%d%%Z, (%d%%Z, %d)), %s))" % (i, m[1], m[2], m[3], o))
            n, k, idx = m[1], m[2], m[3]
            if 1 <= k <= n and idx < comb(n, k):
                S = [j for j in range(n) if r != "P" and (int(r) >> j) & 1]
                if r == "P" or len(S) != k or int(r) >> n or py_rank(n, S) != idx:
                    spec_bad.append((i, lines[i], r, "the k-subset of rank idx"))
        else:
            if r == "P":
                vfp_panics.append((i, lines[i]))
    ok, cout = c.coq_eval("c13_bls_cases", BLS_HEAD % (";\n".join(encs), ";\n".join(decs)))
    corr = []
    if not ok:
        c.fail_obligation("cases-eval-bls", cout[-1500:])
    else:
        for name in ("enc_bad", "dec_bad"):
            mm = re.search(name + r"\s*=\s*\[(.*?)\]", cout, flags=re.S)
            corr += [int(x) for x in re.findall(r"\d+", mm.group(1))] if mm else [-1]
    for i, line, r, want in spec_bad[:1]:
        c.report("bls-combindex-" + line.split()[0], "real combination index function disagrees with the combinatorial number system: "
                 "`%s` returned %s, expected %s" % (line, r, want), {"input": line, "observed": r, "how": "echo '%s' | bin/h_c13bls" % line})
    for i, line in vfp_panics[:1]:
        c.report("bls-validate-finalized-panic", "real gblsminsig ValidateFinalizedProof panics on the main key id of `%s`" % line,
                 {"input": line, "observed": "panic", "how": "echo '%s' | bin/h_c13bls" % line})
    if corr and not (spec_bad or vfp_panics):
        c.fail_obligation("correspondence Model/CombIndex.v vs gblsminsig/signatureproofscheme.go",
                          "model and implementation differ on input lines %s" % [lines[i] for i in corr[:5] if i >= 0],
                          {"inputs": [lines[i] for i in corr[:5] if i >= 0]})
    return {"bls_combindex_evaluations": len(lines), "bls_enc": len(encs), "bls_dec": len(decs),
            "bls_validate_finalized_key_ids": len(lines) - len(encs) - len(decs),
            "bls_dec_out_of_range_inputs": sum(1 for m in meta if m[0] == "dec" and not (1 <= m[2] <= m[1] and m[3] < comb(m[1], m[2]))),
            "bls_correspondence_disagreements": len(corr), "bls_spec_failures": len(spec_bad), "bls_validate_panics": len(vfp_panics)}


# ----------------------------------------------------------------------------- BLS aggregation tree
def tree_layout(n):
    """(W, [(id, lo, hi)]) of the array layout for n keys - closed form used only by the generator."""
    w = 1
    while w < n:
        w *= 2
    nodes, start, width, nl = [], 0, w, 1
    while width >= 1:
        for off in range(width):
            nodes.append((start + off, off * nl, off * nl + nl))
        start += width
        width //= 2
        nl *= 2
    return w, nodes


class TreeGen:
    def __init__(self, rng):
        self.rng = rng
        self.kinds = {}
        self.addkinds = {}

    def be16(self, n):
        return [(n >> 8) & 255, n & 255]

    def pick_n(self):
        rng = self.rng
        r = rng.below(100)
        if r < 20:
            return 1 + rng.below(8)
        if r < 50:
            # last subtree partially padded: just above a power of two, or 3/4 of the way
            p = rng.choice([2, 4, 8, 16, 32])
            return min(40, p + 1 + rng.below(max(1, p // 2)))
        if r < 62:
            return rng.choice([1, 2, 4, 8, 16, 32])
        if r < 80:
            return rng.choice([3, 5, 6, 7, 9, 11, 13, 17, 19, 21, 33, 37])
        return 1 + rng.below(40)

    def agg(self, m, leaves):
        return {"k": 0, "m": m, "l": list(leaves)}

    def entry(self, n, msg, corrupt, prefer=None):
        rng = self.rng
        w, nodes = tree_layout(n)
        real = [(i, lo, min(hi, n)) for i, lo, hi in nodes if lo < n]
        reach = [(i, lo, min(hi, n)) for i, lo, hi in nodes if lo < n < hi]
        pad = [i for i, lo, hi in nodes if lo >= n]
        kind = "valid"
        if corrupt and rng.chance(1, 2):
            kind = rng.choice(["junk", "bad", "bad", "wrongleaves", "wrongleaves", "wrongmsg", "id0", "id1", "id3", "oor", "oor",
                               "padnode", "padnode", "inf"])
        if kind == "padnode" and not pad:
            kind = "oor"
        if prefer is not None and rng.chance(1, 2):
            i, lo, hi = prefer
        elif reach and rng.chance(1, 3):
            i, lo, hi = rng.choice(reach)
            if kind == "valid":
                kind = "valid-padreach"
        elif rng.chance(1, 3):
            i, lo, hi = rng.choice([x for x in real if x[0] < w])     # a leaf
        else:
            i, lo, hi = rng.choice(real)
        idb = self.be16(i)
        sig = self.agg(msg, range(lo, hi))
        if kind == "junk":
            sig = {"k": 1, "v": rng.below(1000)}
        elif kind == "bad":
            sig = {"k": 2, "v": rng.below(1000)}
        elif kind == "wrongleaves":
            v = rng.below(5)
            lv = list(range(lo, hi))
            if v == 0 and len(lv) > 1:
                lv = lv[:-1]
            elif v == 1:
                lv = lv + [lv[-1]]                       # one leaf twice
            elif v == 2:
                lv = [(x + 1) % n for x in lv] if n > 1 else [n]
            elif v == 3:
                lv = lv + [hi] if hi < n + 3 else lv[1:] + [lv[0]] if len(lv) > 1 else [n]
            else:
                lv = list(range(lo, min(hi + (hi - lo), n + 3)))     # the whole padded range / the parent's leaves
                if lv == list(range(lo, hi)):
                    lv = [n]
            lv = sorted(lv)                                # canonical form: the harness adds the points, order is immaterial
            if lv == list(range(lo, hi)):
                lv = [n]
            sig = self.agg(msg, lv)
        elif kind == "wrongmsg":
            sig = self.agg(msg + 1, range(lo, hi))
        elif kind == "inf":
            sig = self.agg(msg, [])
        elif kind == "id0":
            idb = []
        elif kind == "id1":
            idb = [i & 255]
        elif kind == "id3":
            idb = self.be16(i) + [rng.below(256)]
        elif kind == "oor":
            idb = self.be16(rng.choice([2 * w - 1, 2 * w, 2 * w - 1 + rng.below(300), 65535, 256 + i]))
        elif kind == "padnode":
            idb = self.be16(rng.choice(pad))
            if rng.chance(1, 2):
                sig = self.agg(msg, [])
            elif rng.chance(1, 2):
                sig = self.agg(msg, [n - 1])
        self.kinds[kind] = self.kinds.get(kind, 0) + 1
        return {"id": idb, "sig": sig}

    def add_op(self, r, n, msg, corrupt):
        rng = self.rng
        i = rng.below(n)
        kind = "good"
        if corrupt and rng.chance(1, 2):
            kind = rng.choice(["wrongsigner", "junk", "bad", "wrongmsg", "unknown", "unknown", "zerokey", "aggkey", "inf"])
        key, sig = [i], self.agg(msg, [i])
        if kind == "wrongsigner":
            sig = self.agg(msg, [(i + 1) % n if n > 1 else n])
        elif kind == "junk":
            sig = {"k": 1, "v": rng.below(1000)}
        elif kind == "bad":
            sig = {"k": 2, "v": rng.below(1000)}
        elif kind == "wrongmsg":
            sig = self.agg(msg + 1, [i])
        elif kind == "inf":
            sig = self.agg(msg, [])
        elif kind == "unknown":
            key = [n + rng.below(3)]
            sig = self.agg(msg, key)
        elif kind == "zerokey":
            key = []
            sig = rng.choice([self.agg(msg, []), self.agg(msg, [i]), {"k": 2, "v": 0}])
        elif kind == "aggkey":
            w, nodes = tree_layout(n)
            cand = [(lo, min(hi, n)) for x, lo, hi in nodes if lo < n and min(hi, n) - lo >= 2]
            if cand:
                lo, hi = rng.choice(cand)
                key = list(range(lo, hi))
                sig = self.agg(msg, key)
        self.addkinds[kind] = self.addkinds.get(kind, 0) + 1
        return {"op": "add", "r": r, "sig": sig, "key": key}

    def case(self):
        rng = self.rng
        n = self.pick_n()
        w, nodes = tree_layout(n)
        case = {"ops": [], "_n": n}
        regs = {}

        def new(r, nn, msg, h):
            case["ops"].append({"op": "new", "r": r, "n": nn, "msg": msg, "hash": h})
            if 1 <= nn <= 65535:
                regs[r] = {"n": nn, "msg": msg, "hash": h}

        new(0, n, 0, 0)
        new(1, n, 0, 0)
        new(2, n, 0, 0)
        new(3, n, 1, 0)
        if rng.chance(1, 8):
            v = rng.below(3)
            if v == 0 and n > 1:
                new(4, n - 1, 0, 0)          # another key set under the same hash
            elif v == 1:
                new(4, n, 0, 1)
            else:
                new(4, n + 1, 0, 0)
        if rng.chance(1, 30):
            case["ops"].append({"op": "new", "r": 9, "n": rng.choice([0, 65536, 70000]), "msg": 0, "hash": 0})
        corrupt = rng.chance(1, 2)
        nops = 10 + rng.below(16)
        last_ids = {}
        for _ in range(nops):
            r = rng.choice(sorted(regs))
            g = regs[r]
            nn, msg = g["n"], g["msg"]
            ww, nd = tree_layout(nn)
            x = rng.below(100)
            if x < 22:
                case["ops"].append(self.add_op(r, nn, msg, corrupt))
                if rng.chance(1, 5):
                    case["ops"].append(dict(case["ops"][-1]))           # repetition
            elif x < 50:
                ne = rng.choice([0, 1, 1, 2, 2, 3, 4, 6])
                prefer = last_ids.get(r)
                ents = [self.entry(nn, msg, corrupt, prefer) for _ in range(ne)]
                # unusual orders: a parent right after one of its children, a child after its parent
                if rng.chance(1, 3) and nn > 1:
                    real = [(i, lo, min(hi, nn)) for i, lo, hi in nd if lo < nn and i >= ww]
                    if real:
                        i, lo, hi = rng.choice(real)
                        left = 2 * (i - ww)
                        ch = rng.choice([left, left + 1])
                        chn = [(a, b, min(c_, nn)) for a, b, c_ in nd if a == ch and b < nn]
                        par = {"id": self.be16(i), "sig": self.agg(msg, range(lo, hi))}
                        if chn:
                            a, b, c_ = chn[0]
                            chd = {"id": self.be16(a), "sig": self.agg(msg, range(b, c_))}
                            ents += [chd, par] if rng.chance(1, 2) else [par, chd]
                            self.kinds["parent-child-pair"] = self.kinds.get("parent-child-pair", 0) + 1
                if ents:
                    e = ents[-1]
                    if len(e["id"]) == 2:
                        i = e["id"][0] * 256 + e["id"][1]
                        m = [(a, b, min(c_, nn)) for a, b, c_ in nd if a == i and b < nn]
                        if m:
                            last_ids[r] = m[0]
                h = g["hash"] if not (corrupt and rng.chance(1, 12)) else g["hash"] + 1
                case["ops"].append({"op": "msparse", "r": r, "hash": h, "ents": ents})
                if rng.chance(1, 4):
                    case["ops"].append({"op": "msparse", "r": r, "hash": h, "ents": ents})   # idempotence
                elif rng.chance(1, 6) and len(ents) > 1:
                    case["ops"].append({"op": "msparse", "r": r, "hash": h, "ents": ents[::-1]})
            elif x < 58:
                case["ops"].append({"op": "merge", "r": r, "o": rng.choice(sorted(regs))})
            elif x < 64:
                case["ops"].append({"op": "mfrom", "r": r, "o": rng.choice(sorted(regs))})
            elif x < 72:
                # sparse round trip into a derived proof
                to = 5 + rng.below(3)
                case["ops"] += [{"op": "derive", "r": r, "to": to}, {"op": "mfrom", "r": to, "o": r},
                                {"op": "sparse", "r": to}, {"op": "bits", "r": r}]
                regs[to] = dict(g)
            elif x < 80:
                to = 5 + rng.below(3)
                case["ops"].append({"op": rng.choice(["clone", "clone", "derive"]), "r": r, "to": to})
                regs[to] = dict(g)
                case["ops"].append(self.add_op(to, nn, msg, False))
                case["ops"].append({"op": "msparse", "r": to, "hash": g["hash"],
                                    "ents": [self.entry(nn, msg, False) for _ in range(1 + rng.below(3))]})
                case["ops"] += [{"op": "bits", "r": r}, {"op": "sparse", "r": r}]
            elif x < 90:
                v = rng.below(8)
                i = rng.below(2 * ww - 1)
                idb = self.be16(i) if v < 5 else self.be16(2 * ww - 1 + rng.below(3)) if v == 5 else [i & 255] if v == 6 else self.be16(i) + [0]
                case["ops"].append({"op": "has", "r": r, "id": idb})
            elif x < 95:
                case["ops"].append({"op": "sparse", "r": r})
            else:
                case["ops"].append({"op": "bits", "r": r})
        r = rng.choice(sorted(regs))
        case["ops"] += [{"op": "sparse", "r": r}, {"op": "bits", "r": r}]
        return case


def coq_bsig(s):
    if s["k"] == 0:
        return "(SAgg %d %s)" % (s["m"], cl(s["l"]))
    return "(%s %d)" % ("SJunk" if s["k"] == 1 else "SBad", s["v"])


def coq_bents(ents):
    return "[" + ";".join("(%s,%s)" % (cl(e["id"]), coq_bsig(e["sig"])) for e in ents) + "]"


def coq_bop(o):
    k = o["op"]
    if k == "new":
        return "BNew %d %d %d %d" % (o["r"], o["n"], o["msg"], o["hash"])
    if k == "add":
        return "BAdd %d %s %s" % (o["r"], coq_bsig(o["sig"]), "(Some %s)" % cl(o["key"]) if o["key"] else "None")
    if k == "merge":
        return "BMerge %d %d" % (o["r"], o["o"])
    if k == "msparse":
        return "BMergeSparse %d %d %s" % (o["r"], o["hash"], coq_bents(o["ents"]))
    if k == "mfrom":
        return "BMergeFrom %d %d" % (o["r"], o["o"])
    if k == "has":
        return "BHas %d %s" % (o["r"], cl(o["id"]))
    if k == "sparse":
        return "BSparse %d" % o["r"]
    if k == "clone":
        return "BClone %d %d" % (o["r"], o["to"])
    if k == "derive":
        return "BDerive %d %d" % (o["r"], o["to"])
    if k == "bits":
        return "BBits %d" % o["r"]
    raise ValueError(k)


TREE_HEAD = """From Coq Require Import List NArith ZArith String Bool.
From GV Require Import Base.Ints Model.SimpleProofBase Model.BlsTree Monitors.C13Blsm.
Import ListNotations. Local Open Scope N_scope.
Definition cases : list (list bop * list (list N)) := [
%s
].
Fixpoint lobs_eqb (a b : list (list N)) : bool :=
  match a, b with [], [] => true | x :: a', y :: b' => obs_eqb x y && lobs_eqb a' b' | _, _ => false end.
Fixpoint first_diff (a b : list (list N)) (i : N) : N :=
  match a, b with x :: a', y :: b' => if obs_eqb x y then first_diff a' b' (i + 1) else i | _, _ => i end.
Fixpoint number {A} (l : list A) (i : N) : list (N * A) := match l with [] => [] | x :: t => (i, x) :: number t (i + 1) end.
(* one model run per case: (correspondence diff, monitor on implementation, monitor on model) *)
Definition results := Eval vm_compute in
  map (fun c => let '(i, (ops, obs)) := c in
         let m := run ops in
         (i, ((if lobs_eqb m obs then None else Some (first_diff m obs 0, nth (N.to_nat (first_diff m obs 0)) m [])),
              (c13bls_mon ops obs, c13bls_mon ops m)))) (number cases 0).
Definition corr_bad := Eval vm_compute in
  flat_map (fun r => match fst (snd r) with None => [] | Some (j, m) => [(fst r, j, m)] end) results.
Definition mon_bad := Eval vm_compute in
  flat_map (fun r => match fst (snd (snd r)) with None => [] | Some j => [(fst r, j)] end) results.
Definition model_mon_bad := Eval vm_compute in
  flat_map (fun r => match snd (snd (snd r)) with None => [] | Some j => [(fst r, j)] end) results.
Print corr_bad. Print mon_bad. Print model_mon_bad.
"""

BIG_N = 32769   # witness of C13Bls_sparse_roundtrip_refuted: the first key-set size whose aggregate node ids exceed uint16


def run_tree(c, proved):
    """BLS aggregation tree: real gblsminsig.SignatureProof vs Model/BlsTree.v (in coqc) and the monitor C13Blsm."""
    binary, blog = c.go_build("c13tree")
    if binary is None:
        c.fail_obligation("harness-build-tree", blog[-1500:])
        return {}
    g = TreeGen(c.rng)
    rp = json.load(open(c.replay)) if c.replay else {}
    if "tree_case" in rp:
        cases = [rp["tree_case"]]
    else:
        cases = [g.case() for _ in range(120 if c.tier == "quick" else 2000)]
        # witnesses of Proofs/BlsTreeWitness2.v replayed on the real code (also compared with the model and judged by the
        # monitor like every other case): C13Bls_merge_superset_strict_refuted (two empty proofs: WasStrictSuperset = true)
        # and the n = 5 Merge example with exact flags (ex5_merge)
        def agg(l):
            return {"k": 0, "m": 0, "l": l}
        cases.append({"_n": 5, "_fixed": [[0], [0], [1, 0, 1]], "ops": [
            {"op": "new", "r": 0, "n": 5, "msg": 0, "hash": 0}, {"op": "new", "r": 1, "n": 5, "msg": 0, "hash": 0},
            {"op": "merge", "r": 0, "o": 1}]})
        cases.append({"_n": 5, "_fixed": [[0], [0], [0, 0], [0, 0, 1], [1, 1, 0, 1, 4], [1, 1, 0, 0, 1, 4], [1, 0, 0, 0, 1, 4],
                                          [1, 1, 1, 0, 1, 4], [8, 1, 13, 1]], "ops": [
            {"op": "new", "r": 0, "n": 5, "msg": 0, "hash": 0}, {"op": "new", "r": 1, "n": 5, "msg": 0, "hash": 0},
            {"op": "add", "r": 0, "sig": agg([0]), "key": [0]}, {"op": "add", "r": 0, "sig": agg([1]), "key": [1]},
            {"op": "msparse", "r": 1, "hash": 0, "ents": [{"id": [0, 13], "sig": agg([4])}, {"id": [0, 1], "sig": agg([1])}]},
            {"op": "merge", "r": 0, "o": 1}, {"op": "merge", "r": 0, "o": 1}, {"op": "merge", "r": 1, "o": 0},
            {"op": "sparse", "r": 0}]})
    lines = [json.dumps(strip(cs)) for cs in cases]
    run_big = "tree_case" not in rp
    if run_big:
        lines.append(json.dumps({"big": BIG_N}))
        if c.tier != "quick":
            lines.append(json.dumps({"big": BIG_N - 1}))
    rc, out, err = c.run_bin(binary, stdin="\n".join(lines) + "\n")
    allobs, cur = [], None
    for line in out.split("\n")[:-1] if out.endswith("\n") else out.split("\n"):
        if line.startswith("C "):
            cur = []
            allobs.append(cur)
        elif cur is not None:
            cur.append([int(x) for x in line.split()])
    if rc != 0 or len(allobs) != len(lines):
        c.fail_obligation("harness-run-tree", "harness rc=%d returned %d of %d cases: %s" % (rc, len(allobs), len(lines), err[-800:]))
        return {}
    bigobs = allobs[len(cases):]
    allobs = allobs[:len(cases)]
    fixed_bad = [(i, cs["_fixed"], ob) for i, (cs, ob) in enumerate(zip(cases, allobs)) if "_fixed" in cs and ob != cs["_fixed"]]
    for i, want, ob in fixed_bad[:1]:
        c.report("bls-tree-witness-replay", "a Coq witness (Proofs/BlsTreeWitness2.v) does not replay on the real code: expected %s, observed %s"
                 % (want, ob), {"tree_case": strip(cases[i]), "expected": want, "observed": ob})
    corr_bad, mon_bad, model_mon_bad = [], [], []
    shard = 120
    for si in range(0, len(cases), shard):
        body = TREE_HEAD % ";\n".join(
            "([%s],\n  [%s])" % (";\n   ".join(coq_bop(o) for o in cs["ops"]), ";".join(cl(x) for x in ob))
            for cs, ob in zip(cases[si:si + shard], allobs[si:si + shard]))
        ok, cout = c.coq_eval("c13_tree_cases_%d" % (si // shard), body)
        if not ok:
            c.fail_obligation("cases-eval-tree", cout[-2000:])
            break
        a, b, d = parse_pairs(cout, "corr_bad"), parse_pairs(cout, "mon_bad"), parse_pairs(cout, "model_mon_bad")
        if a is None or b is None or d is None:
            c.fail_obligation("cases-eval-tree-parse", cout[-2000:])
            break
        corr_bad += [(si + i, j, m) for i, j, m in a]
        mon_bad += [(si + i, j) for i, j in b]
        model_mon_bad += [(si + i, j) for i, j in d]

    how = "echo '<tree_case json on one line>' | bin/h_c13tree   (or ./check C13 --replay <this file>)"
    seen = set()
    for ci, oi in mon_bad:
        o = cases[ci]["ops"][oi]
        ob = allobs[ci][oi] if oi < len(allobs[ci]) else None
        key = "bls-tree-%s%s" % (o["op"], "-panic" if ob == [999] else "")
        if key in seen:
            continue
        seen.add(key)
        c.report(key, "real gblsminsig.SignatureProof %s (operation %d of the case, %d keys) violates the verified-set-union "
                      "specification: observed %s" % (o["op"], oi, cases[ci]["_n"] if "_n" in cases[ci] else -1, ob),
                 {"tree_case": strip(cases[ci]), "op_index": oi, "op": o, "observed": ob,
                  "ops_up_to_failure": [coq_bop(x) for x in cases[ci]["ops"][:oi + 1]], "how": how})
    if corr_bad and not mon_bad:
        ci, oi, mob = corr_bad[0]
        c.fail_obligation("correspondence Model/BlsTree.v vs gblsminsig/signatureproof.go + internal/sigtree/tree.go",
                          "model and implementation differ on %d cases; first: case %d op %d (%s): model %s, implementation %s"
                          % (len(corr_bad), ci, oi, cases[ci]["ops"][oi]["op"] if oi < len(cases[ci]["ops"]) else "?", mob,
                             allobs[ci][oi] if oi < len(allobs[ci]) else None),
                          {"tree_case": strip(cases[ci]), "op_index": oi,
                           "ops_up_to_failure": [coq_bop(x) for x in cases[ci]["ops"][:oi + 1]], "how": how})
    if model_mon_bad and not mon_bad:
        ci, oi = model_mon_bad[0]
        c.fail_obligation("model_satisfies_monitor (BLS tree, sampled)", "the model's own run is rejected by the monitor: case %d op %d" % (ci, oi),
                          {"tree_case": strip(cases[ci]), "op_index": oi})
    if not proved and not mon_bad:
        b = getattr(c, "broken", {"file": "?", "log": ""})
        c.fail_obligation("Properties/C13Bls.v (%s)" % b["file"], b["log"], {"searched_cases": len(cases)})

    # witness of C13Bls_sparse_roundtrip_refuted replayed on the real code: BIG_N keys, leaves 0 and 1 sign
    big_cov = {}
    if run_big and bigobs:
        ob = bigobs[0][0] if bigobs[0] else [999]
        want = [65536, -1, 1, 1, 0, 0, 1]    # id of node (0,1), all valid, increased, bits {0,1}
        big_cov["big_roundtrip_n"] = BIG_N
        big_cov["big_roundtrip_observed"] = ob
        if ob != want:
            c.report("bls-sparse-keyid-overflow",
                     "sparse round trip loses signatures for %d keys: AsSparse labels the aggregate of leaves 0,1 (node 65536) with the "
                     "2-byte key id %s and Derive().MergeSparse(AsSparse) reports %s (expected ids [65536], flags 1 1 0, bits 0 1)"
                     % (BIG_N, ob[:ob.index(-1)] if -1 in ob else ob, ob[ob.index(-1) + 1:] if -1 in ob else ob),
                     {"input": {"big": BIG_N}, "observed": ob, "how": "echo '{\"big\": %d}' | bin/h_c13tree" % BIG_N})
        if len(bigobs) > 1:
            ob2 = bigobs[1][0] if bigobs[1] else [999]
            big_cov["big_roundtrip_control_32768"] = ob2
            if ob2 != [32768, -1, 1, 1, 0, 0, 1]:
                c.report("bls-sparse-roundtrip-32768", "sparse round trip fails for 32768 keys: %s" % ob2,
                         {"input": {"big": BIG_N - 1}, "observed": ob2})

    opcount, sizes, panics = {}, {}, 0
    nontrivial = set()
    padded = 0
    for cs, obs in zip(cases, allobs):
        for o in cs["ops"]:
            opcount[o["op"]] = opcount.get(o["op"], 0) + 1
        if "_n" in cs:
            sizes[cs["_n"]] = sizes.get(cs["_n"], 0) + 1
            if cs["_n"] & (cs["_n"] - 1):
                padded += 1
        panics += sum(1 for ob in obs if ob == [999])
        merges = [ob for o, ob in zip(cs["ops"], obs) if o["op"] in ("merge", "msparse", "mfrom") and len(ob) >= 3]
        if any(m[1] == 1 for m in merges) and any(m[0] == 0 or m[1] == 0 for m in merges):
            nontrivial.add(json.dumps(strip(cs), sort_keys=True))
    if cases and len(c.samples) < 4:
        c.samples.append({"tree_case": strip(cases[0]), "observations": allobs[0] if allobs else None})
    cov = {
        "tree_cases": len(cases),
        "tree_evaluations": sum(len(o) for o in allobs),
        "tree_distinct_nontrivial": len(nontrivial),
        "tree_traces_validated_against_impl": len(allobs),
        "tree_op_distribution": opcount,
        "tree_sparse_entry_kinds": g.kinds,
        "tree_add_kinds": g.addkinds,
        "tree_key_set_sizes": {str(k): v for k, v in sorted(sizes.items())},
        "tree_cases_with_padding": padded,
        "tree_constructor_panics_observed": panics,
        "tree_correspondence_disagreements": len(corr_bad),
        "tree_monitor_failures_on_impl": len(mon_bad),
        "tree_coq_witnesses_replayed_on_impl": sum(1 for cs in cases if "_fixed" in cs),
        "tree_coq_witness_replay_failures": len(fixed_bad),
    }
    cov.update(big_cov)
    return cov


# ----------------------------------------------------------------------------- BLS finalized proofs
FIN_KEYS = {1: "bls-finalize-double-signer-panic", 2: "bls-finalize-panic", 3: "bls-validate-finalized-panic",
            4: "bls-finalize-roundtrip-rejected", 5: "bls-finalize-roundtrip-sets", 6: "bls-finalize-signature",
            7: "bls-double-signer-not-reported", 8: "bls-validate-finalized-unsound"}
FIN_WHAT = {1: "Finalize panics on a validator that signed two of the blocks (double signer never reported)",
            2: "Finalize panics on disjoint well-formed blocks",
            3: "ValidateFinalizedProof panics although every block hash was supplied",
            4: "the finalized proof of disjoint blocks does not validate (nil result or allSignaturesUnique = false)",
            5: "the finalized proof validates to other signer sets than the blocks it was built from",
            6: "a finalized signature is not the aggregate of the block's signers / wrong number of entries / wrong count header",
            7: "a double signer is not reported (allSignaturesUnique = true)",
            8: "ValidateFinalizedProof reports signer bits that no valid signature of the finalized proof backs"}


def py_unrank(n, k, idx):
    """the ascending k-subset of range(n) with lexicographic rank idx (inverse of py_rank)."""
    from math import comb
    out, cur = [], 0
    for pos in range(k, 0, -1):
        while cur < n and comb(n - cur - 1, pos - 1) <= idx:
            idx -= comb(n - cur - 1, pos - 1)
            cur += 1
        out.append(cur)
        cur += 1
    return out


def min_be(x):
    return list(x.to_bytes((x.bit_length() + 7) // 8, "big")) if x else []


class FinGen:
    """cases for Finalize -> ValidateFinalizedProof (op fin) and for ValidateFinalizedProof on arbitrary input (op val)."""

    def __init__(self, rng):
        self.rng = rng
        self.kinds = {}
        self.overlap_kinds = {}
        self.vkinds = {}
        self.vdetail = {}

    # ---- helpers
    def pick_n(self):
        rng = self.rng
        r = rng.below(100)
        if r < 40:
            return 1 + rng.below(6)
        if r < 80:
            return 4 + rng.below(9)
        return 13 + rng.below(12)

    def shuffle(self, xs):
        for i in range(len(xs) - 1, 0, -1):
            j = self.rng.below(i + 1)
            xs[i], xs[j] = xs[j], xs[i]
        return xs

    def contents(self, k):
        """k distinct short sign contents over a small alphabet (common prefixes and first-byte ties happen)."""
        rng = self.rng
        out = []
        while len(out) < k:
            r = rng.below(20)
            if r == 0:
                b = []
            elif r < 3:
                b = [0]
            else:
                b = [rng.choice([0, 1, 2, 3, 7, 128, 255]) if rng.chance(2, 3) else rng.below(256) for _ in range(1 + rng.below(3))]
            if b not in out:
                out.append(b)
        if k >= 2 and [0] not in out and rng.chance(1, 3):
            out[1 + rng.below(k - 1)] = [0]          # the nil vote
        return out

    def hashes(self, msgs):
        rng = self.rng
        distinct = []
        for m in msgs:
            if m not in distinct:
                distinct.append(m)
        p = self.shuffle(list(range(len(distinct))))
        hs = [[m, [200 + p[i]] + ([rng.below(256)] if rng.chance(1, 3) else [])] for i, m in enumerate(distinct)]
        return self.shuffle(hs)

    def partition(self, n, nrest):
        """disjoint main / rest signer sets over a random subset of the keys; main usually the biggest."""
        rng = self.rng
        keys = self.shuffle(list(range(n)))
        t = n if rng.chance(1, 3) else 1 + rng.below(n)
        keys = keys[:t]
        if nrest == 0:
            return keys, []
        m = max(1, t - rng.below(t // 2 + 1)) if rng.chance(4, 5) else 1 + rng.below(t)
        main, others = keys[:m], keys[m:]
        rest = [[] for _ in range(nrest)]
        for k in others:
            rest[rng.below(nrest)].append(k)
        return main, rest

    def distinct_sizes(self, n, nb):
        """nb distinct rest sizes >= 1 and a main size >= 1 with sum <= n (n >= 4)."""
        rng = self.rng
        while 1 + nb * (nb + 1) // 2 > n:
            nb -= 1
        for _ in range(20):
            cand = self.shuffle(list(range(1, n)))[:nb]
            if sum(cand) <= n - 1:
                return cand
        return list(range(1, nb + 1))

    # ---- op fin
    def fin_case(self):
        rng = self.rng
        n = self.pick_n()
        r = rng.below(100)
        kind = ("overlap" if r < 12 else "rest-equals-main" if r < 15 else "dup-rest-content" if r < 17 else "missing-hash" if r < 19
                else "none-sign" if r < 23 else "all-sign-main" if r < 29 else "empty-rest-block" if r < 37
                else "equal-sizes" if r < 56 else "unequal-sizes" if r < 76 else "disjoint")
        main, rest = [], []
        same_content = None           # (i, j): rest block i carries the content of block j (-1 = main)
        if kind in ("disjoint", "missing-hash"):
            main, rest = self.partition(n, rng.below(5))
        elif kind == "equal-sizes":
            n = max(n, 3)
            s = 1 + rng.below((n - 1) // 2)
            e = 3 if 3 * s <= n - 1 and rng.chance(1, 3) else 2
            keys = self.shuffle(list(range(n)))
            rest = [keys[i * s:(i + 1) * s] for i in range(e)]
            left = keys[e * s:]
            m = 1 + rng.below(len(left))
            main, left = left[:m], left[m:]
            extras = [[] for _ in range(rng.below(4 - e + 1))]
            for k in left:
                if extras and rng.chance(2, 3):
                    extras[rng.below(len(extras))].append(k)
            rest = self.shuffle(rest + extras)
        elif kind in ("unequal-sizes", "dup-rest-content"):
            n = max(n, 4)
            sizes = self.distinct_sizes(n, 2 if kind == "dup-rest-content" else 2 + rng.below(3))
            keys = self.shuffle(list(range(n)))
            pos = 0
            for s in sizes:
                rest.append(keys[pos:pos + s])
                pos += s
            left = keys[pos:]
            main = left[:1 + rng.below(len(left))]
            mode = rng.below(3)
            if mode == 0:
                rest.sort(key=len)                       # ascending sizes: the opposite of the finalizing order
            elif mode == 1:
                rest.sort(key=len, reverse=True)
            else:
                self.shuffle(rest)
            if kind == "dup-rest-content":
                same_content = (1, 0)
        elif kind == "all-sign-main":
            main = list(range(n)) if rng.chance(2, 3) else self.shuffle(list(range(n)))[:max(1, n - 1)]
            rest = [[] for _ in range(rng.below(4))] if rng.chance(1, 2) else []
        elif kind == "none-sign":
            _, rest = self.partition(n, rng.below(4))
        elif kind == "empty-rest-block":
            main, rest = self.partition(n, 1 + rng.below(4))
            rest[rng.below(len(rest))] = []
        elif kind == "rest-equals-main":
            main, rest = self.partition(n, 1 + rng.below(3))
            same_content = (0, -1)
            if rng.chance(1, 3):
                rest[0] = list(main)
            elif not rest[0]:
                free = [i for i in range(n) if i not in main and not any(i in b for b in rest)]
                if free:
                    rest[0] = [free[0]]
        else:  # overlap
            n = max(n, 2)
            main, rest = self.partition(n, 1 + rng.below(4))
            if not any(rest):
                free = [i for i in range(n) if i not in main]
                rest[0] = [free[0]] if free else [main.pop()]
            v = rng.below(3)
            full = [i for i, b in enumerate(rest) if b]
            if v == 2 and len(rest) >= 2:
                a = rng.choice(full)
                b = rng.choice([i for i in range(len(rest)) if i != a])
                rest[b].append(rng.choice(rest[a]))
                ok = "rest/rest"
            elif v == 1:
                main.append(rng.choice(rest[rng.choice(full)]))
                ok = "main/rest"
            else:
                b = rng.below(len(rest)) if rng.chance(1, 3) else rng.choice(full)
                rest[b].append(rng.choice(main))
                ok = "main/rest"
            self.overlap_kinds[ok] = self.overlap_kinds.get(ok, 0) + 1
        msgs = self.contents(1 + len(rest))
        if same_content:
            i, j = same_content
            msgs[1 + i] = msgs[1 + j]
        hs = self.hashes(msgs)
        if kind == "missing-hash":
            hs.pop(rng.below(len(hs)))
        self.kinds[kind] = self.kinds.get(kind, 0) + 1
        return {"op": "fin", "n": n, "main": {"msg": msgs[0], "bits": sorted(set(main))},
                "rest": [{"msg": msgs[1 + i], "bits": sorted(set(b))} for i, b in enumerate(rest)],
                "hashes": hs, "_kind": kind}

    # ---- op val
    def keyid(self, k, idx, lead=False):
        return [(k >> 8) & 255, k & 255] + ([0] if lead else []) + min_be(idx)

    def bad_sig(self, msg, S, n, what):
        rng = self.rng
        S = sorted(S)
        if what == "wrongset":
            v = rng.below(3)
            out = [i for i in range(n + 1) if i not in S]
            if v == 0 and len(S) > 1:
                T = S[:-1] if rng.chance(1, 2) else S[1:]
            elif v == 1 and out:
                T = sorted(S + [rng.choice(out)])
            else:
                T = sorted(set(S[1:] + [rng.choice(out)])) if out else S[1:]
            return {"k": 0, "m": msg, "l": T}
        if what == "wrongmsg":
            return {"k": 0, "m": msg + [1], "l": S}
        if what == "junk":
            return {"k": 1, "v": rng.below(1000)}
        return {"k": 2, "v": rng.below(1000)}

    def bad_id(self, n, k, idx, what):
        """a corrupted key id for a k-subset of n keys."""
        from math import comb
        rng = self.rng
        if what == "idx=C":
            return self.keyid(k, comb(n, k))
        if what == "idx-huge":
            return self.keyid(k, comb(n, k) + 1 + rng.below(1 << rng.choice([3, 16, 70])))
        if what == "k=0":
            return self.keyid(0, rng.choice([0, 0, 1, idx]))
        if what == "k>n":
            return self.keyid(n + 1 + rng.below(3), rng.choice([0, idx]))
        if what == "k-huge":
            return self.keyid(rng.choice([255, 256, 65535]), rng.choice([0, idx]))
        if what == "id0":
            return []
        if what == "id1":
            return [rng.choice([0, k & 255])]
        raise ValueError(what)

    def val_case(self):
        from math import comb
        rng = self.rng
        n = self.pick_n()
        r = rng.below(100)
        kind = ("valid-chain" if r < 30 else "main-id" if r < 50 else "main-sig" if r < 60 else "main-count" if r < 64
                else "rest-id" if r < 76 else "rest-sig" if r < 86 else "rest-count" if r < 91 else "unsorted-chain" if r < 96
                else "rest-is-main" if r < 98 else "missing-hash")
        nrest = rng.below(5)
        if kind.startswith("rest-") or kind == "unsorted-chain":
            nrest = max(nrest, 2 if kind == "unsorted-chain" else 1)
        msgs = self.contents(1 + nrest)
        detail = ""
        # main: a random index in range, the signer set is its unranking
        k0 = max(1, n - rng.below(n // 2 + 1)) if rng.chance(1, 2) else 1 + rng.below(n)
        idx0 = rng.below(comb(n, k0))
        S0 = py_unrank(n, k0, idx0)
        main_id = self.keyid(k0, idx0)
        main_sig = {"k": 0, "m": msgs[0], "l": S0}
        if kind == "main-id":
            detail = rng.choice(["idx=C", "idx-huge", "k=0", "k>n", "k-huge", "id0", "id1", "leading-zero", "other-index"])
            if detail == "leading-zero":
                main_id = self.keyid(k0, idx0, lead=True)          # SetBytes ignores it: still valid
            elif detail == "other-index":
                main_id = self.keyid(k0, (idx0 + 1 + rng.below(max(1, comb(n, k0) - 1))) % comb(n, k0))
            else:
                main_id = self.bad_id(n, k0, idx0, detail)
        elif kind == "main-sig":
            detail = rng.choice(["wrongset", "wrongset", "wrongmsg", "junk", "undecodable"])
            main_sig = self.bad_sig(msgs[0], S0, n, detail)
        mainsigs = [{"id": main_id, "sig": main_sig}]
        if kind == "main-count":
            detail = rng.choice(["0", "2"])
            mainsigs = [] if detail == "0" else mainsigs + [{"id": main_id, "sig": main_sig}]
        # rest signer sets over the keys not yet used, in generation order
        used = set(S0)
        sets = []
        nosig = rng.below(nrest) if kind == "rest-count" and rng.chance(1, 2) else -1
        for j in range(nrest):
            avail = [i for i in range(n) if i not in used]
            if not avail or j == nosig:
                sets.append([])
                continue
            kj = 1 + rng.below(len(avail)) if rng.chance(1, 3) else 1 + rng.below(min(len(avail), 3))
            Sj = sorted(self.shuffle(list(avail))[:kj])
            used |= set(Sj)
            sets.append(Sj)
        target = rng.choice([j for j in range(nrest) if sets[j]] or [0]) if nrest else -1
        if kind == "rest-is-main" and nrest:
            msgs[1 + target] = msgs[0]       # a Rest entry filed under the main sign content (its signature is over that content)
        order = list(range(nrest))
        if kind != "unsorted-chain":
            order.sort(key=lambda j: (-len(sets[j]), msgs[1 + j]))   # k descending, then sign content ascending
        elif order == sorted(order, key=lambda j: (-len(sets[j]), msgs[1 + j])):
            order.reverse()
        taken = set(S0)
        entries = {}
        for j in order:
            avail = [i for i in range(n) if i not in taken]
            Sj = sets[j]
            if not Sj:
                # no key left / the entry without signatures
                entries[j] = [] if j == nosig or kind == "valid-chain" or rng.chance(1, 2) else [{"id": self.keyid(1, 0), "sig": {"k": 1, "v": j}}]
                continue
            red = [avail.index(i) for i in Sj]
            idx = py_rank(len(avail), red)
            eid = self.keyid(len(Sj), idx)
            sig = {"k": 0, "m": msgs[1 + j], "l": Sj}
            if j == target and kind == "rest-id":
                detail = rng.choice(["idx=C", "idx-huge", "k=0", "k>n", "k-huge", "id0", "id1", "leading-zero", "unreduced"])
                if detail == "leading-zero":
                    eid = self.keyid(len(Sj), idx, lead=True)
                elif detail == "unreduced":
                    eid = self.keyid(len(Sj), py_rank(n, Sj))        # index in the ORIGINAL key space
                else:
                    eid = self.bad_id(len(avail), len(Sj), idx, detail)
            if j == target and kind == "rest-sig":
                detail = rng.choice(["wrongset", "wrongset", "wrongmsg", "junk", "undecodable"])
                sig = self.bad_sig(msgs[1 + j], Sj, n, detail)
            entries[j] = [{"id": eid, "sig": sig}]
            if j == target and kind == "rest-count" and nosig < 0:
                detail = "2"
                entries[j] = entries[j] * 2
            taken |= set(Sj)
        if kind == "rest-count" and nosig >= 0:
            detail = "0"
        vrest = [{"msg": msgs[1 + j], "sigs": entries[j]} for j in range(nrest)]
        self.shuffle(vrest)
        hs = self.hashes(msgs)
        if kind == "missing-hash":
            hs.pop(rng.below(len(hs)))
        self.vkinds[kind] = self.vkinds.get(kind, 0) + 1
        if detail:
            self.vdetail[kind + ":" + detail] = self.vdetail.get(kind + ":" + detail, 0) + 1
        return {"op": "val", "n": n, "mainmsg": msgs[0], "mainsigs": mainsigs, "vrest": vrest, "hashes": hs, "_kind": kind}


def coq_fsig(s):
    if s["k"] == 0:
        return "(FAgg %s [%s])" % (cl(s["m"]), ";".join("%d%%Z" % x for x in s["l"]))
    return "(%s %d)" % ("FJunk" if s["k"] == 1 else "FBad", s["v"])


def coq_fents(es):
    return "[" + ";".join("(%s,%s)" % (cl(e["id"]), coq_fsig(e["sig"])) for e in es) + "]"


def coq_fin_case(cs, fo, vo):
    hs = "[" + ";".join("(%s,%s)" % (cl(m), cl(h)) for m, h in cs["hashes"]) + "]"
    if cs["op"] == "fin":
        blk = lambda b: "mk_fproof %s %d" % (cl(b["msg"]), sum(1 << i for i in b["bits"]))
        return "TFin %d%%Z (%s) [%s] %s %s %s" % (cs["n"], blk(cs["main"]), ";".join(blk(b) for b in cs["rest"]), hs, cl(fo), cl(vo))
    rest = "[" + ";".join("(%s,%s)" % (cl(r["msg"]), coq_fents(r["sigs"])) for r in cs.get("vrest") or []) + "]"
    return "TVal (mk_ffin %d%%Z %s %s %s) %s %s" % (cs["n"], cl(cs["mainmsg"]), coq_fents(cs["mainsigs"]), rest, hs, cl(vo))


FIN_HEAD = """From Coq Require Import List NArith ZArith String Bool.
From GV Require Import Base.Ints Base.GoBytes Model.SimpleProofBase Model.CombIndex Model.BlsFinal Monitors.C13BlsFinm.
Import ListNotations. Local Open Scope N_scope.
Inductive tcase : Type :=
| TFin (n : Z) (main : fproof) (rest : list fproof) (hs : list (list N * list N)) (fo vo : list N)
| TVal (f : ffin) (hs : list (list N * list N)) (vo : list N).
Definition cases : list tcase := [
%s
].
Definition cv (s : fsig) : vsig := match s with FAgg m l => VAgg m l | _ => VOther end.
Definition cvs (l : list fsparse) : list (list N * vsig) := map (fun e => (fst e, cv (snd e))) l.
Definition blk (p : fproof) : list N * N := (fp_msg p, fp_bits p).
Definition vmon (f : ffin) hs (vo : list N) : option N :=
  val_mon (ff_n f) (ff_main_msg f) (cvs (ff_main_sigs f)) (map (fun e => (fst e, cvs (snd e))) (ff_rest f)) hs vo.
(* one model run per case: ((model obs = implementation obs, (monitor on implementation, monitor on model)), model obs) *)
Definition eval1 (c : tcase) : (bool * (option N * option N)) * (list N * list N) :=
  match c with
  | TFin n main rest hs fo vo =>
      let m := run_fin n main rest hs in
      ((bytes_eqb (fst m) fo && bytes_eqb (snd m) vo,
        (fin_mon n (blk main) (map blk rest) hs fo vo, fin_mon n (blk main) (map blk rest) hs (fst m) (snd m))), m)
  | TVal f hs vo =>
      let m := run_val f hs in
      ((bytes_eqb m vo, (vmon f hs vo, vmon f hs m)), ([], m))
  end.
Fixpoint number {A} (l : list A) (i : N) : list (N * A) := match l with [] => [] | x :: t => (i, x) :: number t (i + 1) end.
Definition raw := Eval vm_compute in map (fun c => (fst c, eval1 (snd c))) (number cases 0).
Definition results := Eval vm_compute in map (fun r => (fst r, fst (snd r))) raw.
Definition details := Eval vm_compute in
  flat_map (fun r => let '(i, ((ok, (a, b)), m)) := r in
              match ok, a, b with true, None, None => [] | _, _, _ => [(i, fst m, snd m)] end) raw.
Print results.
Print details.
"""


def count_ventries(vo):
    i, k = 2, 0
    while i < len(vo):
        i += vo[i] + 2
        k += 1
    return k


def fin_wf_disjoint(cs):
    """python copy of the monitor's case split, used for the coverage numbers only (never for a verdict)."""
    blocks = [cs["main"]] + cs["rest"]
    msgs = [tuple(b["msg"]) for b in blocks]
    hm = {tuple(m): tuple(h) for m, h in cs["hashes"]}
    wf = (len(set(msgs)) == len(msgs) and all(m in hm for m in msgs) and len(set(hm[m] for m in msgs if m in hm)) == len(msgs)
          and len(cs["main"]["bits"]) > 0)
    allbits = [i for b in blocks for i in b["bits"]]
    return wf, len(set(allbits)) == len(allbits)


def run_fin(c, proved):
    """BLS finalized proofs: real Finalize / ValidateFinalizedProof vs Model/BlsFinal.v (in coqc) and the monitors C13BlsFinm."""
    ok, mlog = c.coq_make(["Model/BlsFinal.vo", "Monitors/C13BlsFinm.vo"])
    if not ok:
        c.fail_obligation("build Model/BlsFinal.vo Monitors/C13BlsFinm.vo", mlog[-1500:])
        return {}
    binary, blog = c.go_build("c13fin")
    if binary is None:
        c.fail_obligation("harness-build-fin", blog[-1500:])
        return {}
    g = FinGen(c.rng)
    rp = json.load(open(c.replay)) if c.replay else {}
    if "fin_case" in rp:
        cases = [rp["fin_case"]]
    else:
        mult = 1 if c.tier == "quick" else 20
        cases = [g.fin_case() for _ in range(150 * mult)] + [g.val_case() for _ in range(120 * mult)]
    lines = [json.dumps(strip(cs)) for cs in cases]
    rc, out, err = c.run_bin(binary, stdin="\n".join(lines) + "\n")
    outl = out.split("\n")
    obs, pos, bad = [], 0, rc != 0
    for cs in cases:
        if bad:
            break
        if cs["op"] == "fin":
            if pos + 1 >= len(outl) or not outl[pos].startswith("F") or not outl[pos + 1].startswith("V"):
                bad = True
                break
            obs.append(([int(x) for x in outl[pos].split()[1:]], [int(x) for x in outl[pos + 1].split()[1:]]))
            pos += 2
        else:
            if pos >= len(outl) or not outl[pos].startswith("V"):
                bad = True
                break
            obs.append(([], [int(x) for x in outl[pos].split()[1:]]))
            pos += 1
    if bad or len(obs) != len(cases):
        c.fail_obligation("harness-run-fin", "harness rc=%d answered %d of %d cases; output line %d: %r; stderr: %s"
                          % (rc, len(obs), len(cases), pos, outl[pos][:200] if pos < len(outl) else None, err[-800:]),
                          {"fin_case": strip(cases[len(obs)]) if len(obs) < len(cases) else None})
        return {}

    results, details = {}, {}
    shard = 300
    res_re = re.compile(r"\((\d+)(?:%N)?,\s*\((true|false),\s*\((None|Some\s+(\d+)(?:%N)?),\s*(None|Some\s+(\d+)(?:%N)?)\)\)\)")
    det_re = re.compile(r"\((\d+)(?:%N)?,\s*\[([^\]]*)\],\s*\[([^\]]*)\]\)")
    for si in range(0, len(cases), shard):
        body = FIN_HEAD % ";\n".join(coq_fin_case(cs, fo, vo) for cs, (fo, vo) in zip(cases[si:si + shard], obs[si:si + shard]))
        ok, cout = c.coq_eval("c13_fin_cases_%d" % (si // shard), body)
        if not ok:
            c.fail_obligation("cases-eval-fin", cout[-2000:])
            return {}
        m1 = re.search(r"results\s*=\s*(.*?)\n\s*:\s*list", cout, flags=re.S)
        m2 = re.search(r"details\s*=\s*(.*?)\n\s*:\s*list", cout, flags=re.S)
        got = res_re.findall(m1.group(1)) if m1 else []
        if not m1 or not m2 or len(got) != len(cases[si:si + shard]):
            c.fail_obligation("cases-eval-fin-parse", "parsed %d of %d results\n%s" % (len(got), len(cases[si:si + shard]), cout[-1500:]))
            return {}
        for i, okb, a, an, b, bn in got:
            results[si + int(i)] = (okb == "true", int(an) if a != "None" else None, int(bn) if b != "None" else None)
        for i, f, v in det_re.findall(m2.group(1)):
            details[si + int(i)] = {"F": [int(x) for x in re.findall(r"\d+", f)], "V": [int(x) for x in re.findall(r"\d+", v)]}

    def replay_obj(ci):
        cs = cases[ci]
        how = "echo '%s' | bin/h_c13fin   (or ./check C13 --replay <this file>)" % json.dumps(strip(cs), separators=(",", ":"))
        o = {"fin_case": strip(cs), "kind": cs.get("_kind"), "observed": {"F": obs[ci][0], "V": obs[ci][1]} if cs["op"] == "fin" else {"V": obs[ci][1]},
             "model": details.get(ci, "same as observed"), "coq_case": coq_fin_case(cs, obs[ci][0], obs[ci][1]), "how": how}
        return o

    corr_bad = [ci for ci in sorted(results) if not results[ci][0]]
    mon_bad = [(ci, results[ci][1]) for ci in sorted(results) if results[ci][1] is not None]
    model_mon_bad = [(ci, results[ci][2]) for ci in sorted(results) if results[ci][2] is not None and results[ci][2] != 1]
    seen = set()
    for ci, code in mon_bad:
        key = FIN_KEYS.get(code, "bls-finalize-code-%d" % code)
        if key in seen:
            continue
        seen.add(key)
        cs = cases[ci]
        if cs["op"] == "fin":
            desc = "n=%d, main %s over %s, rest %s" % (cs["n"], cs["main"]["bits"], cs["main"]["msg"],
                                                        [(b["bits"], b["msg"]) for b in cs["rest"]])
        else:
            desc = "ValidateFinalizedProof input of kind %s, n=%d" % (cs.get("_kind"), cs["n"])
        c.report(key, "real gblsminsig finalized proof: %s (%s): observed F %s V %s"
                 % (FIN_WHAT.get(code, "monitor code %d" % code), desc, obs[ci][0] if cs["op"] == "fin" else "-", obs[ci][1]), replay_obj(ci))
    impl_fail = [k for k in seen if k not in c.known]
    if corr_bad and not impl_fail:
        ci = corr_bad[0]
        c.fail_obligation("correspondence Model/BlsFinal.v vs gblsminsig/signatureproofscheme.go",
                          "model and implementation differ on %d cases; first: case %d (%s %s): model %s, implementation F %s V %s"
                          % (len(corr_bad), ci, cases[ci]["op"], cases[ci].get("_kind"), details.get(ci), obs[ci][0], obs[ci][1]),
                          replay_obj(ci))
    if model_mon_bad and not impl_fail:
        ci, code = model_mon_bad[0]
        c.fail_obligation("model_satisfies_monitor (BLS finalize, sampled)",
                          "the model's own observations are rejected by the monitor with code %d: case %d (%s %s), model %s"
                          % (code, ci, cases[ci]["op"], cases[ci].get("_kind"), details.get(ci)), replay_obj(ci))
    if not proved and not impl_fail:
        b = getattr(c, "broken", {"file": "?", "log": ""})
        c.fail_obligation("Properties/C13BlsFinal.v (%s)" % b["file"], b["log"], {"searched_cases": len(cases)})

    # ------------------------------------------------------------------ coverage
    nh, rh, vh, vkh, vpk = {}, {}, {}, {}, {}
    diff_sizes = eq_sizes = overlaps = panics_f = panics_v = roundtrips = 0
    nontrivial = set()
    sample_ci = None
    for ci, cs in enumerate(cases):
        nh[cs["n"]] = nh.get(cs["n"], 0) + 1
        fo, vo = obs[ci]
        if vo == [999]:
            panics_v += 1
            pk = "%s %s" % (cs["op"], cs.get("_kind"))
            vpk[pk] = vpk.get(pk, 0) + 1
        if cs["op"] != "fin":
            tag = "panic" if vo == [999] else "nil" if vo[:1] == [0] else "map-%d-hashes" % count_ventries(vo)
            vh[tag] = vh.get(tag, 0) + 1
            kk = "%s -> %s" % (cs.get("_kind"), "panic" if vo == [999] else "nil" if vo[:1] == [0] else "map")
            vkh[kk] = vkh.get(kk, 0) + 1
            continue
        rh[len(cs["rest"])] = rh.get(len(cs["rest"]), 0) + 1
        sizes = [len(b["bits"]) for b in cs["rest"] if b["bits"]]
        diff_sizes += len(set(sizes)) >= 2
        eq_sizes += len(sizes) != len(set(sizes))
        wf, disj = fin_wf_disjoint(cs)
        overlaps += not disj
        panics_f += fo == [999]
        if wf and disj and vo[:2] == [1, 1] and results[ci][1] is None:
            roundtrips += 1
            if len(sizes) >= 2:
                nontrivial.add(json.dumps(strip(cs), sort_keys=True))
                if sample_ci is None:
                    sample_ci = ci
    if cases:
        si = sample_ci if sample_ci is not None else 0
        c.samples.append({"fin_case": strip(cases[si]), "observed": {"F": obs[si][0], "V": obs[si][1]}})
    return {
        "fin_cases": sum(1 for cs in cases if cs["op"] == "fin"),
        "fin_val_cases": sum(1 for cs in cases if cs["op"] == "val"),
        "fin_evaluations": sum(2 if cs["op"] == "fin" else 1 for cs in cases),
        "fin_traces_validated_against_impl": len(obs),
        "fin_distinct_nontrivial": len(nontrivial),
        "fin_rule": "non-trivial = a distinct well-formed disjoint fin case with >= 2 non-empty rest blocks whose finalized proof validated "
                    "back to exactly the blocks' signer sets (judged by Monitors/C13BlsFinm.fin_mon on the implementation's output)",
        "fin_roundtrips": roundtrips,
        "fin_kind_histogram": g.kinds,
        "fin_overlap_kinds": g.overlap_kinds,
        "fin_key_set_sizes": {str(k): v for k, v in sorted(nh.items())},
        "fin_rest_blocks_histogram": {str(k): v for k, v in sorted(rh.items())},
        "fin_cases_rest_sizes_differ": diff_sizes,
        "fin_cases_rest_sizes_equal": eq_sizes,
        "fin_overlap_cases": overlaps,
        "fin_finalize_panics_observed": panics_f,
        "fin_validate_panics_observed": panics_v,
        "fin_validate_panics_by_kind": vpk,
        "fin_val_kinds": g.vkinds,
        "fin_val_corruptions": g.vdetail,
        "fin_val_outcomes": vh,
        "fin_val_outcome_by_kind": {k: vkh[k] for k in sorted(vkh)},
        "fin_correspondence_disagreements": len(corr_bad),
        "fin_monitor_failures_on_impl": len(mon_bad),
        "fin_monitor_codes_on_impl": {FIN_KEYS.get(k, str(k)): sum(1 for _, x in mon_bad if x == k) for k in sorted(set(x for _, x in mon_bad))},
    }


def main(argv):
    c = vcheck.Check("C13", argv)
    c.trusted += [
        "translator /verif/translate for HasSparseKeyID and beUint16KeyLenIDChecker.IsValid (gcrypto/simplecommonmessagesignatureproof.go), "
        "cross-checked on every run through the has/isvalid/msparse operations of the correspondence run",
        "Go harness /verif/harness/c13 (real ed25519 keys and signatures; Junk = bytes that verify under no key) and the case "
        "evaluation inside coqc (vm_compute)",
        "bits-and-blooms/bitset v1.20 (Set/Test/Count/IsStrictSuperSet/CopyFull) modelled as N bit masks",
        "math/big.Binomial = binomial coefficient (Model/CombIndex.v computes Pascal rows); blst group law and pairing check (not modelled)",
        "Go harness /verif/harness/c13bls using the verif hook gcrypto/gblsminsig/verif_hooks.go (wrappers only)",
        "Go harness /verif/harness/c13tree (real gblsminsig.SignatureProof; genuine aggregates = blst sums of the leaves' signatures; "
        "junk = valid point over another message; undecodable = wrong-length / off-curve bytes) and the closed-form node ranges it "
        "uses to verify AsSparse output independently",
        "Go harness /verif/harness/c13fin (real gblsminsig Finalize / ValidateFinalizedProof over real blst keys and signatures; "
        "genuine aggregate = blst sum of the signers' signatures, computed independently of the tree code; junk = a valid point over "
        "another message; undecodable = wrong-length / off-curve bytes)",
    ]
    c.assumes += [
        "ideal signatures (DESIGN 3): a signature value verifies for exactly one (key, message); ed25519 realises Good k m 0",
        "public key bytes are injective in the key identity; the trusted key list handed to ValidateFinalizedProof is non-empty",
        "BLS tree: ideal aggregate signatures - Verify(aggregate key of leaf set S, sig) iff sig is the aggregate of the genuine "
        "signatures of exactly S over the proof's message (aggregate unforgeability, no rogue-key attack, distinct keys)",
        "finalized proofs: ideal aggregate signatures - the aggregate key of a signer set S verifies exactly the aggregate of the "
        "genuine signatures of S over that sign content",
    ]
    c.grep_gate()

    tok, tlog = c.translate(only=["Gen/KeyID.v"])
    proved = False
    if not tok:
        c.obligations.append("translate Gen/KeyID.v")
        c.broken = {"file": "translate", "log": tlog[-800:]}
    else:
        proved = c.prove("C13")

    binary, blog = c.go_build("c13")
    if binary is None:
        c.fail_obligation("harness-build", blog[-1500:])
        c.finish()

    g = Gen(c.rng)
    if c.replay:
        rp = json.load(open(c.replay))
        cases = [rp["case"]] if "case" in rp else [g.case() for _ in range(50)]
    else:
        n_cases = 200 if c.tier == "quick" else 6000
        cases = [g.case() for _ in range(n_cases)]

    corr_bad, mon_bad, model_mon_bad, allobs = [], [], [], []
    if tok:
        allobs, corr_bad, mon_bad, model_mon_bad = run_simple(c, binary, cases)

    rpl = json.load(open(c.replay)) if c.replay else {}
    bls_cov = run_bls(c) if "case" not in rpl and "fin_case" not in rpl and "cpf_case" not in rpl else {}
    tree_cov = {}
    if "case" not in rpl and "fin_case" not in rpl and "cpf_case" not in rpl:
        proved_tree = c.prove("C13Bls")
        tree_cov = run_tree(c, proved_tree)
    fin_cov = {}
    if "case" not in rpl and "tree_case" not in rpl and "cpf_case" not in rpl:
        proved_fin = c.prove("C13BlsFinal") if os.path.exists(os.path.join(vcheck.COQ, "Properties", "C13BlsFinal.v")) else True
        fin_cov = run_fin(c, proved_fin)

    cpf_cov = {}
    if "case" not in rpl and "tree_case" not in rpl and "fin_case" not in rpl:
        proved_cpf = c.prove("C13Cpf")
        cpf_cov = c13_cpf.run_cpf(c, proved_cpf)

    # ------------------------------------------------------------------ verdict
    seen_keys = set()
    for ci, oi in mon_bad:
        o = cases[ci]["ops"][oi]
        ob = allobs[ci][oi] if oi < len(allobs[ci]) else None
        key = "simple-%s%s" % (o["op"], "-panic" if ob == [999] else "")
        if key in seen_keys:
            continue
        seen_keys.add(key)
        c.report(key, "real %s (operation %d of the case) violates the set-union specification: observed %s" % (o["op"], oi, ob),
                 {"case": strip(cases[ci]), "op_index": oi, "op": o, "observed": ob,
                  "how": "echo '<case json on one line>' | bin/h_c13   (or ./check C13 --replay <this file>)"})
    if corr_bad and not mon_bad:
        ci, oi, mob = corr_bad[0]
        c.fail_obligation("correspondence Model/SimpleProof.v vs gcrypto/simplecommonmessagesignatureproof.go",
                          "model and implementation differ on %d cases; first: case %d op %d (%s): model %s, implementation %s"
                          % (len(corr_bad), ci, oi, cases[ci]["ops"][oi]["op"] if oi < len(cases[ci]["ops"]) else "?", mob,
                             allobs[ci][oi] if oi < len(allobs[ci]) else None),
                          {"case": strip(cases[ci]), "op_index": oi})
    if model_mon_bad and not mon_bad:
        ci, oi = model_mon_bad[0]
        c.fail_obligation("model_satisfies_monitor (sampled)", "the model's own run is rejected by the monitor: case %d op %d" % (ci, oi),
                          {"case": strip(cases[ci]), "op_index": oi})
    if not proved and not mon_bad:
        b = getattr(c, "broken", {"file": "?", "log": ""})
        c.fail_obligation("Properties/C13.v (%s)" % b["file"], b["log"], {"searched_cases": len(cases)})

    # ------------------------------------------------------------------ evidence
    opcount, kinds, sizes, panics = {}, {}, {}, 0
    nontrivial = set()
    for cs, obs in zip(cases, allobs):
        for o in cs["ops"]:
            opcount[o["op"]] = opcount.get(o["op"], 0) + 1
        for k, v in cs["_kinds"].items() if "_kinds" in cs else []:
            kinds[k] = kinds.get(k, 0) + v
        if "_nk" in cs:
            sizes[cs["_nk"]] = sizes.get(cs["_nk"], 0) + 1
        panics += sum(1 for ob in obs if ob == [999])
        # non-trivial: some merge reported new signatures and some merge reported an invalid signature or no increase
        merges = [ob for o, ob in zip(cs["ops"], obs) if o["op"] in ("merge", "msparse", "mfrom") and len(ob) == 4]
        if any(m[1] == 1 for m in merges) and any(m[0] == 0 or m[1] == 0 for m in merges):
            nontrivial.add(json.dumps(strip(cs), sort_keys=True))
    c.samples = [{"case": strip(cs), "observations": ob} for cs, ob in list(zip(cases, allobs))[:2]] + c.samples
    c.coverage.update({
        "evaluations": sum(len(o) for o in allobs),
        "cases": len(cases),
        "distinct_nontrivial": len(nontrivial),
        "rule": "non-trivial = a case in which some merge added signatures and some merge was rejected/idempotent; every operation's "
                "observation is compared with the model (vm_compute in coqc) and judged by the Coq monitor C13m.c13_mon",
        "traces_validated_against_impl": len(allobs),
        "op_distribution": opcount,
        "sparse_entry_kinds": kinds,
        "key_set_sizes": {str(k): v for k, v in sorted(sizes.items())},
        "duplicate_key_cases": sum(1 for cs in cases if cs.get("_dup")),
        "expected_constructor_panics_observed": panics,
        "correspondence_disagreements": len(corr_bad),
        "monitor_failures_on_impl": len(mon_bad),
    })
    c.coverage.update(bls_cov)
    c.coverage.update(tree_cov)
    c.coverage.update(fin_cov)
    c.coverage.update(cpf_cov)
    c.finish()
