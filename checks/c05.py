"""C05 - Only authentic votes enter views, stores and gossip (DESIGN 4, mirror kernel)."""
import vcheck
import mirrorlib

META = {
    "engine": "coq+correspondence",
    "technique": "Coq invariant proof over all operation histories of an executable mirror-kernel model (authenticity invariant, "
                 "all-invalid no-op); model tied to the real mirror by differential correspondence + Coq monitors on its observations",
    "level": "P/partial. Proved for every reachable state of the sequential mirror model: every signature in the committing, voting "
             "and next-round view is a genuine signature by the validator at that index of the view's set for exactly the kind/height/"
             "round/hash it is filed under; a message with no admissible signature leaves views and all stores unchanged and is never "
             "reported accepted/verified. With the LOCAL validator's own actions (Properties/C05Act.v): authenticity over every "
             "history of messages, crashes, restarts, entrances and the state machine's own votes/proposals with any signature "
             "bytes (no hypothesis: AddSignature verifies); the chain invariant and the commit certificates under the hypothesis "
             "that the state machine's own proposed header is well formed (necessary: refuted without it). Partial: round-store and gossip authenticity are checked by the monitor on every run (the "
             "store part for the voting/committing heights), concurrency of Handle* callers is outside the model.",
    "note": "Trusted: Coq kernel; ideal signatures; the hand model is only as good as the correspondence run (histories with real "
            "ed25519 signatures against the real mirror on every run); translator for FindView/enums. No axioms.",
    "design_ref": "DESIGN.md 4 (C01/C04/C05/C07)",
}


def main(argv):
    c = vcheck.Check("C05", argv)
    mirrorlib.mirror_check(c, ["C05", "C05Act"], ["c05", "noop"], "C05 authenticity", templates=[13])  # 13: a previous-commit proof whose second entry mixes an authentic precommit with a junk signature
    # the local validator's own votes and proposals (kernel.go handleStateMachineAction, Properties/C05Act.v): the harness
    # acts as a state machine with a key (a validator, a key outside the set, none) and hands the real mirror timely, late,
    # duplicate and wrongly signed votes; model and implementation are compared step by step and the c05 monitor judges
    # the views and the round store the real mirror ends up with
    cases, _crashes, results = mirrorlib.mirror_check(c, "C05", ["c05"], "C05 authenticity with the local validator's own votes",
                                                      quick=(20, 45), thorough=(200, 50), extra=["-consumers", "-crashes"], prove=False,
                                                      templates=[7])   # 7 = a round with the local validator's own proposal and votes
    # known finding local-ph-unchecked, re-observed on every run: the harness hands the real mirror, as the state machine's
    # own proposal, a header whose block hash is wrong (witness of C05Act_local_ph_keeps_chain_invariant_refuted); the model
    # files it unchecked, and where model and real mirror agree on that step's observation the real kernel filed it too
    import re
    unchecked = 0
    for k in cases or []:
        r = (results or {}).get(k["idx"])
        if not r or r.get("corr") not in (None, "None"):
            continue
        for op, res, obs in k["steps"]:
            if re.match(r"\(MAct \(MActPH \(mk_ph \(mk_hdr \S+ false ", op) or re.match(r"\(MActPH \(mk_ph \(mk_hdr \S+ false ", op):
                unchecked += 1
                if unchecked == 1:
                    c.report("local-ph-unchecked", "the real kernel files the state machine's own proposed header although its block hash is wrong "
                             "(no check of HandleProposedHeader applies to local actions)",
                             {"batch_seed": k["batch_seed"], "batch_case": k["batch_idx"], "operation": op[:1200],
                              "how": "bin/h_mirror -replay -consumers -seed %d -cases %d -ops 45" % (k["batch_seed"], k["batch_idx"] + 1)})
    c.coverage["local_proposals_with_wrong_hash_filed"] = unchecked
    c.finish()
