"""C05 - Only authentic votes enter views, stores and gossip (DESIGN 4, mirror kernel)."""
import vcheck
import mirrorlib

META = {
    "engine": "coq+correspondence",
    "technique": "Coq invariant proof over all operation histories of an executable mirror-kernel model (authenticity invariant, "
                 "all-invalid no-op); model tied to the real mirror by differential correspondence + Coq monitors on its observations",
    "level": "P/partial. Proved for every reachable state of the sequential mirror model: every signature in the committing, voting "
             "and next-round view is a genuine signature by the validator at that index of the view's set for exactly the kind/height/"
             "round/hash it is filed under; a message with no admissible signature leaves views and all stores unchanged and is never "
             "reported accepted/verified. Partial: round-store and gossip authenticity are checked by the monitor on every run (the "
             "store part for the voting/committing heights), concurrency of Handle* callers is outside the model.",
    "note": "Trusted: Coq kernel; ideal signatures; the hand model is only as good as the correspondence run (histories with real "
            "ed25519 signatures against the real mirror on every run); translator for FindView/enums. No axioms.",
    "design_ref": "DESIGN.md 4 (C01/C04/C05/C07)",
}


def main(argv):
    c = vcheck.Check("C05", argv)
    mirrorlib.mirror_check(c, "C05", ["c05", "noop"], "C05 authenticity")
    c.finish()
