"""C01 - A header is committed only on a valid >2/3 precommit certificate (DESIGN 4, mirror kernel)."""
import vcheck
import mirrorlib

META = {
    "engine": "coq+correspondence",
    "technique": "Coq invariant proof over all operation histories of the mirror-kernel model (authenticity + summary = "
                 "recomputation + chain invariant => every committed-header store entry carries a certificate by the chain-"
                 "prescribed validator set); differential correspondence with the real mirror + certificate monitor on its stores",
    "level": "P/partial. Proved for every reachable state of the sequential mirror model: each committed-header store entry, and "
             "the committing header (its newest entry), carries genuine precommits for exactly its height/round/hash by distinct "
             "members of the chain-prescribed validator set with power >= ByzantineMajority. Partial: the header-replay path and "
             "the hand-off to the state machine are not yet in the model (replay is exercised by the harness only); sums of "
             "powers are modelled with their uint64 wrap; concurrency of callers is outside the model.",
    "note": "Trusted: Coq kernel; ideal signatures; correspondence harness on the real mirror; translator for thresholds and "
            "FindView. No axioms.",
    "design_ref": "DESIGN.md 4 (C01/C04/C05/C07)",
}


def main(argv):
    c = vcheck.Check("C01", argv)
    mirrorlib.mirror_check(c, "C01", ["c01"], "C01 commit certificate")
    c.finish()
