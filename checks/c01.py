"""C01 - A header is committed only on a valid >2/3 precommit certificate (DESIGN 4, mirror kernel)."""
import vcheck
import mirrorlib

META = {
    "engine": "coq+correspondence",
    "technique": "Coq invariant proof over all operation histories of the mirror-kernel model (authenticity + summary = "
                 "recomputation + chain invariant => every committed-header store entry carries a certificate by the chain-"
                 "prescribed validator set); differential correspondence with the real mirror + certificate monitor on its stores",
    "level": "P/partial. Proved for every reachable state of the sequential mirror model (proposed headers, prevotes, precommits and "
             "replayed headers, any history): each committed-header store entry, and the committing header (its newest entry), carries "
             "genuine precommits for exactly its height/round/hash by distinct members of the chain-prescribed validator set with power "
             ">= ByzantineMajority of that set; the summary the commit decision reads is the recomputation from the view's own proofs. "
             "Monitored on every run against the real mirror (certificate recomputed from the observed stores with the chain's sets). "
             "Partial: the hand-off to the state machine is C08's model; sums of powers are modelled with their uint64 wrap; concurrent "
             "callers are outside the model. The generated histories include crashes after every store write, restarts, and a "
             "fork attempt by a Byzantine majority (template 9).",
    "note": "Trusted: Coq kernel; ideal signatures; correspondence harness on the real mirror; translator for thresholds and "
            "FindView. No axioms.",
    "design_ref": "DESIGN.md 4 (C01/C04/C05/C07)",
}


def main(argv):
    c = vcheck.Check("C01", argv)
    mirrorlib.mirror_check(c, "C01", ["c01", "c06"], "C01 commit certificate", extra=["-crashes"], templates=[9, 12])  # 12: replays two rounds ahead (genuine, and with next-round signatures); c06: the totals the commit decision reads are the recomputation (C01_decision_reads_recomputed_powers)
    c.finish()
