"""C08 - The round state machine follows the Tendermint round rules, forwards only."""
import vcheck
import sm_common as S

META = {
    "engine": "coq+translator+correspondence",
    "technique": "Coq theorems over an executable model of tmstate.StateMachine (all states, all events: a compositional output logic), "
                 "thresholds and GetStepFromVoteSummary regenerated from the source by the translator; differential correspondence of "
                 "the model with the REAL state machine on model-walked event histories; boolean monitors evaluated inside coqc on the "
                 "implementation's observations",
    "level": "Partial. Proved for every state and event of the model: finalize requests only from a committed-header replay or for the most "
             "voted precommit block of the event's view with a >2/3 quorum (or a late header in commit wait); causes of every round / height "
             "change; entered rounds strictly increase; every signature, save and timer refers to the current round; vote targets only from "
             "the strategy's answers. Refuted on the faithful model and reproduced on the code (known findings): finalize without quorum after "
             "a committed-header response, missing precommit decision after a prevote quorum seen first, five honest histories that panic. "
             "Over ALL event histories (Properties/C08Once.v): the step never decreases within a round; the precommit decision and the "
             "final prevote choice are requested at most once per round; consider requests classified (per larger header set / block data), "
             "none after the prevote was signed; rounds entered strictly increase across a lifetime (no-wrap guard). Refuted with witnesses "
             "(not yet replayed on the code): a finalize request at most once per height / per round in one lifetime.",
    "note": "Trusted: Coq kernel, translator (cross-checked through the correspondence), harness/sm and the quiescence protocol, Go channel semantics. "
            "The 100 ms blocked-send panics and the consensus-manager hand-off timing are outside the model.",
    "design_ref": "DESIGN.md 4 (C08/C02), design/C08.md",
}

CLAUSES = ["c08_targets", "c08_rounds", "c08_finalize", "c08_once_per_round", "sm_responsive", "c08_stale_view_inert",
           "c08_height_after_fin"]


def classify(name, evs, fl):
    if name == "c08_finalize" and any(e[0] == 4 for e in evs) and fl.get("model:" + name) is False:
        return "finalize-after-catchup-view-without-quorum"
    return name


ONCE_WITNESSES = {
    101: ("finalize-request-repeated-by-every-view-after-catchup",
          "after a round entrance answered with a committed header every view update of the new round that carries the proposed header "
          "makes the state machine ask the driver to finalize the same (height, round, block) again (rlc.VRV keeps the view of the round left)"),
    102: ("finalize-request-twice-per-height-after-jump-ahead-in-commit-wait",
          "a jump-ahead delivered during commit wait (the finalize request already made) enters the next round; its view holds the precommit "
          "quorum and beginCommit asks the driver to finalize the block a second time in the same height and lifetime"),
}


def run_once_witnesses(c, binary):
    """Replays the refutation witnesses of Properties/C08Once.v (Proofs/SMOnceFin.v) on the real code."""
    body = S.HEADER.replace("Model.SMWalk.", "Model.SMWalk Proofs.SMWitness Proofs.SMOnceFin.") + (
        "Definition ws : list (N * list event) := [(101, w_fin_round); (102, w_fin_height)].\n"
        "Definition rep := Eval vm_compute in\n"
        "  map (fun w => (fst w, combine (map enc_event (snd w)) (map project (run_events (sm0 true) (snd w))))) ws.\n"
        "Print rep.\n")
    ok, txt = c.coq_eval("sm_once_witness_c08", body)
    val = S.parse_coq_value(txt, "rep") if ok else None
    if val is None:
        c.fail_obligation("once-witness-eval", txt[-1500:])
        return
    traces = [w[1] for w in val]
    impl, _ = S.run_harness(c, binary, [(1, [])] * len(traces), traces)
    seen = []
    for (wid, tr), im in zip(val, impl):
        key, text = ONCE_WITNESSES[wid]
        d = S.first_diff(tr, im)
        if d is not None:
            c.notes.append("witness %d (%s): implementation differs from the model at event %d" % (wid, key, d))
            continue
        seen.append(key)
        c.report(key, text, {"witness": wid, "how": "bin/h_sm < replay input", "harness_input": S.harness_input(1, tr),
                             "trace": S.render(tr, im)})
    c.coverage["once_witnesses_reproduced"] = seen


def main(argv):
    c = vcheck.Check("C08", argv)
    c.trusted += ["translator /verif/translate for tm/tmconsensus/math.go and tmstate/internal/tsi/step.go",
                  "Go harness /verif/harness/sm (scripted mirror/driver/strategy/timer, quiescence by barrier hand-offs) and the "
                  "evaluation of Model/SMWalk.v, Model/StateMachine.v, Monitors/SMm.v inside coqc (vm_compute)"]
    c.assumes += ["the mirror's views grow monotonically and it sends no view for a round it answered with a committed header "
                  "(otherwise: known finding finalize-after-catchup-view-without-quorum)",
                  "the strategy answers before the next request to the consensus manager is due (no 100 ms blocked-send panic)"]
    c.grep_gate()
    tok, binary = S.prepare(c)
    proved = tok and c.prove("C08") and c.prove("C08Inv") and c.prove("C08Once")
    if binary is None:
        c.finish()
    n, steps = (48, 40) if c.tier == "quick" else (400, 60)
    S.walked(c, "C08", binary, "c08", n, steps, CLAUSES, classify)
    S.run_scenarios(c, binary, "c08", CLAUSES, classify)
    S.run_witnesses(c, binary, "C08")
    if proved:
        run_once_witnesses(c, binary)
    if not proved and not c.violations:
        b = getattr(c, "broken", {"file": "?", "log": ""})
        c.fail_obligation("Properties/C08.v (%s)" % b["file"], b["log"])
    c.finish()
