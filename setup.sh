#!/bin/bash
# Offline setup: build translator, regenerate coq/Gen from /repo, full Coq build, build harness binaries.
set -e
cd "$(dirname "$0")"
export GOFLAGS=-mod=mod GOPROXY=off
unset GOTOOLCHAIN GOSUMDB
mkdir -p bin evidence replays coq/Cases coq/Gen
(cd translate && GOTOOLCHAIN=local go build -o ../bin/translate .)
./bin/translate -repo "${VERIF_REPO:-/repo}" -cfg translate/targets.json -out coq
(cd coq && coq_makefile -f _CoqProject -o Makefile >/dev/null && timeout 3000 make -j16 2>&1 | grep -v "^Closed under\|^COQC\|^COQDEP" || true)
(cd coq && make -j16 >/dev/null)
cp "${VERIF_REPO:-/repo}/go.sum" harness/go.sum
(cd harness && for d in */; do d=${d%/}; [ -f "$d/main.go" ] && go build -tags verif -o ../bin/h_$d ./$d; done)
echo "setup ok"
