#!/bin/bash
# Offline setup: build translator, regenerate coq/Gen from the repo, full Coq build, build harness binaries.
set -e
cd "$(dirname "$0")"
export GOFLAGS=-mod=mod GOPROXY=off
unset GOTOOLCHAIN GOSUMDB
REPO_DIR="${VERIF_REPO:-/repo}"
mkdir -p bin evidence replays coq/Cases coq/Gen
(cd translate && GOTOOLCHAIN=local go build -o ../bin/translate .)
./bin/translate -repo "$REPO_DIR" -cfg translate/targets.d -out coq
python3 lib/mkcoqproject.py
(cd coq && coq_makefile -f _CoqProject -o Makefile >/dev/null && (timeout 3000 make -j16 2>&1 | grep -v "^Closed under\|^COQC\|^COQDEP\|^Axioms:\|^  " || true) && make -j16 >/dev/null)
sed "s#@REPO@#$REPO_DIR#" harness/go.mod.in > harness/go.mod
cp "$REPO_DIR/go.sum" harness/go.sum
(cd harness && for d in */; do d=${d%/}; if [ -f "$d/main.go" ]; then go build -tags verif -o ../bin/h_$d ./$d; fi; done)
echo "setup ok"
