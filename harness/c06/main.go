// Harness for C06 (pure part): for every case read from stdin it builds REAL
// SimpleCommonMessageSignatureProof maps (real ed25519 signatures over the real
// vote sign bytes) and runs the real VoteSummary methods, the real
// GetStepFromVoteSummary and the mirror kernel's newVoteDistribution on them.
//
// input line : id|p0,p1,...|K|hex:mask;hex:mask|hex:mask;...
//
//	powers of the validators handed to the summary (len n), K >= n = number of
//	keys the proofs are built over, then prevote and precommit entries
//	(target hash in hex, "-" for the nil block, signer bitmask in decimal).
//
// output line: id|avail|totPV|totPC|hex=pow,..|hex=pow,..|mostPV|mostPC|step|davail,dpresent,hex=pow..|davail,dpresent,hex=pow..
package main

import (
	"bufio"
	"context"
	"encoding/hex"
	"fmt"
	"os"
	"sort"
	"strconv"
	"strings"

	"github.com/gordian-engine/gordian/gcrypto"
	"github.com/gordian-engine/gordian/tm/tmconsensus"
	"github.com/gordian-engine/gordian/tm/tmconsensus/tmconsensustest"
	"github.com/gordian-engine/gordian/tm/tmengine"
)

const maxKeys = 24

func hexOrDash(s string) string {
	if s == "" {
		return "-"
	}
	return hex.EncodeToString([]byte(s))
}

func fmtMap(m map[string]uint64) string {
	var ks []string
	for k := range m {
		ks = append(ks, k)
	}
	sort.Strings(ks)
	var out []string
	for _, k := range ks {
		out = append(out, fmt.Sprintf("%s=%d", hexOrDash(k), m[k]))
	}
	if len(out) == 0 {
		return "."
	}
	return strings.Join(out, ",")
}

type entry struct {
	hash string
	mask uint64
}

func parseEntries(s string) []entry {
	var out []entry
	if s == "" || s == "." {
		return out
	}
	for _, e := range strings.Split(s, ";") {
		hm := strings.SplitN(e, ":", 2)
		var h string
		if hm[0] != "-" {
			b, err := hex.DecodeString(hm[0])
			if err != nil {
				panic(err)
			}
			h = string(b)
		}
		m, err := strconv.ParseUint(hm[1], 10, 64)
		if err != nil {
			panic(err)
		}
		out = append(out, entry{h, m})
	}
	return out
}

func voteMap(es []entry, k int) map[string][]int {
	vm := make(map[string][]int, len(es))
	for _, e := range es {
		idxs := []int{}
		for i := 0; i < k; i++ {
			if e.mask&(1<<uint(i)) != 0 {
				idxs = append(idxs, i)
			}
		}
		vm[e.hash] = idxs
	}
	return vm
}

func step(vs tmconsensus.VoteSummary) (s string) {
	defer func() {
		if r := recover(); r != nil {
			s = "P"
		}
	}()
	return strconv.Itoa(int(tmengine.VerifGetStepFromVoteSummary(vs)))
}

func dist(proofs map[string]gcrypto.CommonMessageSignatureProof, vals []tmconsensus.Validator) string {
	a, p, b := tmengine.VerifNewVoteDistribution(proofs, vals)
	return fmt.Sprintf("%d,%d,%s", a, p, fmtMap(b))
}

func main() {
	if len(os.Args) > 1 && os.Args[1] == "mirror" {
		mirrorMain()
		return
	}
	ctx := context.Background()
	pool := tmconsensustest.DeterministicValidatorsEd25519(maxKeys)
	sc := bufio.NewScanner(os.Stdin)
	sc.Buffer(make([]byte, 1<<20), 1<<24)
	w := bufio.NewWriter(os.Stdout)
	defer w.Flush()
	for sc.Scan() {
		line := sc.Text()
		if line == "" {
			continue
		}
		f := strings.Split(line, "|")
		if len(f) != 5 {
			fmt.Fprintf(w, "%s|BADLINE\n", f[0])
			continue
		}
		var powers []uint64
		if f[1] != "" {
			for _, p := range strings.Split(f[1], ",") {
				v, err := strconv.ParseUint(p, 10, 64)
				if err != nil {
					panic(err)
				}
				powers = append(powers, v)
			}
		}
		k, _ := strconv.Atoi(f[2])
		if k > maxKeys || k < len(powers) {
			fmt.Fprintf(w, "%s|BADK\n", f[0])
			continue
		}
		fx := tmconsensustest.NewEd25519Fixture(0)
		fx.PrivVals = make(tmconsensustest.PrivVals, k)
		copy(fx.PrivVals, pool[:k])
		for i := range fx.PrivVals {
			if i < len(powers) {
				fx.PrivVals[i].Val.Power = powers[i]
			} else {
				fx.PrivVals[i].Val.Power = 1
			}
		}
		vals := fx.Vals()[:len(powers)]
		pv := fx.PrevoteProofMap(ctx, 1, 0, voteMap(parseEntries(f[3]), k))
		pc := fx.PrecommitProofMap(ctx, 1, 0, voteMap(parseEntries(f[4]), k))

		vs := tmconsensus.NewVoteSummary()
		// Pre-populate with garbage so that the "clear and recompute" behaviour is exercised.
		vs.PrevoteBlockPower["stale"] = 77
		vs.PrecommitBlockPower["stale"] = 78
		vs.TotalPrevotePower, vs.TotalPrecommitPower, vs.AvailablePower = 5, 6, 7
		vs.SetAvailablePower(vals)
		vs.SetVotePowers(vals, pv, pc)
		// A second, independent computation through the single-kind entry points on a clone.
		vs2 := vs.Clone()
		vs2.SetPrecommitPowers(vals, pc)
		vs2.SetPrevotePowers(vals, pv)
		stable := "1"
		if fmtMap(vs2.PrevoteBlockPower) != fmtMap(vs.PrevoteBlockPower) || fmtMap(vs2.PrecommitBlockPower) != fmtMap(vs.PrecommitBlockPower) ||
			vs2.TotalPrevotePower != vs.TotalPrevotePower || vs2.TotalPrecommitPower != vs.TotalPrecommitPower ||
			vs2.MostVotedPrevoteHash != vs.MostVotedPrevoteHash || vs2.MostVotedPrecommitHash != vs.MostVotedPrecommitHash {
			stable = "0"
		}
		fmt.Fprintf(w, "%s|%d|%d|%d|%s|%s|%s|%s|%s|%s|%s|%s\n", f[0],
			vs.AvailablePower, vs.TotalPrevotePower, vs.TotalPrecommitPower,
			fmtMap(vs.PrevoteBlockPower), fmtMap(vs.PrecommitBlockPower),
			hexOrDash(vs.MostVotedPrevoteHash), hexOrDash(vs.MostVotedPrecommitHash),
			step(vs), dist(pv, vals), dist(pc, vals), stable)
	}
}
