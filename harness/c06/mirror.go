package main

// Mirror mode: one scenario per input line.  A fresh REAL mirror (memstores, genesis validator
// set with the given powers, real ed25519 keys) receives ONE vote message carrying the whole
// vote multiset for (height 1, round 0 or 1); afterwards the voting view is read back.
//
// input : id|p0,p1,..|pv or pc|round|hex:mask;hex:mask            (one message)
//         id|p0,p1,..|pv,round,entries/pc,round,entries/...       (a history; one output line "id.step|..." per message)
// output: id|result|H|R|avail|totPV|totPC|pvBlock|pcBlock|mostPV|mostPC|pvProofs|pcProofs
//         (proofs of the voting view as hex:mask;... , masks recomputed from SignatureBitSet)

import (
	"bufio"
	"context"
	"fmt"
	"io"
	"log/slog"
	"os"
	"sort"
	"strconv"
	"strings"
	"time"

	"github.com/bits-and-blooms/bitset"
	"github.com/gordian-engine/gordian/gassert/gasserttest"
	"github.com/gordian-engine/gordian/gcrypto"
	"github.com/gordian-engine/gordian/gwatchdog"
	"github.com/gordian-engine/gordian/tm/tmconsensus"
	"github.com/gordian-engine/gordian/tm/tmconsensus/tmconsensustest"
	"github.com/gordian-engine/gordian/tm/tmengine"
	"github.com/gordian-engine/gordian/tm/tmstore/tmmemstore"
)

func proofMasks(m map[string]gcrypto.CommonMessageSignatureProof) string {
	var ks []string
	for k := range m {
		ks = append(ks, k)
	}
	sort.Strings(ks)
	var out []string
	var bs bitset.BitSet
	for _, k := range ks {
		m[k].SignatureBitSet(&bs)
		var mask uint64
		for i, ok := bs.NextSet(0); ok && i < 64; i, ok = bs.NextSet(i + 1) {
			mask |= 1 << i
		}
		out = append(out, fmt.Sprintf("%s:%d", hexOrDash(k), mask))
	}
	if len(out) == 0 {
		return "."
	}
	return strings.Join(out, ";")
}

type message struct {
	prevote bool
	round   uint32
	entries []entry
}

// runMessages builds a fresh real mirror for the given powers, delivers the messages in order and
// returns one observation line per message (the voting view read back after it).
func runMessages(pool tmconsensustest.PrivVals, id string, powersField string, msgs []message) []string {
	ctx, cancel := context.WithCancel(context.Background())
	defer cancel()

	var powers []uint64
	for _, p := range strings.Split(powersField, ",") {
		v, err := strconv.ParseUint(p, 10, 64)
		if err != nil {
			panic(err)
		}
		powers = append(powers, v)
	}
	n := len(powers)
	fx := tmconsensustest.NewEd25519Fixture(0)
	fx.PrivVals = make(tmconsensustest.PrivVals, n)
	copy(fx.PrivVals, pool[:n])
	for i := range fx.PrivVals {
		fx.PrivVals[i].Val.Power = powers[i]
	}

	log := slog.New(slog.NewTextHandler(io.Discard, nil))
	wd, _ := gwatchdog.NewNopWatchdog(ctx, log)
	cfg := tmengine.VerifC06MirrorConfig{
		Store:                tmmemstore.NewMirrorStore(),
		CommittedHeaderStore: tmmemstore.NewCommittedHeaderStore(),
		RoundStore:           tmmemstore.NewRoundStore(),
		ValidatorStore:       tmmemstore.NewValidatorStore(fx.HashScheme),

		InitialHeight:       1,
		InitialValidatorSet: fx.ValSet(),

		HashScheme:                        fx.HashScheme,
		SignatureScheme:                   fx.SignatureScheme,
		CommonMessageSignatureProofScheme: fx.CommonMessageSignatureProofScheme,

		Watchdog:  wd,
		AssertEnv: gasserttest.DefaultEnv(),
	}
	m, err := tmengine.VerifC06NewMirror(ctx, log, cfg)
	if err != nil {
		return []string{fmt.Sprintf("%s|ERR %v", id, err)}
	}
	defer func() {
		cancel()
		m.Wait()
		wd.Wait()
	}()

	keyHash, _ := fx.ValidatorHashes()
	var out []string
	for step, msg := range msgs {
		sid := id
		if len(msgs) > 1 {
			sid = fmt.Sprintf("%s.%d", id, step)
		}
		vm := voteMap(msg.entries, n)
		var res tmconsensus.HandleVoteProofsResult
		hctx, hcancel := context.WithTimeout(ctx, 5*time.Second)
		if msg.prevote {
			res = m.HandlePrevoteProofs(hctx, tmconsensus.PrevoteSparseProof{
				Height: 1, Round: msg.round, PubKeyHash: keyHash,
				Proofs: fx.SparsePrevoteProofMap(ctx, 1, msg.round, vm),
			})
		} else {
			res = m.HandlePrecommitProofs(hctx, tmconsensus.PrecommitSparseProof{
				Height: 1, Round: msg.round, PubKeyHash: keyHash,
				Proofs: fx.SparsePrecommitProofMap(ctx, 1, msg.round, vm),
			})
		}
		var vrv tmconsensus.VersionedRoundView
		err := m.VotingView(hctx, &vrv)
		hcancel()
		if err != nil {
			out = append(out, fmt.Sprintf("%s|ERR voting view: %v", sid, err))
			return out
		}
		vs := vrv.VoteSummary
		out = append(out, fmt.Sprintf("%s|%d|%d|%d|%d|%d|%d|%s|%s|%s|%s|%s|%s", sid, res, vrv.Height, vrv.Round,
			vs.AvailablePower, vs.TotalPrevotePower, vs.TotalPrecommitPower,
			fmtMap(vs.PrevoteBlockPower), fmtMap(vs.PrecommitBlockPower),
			hexOrDash(vs.MostVotedPrevoteHash), hexOrDash(vs.MostVotedPrecommitHash),
			proofMasks(vrv.PrevoteProofs), proofMasks(vrv.PrecommitProofs)))
	}
	return out
}

func parseMessage(kind, round, ents string) message {
	r, _ := strconv.ParseUint(round, 10, 32)
	return message{prevote: kind == "pv", round: uint32(r), entries: parseEntries(ents)}
}

func mirrorMain() {
	pool := tmconsensustest.DeterministicValidatorsEd25519(maxKeys)
	sc := bufio.NewScanner(os.Stdin)
	sc.Buffer(make([]byte, 1<<20), 1<<24)
	w := bufio.NewWriter(os.Stdout)
	defer w.Flush()
	for sc.Scan() {
		line := sc.Text()
		if line == "" {
			continue
		}
		f := strings.Split(line, "|")
		var msgs []message
		switch {
		case len(f) == 5:
			// id|powers|pv or pc|round|entries
			msgs = []message{parseMessage(f[2], f[3], f[4])}
		case len(f) == 3:
			// history: id|powers|kind,round,entries/kind,round,entries/...
			for _, ms := range strings.Split(f[2], "/") {
				p := strings.SplitN(ms, ",", 3)
				if len(p) != 3 {
					continue
				}
				msgs = append(msgs, parseMessage(p[0], p[1], p[2]))
			}
		default:
			fmt.Fprintf(w, "%s|BADLINE\n", f[0])
			continue
		}
		for _, l := range runMessages(pool, f[0], f[1], msgs) {
			fmt.Fprintln(w, l)
		}
		w.Flush()
	}
}
