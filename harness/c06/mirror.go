package main

func mirrorMain() {}
