package main

// Mirror mode: one scenario per input line.  A fresh REAL mirror (memstores, genesis validator
// set with the given powers, real ed25519 keys) receives ONE vote message carrying the whole
// vote multiset for (height 1, round 0 or 1); afterwards the voting view is read back.
//
// input : id|p0,p1,..|pv or pc|round|hex:mask;hex:mask
// output: id|result|H|R|avail|totPV|totPC|pvBlock|pcBlock|mostPV|mostPC|pvProofs|pcProofs
//         (proofs of the voting view as hex:mask;... , masks recomputed from SignatureBitSet)

import (
	"bufio"
	"context"
	"fmt"
	"io"
	"log/slog"
	"os"
	"sort"
	"strconv"
	"strings"
	"time"

	"github.com/bits-and-blooms/bitset"
	"github.com/gordian-engine/gordian/gassert/gasserttest"
	"github.com/gordian-engine/gordian/gcrypto"
	"github.com/gordian-engine/gordian/gwatchdog"
	"github.com/gordian-engine/gordian/tm/tmconsensus"
	"github.com/gordian-engine/gordian/tm/tmconsensus/tmconsensustest"
	"github.com/gordian-engine/gordian/tm/tmengine"
	"github.com/gordian-engine/gordian/tm/tmstore/tmmemstore"
)

func proofMasks(m map[string]gcrypto.CommonMessageSignatureProof) string {
	var ks []string
	for k := range m {
		ks = append(ks, k)
	}
	sort.Strings(ks)
	var out []string
	var bs bitset.BitSet
	for _, k := range ks {
		m[k].SignatureBitSet(&bs)
		var mask uint64
		for i, ok := bs.NextSet(0); ok && i < 64; i, ok = bs.NextSet(i + 1) {
			mask |= 1 << i
		}
		out = append(out, fmt.Sprintf("%s:%d", hexOrDash(k), mask))
	}
	if len(out) == 0 {
		return "."
	}
	return strings.Join(out, ";")
}

func runScenario(pool tmconsensustest.PrivVals, f []string) string {
	ctx, cancel := context.WithCancel(context.Background())
	defer cancel()

	var powers []uint64
	for _, p := range strings.Split(f[1], ",") {
		v, err := strconv.ParseUint(p, 10, 64)
		if err != nil {
			panic(err)
		}
		powers = append(powers, v)
	}
	n := len(powers)
	fx := tmconsensustest.NewEd25519Fixture(0)
	fx.PrivVals = make(tmconsensustest.PrivVals, n)
	copy(fx.PrivVals, pool[:n])
	for i := range fx.PrivVals {
		fx.PrivVals[i].Val.Power = powers[i]
	}
	round64, _ := strconv.ParseUint(f[3], 10, 32)
	round := uint32(round64)

	log := slog.New(slog.NewTextHandler(io.Discard, nil))
	wd, _ := gwatchdog.NewNopWatchdog(ctx, log)
	cfg := tmengine.VerifC06MirrorConfig{
		Store:                tmmemstore.NewMirrorStore(),
		CommittedHeaderStore: tmmemstore.NewCommittedHeaderStore(),
		RoundStore:           tmmemstore.NewRoundStore(),
		ValidatorStore:       tmmemstore.NewValidatorStore(fx.HashScheme),

		InitialHeight:       1,
		InitialValidatorSet: fx.ValSet(),

		HashScheme:                        fx.HashScheme,
		SignatureScheme:                   fx.SignatureScheme,
		CommonMessageSignatureProofScheme: fx.CommonMessageSignatureProofScheme,

		Watchdog:  wd,
		AssertEnv: gasserttest.DefaultEnv(),
	}
	m, err := tmengine.VerifC06NewMirror(ctx, log, cfg)
	if err != nil {
		return fmt.Sprintf("%s|ERR %v", f[0], err)
	}
	defer func() {
		cancel()
		m.Wait()
		wd.Wait()
	}()

	keyHash, _ := fx.ValidatorHashes()
	vm := voteMap(parseEntries(f[4]), n)
	var res tmconsensus.HandleVoteProofsResult
	hctx, hcancel := context.WithTimeout(ctx, 5*time.Second)
	defer hcancel()
	if f[2] == "pv" {
		res = m.HandlePrevoteProofs(hctx, tmconsensus.PrevoteSparseProof{
			Height: 1, Round: round, PubKeyHash: keyHash,
			Proofs: fx.SparsePrevoteProofMap(ctx, 1, round, vm),
		})
	} else {
		res = m.HandlePrecommitProofs(hctx, tmconsensus.PrecommitSparseProof{
			Height: 1, Round: round, PubKeyHash: keyHash,
			Proofs: fx.SparsePrecommitProofMap(ctx, 1, round, vm),
		})
	}
	var vrv tmconsensus.VersionedRoundView
	if err := m.VotingView(hctx, &vrv); err != nil {
		return fmt.Sprintf("%s|ERR voting view: %v", f[0], err)
	}
	vs := vrv.VoteSummary
	return fmt.Sprintf("%s|%d|%d|%d|%d|%d|%d|%s|%s|%s|%s|%s|%s", f[0], res, vrv.Height, vrv.Round,
		vs.AvailablePower, vs.TotalPrevotePower, vs.TotalPrecommitPower,
		fmtMap(vs.PrevoteBlockPower), fmtMap(vs.PrecommitBlockPower),
		hexOrDash(vs.MostVotedPrevoteHash), hexOrDash(vs.MostVotedPrecommitHash),
		proofMasks(vrv.PrevoteProofs), proofMasks(vrv.PrecommitProofs))
}

func mirrorMain() {
	pool := tmconsensustest.DeterministicValidatorsEd25519(maxKeys)
	sc := bufio.NewScanner(os.Stdin)
	sc.Buffer(make([]byte, 1<<20), 1<<24)
	w := bufio.NewWriter(os.Stdout)
	defer w.Flush()
	for sc.Scan() {
		line := sc.Text()
		if line == "" {
			continue
		}
		f := strings.Split(line, "|")
		if len(f) != 5 {
			fmt.Fprintf(w, "%s|BADLINE\n", f[0])
			continue
		}
		fmt.Fprintln(w, runScenario(pool, f))
		w.Flush()
	}
}
