package main

// registry sub-command: the REAL gcrypto.Registry.Unmarshal (ed25519 registered under "ed25519" and a test type
// under the full-width prefix "c09type8") on hex byte strings from stdin, one per line ("-" = empty).
// stdout per line: "P" (panic) | "E" (error) | "K <len>" (a key was built by the registered constructor from <len> bytes)
//                  | "F <len>" (the registered constructor was reached with <len> bytes and returned an error)
// registry-one <hex>: one input without recover (exit status + stderr are the observation).

import (
	"bufio"
	"encoding/hex"
	"fmt"
	"os"

	"github.com/gordian-engine/gordian/gcrypto"
)

var reached int

func newRegistry() *gcrypto.Registry {
	var r gcrypto.Registry
	gcrypto.RegisterEd25519(&r)
	r.Register("c09type8", fakeKey{}, func(b []byte) (gcrypto.PubKey, error) {
		reached = len(b)
		return nil, fmt.Errorf("c09: fake type")
	})
	return &r
}

type fakeKey struct{ gcrypto.PubKey }

func unhex(s string) []byte {
	if s == "-" {
		return []byte{}
	}
	raw, err := hex.DecodeString(s)
	if err != nil {
		return nil
	}
	b := make([]byte, len(raw)) // cap == len: slicing beyond len must panic as the model says
	copy(b, raw)
	return b[:len(raw):len(raw)]
}

func unmarshalOnce(r *gcrypto.Registry, b []byte) (s string) {
	defer func() {
		if rec := recover(); rec != nil {
			s = "P"
		}
	}()
	reached = -1
	k, err := r.Unmarshal(b)
	if err != nil {
		if reached >= 0 {
			return fmt.Sprintf("F %d", reached)
		}
		return "E"
	}
	return fmt.Sprintf("K %d", len(k.PubKeyBytes()))
}

func registry() {
	r := newRegistry()
	sc := bufio.NewScanner(os.Stdin)
	sc.Buffer(make([]byte, 1<<20), 1<<20)
	w := bufio.NewWriter(os.Stdout)
	defer w.Flush()
	for sc.Scan() {
		fmt.Fprintln(w, unmarshalOnce(r, unhex(sc.Text())))
	}
}

func registryOne(a []string) {
	r := newRegistry()
	k, err := r.Unmarshal(unhex(a[0]))
	fmt.Println("result", k != nil, err)
}
