package main

// options sub-command: constructs the REAL tmengine.New / tmengine.NewMirror from generated option lists.
//
// stdin, one case per line:   <id> <N|M> <chain_init 0|1> <WithX>=<n|s|b|e>,<WithY>=...      ("-" for no options)
//   n = nil value, s = working value, b = value the option itself rejects, e = genesis with an empty validator set
// stdout: "B <id>" when the case starts (so that the driver can attribute a process crash), then one of
//   "<id> P <panic text>"            the constructor panicked (recovered in the calling goroutine)
//   "<id> E <WithA,WithB,...>"       error; the option names mentioned in its text, in order, de-duplicated
//   "<id> R <probe>"                 running instance; probe = feedback of one vote message through the shipped
//                                    mapper, or "wedged" / "stuck-shutdown"
// A panic in a background goroutine kills the process: exit status and stderr are the observation.

import (
	"bufio"
	"bytes"
	"context"
	"fmt"
	"io"
	"log/slog"
	"os"
	"regexp"
	"strings"
	"time"

	"github.com/gordian-engine/gordian/gassert/gasserttest"
	"github.com/gordian-engine/gordian/gcrypto"
	"github.com/gordian-engine/gordian/gwatchdog"
	"github.com/gordian-engine/gordian/tm/tmconsensus"
	"github.com/gordian-engine/gordian/tm/tmconsensus/tmconsensustest"
	"github.com/gordian-engine/gordian/tm/tmdriver"
	"github.com/gordian-engine/gordian/tm/tmengine"
	"github.com/gordian-engine/gordian/tm/tmengine/tmelink"
	"github.com/gordian-engine/gordian/tm/tmgossip"
	"github.com/gordian-engine/gordian/tm/tmgossip/tmgossiptest"
	"github.com/gordian-engine/gordian/tm/tmstore"
	"github.com/gordian-engine/gordian/tm/tmstore/tmmemstore"
)

// quietStrategy is a consensus strategy that never proposes and never votes.
type quietStrategy struct{}

func (quietStrategy) EnterRound(context.Context, tmconsensus.RoundView, chan<- tmconsensus.Proposal) error {
	return nil
}
func (quietStrategy) ConsiderProposedBlocks(context.Context, []tmconsensus.ProposedHeader, tmconsensus.ConsiderProposedBlocksReason) (string, error) {
	return "", tmconsensus.ErrProposedBlockChoiceNotReady
}
func (quietStrategy) ChooseProposedBlock(context.Context, []tmconsensus.ProposedHeader) (string, error) {
	return "", nil
}
func (quietStrategy) DecidePrecommit(context.Context, tmconsensus.VoteSummary) (string, error) {
	return "", nil
}

// quietTimer satisfies the (internal) round timer interface structurally; its timers never elapse.
type quietTimer struct{}

func (quietTimer) ProposalTimer(context.Context, uint64, uint32) (<-chan struct{}, func()) {
	return make(chan struct{}), func() {}
}
func (quietTimer) PrevoteDelayTimer(context.Context, uint64, uint32) (<-chan struct{}, func()) {
	return make(chan struct{}), func() {}
}
func (quietTimer) PrecommitDelayTimer(context.Context, uint64, uint32) (<-chan struct{}, func()) {
	return make(chan struct{}), func() {}
}
func (quietTimer) CommitWaitTimer(context.Context, uint64, uint32) (<-chan struct{}, func()) {
	return make(chan struct{}), func() {}
}

type world struct {
	ctx    context.Context
	fx     *tmconsensustest.Fixture
	ms     *tmmemstore.MirrorStore
	fs     *tmmemstore.FinalizationStore
	wd     *gwatchdog.Watchdog
	initCh chan tmdriver.InitChainRequest
}

var optNameRe = regexp.MustCompile(`With[A-Za-z]+`)

func (w *world) build(name, val string) (tmengine.Opt, bool) {
	nilv := val == "n"
	switch name {
	case "WithConsensusStrategy":
		if nilv {
			return tmengine.WithConsensusStrategy(nil), true
		}
		return tmengine.WithConsensusStrategy(quietStrategy{}), true
	case "WithGossipStrategy":
		if nilv {
			return tmengine.WithGossipStrategy(nil), true
		}
		var gs tmgossip.Strategy = tmgossiptest.NopStrategy{}
		return tmengine.WithGossipStrategy(gs), true
	case "WithActionStore":
		if nilv {
			return tmengine.WithActionStore(nil), true
		}
		return tmengine.WithActionStore(tmmemstore.NewActionStore()), true
	case "WithCommittedHeaderStore":
		if nilv {
			return tmengine.WithCommittedHeaderStore(nil), true
		}
		return tmengine.WithCommittedHeaderStore(tmmemstore.NewCommittedHeaderStore()), true
	case "WithFinalizationStore":
		if nilv {
			return tmengine.WithFinalizationStore(nil), true
		}
		return tmengine.WithFinalizationStore(w.fs), true
	case "WithMirrorStore":
		if nilv {
			return tmengine.WithMirrorStore(nil), true
		}
		return tmengine.WithMirrorStore(w.ms), true
	case "WithRoundStore":
		if nilv {
			return tmengine.WithRoundStore(nil), true
		}
		return tmengine.WithRoundStore(tmmemstore.NewRoundStore()), true
	case "WithStateMachineStore":
		if nilv {
			return tmengine.WithStateMachineStore(nil), true
		}
		return tmengine.WithStateMachineStore(tmmemstore.NewStateMachineStore()), true
	case "WithValidatorStore":
		if nilv {
			return tmengine.WithValidatorStore(nil), true
		}
		var vs tmstore.ValidatorStore = w.fx.NewMemValidatorStore()
		return tmengine.WithValidatorStore(vs), true
	case "WithSignatureScheme":
		if nilv {
			return tmengine.WithSignatureScheme(nil), true
		}
		return tmengine.WithSignatureScheme(w.fx.SignatureScheme), true
	case "WithHashScheme":
		if nilv {
			return tmengine.WithHashScheme(nil), true
		}
		return tmengine.WithHashScheme(w.fx.HashScheme), true
	case "WithCommonMessageSignatureProofScheme":
		if nilv {
			return tmengine.WithCommonMessageSignatureProofScheme(nil), true
		}
		return tmengine.WithCommonMessageSignatureProofScheme(w.fx.CommonMessageSignatureProofScheme), true
	case "WithSigner":
		if nilv {
			return tmengine.WithSigner(nil), true
		}
		return tmengine.WithSigner(tmconsensus.PassthroughSigner{
			Signer:          w.fx.PrivVals[0].Signer,
			SignatureScheme: w.fx.SignatureScheme,
		}), true
	case "WithGenesis":
		if nilv {
			return tmengine.WithGenesis(nil), true
		}
		eg := &tmconsensus.ExternalGenesis{
			ChainID:             "c09-chain",
			InitialHeight:       1,
			InitialAppState:     new(bytes.Buffer),
			GenesisValidatorSet: w.fx.ValSet(),
		}
		if val == "e" {
			eg.GenesisValidatorSet = tmconsensus.ValidatorSet{}
		}
		return tmengine.WithGenesis(eg), true
	case "WithInitChainChannel":
		if nilv {
			return tmengine.WithInitChainChannel(nil), true
		}
		return tmengine.WithInitChainChannel(w.initCh), true
	case "WithBlockFinalizationChannel":
		if nilv {
			return tmengine.WithBlockFinalizationChannel(nil), true
		}
		return tmengine.WithBlockFinalizationChannel(make(chan tmdriver.FinalizeBlockRequest, 1)), true
	case "WithBlockDataArrivalChannel":
		if nilv {
			return tmengine.WithBlockDataArrivalChannel(nil), true
		}
		return tmengine.WithBlockDataArrivalChannel(make(chan tmelink.BlockDataArrival)), true
	case "WithLagStateChannel":
		switch val {
		case "n":
			return tmengine.WithLagStateChannel(nil), true
		case "b":
			return tmengine.WithLagStateChannel(make(chan tmelink.LagState, 1)), true
		}
		ch := make(chan tmelink.LagState)
		go func() {
			for {
				select {
				case <-ch:
				case <-w.ctx.Done():
					return
				}
			}
		}()
		return tmengine.WithLagStateChannel(ch), true
	case "WithProposedHeaderInterceptor":
		if nilv {
			return tmengine.WithProposedHeaderInterceptor(nil), true
		}
		return tmengine.WithProposedHeaderInterceptor(tmelink.ProposedHeaderInterceptorFunc(
			func(context.Context, *tmconsensus.ProposedHeader) error { return nil })), true
	case "WithReplayedHeaderRequestChannel":
		if nilv {
			return tmengine.WithReplayedHeaderRequestChannel(nil), true
		}
		return tmengine.WithReplayedHeaderRequestChannel(make(chan tmelink.ReplayedHeaderRequest)), true
	case "WithInternalRoundTimer":
		if nilv {
			return tmengine.WithInternalRoundTimer(nil), true
		}
		return tmengine.WithInternalRoundTimer(quietTimer{}), true
	case "WithTimeoutStrategy":
		if nilv {
			return tmengine.WithTimeoutStrategy(w.ctx, nil), true
		}
		return tmengine.WithTimeoutStrategy(w.ctx, tmengine.LinearTimeoutStrategy{}), true
	case "WithWatchdog":
		if nilv {
			return tmengine.WithWatchdog(nil), true
		}
		return tmengine.WithWatchdog(w.wd), true
	case "WithMetricsChannel":
		switch val {
		case "n":
			return tmengine.WithMetricsChannel(nil), true
		case "b":
			ch := make(chan tmengine.Metrics, 1)
			ch <- tmengine.Metrics{}
			return tmengine.WithMetricsChannel(ch), true
		}
		ch := make(chan tmengine.Metrics)
		go func() {
			for {
				select {
				case <-ch:
				case <-w.ctx.Done():
					return
				}
			}
		}()
		return tmengine.WithMetricsChannel(ch), true
	case "WithAssertEnv":
		return tmengine.WithAssertEnv(gasserttest.DefaultEnv()), true
	}
	return nil, false
}

func errNames(err error) string {
	seen := map[string]bool{}
	var out []string
	for _, n := range optNameRe.FindAllString(err.Error(), -1) {
		if !seen[n] {
			seen[n] = true
			out = append(out, n)
		}
	}
	if len(out) == 0 {
		return "?" + strings.ReplaceAll(err.Error(), " ", "_")
	}
	return strings.Join(out, ",")
}

type waiter interface{ Wait() }

func probe(ctx context.Context, h tmconsensus.FineGrainedConsensusHandler) string {
	m := tmconsensus.AcceptAllValidFeedbackMapper{Handler: h}
	res := make(chan string, 1)
	go func() {
		defer func() {
			if r := recover(); r != nil {
				res <- "probe-panic"
			}
		}()
		f := m.HandlePrevoteProofs(ctx, tmconsensus.PrevoteSparseProof{
			Height: 1, Round: 0, PubKeyHash: "not-the-hash",
			Proofs: map[string][]gcrypto.SparseSignature{"": {{KeyID: []byte{0, 0}, Sig: []byte("x")}}},
		})
		res <- "Feedback" + f.String()
	}()
	select {
	case s := <-res:
		return s
	case <-time.After(5 * time.Second):
		return "wedged"
	}
}

func runCase(id, ctor string, chainInit bool, spec string) (line string) {
	ctx, cancel := context.WithCancel(context.Background())
	defer cancel()
	log := slog.New(slog.NewTextHandler(io.Discard, nil))
	wd, wctx := gwatchdog.NewNopWatchdog(ctx, log)
	w := &world{
		ctx: wctx, fx: tmconsensustest.NewEd25519Fixture(2),
		ms: tmmemstore.NewMirrorStore(), fs: tmmemstore.NewFinalizationStore(),
		wd: wd, initCh: make(chan tmdriver.InitChainRequest, 1),
	}
	if chainInit {
		_ = w.ms.SetNetworkHeightRound(ctx, 1, 0, 0, 0)
		_ = w.fs.SaveFinalization(ctx, 0, 0, "some_block_hash", w.fx.ValSet(), "some_app_state_hash")
	}
	go func() { // the driver side of InitChain
		select {
		case req := <-w.initCh:
			select {
			case req.Resp <- tmdriver.InitChainResponse{AppStateHash: []byte("app_state_0")}:
			case <-ctx.Done():
			}
		case <-ctx.Done():
		}
	}()
	var opts []tmengine.Opt
	if spec != "-" {
		for _, kv := range strings.Split(spec, ",") {
			p := strings.SplitN(kv, "=", 2)
			o, ok := w.build(p[0], p[1])
			if !ok {
				return id + " U " + p[0]
			}
			opts = append(opts, o)
		}
	}
	var h tmconsensus.FineGrainedConsensusHandler
	var wt waiter
	var err error
	panicked := func() (s string) {
		defer func() {
			if r := recover(); r != nil {
				s = strings.ReplaceAll(fmt.Sprint(r), "\n", " ")
				if len(s) > 100 {
					s = s[:100]
				}
				if s == "" {
					s = "panic"
				}
			}
		}()
		if ctor == "N" {
			e, err2 := tmengine.New(wctx, log, opts...)
			err = err2
			if err2 == nil {
				h, wt = e, e
			}
		} else {
			m, err2 := tmengine.NewMirror(wctx, log, opts...)
			err = err2
			if err2 == nil {
				h, wt = m, m
			}
		}
		return ""
	}()
	if panicked != "" {
		return id + " P " + panicked
	}
	if err != nil {
		return id + " E " + errNames(err)
	}
	pr := probe(wctx, h)
	cancel()
	done := make(chan struct{})
	go func() { wt.Wait(); close(done) }()
	select {
	case <-done:
	case <-time.After(5 * time.Second):
		pr += "+stuck-shutdown"
	}
	return id + " R " + pr
}

func options() {
	sc := bufio.NewScanner(os.Stdin)
	sc.Buffer(make([]byte, 1<<20), 1<<20)
	w := bufio.NewWriter(os.Stdout)
	defer w.Flush()
	for sc.Scan() {
		f := strings.Fields(sc.Text())
		if len(f) != 4 {
			continue
		}
		fmt.Fprintf(w, "B %s\n", f[0])
		w.Flush()
		fmt.Fprintln(w, runCase(f[0], f[1], f[2] == "1", f[3]))
		w.Flush()
	}
}
