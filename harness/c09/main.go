// Harness for C09 (non-kernel parts): drives the REAL feedback mappers, engine/mirror
// constructors and the public-key registry.  Sub-commands:
//
//	h_c09 mappers            every handler result 0..255 through both shipped mappers (6 methods)
//	h_c09 options            constructor cases from stdin (see options.go)
//	h_c09 registry           Registry.Unmarshal on hex byte strings from stdin
package main

import (
	"bufio"
	"context"
	"fmt"
	"os"
	"strings"

	"github.com/gordian-engine/gordian/gexchange"
	"github.com/gordian-engine/gordian/tm/tmconsensus"
)

// stub is a FineGrainedConsensusHandler returning fixed values.
type stub struct {
	ph   tmconsensus.HandleProposedHeaderResult
	vote tmconsensus.HandleVoteProofsResult
}

func (s stub) HandleProposedHeader(context.Context, tmconsensus.ProposedHeader) tmconsensus.HandleProposedHeaderResult {
	return s.ph
}
func (s stub) HandlePrevoteProofs(context.Context, tmconsensus.PrevoteSparseProof) tmconsensus.HandleVoteProofsResult {
	return s.vote
}
func (s stub) HandlePrecommitProofs(context.Context, tmconsensus.PrecommitSparseProof) tmconsensus.HandleVoteProofsResult {
	return s.vote
}

// full restores the prefix trimmed by stringer; an undefined value ("Type(n)") prints as "-".
func full(prefix, s string) string {
	if strings.Contains(s, "(") {
		return "-"
	}
	return prefix + s
}

func guard(f func() gexchange.Feedback) (s string) {
	defer func() {
		if r := recover(); r != nil {
			s = "P"
		}
	}()
	fb := f()
	n := full("Feedback", fb.String())
	if n == "-" {
		n = fmt.Sprintf("Feedback#%d", uint8(fb))
	}
	return n
}

// mappers prints, for v in 0..255:
//
//	"v phname votename aav_ph aav_prevote aav_precommit dd_ph dd_prevote dd_precommit"
//
// where phname/votename are the stringer names of the value as compiled into the real package
// (an undefined value prints as Type(v)), and each mapper column is the feedback value or P (panic).
func mappers() {
	w := bufio.NewWriter(os.Stdout)
	defer w.Flush()
	ctx := context.Background()
	for v := 0; v < 256; v++ {
		h := stub{ph: tmconsensus.HandleProposedHeaderResult(v), vote: tmconsensus.HandleVoteProofsResult(v)}
		var aav tmconsensus.ConsensusHandler = tmconsensus.AcceptAllValidFeedbackMapper{Handler: h}
		var dd tmconsensus.ConsensusHandler = tmconsensus.DropDuplicateFeedbackMapper{Handler: h}
		fmt.Fprintf(w, "%d %s %s", v, full("HandleProposedHeader", h.ph.String()), full("HandleVoteProofs", h.vote.String()))
		for _, m := range []tmconsensus.ConsensusHandler{aav, dd} {
			m := m
			fmt.Fprintf(w, " %s", guard(func() gexchange.Feedback { return m.HandleProposedHeader(ctx, tmconsensus.ProposedHeader{}) }))
			fmt.Fprintf(w, " %s", guard(func() gexchange.Feedback { return m.HandlePrevoteProofs(ctx, tmconsensus.PrevoteSparseProof{}) }))
			fmt.Fprintf(w, " %s", guard(func() gexchange.Feedback { return m.HandlePrecommitProofs(ctx, tmconsensus.PrecommitSparseProof{}) }))
		}
		fmt.Fprintln(w)
	}
}

func main() {
	if len(os.Args) < 2 {
		fmt.Fprintln(os.Stderr, "usage: h_c09 mappers|options|registry|mapper-one")
		os.Exit(2)
	}
	switch os.Args[1] {
	case "mappers":
		mappers()
	case "options":
		options()
	case "registry":
		registry()
	case "registry-one":
		registryOne(os.Args[2:])
	case "mapper-one":
		// replay of one witness WITHOUT recover: exit status and stderr are the observation
		mapperOne(os.Args[2:])
	default:
		fmt.Fprintln(os.Stderr, "unknown sub-command")
		os.Exit(2)
	}
}

// mapperOne <aav|dd> <ph|prevote|precommit> <value>: calls the real mapper once, no recover.
func mapperOne(a []string) {
	if len(a) != 3 {
		os.Exit(2)
	}
	var v int
	fmt.Sscanf(a[2], "%d", &v)
	h := stub{ph: tmconsensus.HandleProposedHeaderResult(v), vote: tmconsensus.HandleVoteProofsResult(v)}
	var m tmconsensus.ConsensusHandler = tmconsensus.AcceptAllValidFeedbackMapper{Handler: h}
	if a[0] == "dd" {
		m = tmconsensus.DropDuplicateFeedbackMapper{Handler: h}
	}
	ctx := context.Background()
	var f gexchange.Feedback
	switch a[1] {
	case "ph":
		f = m.HandleProposedHeader(ctx, tmconsensus.ProposedHeader{})
	case "prevote":
		f = m.HandlePrevoteProofs(ctx, tmconsensus.PrevoteSparseProof{})
	default:
		f = m.HandlePrecommitProofs(ctx, tmconsensus.PrecommitSparseProof{})
	}
	fmt.Printf("feedback %d %s\n", uint8(f), f.String())
}
