// Harness for C13 (commit proof hand-over): drives the REAL tsi.CommitProofFinalizer.Finalize (through the verif
// hook tmengine.VerifCommitProofFinalizer) with the real SimpleSignatureScheme and the real
// SimpleCommonMessageSignatureProofScheme, then rebuilds the FinalizedCommonMessageSignatureProof from the result
// the way tmmirror.HandleProposedHeader does (that reconstruction is re-implemented here, line by line, because it is
// inline in HandleProposedHeader; the mirror harness exercises the original) and calls the real ValidateFinalizedProof.
//
// One JSON case per line on stdin:
//
//	{"h":H,"round":R,"nkeys":N,"committed":[bytes],"pkh":[bytes],
//	 "proofs":[{"bh":[bytes],"sigs":[{"id":[bytes],"k":K,"over":[bytes],"junk":J}]}]}
//
// A signature with junk = 0 is the real ed25519 signature of validator k over the real PrecommitSignBytes(h, round, over);
// junk > 0 = bytes that verify under no key.  Output, one line per case:
//
//	"E <code>"                       Finalize returned an error: 1 / 2 = no / invalid signatures for the main block,
//	                                 3 = another block rejected (either reason; which one is met first depends on map order)
//	"P"                              Finalize panicked
//	"O <round> <n> {len bh.. nsigs {len id.. tok}*}*  V <u> <m> {len bh.. mask}*"
//	                                 entries sorted by block hash; tok = index of the signature among the case's signatures
//	                                 in input order (first occurrence), 999999 = unknown bytes; V part: 999 = panic,
//	                                 m = -1 for a nil map; masks as decimal numbers
package main

import (
	"bufio"
	"bytes"
	"crypto/ed25519"
	"crypto/sha256"
	"crypto/sha512"
	"encoding/json"
	"fmt"
	"math/big"
	"os"
	"sort"
	"strings"

	"github.com/gordian-engine/gordian/gcrypto"
	"github.com/gordian-engine/gordian/tm/tmconsensus"
	"github.com/gordian-engine/gordian/tm/tmconsensus/tmconsensustest"
	"github.com/gordian-engine/gordian/tm/tmengine"
)

type Sig struct {
	ID   []int `json:"id"`
	K    int   `json:"k"`
	Over []int `json:"over"`
	Junk int   `json:"junk"`
}

type Entry struct {
	BH   []int `json:"bh"`
	Sigs []Sig `json:"sigs"`
}

type Case struct {
	H         uint64  `json:"h"`
	Round     uint32  `json:"round"`
	NKeys     int     `json:"nkeys"`
	Committed []int   `json:"committed"`
	PKH       []int   `json:"pkh"`
	Proofs    []Entry `json:"proofs"`
}

func bs(xs []int) []byte {
	b := make([]byte, len(xs))
	for i, x := range xs {
		b[i] = byte(x)
	}
	return b
}

var privs = map[int]ed25519.PrivateKey{}

func priv(k int) ed25519.PrivateKey {
	if p, ok := privs[k]; ok {
		return p
	}
	seed := sha256.Sum256([]byte(fmt.Sprintf("verif-c13-key-%d", k)))
	p := ed25519.NewKeyFromSeed(seed[:])
	privs[k] = p
	return p
}

func junk(n int) []byte {
	h := sha512.Sum512([]byte(fmt.Sprintf("verif-c13cpf-junk-%d", n)))
	switch n % 3 {
	case 0:
		return h[:]
	case 1:
		return ed25519.Sign(priv(n%5), []byte(fmt.Sprintf("unrelated-%d", n)))
	default:
		return h[:63]
	}
}

func bytesOut(sb *strings.Builder, b []byte) {
	fmt.Fprintf(sb, " %d", len(b))
	for _, x := range b {
		fmt.Fprintf(sb, " %d", x)
	}
}

func run(c *Case) (line string) {
	sigScheme := tmconsensustest.SimpleSignatureScheme{}
	cmsp := gcrypto.SimpleCommonMessageSignatureProofScheme{}
	keys := make([]gcrypto.PubKey, c.NKeys)
	for i := range keys {
		keys[i] = gcrypto.Ed25519PubKey(priv(i).Public().(ed25519.PublicKey))
	}
	tokens := map[string]int{}
	ntok := 0
	proofs := make(map[string][]gcrypto.SparseSignature, len(c.Proofs))
	for _, e := range c.Proofs {
		var ss []gcrypto.SparseSignature
		for _, s := range e.Sigs {
			var sig []byte
			if s.Junk > 0 {
				sig = junk(s.Junk)
			} else {
				content, err := tmconsensus.PrecommitSignBytes(tmconsensus.VoteTarget{
					Height: c.H, Round: c.Round, BlockHash: string(bs(s.Over)),
				}, sigScheme)
				if err != nil {
					return "X sign-bytes " + err.Error()
				}
				sig = ed25519.Sign(priv(s.K), content)
			}
			if _, ok := tokens[string(sig)]; !ok {
				tokens[string(sig)] = ntok
			}
			ntok++
			ss = append(ss, gcrypto.SparseSignature{KeyID: bs(s.ID), Sig: sig})
		}
		proofs[string(bs(e.BH))] = ss
	}
	in := tmconsensus.CommitProof{Round: c.Round, PubKeyHash: string(bs(c.PKH)), Proofs: proofs}
	committed := string(bs(c.Committed))

	var out tmconsensus.CommitProof
	var ferr error
	panicked := false
	func() {
		defer func() {
			if r := recover(); r != nil {
				panicked = true
			}
		}()
		f := tmengine.VerifCommitProofFinalizer{SigScheme: sigScheme, CMSPScheme: cmsp}
		out, ferr = f.Finalize(c.H, committed, in, keys)
	}()
	if panicked {
		return "P"
	}
	if ferr != nil {
		msg := ferr.Error()
		switch {
		case strings.Contains(msg, "no signatures for main"):
			return "E 1"
		case strings.Contains(msg, "invalid signatures for main"):
			return "E 2"
		case strings.Contains(msg, "for other committed block"):
			return "E 3"
		}
		return "X " + msg
	}

	var sb strings.Builder
	hashes := make([]string, 0, len(out.Proofs))
	for bh := range out.Proofs {
		hashes = append(hashes, bh)
	}
	sort.Strings(hashes)
	fmt.Fprintf(&sb, "O %d %d", out.Round, len(hashes))
	if out.PubKeyHash != in.PubKeyHash {
		return "X pubkeyhash changed"
	}
	for _, bh := range hashes {
		bytesOut(&sb, []byte(bh))
		ss := out.Proofs[bh]
		fmt.Fprintf(&sb, " %d", len(ss))
		for _, s := range ss {
			bytesOut(&sb, s.KeyID)
			tok, ok := tokens[string(s.Sig)]
			if !ok {
				tok = 999999
			}
			fmt.Fprintf(&sb, " %d", tok)
		}
	}

	// The receiver: tmmirror.HandleProposedHeader, from "pcp := ph.Header.PrevCommitProof" to ValidateFinalizedProof.
	sb.WriteString(" V")
	func() {
		defer func() {
			if r := recover(); r != nil {
				sb.WriteString(" 999")
			}
		}()
		pcp := out
		mainHash := committed
		finProof := gcrypto.FinalizedCommonMessageSignatureProof{
			Keys:           keys,
			PubKeyHash:     pcp.PubKeyHash,
			MainSignatures: pcp.Proofs[mainHash],
		}
		var err error
		finProof.MainMessage, err = tmconsensus.PrecommitSignBytes(tmconsensus.VoteTarget{
			Height: c.H, Round: pcp.Round, BlockHash: mainHash,
		}, sigScheme)
		if err != nil {
			sb.WriteString(" 998")
			return
		}
		hashesBySignContent := make(map[string]string, len(pcp.Proofs))
		hashesBySignContent[string(finProof.MainMessage)] = mainHash
		if len(pcp.Proofs) > 1 {
			finProof.Rest = make(map[string][]gcrypto.SparseSignature, len(pcp.Proofs)-1)
			for blockHash, sigs := range pcp.Proofs {
				if blockHash == mainHash {
					continue
				}
				msg, err := tmconsensus.PrecommitSignBytes(tmconsensus.VoteTarget{
					Height: c.H, Round: pcp.Round, BlockHash: blockHash,
				}, sigScheme)
				if err != nil {
					sb.WriteString(" 998")
					return
				}
				finProof.Rest[string(msg)] = sigs
				hashesBySignContent[string(msg)] = blockHash
			}
		}
		bitsByHash, unique := cmsp.ValidateFinalizedProof(finProof, hashesBySignContent)
		u := 0
		if unique {
			u = 1
		}
		if bitsByHash == nil {
			fmt.Fprintf(&sb, " %d -1", u)
			return
		}
		hs := make([]string, 0, len(bitsByHash))
		for h := range bitsByHash {
			hs = append(hs, h)
		}
		sort.Strings(hs)
		fmt.Fprintf(&sb, " %d %d", u, len(hs))
		for _, h := range hs {
			bytesOut(&sb, []byte(h))
			z := new(big.Int)
			b := bitsByHash[h]
			for i, ok := b.NextSet(0); ok; i, ok = b.NextSet(i + 1) {
				z.SetBit(z, int(i), 1)
			}
			fmt.Fprintf(&sb, " %s", z.String())
		}
	}()
	return sb.String()
}

func main() {
	in := bufio.NewReaderSize(os.Stdin, 1<<20)
	w := bufio.NewWriter(os.Stdout)
	defer w.Flush()
	for {
		line, err := in.ReadBytes('\n')
		if len(bytes.TrimSpace(line)) > 0 {
			var c Case
			if jerr := json.Unmarshal(line, &c); jerr != nil {
				fmt.Fprintln(w, "X bad-json", jerr)
			} else {
				fmt.Fprintln(w, run(&c))
			}
		}
		if err != nil {
			return
		}
	}
}
