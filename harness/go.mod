module verifharness

go 1.25

require github.com/gordian-engine/gordian v0.0.0

require github.com/bits-and-blooms/bitset v1.20.0 // indirect

replace github.com/gordian-engine/gordian => /repo
