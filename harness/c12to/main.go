// Harness for C12 (timeout durations): calls the REAL tmengine.LinearTimeoutStrategy methods.
// One case per line on stdin: nine integers "pb pi vb vi cb ci wb wi round" (eight int64 fields in nanoseconds, then the
// round as uint32); output per line: the four durations in nanoseconds "proposal prevoteDelay precommitDelay commitWait".
package main

import (
	"bufio"
	"fmt"
	"os"
	"time"

	"github.com/gordian-engine/gordian/tm/tmengine"
)

func main() {
	in := bufio.NewScanner(os.Stdin)
	in.Buffer(make([]byte, 1<<20), 1<<20)
	w := bufio.NewWriter(os.Stdout)
	defer w.Flush()
	for in.Scan() {
		var f [8]int64
		var r uint32
		n, err := fmt.Sscan(in.Text(), &f[0], &f[1], &f[2], &f[3], &f[4], &f[5], &f[6], &f[7], &r)
		if err != nil || n != 9 {
			fmt.Fprintln(w, "X bad line")
			continue
		}
		s := tmengine.LinearTimeoutStrategy{
			ProposalBase: time.Duration(f[0]), ProposalIncrement: time.Duration(f[1]),
			PrevoteDelayBase: time.Duration(f[2]), PrevoteDelayIncrement: time.Duration(f[3]),
			PrecommitDelayBase: time.Duration(f[4]), PrecommitDelayIncrement: time.Duration(f[5]),
			CommitWaitBase: time.Duration(f[6]), CommitWaitIncrement: time.Duration(f[7]),
		}
		h := uint64(f[0]) ^ uint64(r) // the height is documented as unused; vary it anyway
		fmt.Fprintln(w, int64(s.ProposalTimeout(h, r)), int64(s.PrevoteDelayTimeout(h, r)),
			int64(s.PrecommitDelayTimeout(h, r)), int64(s.CommitWaitTimeout(h, r)))
	}
}
