// Harness for C15: drives the REAL SimpleHashScheme / SimpleSignatureScheme.
//
// stdin: one JSON case per line:
//
//	{"id":N,"op":"block","hdr":HDR}
//	{"id":N,"op":"prevote"|"precommit","h":"dec","r":N,"bh":HEX|null}
//	{"id":N,"op":"proposal","hdr":HDR,"r":N,"user":HEX|null,"driver":HEX|null}
//	{"id":N,"op":"pubkeys","keys":[HEX,...]}
//	{"id":N,"op":"votepowers","pows":["dec",...]}
//
// HDR = {"hash","pbh","height","round","pkh","proofs":[[KEYHEX,[[KEYIDHEX,SIGHEX],...]|null],...]|null,
//
//	"vs":[HEX,HEX],"nvs":[HEX,HEX],"dataid","pash","user","driver"}; a JSON null byte field is a nil slice.
//
// stdout: "<id> <result>" where result is the lower-case hex of the returned bytes,
// "P" for a panic, "E" for an error return. Block is evaluated three times (Go randomises map
// iteration order); differing results are printed joined by '/'.
package main

import (
	"bufio"
	"encoding/hex"
	"encoding/json"
	"fmt"
	"os"
	"strconv"

	"github.com/gordian-engine/gordian/gcrypto"
	"github.com/gordian-engine/gordian/tm/tmconsensus"
	"github.com/gordian-engine/gordian/tm/tmconsensus/tmconsensustest"
)

type jHeader struct {
	Hash    *string            `json:"hash"`
	PBH     *string            `json:"pbh"`
	Height  string             `json:"height"`
	Round   uint32             `json:"round"`
	PKH     string             `json:"pkh"`
	Proofs  *[]json.RawMessage `json:"proofs"`
	VS      [2]*string         `json:"vs"`
	NVS     [2]*string         `json:"nvs"`
	DataID  *string            `json:"dataid"`
	PASH    *string            `json:"pash"`
	User    *string            `json:"user"`
	Driver  *string            `json:"driver"`
	VSVals  []string           `json:"vs_vals"`
	NVSVals []string           `json:"nvs_vals"`
}

type jCase struct {
	ID     int      `json:"id"`
	Op     string   `json:"op"`
	Hdr    *jHeader `json:"hdr"`
	H      string   `json:"h"`
	R      uint32   `json:"r"`
	BH     *string  `json:"bh"`
	User   *string  `json:"user"`
	Driver *string  `json:"driver"`
	Keys   []string `json:"keys"`
	Pows   []string `json:"pows"`
}

func unhex(s *string) []byte {
	if s == nil {
		return nil
	}
	b, err := hex.DecodeString(*s)
	if err != nil {
		panic(fmt.Errorf("harness: bad hex %q", *s))
	}
	if b == nil {
		b = []byte{}
	}
	return b
}

func unhexs(s string) []byte { return unhex(&s) }

// fakeKey is a public key with arbitrary bytes; the hash scheme only calls PubKeyBytes.
type fakeKey struct{ b []byte }

func (k fakeKey) PubKeyBytes() []byte         { return k.b }
func (k fakeKey) Equal(o gcrypto.PubKey) bool { return string(k.b) == string(o.PubKeyBytes()) }
func (k fakeKey) Verify(msg, sig []byte) bool { return false }
func (k fakeKey) TypeName() string            { return "fake" }

func validators(keys []string) []tmconsensus.Validator {
	var vals []tmconsensus.Validator
	for i, k := range keys {
		vals = append(vals, tmconsensus.Validator{PubKey: fakeKey{unhexs(k)}, Power: uint64(i + 1)})
	}
	return vals
}

func header(j *jHeader) tmconsensus.Header {
	height, err := strconv.ParseUint(j.Height, 10, 64)
	if err != nil {
		panic(err)
	}
	h := tmconsensus.Header{
		Hash:          unhex(j.Hash),
		PrevBlockHash: unhex(j.PBH),
		Height:        height,
		PrevCommitProof: tmconsensus.CommitProof{
			Round:      j.Round,
			PubKeyHash: string(unhexs(j.PKH)),
		},
		ValidatorSet: tmconsensus.ValidatorSet{
			Validators: validators(j.VSVals), PubKeyHash: unhex(j.VS[0]), VotePowerHash: unhex(j.VS[1]),
		},
		NextValidatorSet: tmconsensus.ValidatorSet{
			Validators: validators(j.NVSVals), PubKeyHash: unhex(j.NVS[0]), VotePowerHash: unhex(j.NVS[1]),
		},
		DataID:           unhex(j.DataID),
		PrevAppStateHash: unhex(j.PASH),
		Annotations:      tmconsensus.Annotations{User: unhex(j.User), Driver: unhex(j.Driver)},
	}
	if j.Proofs != nil {
		m := make(map[string][]gcrypto.SparseSignature)
		for _, raw := range *j.Proofs {
			var ent []json.RawMessage
			if err := json.Unmarshal(raw, &ent); err != nil || len(ent) != 2 {
				panic(fmt.Errorf("harness: bad proof entry %s", raw))
			}
			var key string
			if err := json.Unmarshal(ent[0], &key); err != nil {
				panic(err)
			}
			var sigs *[][2]string
			if err := json.Unmarshal(ent[1], &sigs); err != nil {
				panic(err)
			}
			var ss []gcrypto.SparseSignature
			if sigs != nil {
				ss = make([]gcrypto.SparseSignature, 0, len(*sigs))
				for _, p := range *sigs {
					ss = append(ss, gcrypto.SparseSignature{KeyID: unhexs(p[0]), Sig: unhexs(p[1])})
				}
			}
			m[string(unhexs(key))] = ss
		}
		h.PrevCommitProof.Proofs = m
	}
	return h
}

// held: the byte slices the real code returned for the last cases, kept alive together with their value at the moment of
// the return.  A returned slice that changes when a LATER call is made shares memory with something the callee reuses
// (e.g. a pooled buffer): what a caller holds as "the sign bytes of this proposal" silently becomes other content.
type heldResult struct {
	id  int
	raw []byte
	was string
}

var held []heldResult
var curID int

func guard(f func() ([]byte, error)) (s string) {
	defer func() {
		if r := recover(); r != nil {
			s = "P"
		}
	}()
	b, err := f()
	if err != nil {
		return "E"
	}
	s = hex.EncodeToString(b) + "."
	for _, h := range held {
		if hex.EncodeToString(h.raw) != h.was {
			s += fmt.Sprintf("~%d", h.id)
			break
		}
	}
	held = append(held, heldResult{curID, b, hex.EncodeToString(b)})
	if len(held) > 6 {
		held = held[1:]
	}
	return s
}

func main() {
	sc := bufio.NewScanner(os.Stdin)
	sc.Buffer(make([]byte, 1<<20), 1<<26)
	w := bufio.NewWriter(os.Stdout)
	defer w.Flush()
	hs := tmconsensustest.SimpleHashScheme{}
	ss := tmconsensustest.SimpleSignatureScheme{}
	for sc.Scan() {
		var c jCase
		if err := json.Unmarshal(sc.Bytes(), &c); err != nil {
			fmt.Fprintf(os.Stderr, "harness: bad case: %v\n", err)
			continue
		}
		var out string
		curID = int(c.ID)
		switch c.Op {
		case "block":
			h := header(c.Hdr)
			out = guard(func() ([]byte, error) { return hs.Block(h) })
			for i := 0; i < 2; i++ {
				again := guard(func() ([]byte, error) { return hs.Block(h) })
				if again != out {
					out = out + "/" + again
					break
				}
			}
		case "prevote", "precommit":
			height, err := strconv.ParseUint(c.H, 10, 64)
			if err != nil {
				panic(err)
			}
			vt := tmconsensus.VoteTarget{Height: height, Round: c.R, BlockHash: string(unhex(c.BH))}
			if c.Op == "prevote" {
				out = guard(func() ([]byte, error) { return tmconsensus.PrevoteSignBytes(vt, ss) })
			} else {
				out = guard(func() ([]byte, error) { return tmconsensus.PrecommitSignBytes(vt, ss) })
			}
		case "proposal":
			h := header(c.Hdr)
			ann := tmconsensus.Annotations{User: unhex(c.User), Driver: unhex(c.Driver)}
			out = guard(func() ([]byte, error) { return tmconsensus.ProposalSignBytes(h, c.R, ann, ss) })
		case "pubkeys":
			keys := make([]gcrypto.PubKey, 0, len(c.Keys))
			for _, k := range c.Keys {
				keys = append(keys, fakeKey{unhexs(k)})
			}
			out = guard(func() ([]byte, error) { return hs.PubKeys(keys) })
		case "votepowers":
			pows := make([]uint64, 0, len(c.Pows))
			for _, p := range c.Pows {
				v, err := strconv.ParseUint(p, 10, 64)
				if err != nil {
					panic(err)
				}
				pows = append(pows, v)
			}
			out = guard(func() ([]byte, error) { return hs.VotePowers(pows) })
		default:
			out = "?"
		}
		fmt.Fprintf(w, "%d %s\n", c.ID, out)
	}
}
