// Harness for the mirror properties (C01, C04, C05, C07, ...): generates operation
// histories from one seed, materialises them with real ed25519 keys, real hashes and real
// sign bytes, drives the REAL tmmirror.Mirror (through the verif-tagged re-export) and prints,
// per step, the operation as a Gallina term of the model (Model/Mirror.v) together with the
// observed result code and a canonical projection of views and stores (Model/MirrorObs.v).
package main

import (
	"bytes"
	"context"
	"crypto/rand"
	"crypto/sha256"
	"errors"
	"flag"
	"fmt"
	"io"
	"log/slog"
	"os"
	"sort"
	"strings"
	"sync"
	"time"

	"github.com/gordian-engine/gordian/gassert/gasserttest"
	"github.com/gordian-engine/gordian/gcrypto"
	"github.com/gordian-engine/gordian/gwatchdog"
	"github.com/gordian-engine/gordian/tm/tmconsensus"
	"github.com/gordian-engine/gordian/tm/tmconsensus/tmconsensustest"
	"github.com/gordian-engine/gordian/tm/tmengine"
	"github.com/gordian-engine/gordian/tm/tmengine/tmelink"
	"github.com/gordian-engine/gordian/tm/tmengine/tmelink/tmelinktest"
	"github.com/gordian-engine/gordian/tm/tmstore"
	"github.com/gordian-engine/gordian/tm/tmstore/tmmemstore"
)

var _ = rand.Reader

// ---------- PRNG (SplitMix64, same as the python driver) ----------
type rng struct{ s uint64 }

func (r *rng) next() uint64 {
	r.s += 0x9E3779B97F4A7C15
	z := r.s
	z = (z ^ (z >> 30)) * 0xBF58476D1CE4E5B9
	z = (z ^ (z >> 27)) * 0x94D049BB133111EB
	return z ^ (z >> 31)
}
func (r *rng) below(n int) int {
	if n <= 0 {
		return 0
	}
	return int(r.next() % uint64(n))
}
func (r *rng) chance(num, den int) bool { return r.below(den) < num }

// ---------- Coq printing ----------
// byte strings are interned per case: the first use defines a Gallina constant
var (
	internTab  = map[string]string{}
	internDefs []string
	internCase int
	internOut  int // definitions already printed
)

// flushDefs prints the byte-string definitions made since the last call: every STEP line is preceded by the
// definitions it uses, so the history of a case stays usable when the process dies in the middle of it
func flushDefs(out io.Writer) {
	for ; internOut < len(internDefs); internOut++ {
		fmt.Fprintln(out, internDefs[internOut])
	}
}

func coqBytes(b []byte) string {
	if len(b) == 0 {
		return "[]"
	}
	if n, ok := internTab[string(b)]; ok {
		return n
	}
	n := fmt.Sprintf("b%d_%d", internCase, len(internTab))
	internTab[string(b)] = n
	internDefs = append(internDefs, fmt.Sprintf("BDEF %s %s", n, rawBytes(b)))
	return n
}

func rawBytes(b []byte) string {
	var sb strings.Builder
	sb.WriteByte('[')
	for i, c := range b {
		if i > 0 {
			sb.WriteByte(';')
		}
		fmt.Fprintf(&sb, "%d", c)
	}
	sb.WriteByte(']')
	return sb.String()
}
func coqList(xs []string) string { return "[" + strings.Join(xs, "; ") + "]" }
func coqNList(xs []uint64) string {
	s := make([]string, len(xs))
	for i, x := range xs {
		s[i] = fmt.Sprintf("%d", x)
	}
	return coqList(s)
}
func coqBool(b bool) string {
	if b {
		return "true"
	}
	return "false"
}
func TN(n uint64) string  { return fmt.Sprintf("TN %d", n) }
func TB(b []byte) string  { return "TB " + coqBytes(b) }
func TL(xs []string) string { return "TL " + coqList(xs) }

// ---------- world ----------
const poolSize = 8

type valset struct {
	keys []int // global key ids
	pows []uint64
	vs   tmconsensus.ValidatorSet
	ok   bool // lists match hashes
}

type world struct {
	r       *rng
	pool    tmconsensustest.PrivVals
	hs      tmconsensus.HashScheme
	ss      tmconsensus.SignatureScheme
	sigDesc map[string]string // signature bytes -> Gallina sigd
	sigTr   map[string]string // signature bytes -> tr encoding of the same
	junkN   uint64
	ctx     context.Context
}

func (w *world) keyID(pk gcrypto.PubKey) int {
	for i, pv := range w.pool {
		if pv.Val.PubKey.Equal(pk) {
			return i
		}
	}
	return -1
}

func (w *world) mkValset(keys []int, pows []uint64) valset {
	vals := make([]tmconsensus.Validator, len(keys))
	for i, k := range keys {
		vals[i] = tmconsensus.Validator{PubKey: w.pool[k].Val.PubKey, Power: pows[i]}
	}
	vs, err := tmconsensus.NewValidatorSet(vals, w.hs)
	if err != nil {
		panic(err)
	}
	return valset{keys: append([]int{}, keys...), pows: append([]uint64{}, pows...), vs: vs, ok: true}
}

func (w *world) randValset() valset {
	n := 1 + w.r.below(5)
	perm := w.r.permPrefix(poolSize, n)
	pows := make([]uint64, n)
	mode := w.r.below(4)
	for i := range pows {
		switch mode {
		case 0:
			pows[i] = 1
		case 1:
			pows[i] = uint64(1 + w.r.below(10))
		case 2:
			pows[i] = uint64(1 + w.r.below(1000))
		default:
			pows[i] = uint64(10 + w.r.below(3))
		}
	}
	return w.mkValset(perm, pows)
}

// forcedTemplate >= 0: every interleaving template started is this one, and templates start far more often
var forcedTemplate = -1

func templateEvery() int {
	if forcedTemplate >= 0 {
		return 3
	}
	return 12
}

// wideValset: seven or eight validators of nearly equal power - a set in which one validator can vote nil and another
// stay silent while the rest still commits (the "backfill two targets" template needs that)
func (w *world) wideValset() valset {
	n := 7 + w.r.below(2)
	perm := w.r.permPrefix(poolSize, n)
	pows := make([]uint64, n)
	for i := range pows {
		pows[i] = uint64(10 + w.r.below(3))
	}
	return w.mkValset(perm, pows)
}

func (r *rng) permPrefix(n, k int) []int {
	p := make([]int, n)
	for i := range p {
		p[i] = i
	}
	for i := 0; i < k; i++ {
		j := i + r.below(n-i)
		p[i], p[j] = p[j], p[i]
	}
	return p[:k]
}

func (v valset) coq() string {
	ks := make([]uint64, len(v.keys))
	for i, k := range v.keys {
		ks[i] = uint64(k)
	}
	return fmt.Sprintf("(mk_valset %s %s %s %s %s)", coqNList(ks), coqNList(v.pows),
		coqBytes(v.vs.PubKeyHash), coqBytes(v.vs.VotePowerHash), coqBool(v.ok))
}

// forged copy: same hashes, altered list
func (w *world) forge(v valset) valset {
	f := valset{keys: append([]int{}, v.keys...), pows: append([]uint64{}, v.pows...), ok: false}
	if w.r.chance(1, 3) && len(f.keys) > 0 {
		// only the separate PubKeys slice is altered; Validators and both hashes stay as they are
		pks := make([]gcrypto.PubKey, len(v.vs.PubKeys))
		copy(pks, v.vs.PubKeys)
		i := w.r.below(len(pks))
		pks[i] = w.pool[(v.keys[i]+1+w.r.below(poolSize-1))%poolSize].Val.PubKey
		f.vs = tmconsensus.ValidatorSet{Validators: v.vs.Validators, PubKeys: pks, PubKeyHash: v.vs.PubKeyHash, VotePowerHash: v.vs.VotePowerHash}
		return f
	}
	if w.r.chance(1, 2) || len(f.keys) == 0 {
		f.pows[w.r.below(len(f.pows))] += 1000
	} else {
		i := w.r.below(len(f.keys))
		f.keys[i] = (f.keys[i] + 1 + w.r.below(poolSize-1)) % poolSize
	}
	vals := make([]tmconsensus.Validator, len(f.keys))
	pks := make([]gcrypto.PubKey, len(f.keys))
	for i, k := range f.keys {
		vals[i] = tmconsensus.Validator{PubKey: w.pool[k].Val.PubKey, Power: f.pows[i]}
		pks[i] = w.pool[k].Val.PubKey
	}
	f.vs = tmconsensus.ValidatorSet{Validators: vals, PubKeys: pks, PubKeyHash: v.vs.PubKeyHash, VotePowerHash: v.vs.VotePowerHash}
	return f
}

// ---------- signatures ----------
const (
	kindPrevote   = 0
	kindPrecommit = 1
)

func (w *world) voteSig(key int, kind int, h uint64, r uint32, target string) []byte {
	vt := tmconsensus.VoteTarget{Height: h, Round: r, BlockHash: target}
	var sb []byte
	var err error
	if kind == kindPrevote {
		sb, err = tmconsensus.PrevoteSignBytes(vt, w.ss)
	} else {
		sb, err = tmconsensus.PrecommitSignBytes(vt, w.ss)
	}
	if err != nil {
		panic(err)
	}
	sig, err := w.pool[key].Signer.Sign(w.ctx, sb)
	if err != nil {
		panic(err)
	}
	w.sigDesc[string(sig)] = fmt.Sprintf("(SVote %d %d %d %d %s)", key, kind, h, r, coqBytes([]byte(target)))
	w.sigTr[string(sig)] = fmt.Sprintf("TL [TN 0; TN %d; TN %d; TN %d; TN %d; TB %s]", key, kind, h, r, coqBytes([]byte(target)))
	return sig
}

func (w *world) junkSig() []byte {
	w.junkN++
	b := make([]byte, 64)
	for i := range b {
		b[i] = byte(w.r.next())
	}
	w.sigDesc[string(b)] = fmt.Sprintf("(SJunk %d)", w.junkN)
	w.sigTr[string(b)] = fmt.Sprintf("TL [TN 2; TN %d]", w.junkN)
	return b
}

func (w *world) desc(sig []byte) string {
	if d, ok := w.sigDesc[string(sig)]; ok {
		return d
	}
	return "(SJunk 4000000000)"
}

func (w *world) trSig(sig []byte) string {
	if d, ok := w.sigTr[string(sig)]; ok {
		return d
	}
	return "TL [TN 2; TN 4000000000]"
}

func keyID16(i int) []byte { return []byte{byte(i >> 8), byte(i)} }

type ssig struct {
	kid []byte
	sig []byte
}

func (w *world) coqSsigs(ss []gcrypto.SparseSignature) string {
	xs := make([]string, len(ss))
	for i, s := range ss {
		xs[i] = fmt.Sprintf("mk_ssig %s %s", coqBytes(s.KeyID), w.desc(s.Sig))
	}
	return coqList(xs)
}

func (w *world) coqProofs(m map[string][]gcrypto.SparseSignature) string {
	hs := make([]string, 0, len(m))
	for h := range m {
		hs = append(hs, h)
	}
	sort.Strings(hs)
	xs := make([]string, len(hs))
	for i, h := range hs {
		xs[i] = fmt.Sprintf("(%s, %s)", coqBytes([]byte(h)), w.coqSsigs(m[h]))
	}
	return coqList(xs)
}

func (w *world) coqCProof(p tmconsensus.CommitProof) string {
	return fmt.Sprintf("(mk_cproof %d %s %s)", p.Round, coqBytes([]byte(p.PubKeyHash)), w.coqProofs(p.Proofs))
}

// ---------- observation ----------
func (w *world) trSsigs(ss []gcrypto.SparseSignature) string {
	xs := make([]string, len(ss))
	for i, s := range ss {
		xs[i] = fmt.Sprintf("TL [TB %s; %s]", coqBytes(s.KeyID), w.trSig(s.Sig))
	}
	return TL(xs)
}

func (w *world) trColl(m map[string][]gcrypto.SparseSignature) string {
	hs := make([]string, 0, len(m))
	for h := range m {
		hs = append(hs, h)
	}
	sort.Strings(hs)
	xs := make([]string, len(hs))
	for i, h := range hs {
		xs[i] = TL([]string{TB([]byte(h)), w.trSsigs(m[h])})
	}
	return TL(xs)
}

func (w *world) trCProof(p tmconsensus.CommitProof) string {
	return TL([]string{TN(uint64(p.Round)), TB([]byte(p.PubKeyHash)), w.trColl(p.Proofs)})
}

func (w *world) trPmap(m map[string]gcrypto.CommonMessageSignatureProof) string {
	hs := make([]string, 0, len(m))
	for h := range m {
		hs = append(hs, h)
	}
	sort.Strings(hs)
	xs := make([]string, len(hs))
	for i, h := range hs {
		xs[i] = TL([]string{TB([]byte(h)), w.trSsigs(m[h].AsSparse().Signatures)})
	}
	return TL(xs)
}

func trPows(m map[string]uint64) string {
	hs := make([]string, 0, len(m))
	for h := range m {
		hs = append(hs, h)
	}
	sort.Strings(hs)
	xs := make([]string, len(hs))
	for i, h := range hs {
		xs[i] = TL([]string{TB([]byte(h)), TN(m[h])})
	}
	return TL(xs)
}

func phHashes(phs []tmconsensus.ProposedHeader) string {
	hs := make([]string, len(phs))
	for i, p := range phs {
		hs[i] = string(p.Header.Hash)
	}
	sort.Strings(hs)
	xs := make([]string, len(hs))
	for i, h := range hs {
		xs[i] = TB([]byte(h))
	}
	return TL(xs)
}

// 1 when the validator list and public keys are the ones the two hashes were computed from
func (w *world) trConsistent(vs tmconsensus.ValidatorSet) string {
	if len(vs.Validators) == 0 && len(vs.PubKeys) == 0 && len(vs.PubKeyHash) == 0 && len(vs.VotePowerHash) == 0 {
		return TN(1)
	}
	want, err := tmconsensus.NewValidatorSet(vs.Validators, w.hs)
	if err != nil || !bytes.Equal(want.PubKeyHash, vs.PubKeyHash) || !bytes.Equal(want.VotePowerHash, vs.VotePowerHash) || len(want.PubKeys) != len(vs.PubKeys) {
		return TN(0)
	}
	for i := range want.PubKeys {
		if !want.PubKeys[i].Equal(vs.PubKeys[i]) {
			return TN(0)
		}
	}
	return TN(1)
}

func (w *world) trKeys(vs tmconsensus.ValidatorSet) string {
	xs := make([]string, len(vs.Validators))
	for i, v := range vs.Validators {
		k := w.keyID(v.PubKey)
		if k < 0 {
			k = 999
		}
		xs[i] = TN(uint64(k))
	}
	return TL(xs)
}

func trVPows(vs tmconsensus.ValidatorSet) string {
	xs := make([]string, len(vs.Validators))
	for i, v := range vs.Validators {
		xs[i] = TN(v.Power)
	}
	return TL(xs)
}

func (w *world) trView(v *tmconsensus.VersionedRoundView) string {
	s := v.VoteSummary
	sum := TL([]string{TN(s.AvailablePower), TN(s.TotalPrevotePower), TN(s.TotalPrecommitPower),
		trPows(s.PrevoteBlockPower), trPows(s.PrecommitBlockPower),
		TB([]byte(s.MostVotedPrevoteHash)), TB([]byte(s.MostVotedPrecommitHash))})
	return TL([]string{TN(v.Height), TN(uint64(v.Round)), TB(v.ValidatorSet.PubKeyHash), TB(v.ValidatorSet.VotePowerHash),
		w.trKeys(v.ValidatorSet), trVPows(v.ValidatorSet),
		phHashes(v.ProposedHeaders), w.trPmap(v.PrevoteProofs), w.trPmap(v.PrecommitProofs), sum, w.trCProof(v.PrevCommitProof), w.trConsistent(v.ValidatorSet), TN(uint64(v.Version))})
}

// ---------- crash injection: store wrappers with a write budget ----------
type budget struct {
	mu        sync.Mutex
	unlimited bool
	left      int
	attempts  int // write calls issued since the budget was armed (landed or dropped)
}

func (b *budget) take() bool {
	b.mu.Lock()
	defer b.mu.Unlock()
	b.attempts++
	if b.unlimited {
		return true
	}
	if b.left > 0 {
		b.left--
		return true
	}
	return false
}

func (b *budget) refund() {
	b.mu.Lock()
	defer b.mu.Unlock()
	b.attempts--
	if !b.unlimited {
		b.left++
	}
}

func (b *budget) arm(k int) {
	b.mu.Lock()
	b.unlimited, b.left, b.attempts = false, k, 0
	b.mu.Unlock()
}

func (b *budget) disarm() {
	b.mu.Lock()
	b.unlimited, b.attempts = true, 0
	b.mu.Unlock()
}

func (b *budget) seen() int {
	b.mu.Lock()
	defer b.mu.Unlock()
	return b.attempts
}

type crashMirrorStore struct {
	tmstore.MirrorStore
	b *budget
}

func (s crashMirrorStore) SetNetworkHeightRound(ctx context.Context, vh uint64, vr uint32, ch uint64, cr uint32) error {
	if !s.b.take() {
		return nil
	}
	return s.MirrorStore.SetNetworkHeightRound(ctx, vh, vr, ch, cr)
}

type crashHeaderStore struct {
	tmstore.CommittedHeaderStore
	b *budget
}

func (s crashHeaderStore) SaveCommittedHeader(ctx context.Context, ch tmconsensus.CommittedHeader) error {
	if !s.b.take() {
		return nil
	}
	return s.CommittedHeaderStore.SaveCommittedHeader(ctx, ch)
}

type crashRoundStore struct {
	tmstore.RoundStore
	b *budget
}

func (s crashRoundStore) SaveRoundProposedHeader(ctx context.Context, ph tmconsensus.ProposedHeader) error {
	if !s.b.take() {
		return nil
	}
	return s.RoundStore.SaveRoundProposedHeader(ctx, ph)
}

func (s crashRoundStore) SaveRoundReplayedHeader(ctx context.Context, h tmconsensus.Header) error {
	if !s.b.take() {
		return nil
	}
	err := s.RoundStore.SaveRoundReplayedHeader(ctx, h)
	if err != nil {
		s.b.refund() // the store refused: nothing was written
	}
	return err
}

func (s crashRoundStore) OverwriteRoundPrevoteProofs(ctx context.Context, h uint64, r uint32, p tmconsensus.SparseSignatureCollection) error {
	if !s.b.take() {
		return nil
	}
	return s.RoundStore.OverwriteRoundPrevoteProofs(ctx, h, r, p)
}

func (s crashRoundStore) OverwriteRoundPrecommitProofs(ctx context.Context, h uint64, r uint32, p tmconsensus.SparseSignatureCollection) error {
	if !s.b.take() {
		return nil
	}
	return s.RoundStore.OverwriteRoundPrecommitProofs(ctx, h, r, p)
}

type hcChan struct {
	h  uint64
	ch chan struct{}
}

// ---------- one case ----------
type hr struct {
	h uint64
	r uint32
}

type runner struct {
	w       *world
	m       *tmengine.VerifMirror
	cfg     tmengine.VerifMirrorConfig
	initH   uint64
	genesis valset
	cancel  context.CancelFunc
	touched map[hr]bool
	out     io.Writer

	bud          *budget
	pendingCrash int // >= 0: the operation in progress is delivered with this write budget, then the mirror restarts
	mctx         context.Context
	mcancel      context.CancelFunc
	crashes      bool
	failed       bool
	redo         func() // redelivery of the operation that was cut short by a crash

	consumers  bool
	entered    bool
	lastEnterH uint64
	lastEnterR uint32
	entranceIn chan tmengine.VerifMRoundEntrance
	smOut      chan tmengine.VerifMRoundView
	gOut       chan tmelink.NetworkViewUpdate
	replayIn   chan tmelink.ReplayedHeaderRequest
	hcChans    []hcChan // HeightCommitted channels handed to the kernel, still open

	hdrCoq  map[string]string // Gallina text of every header the harness built, by hash
	hazards bool              // also generate the two inputs listed as known findings (they kill the kernel)

	inRedo      bool
	smKey       int // pool key the harness's state machine signs with (-1: it does not vote)
	actions     chan tmengine.VerifMRoundAction
	forceReplay int // the next replay uses this variant
	phViaAction bool // the proposal being built is the state machine's own: it reaches the mirror as an action
	lastAct     *actRec // the last vote the state machine handed over (for duplicates)
	backfillH      uint64 // the "backfill two targets" template: height / round being committed by a bare quorum,
	backfillR      uint32
	backfillHeld   []int  // validators that stayed silent, one per backfilling proposal
	backfillTarget string
	lastOneVoter   int   // index of the validator of the latest scripted "precommit-one"
	forceWide      bool  // set while a scripted proposal is built: announce a wide next validator set
	forceBackfill  []int // set while a scripted proposal is built: keep every entry of the commit proof, add these signers

	script []string // scripted operations still to run: interleaving templates that random choice rarely lines up

	io               string   // what a consumer operation received (tr), consumed by the next observe()
	committedSignals []uint64 // heights whose HeightCommitted channel was closed by the kernel

	// harness's own belief about the chain, used only to generate mostly-valid inputs
	valsAt   map[uint64]valset // validator set the harness intends for a height
	knownPHs map[hr][]tmconsensus.ProposedHeader
	stats    map[string]int
}

func (rn *runner) views() (tmconsensus.VersionedRoundView, tmconsensus.VersionedRoundView) {
	var v, c tmconsensus.VersionedRoundView
	if err := rn.m.VotingView(rn.w.ctx, &v); err != nil {
		panic(err)
	}
	if err := rn.m.CommittingView(rn.w.ctx, &c); err != nil {
		panic(err)
	}
	return v, c
}

func (rn *runner) observe() string {
	v, c := rn.views()
	ctx := rn.w.ctx
	vh, vr, ch, cr, err := rn.cfg.Store.NetworkHeightRound(ctx)
	if err != nil {
		panic(err)
	}
	nhr := TL([]string{TN(vh), TN(uint64(vr)), TN(ch), TN(uint64(cr))})
	var hdrs []string
	for h := uint64(0); h <= v.Height+2; h++ {
		chd, err := rn.cfg.CommittedHeaderStore.LoadCommittedHeader(ctx, h)
		if err != nil {
			continue
		}
		nv := chd.Header.NextValidatorSet
		hdrs = append(hdrs, TL([]string{TN(h), TB(chd.Header.Hash), TB(chd.Header.PrevBlockHash),
			TB(nv.PubKeyHash), TB(nv.VotePowerHash), rn.w.trKeys(nv), trVPows(nv), rn.w.trCProof(chd.Proof), rn.w.trConsistent(nv),
			TL([]string{TB(chd.Header.ValidatorSet.PubKeyHash), TB(chd.Header.ValidatorSet.VotePowerHash),
				rn.w.trKeys(chd.Header.ValidatorSet), trVPows(chd.Header.ValidatorSet)})}))
	}
	keys := make([]hr, 0, len(rn.touched))
	for k := range rn.touched {
		keys = append(keys, k)
	}
	sort.Slice(keys, func(i, j int) bool {
		if keys[i].h != keys[j].h {
			return keys[i].h < keys[j].h
		}
		return keys[i].r < keys[j].r
	})
	var rounds []string
	for _, k := range keys {
		phs, pv, pc, err := rn.cfg.RoundStore.LoadRoundState(ctx, k.h, k.r)
		if err != nil {
			var ru tmconsensus.RoundUnknownError
			if errors.As(err, &ru) {
				continue
			}
			panic(err)
		}
		coll := func(c tmconsensus.SparseSignatureCollection) string {
			if c.BlockSignatures == nil {
				return TL(nil)
			}
			return TL([]string{TB(c.PubKeyHash), rn.w.trColl(c.BlockSignatures)})
		}
		rounds = append(rounds, TL([]string{TN(k.h), TN(uint64(k.r)), phHashes(phs), coll(pv), coll(pc)}))
	}
	keep := rn.hcChans[:0]
	for _, hc := range rn.hcChans {
		select {
		case <-hc.ch:
			rn.committedSignals = append(rn.committedSignals, hc.h)
		default:
			keep = append(keep, hc)
		}
	}
	rn.hcChans = keep
	io := rn.io
	if io == "" {
		io = TL(nil)
	}
	rn.io = ""
	sig := make([]string, len(rn.committedSignals))
	for i, h := range rn.committedSignals {
		sig[i] = TN(h)
	}
	return TL([]string{rn.w.trView(&v), rn.w.trView(&c), nhr, TL(hdrs), TL(rounds), io, TL(sig)})
}

func (rn *runner) trVView(v *tmconsensus.VersionedRoundView) string {
	return TL([]string{TN(uint64(v.Version)), rn.w.trView(v)})
}

func (rn *runner) trOView(v *tmconsensus.VersionedRoundView) string {
	if v == nil {
		return TL(nil)
	}
	return TL([]string{rn.trVView(v)})
}

func (rn *runner) barrier() {
	var v tmconsensus.VersionedRoundView
	_ = rn.m.VotingView(rn.w.ctx, &v)
}

// the state machine enters (h, r)
func (rn *runner) doEnter(h uint64, r uint32) {
	hc := make(chan struct{})
	rn.actions = make(chan tmengine.VerifMRoundAction, 3)
	if !concurrentMode {
		// the state machine's identity: mostly a validator of the set it believes in for that height, sometimes a key
		// outside that set, sometimes none (a node that only follows)
		vs := rn.valsFor(h)
		switch x := rn.w.r.below(20); {
		case x < 14 && len(vs.keys) > 0:
			rn.smKey = vs.keys[rn.w.r.below(len(vs.keys))]
			rn.stats["sm_key_validator"]++
		case x < 17:
			rn.smKey = -1
			for k := 0; k < poolSize; k++ {
				in := false
				for _, y := range vs.keys {
					if y == k {
						in = true
					}
				}
				if !in {
					rn.smKey = k
					break
				}
			}
			if rn.smKey >= 0 {
				rn.stats["sm_key_outside_set"]++
			} else {
				rn.stats["sm_key_none"]++
			}
		default:
			rn.smKey = -1
			rn.stats["sm_key_none"]++
		}
		rn.lastAct = nil
	}
	var pk gcrypto.PubKey
	if rn.smKey >= 0 {
		pk = rn.w.pool[rn.smKey].Val.PubKey
	}
	re := tmengine.VerifMRoundEntrance{
		H: h, R: r,
		PubKey:          pk,
		Actions:         rn.actions,
		HeightCommitted: hc,
		Response:        make(chan tmengine.VerifMRoundEntranceResponse, 1),
	}
	select {
	case rn.entranceIn <- re:
	case <-time.After(3 * time.Second):
		panic("kernel did not take the round entrance")
	}
	var resp tmengine.VerifMRoundEntranceResponse
	select {
	case resp = <-re.Response:
	case <-time.After(3 * time.Second):
		panic("kernel did not answer the round entrance")
	}
	rn.hcChans = append(rn.hcChans, hcChan{h, hc})
	if resp.IsVRV() {
		rn.io = TL([]string{TN(1), rn.trVView(&resp.VRV)})
	} else {
		rn.io = TL([]string{TN(2), TB(resp.CH.Header.Hash), rn.w.trCProof(resp.CH.Proof)})
	}
	rn.stats["sm_enter"]++
	rn.barrier()
	if rn.smKey >= 0 {
		rn.printStep("STEP (MEnterK %d %d (Some %d)) @@ 0 @@ %s\n", h, r, rn.smKey, rn.observe())
	} else {
		rn.printStep("STEP (MEnter %d %d) @@ 0 @@ %s\n", h, r, rn.observe())
	}
}

// kernelTurns: the number of times the kernel is made to pass through its select loop (one answered view request
// each) while a consumer is waiting on its output channel, before the consumer concludes that nothing is offered.
// Every turn in which the kernel has something for that consumer delivers it with probability >= 1/2 (Go's select
// picks among the ready cases at random), and the turn after the view request is answered delivers it for certain;
// no wall-clock assumption is made about how fast a loaded machine schedules the kernel goroutine.
const kernelTurns = 12

// awaitOut waits for one value the kernel offers on a consumer channel: a receiver goroutine stays ready while the
// kernel is driven through its loop by barriers; only after that (and a short grace) the read counts as empty.
func awaitOut[T any](rn *runner, ch <-chan T) (T, bool) {
	res := make(chan T, 1)
	stop := make(chan struct{})
	fin := make(chan struct{})
	go func() {
		defer close(fin)
		select {
		case u := <-ch:
			res <- u
		case <-stop:
		}
	}()
	var zero T
	for i := 0; i < kernelTurns; i++ {
		rn.barrier()
		select {
		case u := <-res:
			<-fin
			return u, true
		default:
		}
	}
	select {
	case u := <-res:
		<-fin
		return u, true
	case <-time.After(40 * time.Millisecond):
	}
	close(stop)
	<-fin
	select {
	case u := <-res:
		return u, true
	default:
	}
	return zero, false
}

func (rn *runner) doSMRead() {
	rn.barrier()
	if v, ok := awaitOut(rn, rn.smOut); ok {
		var vrv *tmconsensus.VersionedRoundView
		if v.VRV.Height > 0 {
			vrv = &v.VRV
		}
		rn.io = TL([]string{TN(3), rn.trOView(vrv), rn.trOView(v.JumpAheadRoundView)})
		rn.stats["sm_read_value"]++
	} else {
		rn.io = TL([]string{TN(5)})
		rn.stats["sm_read_empty"]++
	}
	rn.barrier()
	rn.printStep("STEP MSMRead @@ 0 @@ %s\n", rn.observe())
}

func (rn *runner) doGRead() {
	rn.barrier()
	got := false
	for tries := 0; tries < 4 && !got; tries++ {
		u, ok := awaitOut(rn, rn.gOut)
		if !ok {
			break
		}
		if u.Committing == nil && u.Voting == nil && u.NextRound == nil && u.NilVotedRound == nil {
			continue // round-session changes only: not modelled
		}
		rn.io = TL([]string{TN(4), rn.trOView(u.Committing), rn.trOView(u.Voting), rn.trOView(u.NextRound), rn.trOView(u.NilVotedRound)})
		rn.stats["gossip_read_value"]++
		got = true
	}
	if !got {
		rn.io = TL([]string{TN(6)})
		rn.stats["gossip_read_empty"]++
	}
	rn.barrier()
	rn.printStep("STEP MGRead @@ 0 @@ %s\n", rn.observe())
}

// a replayed header (mirror catch-up): header for the voting height plus a commit proof
func (rn *runner) replay(v, c *tmconsensus.VersionedRoundView) {
	w := rn.w
	H, R := v.Height, v.Round
	variant := 0
	if w.r.chance(1, 2) {
		variant = 1 + w.r.below(11)
		if variant == 11 {
			variant = 13
		}
	}
	if rn.hazards && R > 0 && w.r.chance(1, 3) {
		variant = 11
	}
	if rn.forceReplay > 0 {
		variant, rn.forceReplay = rn.forceReplay, 0
	}
	h := H
	r := R
	switch variant {
	case 1:
		h = H + 1
	case 2:
		r = R + 1
	case 3:
		r = R + 2
	case 11: // a header committed in a round the mirror has already left
		r = R - 1 - uint32(w.r.below(int(R)))
	case 14: // a round two ahead, but the commit proof's signatures were made for the NEXT round (a mixed certificate)
		r = R + 2
	}
	// variant 10: a header the mirror already holds as a proposed header of this height (this or an earlier round)
	var known *tmconsensus.ProposedHeader
	if variant == 14 {
		// the header is one the mirror holds as a proposal of the voting round (the scripted history has just filed one
		// validator's next-round precommit for it)
		if phs := rn.knownPHs[hr{H, R}]; len(phs) > 0 {
			known = &phs[len(phs)-1]
		}
	}
	if variant == 12 {
		// a header of the CURRENT voting round that the view already holds precommits for, replayed with a commit proof
		// below the majority that adds precommits the view does not hold: refused, and nothing of it may stay behind
		if phs := rn.knownPHs[hr{H, R}]; len(phs) > 0 {
			known = &phs[len(phs)-1]
			rn.stats["replay_of_voted_header_minority"]++
		} else {
			return
		}
	}
	if variant == 10 {
		var cands []tmconsensus.ProposedHeader
		for rr := uint32(0); rr <= R; rr++ {
			cands = append(cands, rn.knownPHs[hr{H, rr}]...)
		}
		if len(cands) > 0 {
			known = &cands[w.r.below(len(cands))]
			rn.stats["replay_of_known_header"]++
		}
	}
	cur := rn.valsFor(H)
	next, haveNext := rn.valsAt[H+1]
	if !haveNext {
		next = w.randValset()
	}
	if variant == 15 {
		// the header leaves the validator set UNCHANGED (next set = current set, equal hashes) ...
		next = cur
		next.ok = true
	}
	saved, had := rn.valsAt[h]
	rn.valsAt[h] = cur
	hd := rn.mkHeader(h, v, c, v.PrevCommitProof.Clone(), next)
	if had {
		rn.valsAt[h] = saved
	} else {
		delete(rn.valsAt, h)
	}
	hashOK := true
	curHdr, nextHdr := cur, next
	signer := cur // whose keys sign the commit proof
	hdCoq := ""
	if known != nil {
		hd = known.Header
		hdCoq = rn.hdrCoq[string(hd.Hash)]
	}
	switch variant {
	case 4:
		hd.Hash = append([]byte{}, hd.Hash...)
		hd.Hash[0] ^= 1
		hashOK = false
	case 5:
		hd.PrevBlockHash = []byte("not-the-committed-block")
		hd.Hash, _ = w.hs.Block(hd)
	case 6:
		if w.r.chance(1, 2) {
			nextHdr = w.forge(next)
			hd.NextValidatorSet = nextHdr.vs
		} else {
			curHdr = w.forge(cur)
			hd.ValidatorSet = curHdr.vs
		}
	case 15:
		// ... but its NextValidatorSet list was altered in transit (hashes, hence the block hash, untouched)
		nextHdr = w.forge(next)
		hd.NextValidatorSet = nextHdr.vs
		rn.stats["replay_unchanged_set_forged_next_list"]++
	case 13:
		// the header's own validator set keeps Validators and both hashes (hence the genuine block hash) but carries a
		// substituted PubKeys slice, and the commit proof is signed by exactly those substituted keys: a node that builds
		// the round's proofs from the header's PubKeys would accept a quorum of signatures no validator made
		sub := make([]int, len(cur.keys))
		pks := make([]gcrypto.PubKey, len(cur.keys))
		for i, k := range cur.keys {
			sub[i] = (k + 1 + w.r.below(poolSize-1)) % poolSize
			pks[i] = w.pool[sub[i]].Val.PubKey
		}
		fvs := tmconsensus.ValidatorSet{Validators: cur.vs.Validators, PubKeys: pks, PubKeyHash: cur.vs.PubKeyHash, VotePowerHash: cur.vs.VotePowerHash}
		curHdr = valset{keys: cur.keys, pows: cur.pows, vs: fvs, ok: false}
		hd.ValidatorSet = fvs
		signer = valset{keys: sub, pows: cur.pows, vs: fvs, ok: false}
		rn.stats["replay_substituted_pubkeys"]++
	}
	// the commit proof: precommits for the header in round r
	idxs := allIdx(len(cur.keys))
	flaw := 0
	target := string(hd.Hash)
	switch variant {
	case 7:
		idxs = rn.randSubset(len(cur.keys), 1) // possibly not enough power
	case 8:
		flaw = 40 // some invalid signatures
	case 9:
		target = "another-block" // no entry for the header itself
	case 12:
		idxs = minorityIdx(cur.pows, rn.lastOneVoter)
		if len(idxs) == 0 {
			return
		}
	}
	sigRound := r
	if variant == 14 {
		sigRound = R + 1
		rn.stats["replay_round_ahead_with_next_round_signatures"]++
	}
	proof := tmconsensus.CommitProof{Round: r, PubKeyHash: string(cur.vs.PubKeyHash),
		Proofs: map[string][]gcrypto.SparseSignature{target: rn.mkSigsNoKid(signer, kindPrecommit, h, sigRound, target, idxs, flaw)}}
	if variant == 0 && w.r.chance(1, 3) {
		proof.Proofs[""] = rn.mkSigsNoKid(cur, kindPrecommit, h, r, "", rn.randSubset(len(cur.keys), 1), 0)
	}
	rn.touched[hr{h, r}] = true
	rn.touched[hr{h, R}] = true
	rn.touched[hr{h, R + 1}] = true
	if hdCoq == "" {
		hdCoq = rn.coqHdr(hd, hashOK, curHdr, nextHdr)
	}
	opCoq := fmt.Sprintf("(OpReplay %s %s)", hdCoq, w.coqCProof(proof))
	var deliver func() uint64
	deliver = func() uint64 {
		if rn.pendingCrash >= 0 {
			// the driver offers the header again after the restart
			rn.redo = func() {
				if v2, _ := rn.views(); !rn.hazards && v2.Height == h && r < v2.Round {
					// the restart moved the mirror past the replayed round: offering the header again is the
					// known finding "replay for an earlier round" (generated only with -hazards)
					rn.stats["redelivery_skipped_earlier_round"]++
					return
				}
				rn.stats["redelivered_replay"]++
				rn.emit(opCoq, deliver())
			}
		}
		resp := make(chan tmelink.ReplayedHeaderResponse, 1)
		select {
		case rn.replayIn <- tmelink.ReplayedHeaderRequest{Header: hd, Proof: proof, Resp: resp}:
		case <-time.After(3 * time.Second):
			panic("kernel did not take the replayed header")
		}
		var rr tmelink.ReplayedHeaderResponse
		select {
		case rr = <-resp:
		case <-time.After(3 * time.Second):
			panic("kernel did not answer the replayed header")
		}
		code := uint64(0)
		if rr.Err != nil {
			var oos tmelink.ReplayedHeaderOutOfSyncError
			var val tmelink.ReplayedHeaderValidationError
			switch {
			case errors.As(rr.Err, &oos):
				code = 1
			case errors.As(rr.Err, &val):
				code = 2
			default:
				code = 3
			}
		} else {
			rn.valsAt[h+1] = next
		}
		rn.stats[fmt.Sprintf("replay_res_%d", code)]++
		return code
	}
	code := deliver()
	rn.stats[fmt.Sprintf("replay_variant_%d", variant)]++
	rn.emit(opCoq, code)
	if code == 2 && h == H && w.r.chance(1, 2) {
		// the replay was refused: the same precommits arriving as ordinary gossip must not commit it either
		rn.stats["replay_refused_then_gossip"]++
		rn.doVotes(kindPrecommit, h, r, string(cur.vs.PubKeyHash), []voteEntry{{string(hd.Hash),
			rn.mkSigs(cur, kindPrecommit, h, r, string(hd.Hash), allIdx(len(cur.keys)), 0)}})
	}
}

func (rn *runner) valsFor(h uint64) valset {
	if v, ok := rn.valsAt[h]; ok {
		return v
	}
	return rn.genesis
}

// build a header for height h extending what the mirror currently commits
func (rn *runner) mkHeader(h uint64, v, c *tmconsensus.VersionedRoundView, pcp tmconsensus.CommitProof, next valset) tmconsensus.Header {
	var prev []byte
	// the committing header is the proposed header in the committing view with most precommit power
	if c.Height > 0 && h == c.Height+1 {
		best := c.VoteSummary.MostVotedPrecommitHash
		prev = []byte(best)
	} else if h == rn.initH {
		prev = []byte("genesis-prev")
	} else {
		prev = []byte("unknown-prev")
	}
	hd := tmconsensus.Header{
		Height:           h,
		PrevBlockHash:    prev,
		PrevCommitProof:  pcp,
		ValidatorSet:     rn.valsFor(h).vs,
		NextValidatorSet: next.vs,
		DataID:           []byte(fmt.Sprintf("data-%d", rn.w.r.next())),
		PrevAppStateHash: []byte("app"),
	}
	hash, err := rn.w.hs.Block(hd)
	if err != nil {
		panic(err)
	}
	hd.Hash = hash
	return hd
}

func (rn *runner) coqHdr(hd tmconsensus.Header, hashOK bool, cur, next valset) string {
	return fmt.Sprintf("(mk_hdr %s %s %d %s %s %s %s)", coqBytes(hd.Hash), coqBool(hashOK), hd.Height,
		coqBytes(hd.PrevBlockHash), rn.w.coqCProof(hd.PrevCommitProof), cur.coq(), next.coq())
}

// printStep prints one step; in concurrent mode the operation is not modelled (the batches have no sequential
// counterpart), so only the observation is kept.
func (rn *runner) printStep(format string, args ...interface{}) {
	flushDefs(rn.out)
	if concurrentMode {
		fmt.Fprintf(rn.out, "CSTEP @@ %s\n", args[len(args)-1])
		return
	}
	fmt.Fprintf(rn.out, format, args...)
}

func (rn *runner) emit(op string, res uint64) {
	if rn.failed {
		return
	}
	if rn.pendingCrash >= 0 {
		op = fmt.Sprintf("(XCrash %d %s)", rn.pendingCrash, op)
		rn.pendingCrash = -1
		if !rn.restartMirror(op) {
			return
		}
	}
	rn.printStep("STEP %s @@ %d @@ %s\n", op, res, rn.observe())
	if rn.redo != nil && rn.pendingCrash < 0 {
		f := rn.redo
		rn.redo = nil
		f()
	}
}

// stop the running mirror (as if the process died: writes beyond the budget never happened)
// and start a new one on the same underlying stores
func (rn *runner) restartMirror(op string) (ok bool) {
	var v tmconsensus.VersionedRoundView
	_ = rn.m.VotingView(rn.w.ctx, &v) // barrier: the kernel finished the iteration in progress
	rn.mcancel()
	rn.m.Wait()
	rn.bud.disarm()
	defer func() {
		if r := recover(); r != nil {
			rn.failed = true
			fmt.Fprintf(rn.out, "RESTART-FAILED %s @@ panic: %v\n", op, r)
			ok = false
		}
	}()
	rn.startMirror()
	rn.io = TL([]string{TN(9)})
	return true
}

func (rn *runner) startMirror() {
	log := slog.New(slog.NewTextHandler(io.Discard, nil))
	mctx, mcancel := context.WithCancel(rn.w.ctx)
	wd, wctx := gwatchdog.NewNopWatchdog(mctx, log)
	cfg := rn.cfg
	cfg.Watchdog = wd
	cfg.ProposedHeaderFetcher = tmelinktest.NewPHFetcher(256, 0).ProposedHeaderFetcher()
	rn.gOut = make(chan tmelink.NetworkViewUpdate)
	rn.entranceIn = make(chan tmengine.VerifMRoundEntrance)
	rn.smOut = make(chan tmengine.VerifMRoundView)
	rn.hcChans = nil
	rn.committedSignals = nil
	rn.entered = false
	cfg.GossipStrategyOut = rn.gOut
	cfg.LagStateOut = make(chan tmelink.LagState)
	rn.replayIn = make(chan tmelink.ReplayedHeaderRequest)
	cfg.ReplayedHeadersIn = rn.replayIn
	cfg.StateMachineRoundEntranceIn = rn.entranceIn
	cfg.StateMachineRoundViewOut = rn.smOut
	m, err := tmengine.VerifNewInternalMirror(wctx, log, cfg)
	if err != nil {
		mcancel()
		panic(fmt.Errorf("NewMirror returned an error: %w", err))
	}
	rn.m, rn.mctx, rn.mcancel = m, mctx, mcancel
}

// deliver a proposed header; waits for the asynchronous add to land in the round store
func (rn *runner) doPH(ph tmconsensus.ProposedHeader, coq string) {
	if rn.phViaAction && rn.canAct() && ph.ProposerPubKey != nil {
		rn.doActionPH(ph, coq)
		return
	}
	if rn.pendingCrash >= 0 {
		rn.redo = func() { rn.stats["redelivered_ph"]++; rn.doPH(ph, coq) }
	}
	rn.touched[hr{ph.Header.Height, ph.Round}] = true
	if ph.Header.Height > 0 {
		rn.touched[hr{ph.Header.Height - 1, ph.Header.PrevCommitProof.Round}] = true
	}
	ctx, cancel := context.WithTimeout(rn.w.ctx, 5*time.Second)
	t0 := time.Now()
	res := rn.m.HandleProposedHeader(ctx, ph)
	cancel()
	if d := time.Since(t0); d > 4*time.Second {
		// the handler came back only because its context expired (or nearly): a peer message kept it busy for seconds
		rn.stats["handler_slower_than_4s"]++
		fmt.Fprintf(os.Stderr, "SLOW HandleProposedHeader height=%d round=%d took %v result=%d\n", ph.Header.Height, ph.Round, d, res)
	}
	if res == tmconsensus.HandleProposedHeaderAccepted && rn.pendingCrash >= 0 {
		// the add is asynchronous: wait until the kernel has issued its first store write for it
		deadline := time.Now().Add(3 * time.Second)
		for rn.bud.seen() == 0 && time.Now().Before(deadline) {
			var v tmconsensus.VersionedRoundView
			_ = rn.m.VotingView(rn.w.ctx, &v)
		}
		rn.knownPHs[hr{ph.Header.Height, ph.Round}] = append(rn.knownPHs[hr{ph.Header.Height, ph.Round}], ph)
	} else if res == tmconsensus.HandleProposedHeaderAccepted {
		deadline := time.Now().Add(3 * time.Second)
		for {
			phs, _, _, _ := rn.cfg.RoundStore.LoadRoundState(rn.w.ctx, ph.Header.Height, ph.Round)
			found := false
			for _, p := range phs {
				if bytes.Equal(p.Header.Hash, ph.Header.Hash) {
					found = true
				}
			}
			if found || time.Now().After(deadline) {
				break
			}
			var v tmconsensus.VersionedRoundView
			_ = rn.m.VotingView(rn.w.ctx, &v)
		}
		rn.knownPHs[hr{ph.Header.Height, ph.Round}] = append(rn.knownPHs[hr{ph.Header.Height, ph.Round}], ph)
	}
	rn.stats[fmt.Sprintf("ph_res_%d", res)]++
	rn.emit("(OpPH "+coq+")", uint64(res))
}

type voteEntry struct {
	hash string
	sigs []gcrypto.SparseSignature
}

func (rn *runner) doVotes(kind int, h uint64, r uint32, pkh string, entries []voteEntry) {
	if !rn.inRedo && rn.w.r.chance(1, 10) {
		// an entry for some block that carries no signature at all
		entries = append(append([]voteEntry{}, entries...), voteEntry{hash: fmt.Sprintf("unsigned-%d", rn.w.r.below(3)), sigs: nil})
		rn.stats["entry_without_signatures"]++
	}
	if rn.pendingCrash >= 0 {
		rn.redo = func() {
			rn.stats["redelivered_votes"]++
			rn.inRedo = true
			rn.doVotes(kind, h, r, pkh, entries)
			rn.inRedo = false
		}
	}
	rn.touched[hr{h, r}] = true
	proofs := map[string][]gcrypto.SparseSignature{}
	for _, e := range entries {
		proofs[e.hash] = append(proofs[e.hash], e.sigs...)
	}
	coq := fmt.Sprintf("(mk_vmsg %d %d %s %s)", h, r, coqBytes([]byte(pkh)), rn.w.coqProofs(proofs))
	ctx, cancel := context.WithTimeout(rn.w.ctx, 5*time.Second)
	var res tmconsensus.HandleVoteProofsResult
	if kind == kindPrevote {
		res = rn.m.HandlePrevoteProofs(ctx, tmconsensus.PrevoteSparseProof{Height: h, Round: r, PubKeyHash: pkh, Proofs: proofs})
		cancel()
		rn.stats[fmt.Sprintf("pv_res_%d", res)]++
		rn.emit("(OpPrevote "+coq+")", uint64(res))
	} else {
		res = rn.m.HandlePrecommitProofs(ctx, tmconsensus.PrecommitSparseProof{Height: h, Round: r, PubKeyHash: pkh, Proofs: proofs})
		cancel()
		rn.stats[fmt.Sprintf("pc_res_%d", res)]++
		rn.emit("(OpPrecommit "+coq+")", uint64(res))
	}
}

// signatures of a subset of validators of vs for a target; flaws injected per signature
func (rn *runner) mkSigs(vs valset, kind int, h uint64, r uint32, target string, idxs []int, flawRate int) []gcrypto.SparseSignature {
	w := rn.w
	var out []gcrypto.SparseSignature
	for _, i := range idxs {
		kid := keyID16(i)
		var sig []byte
		key := 0
		if i < len(vs.keys) {
			key = vs.keys[i]
		}
		if flawRate > 0 && w.r.below(100) < flawRate {
			switch w.r.below(8) {
			case 7: // a genuine signature of ANOTHER validator for this very target, re-filed under this key id
				other := (i + 1 + w.r.below(max(len(vs.keys)-1, 1))) % max(len(vs.keys), 1)
				okey := 0
				if other < len(vs.keys) {
					okey = vs.keys[other]
				}
				sig = w.voteSig(okey, kind, h, r, target)
				rn.stats["flaw_reused_sig"]++
			case 0:
				sig = w.junkSig()
				rn.stats["flaw_junk"]++
			case 1: // wrong key
				sig = w.voteSig((key+1+w.r.below(poolSize-1))%poolSize, kind, h, r, target)
				rn.stats["flaw_wrongkey"]++
			case 2: // wrong kind
				sig = w.voteSig(key, 1-kind, h, r, target)
				rn.stats["flaw_wrongkind"]++
			case 3: // wrong round
				sig = w.voteSig(key, kind, h, r+1, target)
				rn.stats["flaw_wronground"]++
			case 4: // other target
				sig = w.voteSig(key, kind, h, r, target+"x")
				rn.stats["flaw_wrongtarget"]++
			case 5: // out-of-range key id
				kid = keyID16(len(vs.keys) + w.r.below(3))
				sig = w.voteSig(key, kind, h, r, target)
				rn.stats["flaw_oob"]++
			default: // wrong-length key id (dropped by the key-id filter on the view path)
				if w.r.chance(1, 2) {
					kid = []byte{byte(i), 0, 0}
				} else {
					kid = []byte{0, byte(i), 7, 7}
				}
				sig = w.voteSig(key, kind, h, r, target)
				rn.stats["flaw_kidlen"]++
			}
		} else {
			sig = w.voteSig(key, kind, h, r, target)
		}
		out = append(out, gcrypto.SparseSignature{KeyID: kid, Sig: sig})
	}
	return out
}

func (rn *runner) randSubset(n int, atLeast int) []int {
	var out []int
	for i := 0; i < n; i++ {
		if rn.w.r.chance(1, 2) {
			out = append(out, i)
		}
	}
	for len(out) < atLeast && len(out) < n {
		i := rn.w.r.below(n)
		dup := false
		for _, j := range out {
			if j == i {
				dup = true
			}
		}
		if !dup {
			out = append(out, i)
		}
	}
	return out
}

func allIdx(n int) []int {
	out := make([]int, n)
	for i := range out {
		out[i] = i
	}
	return out
}

func (rn *runner) step() {
	w := rn.w
	if rn.failed {
		return
	}
	if rn.crashes && rn.pendingCrash < 0 {
		switch x := w.r.below(100); {
		case x < 4: // clean restart
			rn.stats["restart_clean"]++
			if rn.restartMirror("XRestart") {
				rn.printStep("STEP XRestart @@ 0 @@ %s\n", rn.observe())
			}
			return
		case x < 22: // the next operation is cut short after k store writes
			rn.pendingCrash = w.r.below(5)
			rn.bud.arm(rn.pendingCrash)
			rn.stats[fmt.Sprintf("crash_budget_%d", rn.pendingCrash)]++
		}
	}
	v, c := rn.views()
	if len(rn.script) > 0 {
		op := rn.script[0]
		rn.script = rn.script[1:]
		if rn.scripted(op, &v, &c) {
			return
		}
		rn.stats["script_abort_at_"+op]++
		rn.script = nil
	} else if rn.pendingCrash < 0 && w.r.chance(1, templateEvery()) {
		// interleaving templates; with consumers the races between the state machine and view shifts come first
		y := w.r.below(9)
		if y >= 6 {
			y += 2
		}
		if rn.consumers && !concurrentMode && w.r.chance(1, 3) {
			y = 6 + w.r.below(2)
		}
		if forcedTemplate >= 0 {
			y = forcedTemplate
		}
		canEnter := !rn.entered || v.Height > rn.lastEnterH || (v.Height == rn.lastEnterH && v.Round >= rn.lastEnterR)
		switch {
		case y <= 1 && rn.consumers && canEnter:
			// the mirror jumps a round while the state machine is not reading; the state machine enters
			// that round by itself and only then reads
			rn.stats["script_jump_enter_race"]++
			rn.script = []string{"enter-voting?", "nextround-all", "enter-voting", "precommit-one", "smread", "smread"}
		case y == 2 && rn.consumers && rn.entered:
			// the state machine stalls while the network commits several heights
			rn.stats["script_stalled_sm"]++
			rn.script = []string{"propose", "precommit-all", "propose", "precommit-all", "propose", "precommit-all", "propose", "precommit-all", "smread", "gread"}
		case y == 3 && replayMode:
			// a proposal is seen, the round is skipped, and the header comes back as a replayed header
			rn.stats["script_replay_of_seen_proposal"]++
			rn.script = []string{"propose", "nextround-all", "replay-known"}
		case y == 4:
			// a whole round in order: proposal, prevotes, precommits by everyone
			rn.stats["script_full_round"]++
			rn.script = []string{"propose", "prevote-all", "precommit-all"}
		case y == 6 && canEnter:
			// the local validator is late: the network commits the block while its own vote (for a target nobody
			// else voted for) is still on its way; the round it entered is the committing view when the vote arrives
			rn.stats["script_late_local_vote"]++
			rn.script = []string{"enter-voting?", "propose", "precommit-all", "act-fresh", "act-dup", "act-fresh", "smread", "gread"}
		case y == 7 && canEnter:
			// a whole round in which the local validator takes part: its proposal, its votes next to everybody's
			rn.stats["script_local_round"]++
			rn.script = []string{"enter-voting?", "act-ph", "act-prevote", "prevote-all", "act-precommit", "smread", "precommit-all", "act-precommit", "gread"}
		case y == 8:
			// a block is committed by a bare quorum while one validator precommits nil and two stay silent; the next
			// height's proposals then carry a commit proof with BOTH entries, one of which adds a silent validator's
			// precommit to the committing view (backfill) while the other adds nothing
			rn.stats["script_backfill_two_targets"]++
			rn.script = []string{"propose-wide", "precommit-all", "propose-wide", "precommit-all", "propose", "precommit-nil-one", "precommit-most", "propose-backfill", "gread", "propose-backfill", "smread", "gread"}
		case y == 10 && replayMode:
			// one validator's precommit for a proposal is in the view; the same header comes back as a replayed header
			// whose commit proof is below the majority but carries precommits the view does not hold
			rn.stats["script_refused_replay_of_voted_header"]++
			rn.script = []string{"propose", "precommit-one", "replay-voted-minority", "gread", "smread", "precommit-one"}
		case y == 9:
			// a fork attempt by a Byzantine majority: a block is committed by a bare quorum, then EVERY validator's
			// precommit for another block of that height and round arrives late (the committing view now holds more
			// power for the other block), then a proposal for the next height names that other block as its
			// predecessor and carries its certificate, and everyone precommits whatever proposal the mirror holds
			rn.stats["script_fork_attempt"]++
			rn.script = []string{"propose", "precommit-nil-one", "precommit-most", "late-fork-precommits", "propose-fork", "precommit-all", "gread"}
		case y == 13:
			// a height is committed, then a proposal for the next height whose previous-commit proof carries, next to the
			// genuine majority entry, a second entry mixing one authentic precommit with a junk signature: it must be refused.
			// Only reachable with -template 13.
			rn.stats["script_mixed_rest_entry"]++
			rn.script = []string{"propose-wide", "precommit-all", "propose-wide", "precommit-all", "propose", "precommit-nil-one", "precommit-most", "propose-mixed-proof", "gread", "propose", "precommit-all"}
		case y == 12 && replayMode:
			// a replayed header for a round TWO ahead of the voting round: once with a genuine certificate for that round
			// (accepted), once with a certificate whose signatures were made for the next round (must be refused); after a
			// precommit of one validator for the next round so that the next-round view is not empty.
			// Only reachable with -template 12.
			rn.stats["script_replay_two_rounds_ahead"]++
			rn.script = []string{"propose", "precommit-one-next", "replay-mixed-round", "gread", "replay-ahead2", "gread", "replay-same-set-forged", "gread", "propose", "precommit-all"}
		case y == 11 && rn.crashes:
			// a next-round prevote message that crosses the round-skip threshold is cut short after its FIRST store write (the
			// round store has the votes, the stored position is still the old round), the mirror restarts and the message is
			// delivered again; only reachable with -template 11 (it does not take part in the random choice above)
			rn.stats["script_crash_between_vote_write_and_position_write"]++
			rn.script = []string{"propose", "crash1-nextround-all", "gread", "precommit-one"}
		case y == 5:
			// a commit attempt made of ONE validator's precommit filed under every key id
			rn.stats["script_one_signature_for_all"]++
			rn.script = []string{"propose", "precommit-one-for-all", "precommit-one-for-all"}
		}
	}
	if rn.consumers {
		switch x := w.r.below(100); {
		case x < 10: // the state machine enters a round the mirror can answer for; like a real state
			// machine it only ever moves forward
			eh, er := v.Height, v.Round
			switch y := w.r.below(10); {
			case y < 6:
			case y < 7:
				er = v.Round + 1
			case y < 9 && c.Height > 0:
				eh, er = c.Height, c.Round
			case c.Height > rn.initH:
				eh, er = c.Height-1, 0
			}
			if rn.entered && rn.lastEnterH == v.Height && rn.lastEnterR < v.Round && w.r.chance(2, 3) {
				eh, er = v.Height, v.Round
			}
			if rn.hazards && v.Round > 0 && w.r.chance(1, 2) {
				eh, er = v.Height, v.Round-1 // a slow state machine enters a round the mirror has already left
			}
			if eh > rn.lastEnterH || (eh == rn.lastEnterH && er > rn.lastEnterR) || !rn.entered {
				rn.entered, rn.lastEnterH, rn.lastEnterR = true, eh, er
				rn.doEnter(eh, er)
				return
			}
		case x < 24:
			rn.doSMRead()
			return
		case x < 38:
			rn.doGRead()
			return
		case x < 52 && !concurrentMode:
			// the state machine acts: if it is not in the voting round any more it mostly catches up first
			if rn.entered && rn.pendingCrash < 0 && (v.Height > rn.lastEnterH || (v.Height == rn.lastEnterH && v.Round > rn.lastEnterR)) && w.r.chance(1, 2) {
				rn.lastEnterH, rn.lastEnterR = v.Height, v.Round
				rn.doEnter(v.Height, v.Round)
				return
			}
			if rn.seqAction(&v, &c) {
				return
			}
		}
	}
	if replayMode && w.r.chance(1, 9) {
		rn.replay(&v, &c)
		return
	}
	H, R := v.Height, v.Round
	cur := rn.valsFor(H)
	n := len(cur.keys)
	phsHere := rn.knownPHs[hr{H, R}]
	pkh := string(cur.vs.PubKeyHash)
	roll := w.r.below(100)
	switch {
	case roll < 22: // valid (or nearly valid) proposal for the voting round
		rn.proposal(&v, &c, H, R, 0)
	case roll < 40: // prevotes for a known proposal / nil / unknown
		target := rn.pickTarget(phsHere)
		rn.doVotes(kindPrevote, H, R, pkh, []voteEntry{{target, rn.mkSigs(cur, kindPrevote, H, R, target, rn.randSubset(n, 1), 8)}})
	case roll < 62: // precommits for a known proposal / nil / unknown
		target := rn.pickTarget(phsHere)
		idxs := rn.randSubset(n, 1)
		if w.r.chance(1, 2) {
			idxs = allIdx(n)
		}
		rn.doVotes(kindPrecommit, H, R, pkh, []voteEntry{{target, rn.mkSigs(cur, kindPrecommit, H, R, target, idxs, 6)}})
	case roll < 70: // votes in the next round (round skip), possibly equivocating over two targets
		kind := w.r.below(2)
		t1 := rn.pickTarget(rn.knownPHs[hr{H, R + 1}])
		es := []voteEntry{{t1, rn.mkSigs(cur, kind, H, R+1, t1, rn.randSubset(n, 1), 5)}}
		if w.r.chance(1, 3) {
			t2 := t1 + "eq"
			es = append(es, voteEntry{t2, rn.mkSigs(cur, kind, H, R+1, t2, rn.randSubset(n, 1), 0)})
		}
		rn.doVotes(kind, H, R+1, pkh, es)
	case roll < 76: // multi-target message in the voting round (equivocation)
		kind := w.r.below(2)
		t1 := rn.pickTarget(phsHere)
		t2 := ""
		if t1 == "" {
			t2 = "other"
		}
		rn.doVotes(kind, H, R, pkh, []voteEntry{
			{t1, rn.mkSigs(cur, kind, H, R, t1, rn.randSubset(n, 1), 10)},
			{t2, rn.mkSigs(cur, kind, H, R, t2, rn.randSubset(n, 1), 10)}})
	case roll < 82: // wrong pub key hash, empty message, all-invalid message
		kind := w.r.below(2)
		switch w.r.below(3) {
		case 0:
			rn.doVotes(kind, H, R, "not-the-hash", []voteEntry{{"", rn.mkSigs(cur, kind, H, R, "", allIdx(n), 0)}})
		case 1:
			rn.doVotes(kind, H, R, pkh, nil)
		default:
			t := rn.pickTarget(phsHere)
			rn.doVotes(kind, H, R, pkh, []voteEntry{{t, rn.mkSigs(cur, kind, H, R, t, rn.randSubset(n, 1), 100)}})
		}
	case roll < 88: // votes for other rounds/heights: committing view, old, future
		kind := w.r.below(2)
		var h uint64
		var r uint32
		vs := cur
		switch w.r.below(6) {
		case 0: // committing view
			h, r = c.Height, c.Round
			vs = rn.valsFor(h)
		case 1: // committing height, later round
			h, r = c.Height, c.Round+1+uint32(w.r.below(2))
			vs = rn.valsFor(h)
		case 2: // old round
			if R > 0 {
				h, r = H, R-1
			} else {
				h, r = H, R+2
			}
		case 3: // future round
			h, r = H, R+2+uint32(w.r.below(2))
		case 4: // future height
			h, r = H+1+uint64(w.r.below(2)), uint32(w.r.below(2))
			vs = rn.valsFor(h)
		default: // old height
			if H > 1 {
				h, r = H-1-uint64(w.r.below(int(H-1))), uint32(w.r.below(2))
			} else {
				h, r = 0, 0
			}
			vs = rn.valsFor(h)
		}
		t := ""
		if w.r.chance(1, 2) {
			t = "some-block"
		}
		nn := len(vs.keys)
		// the future path has no key-id filter: keep key ids well formed there (flaw kinds 0-4 only)
		rn.doVotes(kind, h, r, string(vs.vs.PubKeyHash), []voteEntry{{t, rn.mkSigsNoKid(vs, kind, h, r, t, rn.randSubset(nn, 1), 10)}})
	default: // odd proposals
		rn.proposal(&v, &c, H, R, 1+w.r.below(12))
	}
}

// concurrentRound delivers a batch of overlapping messages from concurrent callers, some of which give up early
// (context cancelled), then checks that the kernel still answers and lets both consumers read until nothing is offered.
func (rn *runner) concurrentRound() {
	w := rn.w
	v, c := rn.views()
	H, R := v.Height, v.Round
	cur := rn.valsFor(H)
	n := len(cur.keys)
	pkh := string(cur.vs.PubKeyHash)
	if w.r.chance(1, 2) {
		rn.proposal(&v, &c, H, R, 0)
		v, c = rn.views()
		if v.Height != H || v.Round != R {
			return
		}
	}
	if rn.consumers && (!rn.entered || H > rn.lastEnterH || (H == rn.lastEnterH && R > rn.lastEnterR)) && w.r.chance(1, 2) {
		rn.entered, rn.lastEnterH, rn.lastEnterR = true, H, R
		if rn.smKey < 0 || w.r.chance(1, 4) {
			rn.smKey = cur.keys[w.r.below(n)]
		}
		rn.doEnter(H, R)
	}
	if rn.consumers && rn.entered && rn.lastEnterH == H && rn.lastEnterR == R && len(rn.knownPHs[hr{H, R}]) > 0 && w.r.chance(1, 2) {
		// the local validator is late: the network commits the block while its own vote (nil, which nobody else cast)
		// is still on its way; the round it entered is the committing view by the time the vote arrives
		rn.stats["late_local_vote"]++
		blk := string(rn.knownPHs[hr{H, R}][0].Header.Hash)
		rn.doVotes(kindPrecommit, H, R, pkh, []voteEntry{{blk, rn.mkSigs(cur, kindPrecommit, H, R, blk, allIdx(n), 0)}})
		rn.doActionVote(kindPrevote+w.r.below(2), "")
		return
	}
	targets := []string{""}
	for _, p := range rn.knownPHs[hr{H, R}] {
		targets = append(targets, string(p.Header.Hash))
	}
	type call struct {
		kind    int
		r       uint32
		proofs  map[string][]gcrypto.SparseSignature
		giveUp  time.Duration
		entries int
	}
	k := 3 + w.r.below(4)
	impatient := 3 // callers for a FUTURE round that give up while the kernel is still working on their request
	calls := make([]call, k+impatient)
	for i := range calls {
		cl := call{kind: kindPrecommit, r: R, proofs: map[string][]gcrypto.SparseSignature{}}
		if w.r.chance(1, 3) {
			cl.kind = kindPrevote
		}
		if w.r.chance(1, 6) {
			cl.r = R + 1 + uint32(w.r.below(3)) // next round or a future one
		}
		if i >= k {
			cl.r = R + 2 + uint32(w.r.below(3))
			cl.kind = w.r.below(2)
			cl.giveUp = time.Duration(1+w.r.below(150)) * time.Microsecond
		}
		ne := 1 + w.r.below(2)
		for e := 0; e < ne; e++ {
			t := targets[w.r.below(len(targets))]
			if w.r.chance(1, 8) {
				t = "other-block"
			}
			idxs := rn.randSubset(n, 1)
			if len(idxs) > 2 && w.r.chance(1, 2) {
				idxs = idxs[:2] // small overlapping subsets keep the round open for the next batch
			}
			cl.proofs[t] = append(cl.proofs[t], rn.mkSigs(cur, cl.kind, H, cl.r, t, idxs, 3)...)
		}
		if i < k && w.r.chance(1, 3) {
			cl.giveUp = time.Duration(20+w.r.below(400)) * time.Microsecond
		}
		calls[i] = cl
		rn.touched[hr{H, cl.r}] = true
	}
	if n >= 2 && w.r.chance(1, 2) {
		// partly overlapping requests: callers X carry {A: S}, callers Y carry {A: S, B: T}. When all take their view
		// snapshot before the kernel handles any of them, an X is applied first, then a Y is applied PARTLY (A conflicts
		// with the version X left, B is new) and its retry finds nothing left to add: whatever entered the view with
		// the partial application must still be counted, marked and handed to the consumers.
		rn.stats["concurrent_partial_overlap_batches"]++
		kind := kindPrecommit
		if w.r.chance(1, 2) {
			kind = kindPrevote
		}
		a := targets[0]
		b := "other-block"
		if len(targets) > 1 && w.r.chance(2, 3) {
			b = targets[1+w.r.below(len(targets)-1)]
		}
		if w.r.chance(1, 3) {
			a, b = b, a
		}
		perm := w.r.permPrefix(n, n)
		sIdx := perm[:1]
		// nothing else in this batch: a later change of the same view would publish what the partial application left
		calls = calls[:0]
		for rep := 0; rep < 2; rep++ {
			calls = append(calls, call{kind: kind, r: R, proofs: map[string][]gcrypto.SparseSignature{a: rn.mkSigs(cur, kind, H, R, a, sIdx, 0)}})
		}
		calls = append(calls, call{kind: kind, r: R, proofs: map[string][]gcrypto.SparseSignature{
			a: rn.mkSigs(cur, kind, H, R, a, sIdx, 0), b: rn.mkSigs(cur, kind, H, R, b, perm[1:2], 0)}})
	}
	start := make(chan struct{})
	var wg sync.WaitGroup
	for i := range calls {
		cl := calls[i]
		wg.Add(1)
		go func() {
			defer wg.Done()
			<-start
			ctx, cancel := context.WithTimeout(w.ctx, 3*time.Second)
			if cl.giveUp > 0 {
				ctx, cancel = context.WithTimeout(w.ctx, cl.giveUp)
			}
			defer cancel()
			if cl.kind == kindPrevote {
				rn.m.HandlePrevoteProofs(ctx, tmconsensus.PrevoteSparseProof{Height: H, Round: cl.r, PubKeyHash: pkh, Proofs: cl.proofs})
			} else {
				rn.m.HandlePrecommitProofs(ctx, tmconsensus.PrecommitSparseProof{Height: H, Round: cl.r, PubKeyHash: pkh, Proofs: cl.proofs})
			}
		}()
	}
	close(start)
	done := make(chan struct{})
	go func() { wg.Wait(); close(done) }()
	select {
	case <-done:
	case <-time.After(8 * time.Second):
		fmt.Fprintf(rn.out, "HUNG callers did not return within 8s after a concurrent batch of %d messages at %d/%d\n", len(calls), H, R)
		rn.hungExit()
	}
	rn.stats["concurrent_batches"]++
	rn.stats["concurrent_calls"] += len(calls)
	// the kernel must still answer
	pctx, pcancel := context.WithTimeout(w.ctx, 3*time.Second)
	var pv tmconsensus.VersionedRoundView
	err := rn.m.VotingView(pctx, &pv)
	pcancel()
	if err != nil {
		fmt.Fprintf(rn.out, "HUNG the kernel does not answer a view request after a concurrent batch of %d messages at %d/%d: %v\n", len(calls), H, R, err)
		rn.hungExit()
	}
	rn.io = TL([]string{TN(0)})
	rn.printStep("STEP %s @@ %d @@ %s\n", "batch", 0, rn.observe())
	if rn.consumers {
		if rn.entered && w.r.chance(2, 3) {
			// the state machine's own vote, possibly late (the mirror may have moved on meanwhile)
			t := targets[w.r.below(len(targets))]
			rn.doActionVote(kindPrevote+w.r.below(2), t)
		}
		for i := 0; i < 3; i++ {
			rn.doGRead()
			if rn.entered {
				rn.doSMRead()
			}
		}
		if w.r.chance(1, 5) {
			// a clean restart on the same stores: everything persisted so far must load
			rn.stats["concurrent_restart"]++
			if !rn.restartMirror("XRestart") {
				fmt.Fprintf(rn.out, "HUNG restart failed after a concurrent batch at %d/%d\n", H, R)
				rn.hungExit()
			}
			rn.entered = false
			rn.printStep("STEP %s @@ %d @@ %s\n", "XRestart", 0, rn.observe()) // io = restarted: the stream monitors start over
		}
	}
}

// doActionVote: the state machine hands the mirror its own vote for the round it entered
func (rn *runner) doActionVote(kind int, target string) {
	if !rn.entered || rn.smKey < 0 || rn.actions == nil {
		return
	}
	h, r := rn.lastEnterH, rn.lastEnterR
	vt := tmconsensus.VoteTarget{Height: h, Round: r, BlockHash: target}
	var sb []byte
	if kind == kindPrevote {
		sb, _ = tmconsensus.PrevoteSignBytes(vt, rn.w.ss)
	} else {
		sb, _ = tmconsensus.PrecommitSignBytes(vt, rn.w.ss)
	}
	sig := rn.w.voteSig(rn.smKey, kind, h, r, target)
	act := tmengine.VerifMRoundAction{}
	ss := tmengine.VerifMScopedSignature{TargetHash: target, SignContent: sb, Sig: sig}
	if kind == kindPrevote {
		act.Prevote = ss
	} else {
		act.Precommit = ss
	}
	select {
	case rn.actions <- act:
	case <-time.After(2 * time.Second):
		panic("kernel did not take the state machine action")
	}
	rn.touched[hr{h, r}] = true
	rn.barrier()
	rn.barrier()
	rn.stats[fmt.Sprintf("sm_action_%d", kind)]++
	rn.io = TL([]string{TN(0)})
	rn.printStep("STEP %s @@ %d @@ %s\n", "action", 0, rn.observe())
}

type actRec struct {
	kind   int
	target string
	sig    []byte
}

// sendAction hands one action to the kernel through the entrance's action channel and waits until the kernel has
// taken it and finished the loop iteration that handles it.
func (rn *runner) sendAction(act tmengine.VerifMRoundAction) {
	select {
	case rn.actions <- act:
	case <-time.After(2 * time.Second):
		panic("kernel did not take the state machine action")
	}
	deadline := time.Now().Add(3 * time.Second)
	for len(rn.actions) > 0 {
		if time.Now().After(deadline) {
			panic("kernel did not receive the state machine action")
		}
		rn.barrier()
	}
	rn.barrier()
}

// canAct: the harness's state machine has an open action channel into the running kernel
func (rn *runner) canAct() bool {
	return rn.consumers && rn.entered && rn.actions != nil && rn.pendingCrash < 0
}

// doSeqActionVote (sequential mode): the state machine's own prevote / precommit for the round it entered, printed as
// a model operation. flaw: 0 genuine, 1 junk bytes, 2 another key's signature, 3 signature for the next round,
// 4 signature of the other vote kind, 5 signature for another target. The sign content handed along is always the
// sign bytes of (kind, entered height, entered round, target).
func (rn *runner) doSeqActionVote(kind int, target string, flaw int) {
	if !rn.canAct() || rn.smKey < 0 {
		return
	}
	w := rn.w
	h, r := rn.lastEnterH, rn.lastEnterR
	vt := tmconsensus.VoteTarget{Height: h, Round: r, BlockHash: target}
	var sb []byte
	if kind == kindPrevote {
		sb, _ = tmconsensus.PrevoteSignBytes(vt, w.ss)
	} else {
		sb, _ = tmconsensus.PrecommitSignBytes(vt, w.ss)
	}
	var sig []byte
	switch flaw {
	case 1:
		sig = w.junkSig()
	case 2:
		sig = w.voteSig((rn.smKey+1+w.r.below(poolSize-1))%poolSize, kind, h, r, target)
	case 3:
		sig = w.voteSig(rn.smKey, kind, h, r+1, target)
	case 4:
		sig = w.voteSig(rn.smKey, 1-kind, h, r, target)
	case 5:
		sig = w.voteSig(rn.smKey, kind, h, r, target+"x")
	default:
		sig = w.voteSig(rn.smKey, kind, h, r, target)
	}
	rn.doSeqActionSig(kind, target, sb, sig)
	rn.stats[fmt.Sprintf("sm_action_flaw_%d", flaw)]++
}

func (rn *runner) doSeqActionSig(kind int, target string, sb, sig []byte) {
	h, r := rn.lastEnterH, rn.lastEnterR
	v, c := rn.views()
	switch {
	case v.Height == h && v.Round == r:
		rn.stats["sm_action_timely"]++
	case c.Height == h && c.Round == r:
		rn.stats["sm_action_late_committing"]++
	default:
		rn.stats["sm_action_late_dropped"]++
	}
	act := tmengine.VerifMRoundAction{}
	ss := tmengine.VerifMScopedSignature{TargetHash: target, SignContent: sb, Sig: sig}
	name := "MActPrevote"
	if kind == kindPrevote {
		act.Prevote = ss
	} else {
		act.Precommit = ss
		name = "MActPrecommit"
	}
	rn.touched[hr{h, r}] = true
	opText := fmt.Sprintf("(%s %s %s)", name, coqBytes([]byte(target)), rn.w.desc(sig))
	if !concurrentMode {
		flushDefs(rn.out)
		fmt.Fprintf(rn.out, "ATTEMPT %s\n", opText) // if the kernel dies on it, this is the operation that killed it
	}
	rn.sendAction(act)
	rn.lastAct = &actRec{kind, target, sig}
	rn.stats[fmt.Sprintf("sm_action_%d", kind)]++
	rn.printStep("STEP %s @@ 0 @@ %s\n", opText, rn.observe())
}

// seqAction: one random action of the state machine in sequential mode
func (rn *runner) seqAction(v, c *tmconsensus.VersionedRoundView) bool {
	if !rn.canAct() {
		return false
	}
	w := rn.w
	h, r := rn.lastEnterH, rn.lastEnterR
	x := w.r.below(100)
	if x < 14 && v.Height == h && v.Round == r {
		// its own proposal for the round it is in: the kernel files it without any check. Mostly a well-formed one;
		// now and then one whose block hash is wrong (the witness of C05Act_local_ph_keeps_chain_invariant_refuted:
		// the real kernel files it just the same)
		variant := 0
		if x < 3 {
			variant = 1
			rn.stats["sm_action_ph_unchecked"]++
		}
		rn.phViaAction = true
		rn.proposal(v, c, h, r, variant)
		rn.phViaAction = false
		return true
	}
	if rn.smKey < 0 {
		return false // a state machine without a key does not vote
	}
	if x < 24 && rn.lastAct != nil {
		// the same vote again
		a := rn.lastAct
		vt := tmconsensus.VoteTarget{Height: h, Round: r, BlockHash: a.target}
		var sb []byte
		if a.kind == kindPrevote {
			sb, _ = tmconsensus.PrevoteSignBytes(vt, w.ss)
		} else {
			sb, _ = tmconsensus.PrecommitSignBytes(vt, w.ss)
		}
		rn.stats["sm_action_duplicate"]++
		rn.doSeqActionSig(a.kind, a.target, sb, a.sig)
		return true
	}
	kind := w.r.below(2)
	target := rn.pickTarget(rn.knownPHs[hr{h, r}])
	if w.r.chance(1, 5) {
		target = fmt.Sprintf("local-only-%d", w.r.below(2)) // a target nobody else votes for
	}
	flaw := 0
	if w.r.chance(1, 4) {
		flaw = 1 + w.r.below(5)
	}
	rn.doSeqActionVote(kind, target, flaw)
	return true
}

// doActionPH (sequential mode): the state machine's own proposed header
func (rn *runner) doActionPH(ph tmconsensus.ProposedHeader, coq string) {
	rn.touched[hr{ph.Header.Height, ph.Round}] = true
	if ph.Header.Height > 0 {
		rn.touched[hr{ph.Header.Height - 1, ph.Header.PrevCommitProof.Round}] = true
	}
	rn.sendAction(tmengine.VerifMRoundAction{PH: ph})
	phs, _, _, _ := rn.cfg.RoundStore.LoadRoundState(rn.w.ctx, ph.Header.Height, ph.Round)
	for _, p := range phs {
		if bytes.Equal(p.Header.Hash, ph.Header.Hash) {
			rn.knownPHs[hr{ph.Header.Height, ph.Round}] = append(rn.knownPHs[hr{ph.Header.Height, ph.Round}], ph)
			break
		}
	}
	rn.stats["sm_action_ph"]++
	rn.printStep("STEP (MActPH %s) @@ 0 @@ %s\n", coq, rn.observe())
}

// hungExit ends the process: a blocked kernel goroutine cannot be waited for
func (rn *runner) hungExit() {
	flushDefs(rn.out)
	fmt.Fprintf(rn.out, "END\n")
	if f, ok := rn.out.(*os.File); ok {
		f.Sync()
	}
	os.Exit(3)
}

// backfillPlan picks, for the "backfill two targets" template, the nil voter (least power) and up to two silent
// validators of low power such that the remaining ones (rest) still hold a Byzantine majority; ok = false if the
// others cannot commit without the nil voter.
func backfillPlan(pows []uint64) (nilIdx int, silent, rest []int, ok bool) {
	n := len(pows)
	if n < 2 {
		return 0, nil, nil, false
	}
	var total uint64
	for _, p := range pows {
		total += p
	}
	if total == 0 {
		return 0, nil, nil, false
	}
	maj := tmconsensus.ByzantineMajority(total)
	order := lowestIdx(pows, n)
	nilIdx = order[0]
	have := total - pows[nilIdx]
	if have < maj {
		return 0, nil, nil, false
	}
	for _, i := range order[1:] {
		if len(silent) < 2 && have-pows[i] >= maj {
			have -= pows[i]
			silent = append(silent, i)
		}
	}
	for i := 0; i < n; i++ {
		isSilent := false
		for _, x := range silent {
			isSilent = isSilent || x == i
		}
		if !isSilent && i != nilIdx {
			rest = append(rest, i)
		}
	}
	return nilIdx, silent, rest, true
}

// minorityIdx: validators (lowest power first) whose total power stays below the Byzantine majority, among them at
// least one other than `except`; nil if there is no such set.
func minorityIdx(pows []uint64, except int) []int {
	var total uint64
	for _, p := range pows {
		total += p
	}
	if total == 0 {
		return nil
	}
	maj := tmconsensus.ByzantineMajority(total)
	var out []int
	var sum uint64
	other := false
	for _, i := range lowestIdx(pows, len(pows)) {
		if sum+pows[i] < maj {
			sum += pows[i]
			out = append(out, i)
			other = other || i != except
		}
	}
	if !other {
		return nil
	}
	return out
}

// lowestIdx returns the indices of the k smallest powers (ties: lower index first).
func lowestIdx(pows []uint64, k int) []int {
	idx := make([]int, len(pows))
	for i := range idx {
		idx[i] = i
	}
	sort.SliceStable(idx, func(a, b int) bool { return pows[idx[a]] < pows[idx[b]] })
	if len(idx) > k {
		idx = idx[:k]
	}
	return idx
}

// scripted runs one operation of an interleaving template against the mirror's current position;
// false: the template no longer applies.
func (rn *runner) scripted(op string, v, c *tmconsensus.VersionedRoundView) bool {
	H, R := v.Height, v.Round
	cur := rn.valsFor(H)
	n := len(cur.keys)
	pkh := string(cur.vs.PubKeyHash)
	target := ""
	if phs := rn.knownPHs[hr{H, R}]; len(phs) > 0 {
		target = string(phs[len(phs)-1].Header.Hash)
	}
	switch op {
	case "crash1-nextround-all":
		if rn.crashes && rn.pendingCrash < 0 {
			rn.pendingCrash = 1
			rn.bud.arm(1)
			rn.stats["crash_budget_1_scripted"]++
		}
		rn.doVotes(kindPrevote, H, R+1, pkh, []voteEntry{{"", rn.mkSigs(cur, kindPrevote, H, R+1, "", allIdx(n), 0)}})
	case "nextround-all":
		rn.doVotes(kindPrevote, H, R+1, pkh, []voteEntry{{"", rn.mkSigs(cur, kindPrevote, H, R+1, "", allIdx(n), 0)}})
	case "enter-voting?":
		if !rn.entered || H > rn.lastEnterH || (H == rn.lastEnterH && R > rn.lastEnterR) {
			rn.entered, rn.lastEnterH, rn.lastEnterR = true, H, R
			rn.doEnter(H, R)
		} else if !(H == rn.lastEnterH && R == rn.lastEnterR) {
			return false
		} else {
			rn.doSMRead()
		}
	case "enter-voting":
		if !(H > rn.lastEnterH || (H == rn.lastEnterH && R > rn.lastEnterR) || !rn.entered) {
			return false
		}
		rn.entered, rn.lastEnterH, rn.lastEnterR = true, H, R
		rn.doEnter(H, R)
	case "vote-here":
		rn.doVotes(kindPrevote, H, R, pkh, []voteEntry{{target, rn.mkSigs(cur, kindPrevote, H, R, target, rn.randSubset(n, 1), 0)}})
	case "replay-voted-minority":
		rn.forceReplay = 12
		rn.replay(v, c)
	case "replay-mixed-round":
		rn.forceReplay = 14
		rn.replay(v, c)
	case "replay-same-set-forged":
		rn.forceReplay = 15
		rn.replay(v, c)
	case "replay-ahead2":
		rn.forceReplay = 3
		rn.replay(v, c)
	case "precommit-one-next":
		i := rn.w.r.below(max(n, 1))
		rn.doVotes(kindPrecommit, H, R+1, pkh, []voteEntry{{target, rn.mkSigs(cur, kindPrecommit, H, R+1, target, []int{i}, 0)}})
	case "precommit-one":
		i := rn.w.r.below(max(n, 1))
		rn.lastOneVoter = i
		rn.doVotes(kindPrecommit, H, R, pkh, []voteEntry{{target, rn.mkSigs(cur, kindPrecommit, H, R, target, []int{i}, 0)}})
	case "precommit-one-for-all":
		i0 := rn.w.r.below(max(n, 1))
		key0 := 0
		if i0 < n {
			key0 = cur.keys[i0]
		}
		one := rn.w.voteSig(key0, kindPrecommit, H, R, target)
		sigs := []gcrypto.SparseSignature{{KeyID: keyID16(i0), Sig: one}}
		for i := 0; i < n; i++ {
			if i != i0 {
				sigs = append(sigs, gcrypto.SparseSignature{KeyID: keyID16(i), Sig: one})
			}
		}
		rn.doVotes(kindPrecommit, H, R, pkh, []voteEntry{{target, sigs}})
	case "precommit-nil-one", "precommit-most":
		// the validator of least power precommits nil, up to two more of low power stay silent until the backfill
		nilIdx, silent, rest, ok := backfillPlan(cur.pows)
		if os.Getenv("VERIF_DEBUG_SCRIPT") != "" {
			fmt.Fprintf(os.Stderr, "SCRIPT %s H=%d R=%d pows=%v nil=%d silent=%v rest=%v ok=%v target=%q\n", op, H, R, cur.pows, nilIdx, silent, rest, ok, target)
		}
		if !ok {
			return false
		}
		if op == "precommit-nil-one" {
			// the backfilling proposals add, one each, the silent validators' precommits for the block (a commit proof
			// must not contain two votes of one validator, so the nil voter cannot be added)
			rn.backfillH, rn.backfillR, rn.backfillHeld, rn.backfillTarget = H, R, append([]int{}, silent...), target
			rn.doVotes(kindPrecommit, H, R, pkh, []voteEntry{{"", rn.mkSigs(cur, kindPrecommit, H, R, "", []int{nilIdx}, 0)}})
		} else {
			if target == "" || rn.backfillH != H || rn.backfillR != R {
				return false
			}
			rn.doVotes(kindPrecommit, H, R, pkh, []voteEntry{{target, rn.mkSigs(cur, kindPrecommit, H, R, target, rest, 0)}})
		}
	case "propose-wide":
		rn.forceWide = true
		rn.proposal(v, c, H, R, 0)
		rn.forceWide = false
	case "late-fork-precommits":
		if c.Height != rn.backfillH || c.Round != rn.backfillR || H != rn.backfillH+1 {
			return false
		}
		vsC := rn.valsFor(c.Height)
		rn.doVotes(kindPrecommit, c.Height, c.Round, string(vsC.vs.PubKeyHash), []voteEntry{{"not-the-committed-block",
			rn.mkSigs(vsC, kindPrecommit, c.Height, c.Round, "not-the-committed-block", allIdx(len(vsC.keys)), 0)}})
	case "propose-fork":
		if c.Height != rn.backfillH || H != rn.backfillH+1 {
			return false
		}
		rn.proposal(v, c, H, R, 11)
	case "propose-backfill":
		if os.Getenv("VERIF_DEBUG_SCRIPT") != "" {
			fmt.Fprintf(os.Stderr, "SCRIPT %s H=%d c=%d/%d bf=%d/%d held=%v\n", op, H, c.Height, c.Round, rn.backfillH, rn.backfillR, rn.backfillHeld)
		}
		if H != rn.backfillH+1 || c.Height != rn.backfillH || c.Round != rn.backfillR || len(rn.backfillHeld) == 0 {
			return false
		}
		rn.forceBackfill = []int{rn.backfillHeld[0]}
		rn.backfillHeld = rn.backfillHeld[1:]
		rn.stats["script_backfill_proposal"]++
		before := rn.stats["ph_res_1"]
		rn.proposal(v, c, H, R, 0)
		if rn.stats["ph_res_1"] > before {
			rn.stats["script_backfill_proposal_accepted"]++
		}
		if os.Getenv("VERIF_DEBUG_SCRIPT") != "" {
			_, c2 := rn.views()
			nb := func(x *tmconsensus.VersionedRoundView) string {
				out := ""
				for k, p := range x.PrecommitProofs {
					out += fmt.Sprintf(" %x:%d", []byte(k)[:min(len(k), 2)], len(p.AsSparse().Signatures))
				}
				return out
			}
			fmt.Fprintf(os.Stderr, "SCRIPT backfill result: committing before v=%d pcv=%d [%s] after v=%d pcv=%d [%s]\n", c.Version, c.PrecommitVersion, nb(c), c2.Version, c2.PrecommitVersion, nb(&c2))
		}
		rn.forceBackfill = nil
	case "prevote-all":
		rn.doVotes(kindPrevote, H, R, pkh, []voteEntry{{target, rn.mkSigs(cur, kindPrevote, H, R, target, allIdx(n), 0)}})
	case "precommit-all":
		rn.doVotes(kindPrecommit, H, R, pkh, []voteEntry{{target, rn.mkSigs(cur, kindPrecommit, H, R, target, allIdx(n), 0)}})
	case "propose":
		rn.proposal(v, c, H, R, 0)
	case "propose-mixed-proof":
		rn.proposal(v, c, H, R, 13)
	case "replay-known":
		rn.forceReplay = 10
		rn.replay(v, c)
	case "smread":
		rn.doSMRead()
	case "gread":
		rn.doGRead()
	case "act-fresh": // a vote of the state machine for a target nobody else voted for
		if !rn.canAct() {
			return false
		}
		rn.doSeqActionVote(rn.w.r.below(2), fmt.Sprintf("local-only-%d", rn.w.r.below(2)), 0)
	case "act-dup":
		if !rn.canAct() {
			return false
		}
		if a := rn.lastAct; a != nil && rn.smKey >= 0 {
			vt := tmconsensus.VoteTarget{Height: rn.lastEnterH, Round: rn.lastEnterR, BlockHash: a.target}
			var sb []byte
			if a.kind == kindPrevote {
				sb, _ = tmconsensus.PrevoteSignBytes(vt, rn.w.ss)
			} else {
				sb, _ = tmconsensus.PrecommitSignBytes(vt, rn.w.ss)
			}
			rn.stats["sm_action_duplicate"]++
			rn.doSeqActionSig(a.kind, a.target, sb, a.sig)
		}
	case "act-prevote", "act-precommit":
		if !rn.canAct() {
			return false
		}
		st := target
		if !(rn.lastEnterH == H && rn.lastEnterR == R) {
			if phs := rn.knownPHs[hr{rn.lastEnterH, rn.lastEnterR}]; len(phs) > 0 {
				st = string(phs[len(phs)-1].Header.Hash)
			}
		}
		kind := kindPrevote
		if op == "act-precommit" {
			kind = kindPrecommit
		}
		rn.doSeqActionVote(kind, st, 0)
	case "act-ph":
		if !rn.canAct() || !(rn.lastEnterH == H && rn.lastEnterR == R) {
			return false
		}
		phVariant := 0
		if rn.w.r.chance(1, 4) {
			phVariant = 1 // wrong block hash: filed all the same (C05Act_local_ph_keeps_chain_invariant_refuted)
			rn.stats["sm_action_ph_unchecked"]++
		}
		rn.phViaAction = true
		rn.proposal(v, c, H, R, phVariant)
		rn.phViaAction = false
	default:
		panic("unknown scripted op " + op)
	}
	return true
}

func (rn *runner) mkSigsNoKid(vs valset, kind int, h uint64, r uint32, target string, idxs []int, flawRate int) []gcrypto.SparseSignature {
	w := rn.w
	var out []gcrypto.SparseSignature
	for _, i := range idxs {
		key := 0
		if i < len(vs.keys) {
			key = vs.keys[i]
		}
		var sig []byte
		if w.r.below(100) < flawRate {
			switch w.r.below(4) {
			case 0:
				sig = w.junkSig()
			case 1:
				sig = w.voteSig((key+1+w.r.below(poolSize-1))%poolSize, kind, h, r, target)
			case 2:
				sig = w.voteSig(key, 1-kind, h, r, target)
			default:
				sig = w.voteSig(key, kind, h, r+1, target)
			}
			rn.stats["flaw_future"]++
		} else {
			sig = w.voteSig(key, kind, h, r, target)
		}
		out = append(out, gcrypto.SparseSignature{KeyID: keyID16(i), Sig: sig})
	}
	return out
}

func (rn *runner) pickTarget(phs []tmconsensus.ProposedHeader) string {
	w := rn.w
	x := w.r.below(10)
	if len(phs) > 0 && x < 7 {
		return string(phs[w.r.below(len(phs))].Header.Hash)
	}
	if x < 9 {
		return ""
	}
	return fmt.Sprintf("unknown-%d", w.r.below(3))
}

// variant 0 = well formed; others inject one flaw
func (rn *runner) proposal(v, c *tmconsensus.VersionedRoundView, H uint64, R uint32, variant int) {
	w := rn.w
	h, r := H, R
	pcp := v.PrevCommitProof.Clone()
	if pcp.Proofs == nil {
		pcp.Proofs = map[string][]gcrypto.SparseSignature{}
	}
	switch variant {
	case 5:
		r = R + 1
	case 6:
		r = R + 2 + uint32(w.r.below(2))
	case 7:
		if R > 0 {
			r = R - 1
		} else {
			h, r = c.Height, c.Round
		}
	case 8: // next height, with a commit proof made of precommits the harness forges honestly
		h = H + 1
		r = 0
	case 9: // committing height
		h, r = c.Height, c.Round+uint32(w.r.below(2))
	}
	cur := rn.valsFor(h)
	next, haveNext := rn.valsAt[h+1]
	if !haveNext && rn.forceWide {
		next = w.wideValset()
	} else if !haveNext {
		next = w.randValset()
		switch w.r.below(6) {
		case 0, 1:
			next = cur // unchanged set
			next.ok = true
		case 2:
			// the same validators with other powers: the key hash stays, only the vote power hash changes
			pows := make([]uint64, len(cur.pows))
			for i, p := range cur.pows {
				pows[i] = p
				if w.r.chance(2, 3) {
					pows[i] = uint64(1 + w.r.below(1000))
				}
			}
			next = w.mkValset(cur.keys, pows)
			rn.stats["next_valset_same_keys_other_powers"]++
		}
	}
	if variant == 8 {
		// commit proof for height H: precommits by everyone for a known proposal of (H,R) if any
		phs := rn.knownPHs[hr{H, R}]
		tgt := "nothing"
		if len(phs) > 0 {
			tgt = string(phs[0].Header.Hash)
		}
		vsH := rn.valsFor(H)
		idxs := allIdx(len(vsH.keys))
		if w.r.chance(1, 3) {
			idxs = rn.randSubset(len(vsH.keys), 1)
		}
		pcp = tmconsensus.CommitProof{Round: R, PubKeyHash: string(vsH.vs.PubKeyHash),
			Proofs: map[string][]gcrypto.SparseSignature{tgt: rn.mkSigs(vsH, kindPrecommit, H, R, tgt, idxs, 0)}}
		if len(phs) > 0 {
			if nv, ok := rn.valsAt[H+1]; ok {
				cur = nv
			}
		}
	}
	if variant == 0 && rn.forceBackfill != nil {
		main := rn.backfillTarget
		vsC := rn.valsFor(c.Height)
		pcp.Proofs[main] = append(pcp.Proofs[main], rn.mkSigs(vsC, kindPrecommit, c.Height, pcp.Round, main, rn.forceBackfill, 0)...)
		rn.stats["backfill_extra_sig"]++
	} else if variant == 0 && c.Height > 0 && w.r.chance(4, 5) {
		// a careful proposer only carries the precommits for the committed block
		main := c.VoteSummary.MostVotedPrecommitHash
		for k := range pcp.Proofs {
			if k != main {
				delete(pcp.Proofs, k)
			}
		}
	}
	if variant == 0 && rn.forceBackfill == nil && h == H && c.Height+1 == h && c.Height > 0 && w.r.chance(1, 3) {
		// an honest proposer that saw more precommits for the committed block than we did
		main := c.VoteSummary.MostVotedPrecommitHash
		vsC := rn.valsFor(c.Height)
		have := map[string]bool{}
		for _, s := range pcp.Proofs[main] {
			have[string(s.KeyID)] = true
		}
		for i := range vsC.keys {
			if !have[string(keyID16(i))] && w.r.chance(2, 3) {
				pcp.Proofs[main] = append(pcp.Proofs[main], rn.mkSigs(vsC, kindPrecommit, c.Height, pcp.Round, main, []int{i}, 0)...)
				rn.stats["backfill_extra_sig"]++
			}
		}
	}
	if variant == 13 && h > rn.initH {
		// an entry for another block (or nil) that MIXES an authentic precommit with a signature no validator made, filed under
		// the key id of a validator that signed nothing in this proof (so that no double signature hides the flaw): the
		// proposal must be refused although that entry contributes a signature (scripted, template 13)
		main := c.VoteSummary.MostVotedPrecommitHash
		vsC := rn.valsFor(c.Height)
		have := map[string]bool{}
		other := "\x00none"
		for k, ss := range pcp.Proofs {
			for _, sg := range ss {
				have[string(sg.KeyID)] = true
			}
			if k != main && len(ss) > 0 {
				other = k
			}
		}
		silent := -1
		for i := range vsC.keys {
			if !have[string(keyID16(i))] {
				silent = i
				break
			}
		}
		if other != "\x00none" && silent >= 0 {
			pcp.Proofs[other] = append(append([]gcrypto.SparseSignature{}, pcp.Proofs[other]...), gcrypto.SparseSignature{KeyID: keyID16(silent), Sig: w.junkSig()})
			rn.stats["commit_proof_rest_entry_mixed_scripted"]++
		} else {
			rn.stats["commit_proof_rest_entry_mixed_not_applicable"]++
		}
	}
	if variant == 10 { // tampered commit proof: drop signatures / add a foreign entry / junk signature
		switch w.r.below(3) {
		case 0:
			for k := range pcp.Proofs {
				if len(pcp.Proofs[k]) > 0 {
					pcp.Proofs[k] = pcp.Proofs[k][:len(pcp.Proofs[k])-1]
				}
			}
		case 1:
			pcp.Proofs["foreign-block"] = rn.mkSigs(rn.valsFor(h-1), kindPrecommit, h-1, pcp.Round, "foreign-block", []int{0}, 0)
			if w.r.chance(1, 2) && len(rn.valsFor(h-1).keys) > 1 {
				// ... a second entry that MIXES an authentic precommit with a signature no validator made: the proof must be
				// refused although the entry contributes a signature
				pcp.Proofs["foreign-block"] = append(pcp.Proofs["foreign-block"], gcrypto.SparseSignature{KeyID: keyID16(1), Sig: w.junkSig()})
				rn.stats["commit_proof_rest_entry_mixed"]++
			}
		default:
			for k := range pcp.Proofs {
				if len(pcp.Proofs[k]) > 0 {
					pcp.Proofs[k][0] = gcrypto.SparseSignature{KeyID: pcp.Proofs[k][0].KeyID, Sig: w.junkSig()}
				}
			}
		}
	}
	curHdr := cur
	nextHdr := next
	if variant == 3 { // forged validator list in transit (hashes untouched)
		if w.r.chance(1, 2) {
			nextHdr = w.forge(next)
		} else {
			curHdr = w.forge(cur)
		}
	}
	saveVals := rn.valsAt[h]
	rn.valsAt[h] = cur
	hd := rn.mkHeader(h, v, c, pcp, next)
	if _, had := rn.valsAt[h]; had && saveVals.vs.PubKeyHash == nil {
		delete(rn.valsAt, h)
	} else {
		rn.valsAt[h] = saveVals
	}
	if variant == 11 { // wrong predecessor, backed by a (Byzantine) certificate for that other block
		hd.PrevBlockHash = []byte("not-the-committed-block")
		if h > rn.initH {
			vsP := rn.valsFor(h - 1)
			hd.PrevCommitProof = tmconsensus.CommitProof{Round: pcp.Round, PubKeyHash: string(vsP.vs.PubKeyHash),
				Proofs: map[string][]gcrypto.SparseSignature{"not-the-committed-block": rn.mkSigs(vsP, kindPrecommit, h-1, pcp.Round, "not-the-committed-block", allIdx(len(vsP.keys)), 0)}}
		}
		hash, _ := w.hs.Block(hd)
		hd.Hash = hash
	}
	if variant == 12 {
		// a well-formed header that names ANOTHER validator set as its own (lists and hashes consistent, block hash
		// recomputed): everything a peer can check locally holds, only the comparison with the node's own set fails
		other := w.randValset()
		curHdr = other
		hd.ValidatorSet = other.vs
		hash, _ := w.hs.Block(hd)
		hd.Hash = hash
		rn.stats["ph_names_other_valset"]++
	}
	hashOK := true
	if variant == 1 {
		hd.Hash = append([]byte{}, hd.Hash...)
		hd.Hash[0] ^= 1
		hashOK = false
	}
	hd.ValidatorSet = curHdr.vs
	hd.NextValidatorSet = nextHdr.vs

	ph := tmconsensus.ProposedHeader{Header: hd, Round: r}
	proposerIdx := w.r.below(len(cur.keys))
	proposer := cur.keys[proposerIdx]
	if variant == 4 { // proposer outside the set
		for k := 0; k < poolSize; k++ {
			in := false
			for _, x := range cur.keys {
				if x == k {
					in = true
				}
			}
			if !in {
				proposer = k
				break
			}
		}
	}
	sb, err := tmconsensus.ProposalSignBytes(ph.Header, ph.Round, ph.Annotations, w.ss)
	if err != nil {
		panic(err)
	}
	sig, err := w.pool[proposer].Signer.Sign(w.ctx, sb)
	if err != nil {
		panic(err)
	}
	contentSum := sha256.Sum256(sb)
	content := contentSum[:]
	w.sigDesc[string(sig)] = fmt.Sprintf("(SProposal %d %s %d)", proposer, coqBytes(content), r)
	w.sigTr[string(sig)] = fmt.Sprintf("TL [TN 1; TN %d; TB %s; TN %d]", proposer, coqBytes(content), r)
	if variant == 2 {
		sig = w.junkSig()
	}
	ph.Signature = sig
	ph.ProposerPubKey = w.pool[proposer].Val.PubKey
	keyCoq := fmt.Sprintf("(Some %d)", proposer)
	if variant == 2 && w.r.chance(1, 4) {
		ph.ProposerPubKey = nil
		keyCoq = "None"
	}
	coq := fmt.Sprintf("(mk_ph %s %d %s %s %s)", rn.coqHdr(hd, hashOK, curHdr, nextHdr), r, keyCoq, w.desc(sig), coqBytes(content))
	rn.hdrCoq[string(hd.Hash)] = rn.coqHdr(hd, hashOK, curHdr, nextHdr)
	if variant == 0 && w.r.chance(1, 5) {
		// a relayed copy with a different next validator set and a correctly recomputed block hash:
		// the proposer's signature does not cover either, so it still verifies (C15)
		alt := w.randValset()
		hd2 := hd
		hd2.NextValidatorSet = alt.vs
		hash2, _ := w.hs.Block(hd2)
		hd2.Hash = hash2
		ph2 := tmconsensus.ProposedHeader{Header: hd2, Round: r, Signature: sig, ProposerPubKey: ph.ProposerPubKey}
		coq2 := fmt.Sprintf("(mk_ph %s %d %s %s %s)", rn.coqHdr(hd2, true, curHdr, alt), r, keyCoq, w.desc(sig), coqBytes(content))
		rn.hdrCoq[string(hd2.Hash)] = rn.coqHdr(hd2, true, curHdr, alt)
		rn.stats["ph_rehashed_copy"]++
		if w.r.chance(1, 2) {
			rn.doPH(ph2, coq2) // forged copy first
			if len(rn.knownPHs[hr{h, r}]) > 0 {
				if _, ok := rn.valsAt[h+1]; !ok {
					rn.valsAt[h+1] = alt
				}
			}
		} else {
			defer func() { rn.doPH(ph2, coq2) }()
		}
	}
	rn.stats[fmt.Sprintf("ph_variant_%d", variant)]++
	before := len(rn.knownPHs[hr{h, r}])
	rn.doPH(ph, coq)
	if len(rn.knownPHs[hr{h, r}]) > before {
		// remember the validator set this accepted header prescribes for the next height
		if _, ok := rn.valsAt[h+1]; !ok {
			rn.valsAt[h+1] = next
		}
	}
	// an odd proposal that was nevertheless accepted: try to get it committed straight away,
	// so that whatever it smuggled in becomes visible in the committed chain
	if variant != 0 && len(rn.knownPHs[hr{h, r}]) > before && w.r.chance(2, 3) {
		vsH := rn.valsFor(h)
		rn.stats["odd_ph_commit_attempt"]++
		rn.doVotes(kindPrecommit, h, r, string(vsH.vs.PubKeyHash), []voteEntry{{string(hd.Hash),
			rn.mkSigs(vsH, kindPrecommit, h, r, string(hd.Hash), allIdx(len(vsH.keys)), 0)}})
	}
	// duplicate delivery now and then
	if w.r.chance(1, 6) {
		rn.stats["ph_duplicate"]++
		rn.doPH(ph, coq)
	}
}

var crashMode, consumerMode, replayMode, hazardMode, concurrentMode bool

func runCase(idx int, seed uint64, nOps int, out io.Writer, stats map[string]int) {
	ctx, cancel := context.WithCancel(context.Background())
	defer cancel()
	w := &world{r: &rng{s: seed}, pool: tmconsensustest.DeterministicValidatorsEd25519(poolSize),
		hs: tmconsensustest.SimpleHashScheme{}, ss: tmconsensustest.SimpleSignatureScheme{},
		sigDesc: map[string]string{}, sigTr: map[string]string{}, ctx: ctx}
	genesis := w.randValset()
	initH := uint64(1)
	if w.r.chance(1, 5) {
		initH = 3
	}
	bud := &budget{unlimited: true}
	cfg := tmengine.VerifMirrorConfig{
		Store:                crashMirrorStore{tmmemstore.NewMirrorStore(), bud},
		CommittedHeaderStore: crashHeaderStore{tmmemstore.NewCommittedHeaderStore(), bud},
		RoundStore:           crashRoundStore{tmmemstore.NewRoundStore(), bud},
		ValidatorStore:       tmmemstore.NewValidatorStore(w.hs),

		InitialHeight:       initH,
		InitialValidatorSet: genesis.vs,

		HashScheme:                        w.hs,
		SignatureScheme:                   w.ss,
		CommonMessageSignatureProofScheme: gcrypto.SimpleCommonMessageSignatureProofScheme{},

		AssertEnv: gasserttest.DefaultEnv(),
	}
	rn := &runner{w: w, cfg: cfg, initH: initH, genesis: genesis, cancel: cancel, bud: bud, pendingCrash: -1, crashes: crashMode, consumers: consumerMode, hazards: hazardMode, hdrCoq: map[string]string{}, smKey: -1,
		touched: map[hr]bool{}, out: out, valsAt: map[uint64]valset{}, knownPHs: map[hr][]tmconsensus.ProposedHeader{}, stats: stats}
	rn.startMirror()
	internTab = map[string]string{}
	internDefs = nil
	internOut = 0
	internCase = idx
	fmt.Fprintf(out, "CASE %d %d\nINIT %d %s\n", idx, seed, initH, genesis.coq())
	if concurrentMode {
		fmt.Fprintf(out, "CONC\n")
		for i := 0; i < nOps && !rn.failed; i++ {
			rn.concurrentRound()
		}
	} else {
		for i := 0; i < nOps; i++ {
			rn.step()
		}
	}
	if !rn.failed && rn.consumers {
		// quiescence: both consumers read until nothing is offered any more
		for i := 0; i < 4; i++ {
			rn.doGRead()
			rn.doSMRead()
		}
	}
	if !rn.failed {
		v, _ := rn.views()
		stats[fmt.Sprintf("final_height_%d", v.Height-initH)]++
		if v.Round > 0 {
			stats["final_round_nonzero"]++
		}
	}
	flushDefs(out)
	fmt.Fprintf(out, "END\n")
	rn.mcancel()
	rn.m.Wait()
	cancel()
}

func main() {
	seed := flag.Uint64("seed", 1, "seed")
	cases := flag.Int("cases", 10, "number of cases")
	ops := flag.Int("ops", 25, "operations per case")
	flag.BoolVar(&crashMode, "crashes", false, "inject crashes (write budgets) and restarts")
	flag.BoolVar(&consumerMode, "consumers", false, "act as state machine and gossip reader")
	flag.BoolVar(&hazardMode, "hazards", false, "also generate the inputs recorded as known findings (they kill the kernel)")
	flag.BoolVar(&replayMode, "replay", false, "feed replayed headers (mirror catch-up)")
	flag.IntVar(&forcedTemplate, "template", -1, "always pick this interleaving template (and start one every 3rd operation)")
	flag.BoolVar(&concurrentMode, "concurrent", false, "batches of overlapping messages from concurrent callers (observations only)")
	flag.Parse()
	out := os.Stdout
	stats := map[string]int{}
	root := &rng{s: *seed}
	for i := 0; i < *cases; i++ {
		func() {
			defer func() {
				if r := recover(); r != nil {
					fmt.Fprintf(out, "HARNESS-PANIC %v\nEND\n", r)
				}
			}()
			runCase(i, root.next(), *ops, out, stats)
		}()
	}
	keys := make([]string, 0, len(stats))
	for k := range stats {
		keys = append(keys, k)
	}
	sort.Strings(keys)
	for _, k := range keys {
		fmt.Fprintf(out, "STAT %s %d\n", k, stats[k])
	}
}
