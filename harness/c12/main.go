// Harness for C12(b): drives the REAL tmstate.StandardRoundTimer (through the
// verif hook tmengine.VerifNewStandardRoundTimer).
//
//	h_c12 stress -procs P -rounds N -seed S
//	    N cancel/start/fire rounds on one timer under GOMAXPROCS=P with runtime.Gosched
//	    injection; prints "progress <i>" lines and finally one JSON line with the histogram
//	    of round observations.  A panic of the timer goroutine kills this process (exit 2):
//	    the caller observes that as the liveness observation.
//	h_c12 script
//	    reads one script per line from stdin (ops S s C W P Q X), runs each on a fresh timer
//	    and prints one line of outcomes per script.
package main

import (
	"bufio"
	"context"
	"encoding/json"
	"flag"
	"fmt"
	"os"
	"runtime"
	"strings"
	"sync"
	"sync/atomic"
	"time"

	"github.com/gordian-engine/gordian/tm/tmengine"
)

// strat returns whatever duration the driver stored last, for all four steps.
type strat struct{ d atomic.Int64 }

func (s *strat) ProposalTimeout(uint64, uint32) time.Duration       { return time.Duration(s.d.Load()) }
func (s *strat) PrevoteDelayTimeout(uint64, uint32) time.Duration   { return time.Duration(s.d.Load()) }
func (s *strat) PrecommitDelayTimeout(uint64, uint32) time.Duration { return time.Duration(s.d.Load()) }
func (s *strat) CommitWaitTimeout(uint64, uint32) time.Duration     { return time.Duration(s.d.Load()) }

type splitmix struct{ s uint64 }

func (r *splitmix) next() uint64 {
	r.s += 0x9E3779B97F4A7C15
	z := r.s
	z = (z ^ (z >> 30)) * 0xBF58476D1CE4E5B9
	z = (z ^ (z >> 27)) * 0x94D049BB133111EB
	return z ^ (z >> 31)
}

func poll(ch <-chan struct{}) bool {
	select {
	case <-ch:
		return true
	default:
		return false
	}
}

func b2i(b bool) int {
	if b {
		return 1
	}
	return 0
}

func start(rt *tmengine.VerifStandardRoundTimer, ctx context.Context, which uint64, h uint64) (<-chan struct{}, func()) {
	switch which % 4 {
	case 0:
		return rt.ProposalTimer(ctx, h, 0)
	case 1:
		return rt.PrevoteDelayTimer(ctx, h, 0)
	case 2:
		return rt.PrecommitDelayTimer(ctx, h, 0)
	}
	return rt.CommitWaitTimer(ctx, h, 0)
}

type handle struct {
	ch        <-chan struct{}
	round     int
	kind      int
	waited    int
	e0, e1    int // elapsed closed? before cancel / right after cancel returned
	cancelled bool
	e2        int  // elapsed closed? after the NEXT start returned (-1: no next start)
	late      bool // closed only later than that
}

func (h *handle) key() string {
	return fmt.Sprintf("k%d w%d e0=%d c=%d e1=%d e2=%d late=%d", h.kind, h.waited, h.e0, b2i(h.cancelled), h.e1, h.e2, b2i(h.late))
}

func stress(procs, rounds int, seed uint64) {
	runtime.GOMAXPROCS(procs)
	ctx, cancelCtx := context.WithCancel(context.Background())
	st := &strat{}
	rt := tmengine.VerifNewStandardRoundTimer(ctx, st)
	rng := &splitmix{seed ^ uint64(procs)*0x1000193}
	hist := map[string]int{}
	var prefix []string // keys of the first rounds, in order
	var prev *handle
	var ring []*handle
	out := bufio.NewWriter(os.Stdout)
	final := func(h *handle) {
		k := h.key()
		hist[k]++
		if h.round < 400 {
			for len(prefix) <= h.round {
				prefix = append(prefix, "")
			}
			prefix[h.round] = k
		}
	}
	flushRing := func() {
		for _, h := range ring {
			if h.e1 == 0 && h.e2 <= 0 && poll(h.ch) {
				h.late = true
			}
			final(h)
		}
		ring = ring[:0]
	}
	nilStart := -1
	neverElapsed := 0
	for i := 0; i < rounds; i++ {
		if i%1000 == 0 {
			fmt.Fprintf(out, "progress %d\n", i)
			out.Flush()
		}
		r := rng.next()
		kind := int(r % 5)
		r >>= 3
		var dur time.Duration
		switch kind {
		case 0:
			dur = time.Hour
		case 4:
			dur = time.Duration(10+r%4*20) * time.Microsecond
		default:
			switch r % 4 {
			case 0:
				dur = 0
			case 1:
				dur = time.Microsecond
			case 2:
				dur = 20 * time.Microsecond
			default:
				dur = 200 * time.Microsecond
			}
		}
		r >>= 2
		st.d.Store(int64(dur))
		// every start follows a returned cancel or an observed elapse of the previous timer
		ch, cancel := start(rt, ctx, r, uint64(i+1))
		_ = neverElapsed
		r >>= 2
		if ch == nil {
			nilStart = i
			break
		}
		if prev != nil {
			prev.e2 = b2i(poll(prev.ch))
		}
		h := &handle{ch: ch, round: i, kind: kind, e2: -1}
		t0 := time.Now()
		for g := r % 4; g > 0; g-- {
			runtime.Gosched()
		}
		r >>= 2
		switch kind {
		case 4:
			// cancel as close as possible to the expiry: the fire/cancel race
			target := dur + time.Duration(int64(r%16)-8)*500*time.Nanosecond
			for time.Since(t0) < target {
				if r&16 != 0 {
					runtime.Gosched()
				}
			}
			h.e0 = b2i(poll(ch))
			cancel()
			h.cancelled = true
			h.e1 = b2i(poll(ch))
		case 2:
			// wait for the elapse
			t := time.NewTimer(10 * time.Second)
			select {
			case <-ch:
				h.waited = 1
			case <-t.C:
				h.waited = 2
			}
			t.Stop()
			h.e0 = b2i(poll(ch))
			if r%2 == 0 || h.waited == 2 {
				cancel()
				h.cancelled = true
			}
			h.e1 = b2i(poll(ch))
		case 3:
			h.e0 = b2i(poll(ch))
			var wg sync.WaitGroup
			wg.Add(1)
			go func() { cancel(); wg.Done() }()
			cancel()
			wg.Wait()
			h.cancelled = true
			h.e1 = b2i(poll(ch))
		default:
			h.e0 = b2i(poll(ch))
			cancel()
			h.cancelled = true
			h.e1 = b2i(poll(ch))
		}
		prev = h
		ring = append(ring, h)
		if h.waited == 2 {
			// a timer that never elapsed costs 10 s: three of them are enough evidence, do not sit out the other rounds
			neverElapsed++
			if neverElapsed >= 3 {
				break
			}
		}
		if len(ring) >= 64 {
			// keep the newest (its e2 is not known yet)
			last := ring[len(ring)-1]
			ring = ring[:len(ring)-1]
			flushRing()
			ring = append(ring, last)
		}
	}
	// liveness: the goroutine must still serve a start request, fire it, and exit on ctx cancel
	st.d.Store(0)
	alive := 0
	if nilStart < 0 {
		ch, cancel := start(rt, ctx, 0, 1)
		if prev != nil {
			prev.e2 = b2i(poll(prev.ch))
		}
		if ch != nil {
			t := time.NewTimer(10 * time.Second)
			select {
			case <-ch:
				alive = 1
			case <-t.C:
			}
			t.Stop()
			cancel()
		}
	}
	time.Sleep(2 * time.Millisecond)
	flushRing()
	cancelCtx()
	done := make(chan struct{})
	go func() { rt.Wait(); close(done) }()
	exited := 0
	select {
	case <-done:
		exited = 1
	case <-time.After(10 * time.Second):
	}
	res := map[string]any{"procs": procs, "rounds": rounds, "hist": hist, "alive": alive, "exited": exited, "prefix": prefix, "nil_start": nilStart}
	js, _ := json.Marshal(res)
	fmt.Fprintf(out, "result %s\n", js)
	out.Flush()
}

func script() {
	sc := bufio.NewScanner(os.Stdin)
	out := bufio.NewWriter(os.Stdout)
	defer out.Flush()
	for sc.Scan() {
		line := strings.TrimSpace(sc.Text())
		if line == "" {
			continue
		}
		ctx, cancelCtx := context.WithCancel(context.Background())
		st := &strat{}
		rt := tmengine.VerifNewStandardRoundTimer(ctx, st)
		var ch <-chan struct{}
		cancel := func() {}
		have := false
		var res []string
		n := uint64(0)
		for _, op := range strings.Fields(line) {
			switch op {
			case "S", "s":
				if op == "S" {
					st.d.Store(int64(time.Hour))
				} else {
					st.d.Store(int64(30 * time.Microsecond))
				}
				n++
				c2, k2 := start(rt, ctx, n, n)
				if c2 == nil {
					res = append(res, "nil")
				} else {
					ch, cancel, have = c2, k2, true
					res = append(res, "ok")
				}
			case "C":
				cancel()
				res = append(res, "ok")
			case "W":
				if !have {
					res = append(res, "none")
					break
				}
				t := time.NewTimer(2 * time.Second)
				select {
				case <-ch:
					res = append(res, "E")
				case <-t.C:
					res = append(res, "T")
				}
				t.Stop()
			case "P":
				if !have {
					res = append(res, "none")
				} else if poll(ch) {
					res = append(res, "closed")
				} else {
					res = append(res, "open")
				}
			case "Q":
				time.Sleep(time.Millisecond)
			case "X":
				cancelCtx()
				res = append(res, "ok")
			default:
				res = append(res, "?")
			}
			out.Flush()
		}
		cancelCtx()
		done := make(chan struct{})
		go func() { rt.Wait(); close(done) }()
		select {
		case <-done:
			res = append(res, "exit")
		case <-time.After(2 * time.Second):
			res = append(res, "stuck")
		}
		fmt.Fprintf(out, "%s => %s\n", line, strings.Join(res, " "))
		out.Flush()
	}
}

func main() {
	if len(os.Args) < 2 {
		fmt.Fprintln(os.Stderr, "usage: h_c12 stress|script ...")
		os.Exit(64)
	}
	switch os.Args[1] {
	case "stress":
		fs := flag.NewFlagSet("stress", flag.ExitOnError)
		procs := fs.Int("procs", 4, "GOMAXPROCS")
		rounds := fs.Int("rounds", 1000, "rounds")
		seed := fs.Uint64("seed", 1, "seed")
		fs.Parse(os.Args[2:])
		stress(*procs, *rounds, *seed)
	case "script":
		script()
	default:
		os.Exit(64)
	}
}
