// Harness for C20: drives the REAL relay code and prints projected observations.
//
//	h_c20 feedback                     exchangeFeedbackToLibp2p(f) for f = 0..255 on a real Connection
//	h_c20 wrapper  < cases             the real validator wrapper / default validator called directly
//	h_c20 daisy    < cases             real tmp2ptest.DaisyChainNetwork lines with verdict tables and swaps
//	h_c20 libp2p   < cases             real libp2p hosts on localhost in a line A-B-C (gated so that A and C
//	                                   never connect), real tmlibp2p.Connection on each, swaps on B
//
// Payload format understood by the stub codec (the Connection is parametric in its codec):
// [tag a b c idhi idlo]; decodable iff len = 6 and tag = 1; a/b/c != 0 set the ProposedHeader /
// PrevoteProof / PrecommitProof variant, each carrying Height = id.
package main

import (
	"bufio"
	"context"
	"encoding/hex"
	"errors"
	"fmt"
	"io"
	"log/slog"
	"os"
	"sort"
	"strconv"
	"strings"
	"sync"
	"testing"
	"time"

	"github.com/gordian-engine/gordian/gexchange"
	"github.com/gordian-engine/gordian/tm/tmcodec"
	"github.com/gordian-engine/gordian/tm/tmconsensus"
	"github.com/gordian-engine/gordian/tm/tmp2p/tmlibp2p"
	"github.com/gordian-engine/gordian/tm/tmp2p/tmp2ptest"
	"github.com/libp2p/go-libp2p"
	pubsub "github.com/libp2p/go-libp2p-pubsub"
	pb "github.com/libp2p/go-libp2p-pubsub/pb"
	"github.com/libp2p/go-libp2p/core/control"
	"github.com/libp2p/go-libp2p/core/crypto"
	"github.com/libp2p/go-libp2p/core/network"
	"github.com/libp2p/go-libp2p/core/peer"
	"github.com/libp2p/go-libp2p/core/protocol"
	"github.com/libp2p/go-libp2p/p2p/transport/tcp"
	ma "github.com/multiformats/go-multiaddr"
)

var out = bufio.NewWriter(os.Stdout)

func die(f string, a ...any) {
	out.Flush()
	fmt.Fprintf(os.Stderr, "h_c20: "+f+"\n", a...)
	os.Exit(3)
}

// ------------------------------------------------------------------ stub codec

type stubCodec struct {
	mu      sync.Mutex
	arrived []int // ids of payloads passed to UnmarshalConsensusMessage, in order
	notify  chan int
}

func payloadID(b []byte) int {
	if len(b) < 6 {
		return -1
	}
	return int(b[4])<<8 | int(b[5])
}

func (c *stubCodec) MarshalConsensusMessage(m tmcodec.ConsensusMessage) ([]byte, error) {
	// The harness smuggles the exact payload to publish in Header.DataID of a proposed header.
	if m.ProposedHeader != nil && len(m.ProposedHeader.Header.DataID) > 0 {
		return append([]byte(nil), m.ProposedHeader.Header.DataID...), nil
	}
	return nil, errors.New("stub codec: nothing to marshal")
}

func (c *stubCodec) UnmarshalConsensusMessage(b []byte, m *tmcodec.ConsensusMessage) error {
	id := payloadID(b)
	c.mu.Lock()
	c.arrived = append(c.arrived, id)
	c.mu.Unlock()
	if c.notify != nil {
		select {
		case c.notify <- id:
		default:
		}
	}
	if len(b) != 6 || b[0] != 1 {
		return errors.New("stub codec: undecodable")
	}
	if b[1] != 0 {
		m.ProposedHeader = &tmconsensus.ProposedHeader{Header: tmconsensus.Header{Height: uint64(id)}}
	}
	if b[2] != 0 {
		m.PrevoteProof = &tmconsensus.PrevoteSparseProof{Height: uint64(id)}
	}
	if b[3] != 0 {
		m.PrecommitProof = &tmconsensus.PrecommitSparseProof{Height: uint64(id)}
	}
	return nil
}

func (c *stubCodec) MarshalHeader(tmconsensus.Header) ([]byte, error) {
	return nil, errors.New("unused")
}
func (c *stubCodec) MarshalProposedHeader(tmconsensus.ProposedHeader) ([]byte, error) {
	return nil, errors.New("unused")
}
func (c *stubCodec) MarshalCommittedHeader(tmconsensus.CommittedHeader) ([]byte, error) {
	return nil, errors.New("unused")
}
func (c *stubCodec) MarshalPrevoteProof(tmconsensus.PrevoteSparseProof) ([]byte, error) {
	return nil, errors.New("unused")
}
func (c *stubCodec) MarshalPrecommitProof(tmconsensus.PrecommitSparseProof) ([]byte, error) {
	return nil, errors.New("unused")
}
func (c *stubCodec) UnmarshalHeader([]byte, *tmconsensus.Header) error { return errors.New("unused") }
func (c *stubCodec) UnmarshalProposedHeader([]byte, *tmconsensus.ProposedHeader) error {
	return errors.New("unused")
}
func (c *stubCodec) UnmarshalCommittedHeader([]byte, *tmconsensus.CommittedHeader) error {
	return errors.New("unused")
}
func (c *stubCodec) UnmarshalPrevoteProof([]byte, *tmconsensus.PrevoteSparseProof) error {
	return errors.New("unused")
}
func (c *stubCodec) UnmarshalPrecommitProof([]byte, *tmconsensus.PrecommitSparseProof) error {
	return errors.New("unused")
}

// ------------------------------------------------------------- table handlers

// kindHandler answers per message kind (wrapper mode) and records its calls.
type kindHandler struct {
	v     [3]uint8
	calls []string
}

func (h *kindHandler) HandleProposedHeader(_ context.Context, p tmconsensus.ProposedHeader) gexchange.Feedback {
	h.calls = append(h.calls, fmt.Sprintf("ph:%d", p.Header.Height))
	return gexchange.Feedback(h.v[0])
}
func (h *kindHandler) HandlePrevoteProofs(_ context.Context, p tmconsensus.PrevoteSparseProof) gexchange.Feedback {
	h.calls = append(h.calls, fmt.Sprintf("pv:%d", p.Height))
	return gexchange.Feedback(h.v[1])
}
func (h *kindHandler) HandlePrecommitProofs(_ context.Context, p tmconsensus.PrecommitSparseProof) gexchange.Feedback {
	h.calls = append(h.calls, fmt.Sprintf("pc:%d", p.Height))
	return gexchange.Feedback(h.v[2])
}

const sentinelBase = uint64(1) << 40

// idHandler answers by message id (table[id], 0 when out of range), accepts sentinels,
// and records which ids it saw.
type idHandler struct {
	table    []uint8
	mod      int // when > 0 the table is indexed by id % mod
	mu       sync.Mutex
	seen     []int
	sentinel chan uint64
}

func (h *idHandler) handle(id uint64) gexchange.Feedback {
	if id >= sentinelBase {
		if h.sentinel != nil {
			h.sentinel <- id
		}
		return gexchange.FeedbackAccepted
	}
	h.mu.Lock()
	h.seen = append(h.seen, int(id))
	h.mu.Unlock()
	ix := int(id)
	if h.mod > 0 {
		ix = ix % h.mod
	}
	if ix < len(h.table) {
		return gexchange.Feedback(h.table[ix])
	}
	return gexchange.FeedbackUnspecified
}
func (h *idHandler) HandleProposedHeader(_ context.Context, p tmconsensus.ProposedHeader) gexchange.Feedback {
	return h.handle(p.Header.Height)
}
func (h *idHandler) HandlePrevoteProofs(_ context.Context, p tmconsensus.PrevoteSparseProof) gexchange.Feedback {
	return h.handle(p.Height)
}
func (h *idHandler) HandlePrecommitProofs(_ context.Context, p tmconsensus.PrecommitSparseProof) gexchange.Feedback {
	return h.handle(p.Height)
}

func parseTable(s string) []uint8 {
	var t []uint8
	if s == "" || s == "-" {
		return t
	}
	for _, x := range strings.Split(s, ",") {
		n, err := strconv.Atoi(x)
		if err != nil || n < 0 || n > 255 {
			die("bad table entry %q", x)
		}
		t = append(t, uint8(n))
	}
	return t
}

// ------------------------------------------------------------------- libp2p

func quietLog() *slog.Logger { return slog.New(slog.NewTextHandler(io.Discard, nil)) }

type gater struct{ deny map[peer.ID]bool }

func (g *gater) InterceptPeerDial(p peer.ID) bool                 { return !g.deny[p] }
func (g *gater) InterceptAddrDial(p peer.ID, _ ma.Multiaddr) bool { return !g.deny[p] }
func (g *gater) InterceptAccept(network.ConnMultiaddrs) bool      { return true }
func (g *gater) InterceptSecured(_ network.Direction, p peer.ID, _ network.ConnMultiaddrs) bool {
	return !g.deny[p]
}
func (g *gater) InterceptUpgraded(network.Conn) (bool, control.DisconnectReason) { return true, 0 }

// tracer records the terminal pubsub event of every message at one node.
type tracer struct {
	mu     sync.Mutex
	events map[int]string // id -> "D" (delivered = forwarded), "R:<reason>"
	notify chan int
}

func (t *tracer) set(msg *pubsub.Message, ev string) {
	id := payloadID(msg.Data)
	t.mu.Lock()
	if _, ok := t.events[id]; !ok {
		t.events[id] = ev
	}
	t.mu.Unlock()
	select {
	case t.notify <- id:
	default:
	}
}
func (t *tracer) AddPeer(peer.ID, protocol.ID)     {}
func (t *tracer) RemovePeer(peer.ID)               {}
func (t *tracer) Join(string)                      {}
func (t *tracer) Leave(string)                     {}
func (t *tracer) Graft(peer.ID, string)            {}
func (t *tracer) Prune(peer.ID, string)            {}
func (t *tracer) ValidateMessage(*pubsub.Message)  {}
func (t *tracer) DeliverMessage(m *pubsub.Message) { t.set(m, "D") }
func (t *tracer) RejectMessage(m *pubsub.Message, reason string) {
	t.set(m, "R:"+strings.ReplaceAll(reason, " ", "_"))
}
func (t *tracer) DuplicateMessage(*pubsub.Message)     {}
func (t *tracer) ThrottlePeer(peer.ID)                 {}
func (t *tracer) RecvRPC(*pubsub.RPC)                  {}
func (t *tracer) SendRPC(*pubsub.RPC, peer.ID)         {}
func (t *tracer) DropRPC(*pubsub.RPC, peer.ID)         {}
func (t *tracer) UndeliverableMessage(*pubsub.Message) {}

type lnode struct {
	host  *tmlibp2p.Host
	conn  *tmlibp2p.Connection
	codec *stubCodec
	tr    *tracer
	id    peer.ID
}

func newLNode(ctx context.Context, priv crypto.PrivKey, deny []peer.ID) *lnode {
	g := &gater{deny: map[peer.ID]bool{}}
	for _, d := range deny {
		g.deny[d] = true
	}
	params := pubsub.DefaultGossipSubParams()
	params.HeartbeatInitialDelay = 8 * time.Millisecond
	params.HeartbeatInterval = 45 * time.Millisecond
	params.DirectConnectInitialDelay = 11 * time.Millisecond
	tr := &tracer{events: map[int]string{}, notify: make(chan int, 1024)}
	h, err := tmlibp2p.NewHost(ctx, tmlibp2p.HostOptions{
		Options: []libp2p.Option{
			libp2p.Identity(priv),
			libp2p.ListenAddrStrings("/ip4/127.0.0.1/tcp/0"),
			libp2p.Transport(tcp.NewTCPTransport),
			libp2p.ForceReachabilityPublic(),
			libp2p.ConnectionGater(g),
		},
		PubSubOptions: []pubsub.Option{
			pubsub.WithGossipSubParams(params),
			pubsub.WithRawTracer(tr),
		},
	})
	if err != nil {
		die("NewHost: %v", err)
	}
	codec := &stubCodec{notify: make(chan int, 1024)}
	conn, err := tmlibp2p.NewConnection(ctx, quietLog(), h, codec)
	if err != nil {
		die("NewConnection: %v", err)
	}
	return &lnode{host: h, conn: conn, codec: codec, tr: tr, id: h.Libp2pHost().ID()}
}

func singleNode(ctx context.Context) *lnode {
	priv, _, err := crypto.GenerateEd25519Key(nil)
	if err != nil {
		die("keygen: %v", err)
	}
	return newLNode(ctx, priv, nil)
}

func connectPeers(ctx context.Context, a, b *lnode) {
	ai := peer.AddrInfo{ID: b.id, Addrs: b.host.Libp2pHost().Addrs()}
	if err := a.host.Libp2pHost().Connect(ctx, ai); err != nil {
		die("connect: %v", err)
	}
}

func waitTopicPeers(n *lnode, want int) {
	deadline := time.Now().Add(10 * time.Second)
	for time.Now().Before(deadline) {
		if len(n.host.PubSub().ListPeers(tmlibp2p.VerifTopicConsensus)) == want {
			return
		}
		time.Sleep(5 * time.Millisecond)
	}
	die("topic peers of %s never reached %d", n.id.ShortString(), want)
}

func publish(n *lnode, payload []byte) {
	ph := tmconsensus.ProposedHeader{Header: tmconsensus.Header{DataID: payload}}
	select {
	case n.conn.ConsensusBroadcaster().OutgoingProposedHeaders() <- ph:
	case <-time.After(5 * time.Second):
		die("publish blocked")
	}
}

// waitFor waits until pred() holds, woken by ch or by polling.
func waitFor(ch chan int, d time.Duration, pred func() bool) bool {
	deadline := time.After(d)
	for {
		if pred() {
			return true
		}
		select {
		case <-ch:
		case <-time.After(2 * time.Millisecond):
		case <-deadline:
			return pred()
		}
	}
}

func modeLibp2p() {
	ctx, cancel := context.WithCancel(context.Background())
	defer cancel()
	var privs [3]crypto.PrivKey
	var ids [3]peer.ID
	for i := range privs {
		p, _, err := crypto.GenerateEd25519Key(nil)
		if err != nil {
			die("keygen: %v", err)
		}
		privs[i] = p
		ids[i], _ = peer.IDFromPrivateKey(p)
	}
	A := newLNode(ctx, privs[0], []peer.ID{ids[2]})
	B := newLNode(ctx, privs[1], nil)
	C := newLNode(ctx, privs[2], []peer.ID{ids[0]})
	connectPeers(ctx, A, B)
	connectPeers(ctx, B, C)
	hC := &idHandler{}
	// C accepts everything it can decode (table lookups default to 0 => make it accept by a full table).
	full := make([]uint8, 65536)
	for i := range full {
		full[i] = uint8(gexchange.FeedbackAccepted)
	}
	hC.table = full
	C.conn.SetConsensusHandler(ctx, hC)
	// A needs a handler too: with the default validator a node ignores even its own publications.
	A.conn.SetConsensusHandler(ctx, &idHandler{table: full})
	waitTopicPeers(A, 1)
	waitTopicPeers(B, 2)
	waitTopicPeers(C, 1)
	time.Sleep(250 * time.Millisecond) // let gossipsub heartbeats build the mesh
	if len(A.host.Libp2pHost().Network().ConnsToPeer(C.id)) != 0 {
		die("A and C are directly connected; not a line")
	}

	arrivedAtC := func(id int) bool {
		C.codec.mu.Lock()
		defer C.codec.mu.Unlock()
		for _, x := range C.codec.arrived {
			if x == id {
				return true
			}
		}
		return false
	}
	eventAtB := func(id int) string {
		B.tr.mu.Lock()
		defer B.tr.mu.Unlock()
		return B.tr.events[id]
	}

	sc := bufio.NewScanner(os.Stdin)
	sc.Buffer(make([]byte, 1<<20), 1<<24)
	sentinel := 60000
	for sc.Scan() {
		line := strings.TrimSpace(sc.Text())
		if line == "" {
			continue
		}
		var hB *idHandler
		var handlers []*idHandler
		var pubIDs []int
		rawOps := false
		// every script starts from "no handler installed" (the model's state after NewConnection)
		B.conn.SetConsensusHandler(ctx, nil)
		for _, op := range strings.Fields(line) {
			switch {
			case strings.HasPrefix(op, "S:"):
				arg := op[2:]
				if arg == "nil" {
					hB = nil
					B.conn.SetConsensusHandler(ctx, nil)
				} else {
					hB = &idHandler{table: parseTable(arg), mod: 64}
					handlers = append(handlers, hB)
					B.conn.SetConsensusHandler(ctx, hB)
				}
			case op == "U":
				rawOps = true
				_ = B.host.PubSub().UnregisterTopicValidator(tmlibp2p.VerifTopicConsensus)
			case op == "RI":
				rawOps = true
				_ = B.host.PubSub().RegisterTopicValidator(tmlibp2p.VerifTopicConsensus, tmlibp2p.VerifIgnoreMessage)
			case strings.HasPrefix(op, "P:"):
				payload, err := hex.DecodeString(op[2:])
				if err != nil {
					die("bad payload %q", op)
				}
				id := payloadID(payload)
				pubIDs = append(pubIDs, id)
				publish(A, payload)
				// wait for B's terminal pubsub event for this message
				if !waitFor(B.tr.notify, 5*time.Second, func() bool { return eventAtB(id) != "" }) {
					die("no terminal pubsub event at B for id %d", id)
				}
				if eventAtB(id) == "D" {
					waitFor(C.codec.notify, 3*time.Second, func() bool { return arrivedAtC(id) })
				}
			default:
				die("bad op %q", op)
			}
		}
		// End-of-case barrier: make B accept again, push a sentinel through, then a grace period.
		acc := &idHandler{table: full}
		if rawOps {
			// the case manipulated the registry directly: put a known accepting validator back
			_ = B.host.PubSub().UnregisterTopicValidator(tmlibp2p.VerifTopicConsensus)
			_ = B.host.PubSub().RegisterTopicValidator(tmlibp2p.VerifTopicConsensus,
				tmlibp2p.VerifConsensusMessageValidator(B.conn, acc))
		}
		B.conn.SetConsensusHandler(ctx, acc)
		if rawOps {
			_ = B.host.PubSub().UnregisterTopicValidator(tmlibp2p.VerifTopicConsensus)
			_ = B.host.PubSub().RegisterTopicValidator(tmlibp2p.VerifTopicConsensus,
				tmlibp2p.VerifConsensusMessageValidator(B.conn, acc))
		}
		sentinel++
		sid := sentinel
		publish(A, []byte{1, 1, 0, 0, byte(sid >> 8), byte(sid)})
		if !waitFor(C.codec.notify, 5*time.Second, func() bool { return arrivedAtC(sid) }) {
			die("sentinel %d never reached C", sid)
		}
		time.Sleep(60 * time.Millisecond)
		var parts []string
		for _, id := range pubIDs {
			ev := eventAtB(id)
			seen := 0
			for _, h := range handlers {
				h.mu.Lock()
				for _, x := range h.seen {
					if x == id {
						seen++
					}
				}
				h.mu.Unlock()
			}
			c := 0
			if arrivedAtC(id) {
				c = 1
			}
			parts = append(parts, fmt.Sprintf("%d:%s:%d:%d", id, ev, seen, c))
		}
		fmt.Fprintf(out, "L %s\n", strings.Join(parts, " "))
		out.Flush()
	}
	cancel()
	A.conn.Disconnect()
	B.conn.Disconnect()
	C.conn.Disconnect()
}

// ------------------------------------------------------------------ feedback

func modeFeedback() {
	ctx, cancel := context.WithCancel(context.Background())
	defer cancel()
	n := singleNode(ctx)
	for f := 0; f < 256; f++ {
		fmt.Fprintf(out, "F %d %d\n", f, int(tmlibp2p.VerifExchangeFeedbackToLibp2p(n.conn, gexchange.Feedback(f))))
	}
	out.Flush()
	n.conn.Disconnect()
}

// ------------------------------------------------------------------- wrapper

func modeWrapper() {
	ctx, cancel := context.WithCancel(context.Background())
	defer cancel()
	n := singleNode(ctx)
	self := n.id
	_, pub, _ := crypto.GenerateEd25519Key(nil)
	other, _ := peer.IDFromPublicKey(pub)
	sc := bufio.NewScanner(os.Stdin)
	sc.Buffer(make([]byte, 1<<20), 1<<24)
	for sc.Scan() {
		f := strings.Fields(sc.Text())
		if len(f) == 0 {
			continue
		}
		switch f[0] {
		case "W": // W self hexpayload nil|a,b,c
			payload, err := hex.DecodeString(f[2])
			if err != nil {
				die("bad payload")
			}
			from := other
			if f[1] == "1" {
				from = self
			}
			var kh *kindHandler
			var h tmconsensus.ConsensusHandler // stays a nil interface for "nil"
			if f[3] != "nil" {
				t := parseTable(f[3])
				kh = &kindHandler{v: [3]uint8{t[0], t[1], t[2]}}
				h = kh
			}
			val := tmlibp2p.VerifConsensusMessageValidator(n.conn, h)
			msg := &pubsub.Message{Message: &pb.Message{Data: payload}, ReceivedFrom: from}
			res, panicked := callValidator(ctx, val, from, msg)
			calls := "-"
			if kh != nil && len(kh.calls) > 0 {
				calls = strings.Join(kh.calls, ",")
			}
			if panicked {
				fmt.Fprintf(out, "R P %s\n", calls)
			} else {
				fmt.Fprintf(out, "R %d %s\n", res, calls)
			}
		case "I": // I hexpayload
			payload, _ := hex.DecodeString(f[1])
			msg := &pubsub.Message{Message: &pb.Message{Data: payload}, ReceivedFrom: other}
			fmt.Fprintf(out, "R %d -\n", int(tmlibp2p.VerifIgnoreMessage(ctx, other, msg)))
		default:
			die("bad wrapper case %q", sc.Text())
		}
	}
	out.Flush()
	n.conn.Disconnect()
}

func callValidator(ctx context.Context, val pubsub.ValidatorEx, from peer.ID, msg *pubsub.Message) (res int, panicked bool) {
	defer func() {
		if r := recover(); r != nil {
			panicked = true
		}
	}()
	return int(val(ctx, from, msg)), false
}

// --------------------------------------------------------------------- daisy

// Case line: "<n> op op ..." with ops  S<node>:nil | S<node>:<table>  and  M<origin>:<kind 0|1|2>.
// Message ids are 0,1,2,... in order of appearance. End nodes (0 and n-1) carry accept-all handlers
// throughout; only inner nodes are swapped. After each message a sentinel of the same kind from the same
// origin is pushed through the same channels (FIFO) and awaited at both ends, so every step is quiescent.
func modeDaisy(t *testing.T) {
	sc := bufio.NewScanner(os.Stdin)
	sc.Buffer(make([]byte, 1<<20), 1<<24)
	for sc.Scan() {
		f := strings.Fields(sc.Text())
		if len(f) == 0 {
			continue
		}
		n, err := strconv.Atoi(f[0])
		if err != nil || n < 2 {
			die("bad daisy case %q", sc.Text())
		}
		runDaisyCase(t, n, f[1:])
	}
	out.Flush()
}

func runDaisyCase(t *testing.T, n int, ops []string) {
	ctx, cancel := context.WithCancel(context.Background())
	net := tmp2ptest.NewDaisyChainNetwork(t, ctx)
	defer net.Wait()
	defer cancel()
	conns := make([]*tmp2ptest.DaisyChainConnection, n)
	for i := range conns {
		c, err := net.Connect(ctx)
		if err != nil {
			die("daisy connect: %v", err)
		}
		conns[i] = c
	}
	acceptAll := make([]uint8, 4096)
	for i := range acceptAll {
		acceptAll[i] = uint8(gexchange.FeedbackAccepted)
	}
	// handlers[i] = every handler ever installed at node i (to collect what the node's handlers saw)
	handlers := make([][]*idHandler, n)
	ends := [2]*idHandler{
		{table: acceptAll, sentinel: make(chan uint64, 64)},
		{table: acceptAll, sentinel: make(chan uint64, 64)},
	}
	conns[0].SetConsensusHandler(ctx, ends[0])
	conns[n-1].SetConsensusHandler(ctx, ends[1])
	handlers[0] = append(handlers[0], ends[0])
	handlers[n-1] = append(handlers[n-1], ends[1])

	nextID := 0
	seq := uint64(0)
	var perMsg []string
	seenBy := func(id int) string {
		var who []string
		for i := 0; i < n; i++ {
			cnt := 0
			for _, h := range handlers[i] {
				h.mu.Lock()
				for _, x := range h.seen {
					if x == id {
						cnt++
					}
				}
				h.mu.Unlock()
			}
			for k := 0; k < cnt; k++ {
				who = append(who, strconv.Itoa(i))
			}
		}
		sort.Strings(who)
		if len(who) == 0 {
			return "-"
		}
		return strings.Join(who, ",")
	}
	send := func(origin, kind int, height uint64) {
		cb := conns[origin].ConsensusBroadcaster()
		switch kind {
		case 0:
			cb.OutgoingProposedHeaders() <- tmconsensus.ProposedHeader{Header: tmconsensus.Header{Height: height}}
		case 1:
			cb.OutgoingPrevoteProofs() <- tmconsensus.PrevoteSparseProof{Height: height}
		default:
			cb.OutgoingPrecommitProofs() <- tmconsensus.PrecommitSparseProof{Height: height}
		}
	}
	awaitSentinel := func(end int, want uint64) {
		for {
			select {
			case got := <-ends[end].sentinel:
				if got == want {
					return
				}
			case <-time.After(10 * time.Second):
				die("daisy: sentinel %d never reached end %d", want, end)
			}
		}
	}
	for _, op := range ops {
		switch op[0] {
		case 'S':
			p := strings.SplitN(op[1:], ":", 2)
			node, _ := strconv.Atoi(p[0])
			if node <= 0 || node >= n-1 {
				die("daisy: only inner nodes may be swapped (%q)", op)
			}
			if p[1] == "nil" {
				conns[node].SetConsensusHandler(ctx, nil)
			} else {
				h := &idHandler{table: parseTable(p[1])}
				handlers[node] = append(handlers[node], h)
				conns[node].SetConsensusHandler(ctx, h)
			}
		case 'M':
			p := strings.SplitN(op[1:], ":", 2)
			origin, _ := strconv.Atoi(p[0])
			kind, _ := strconv.Atoi(p[1])
			id := nextID
			nextID++
			send(origin, kind, uint64(id))
			seq++
			s := sentinelBase + seq
			send(origin, kind, s)
			if origin != 0 {
				awaitSentinel(0, s)
			}
			if origin != n-1 {
				awaitSentinel(1, s)
			}
			perMsg = append(perMsg, seenBy(id))
		default:
			die("daisy: bad op %q", op)
		}
	}
	fmt.Fprintf(out, "D %s\n", strings.Join(perMsg, " "))
}

func main() {
	if len(os.Args) < 2 {
		die("usage: h_c20 feedback|wrapper|daisy|libp2p")
	}
	mode := os.Args[1]
	os.Args = os.Args[:1]
	defer out.Flush()
	switch mode {
	case "feedback":
		modeFeedback()
	case "wrapper":
		modeWrapper()
	case "libp2p":
		modeLibp2p()
	case "daisy":
		// DaisyChainNetwork's constructor needs a *testing.T (for its logger only).
		testing.Main(func(pat, str string) (bool, error) { return true, nil },
			[]testing.InternalTest{{Name: "C20Daisy", F: func(t *testing.T) { modeDaisy(t); out.Flush() }}}, nil, nil)
	default:
		die("unknown mode %q", mode)
	}
}
